"""Shared Hypothesis strategies: boundary-biased lengths, byte strings, partitions, buffers."""
from hypothesis import strategies as st

# internal sizes the anchored code uses
BOUNDARIES = [8, 16, 24, 32, 48, 56, 64, 72, 104, 112, 120, 128, 136, 144, 168, 256, 512, 1024]


def boundary_lengths(extra=(), maxlen=4500):
    pts = set()
    for b in list(BOUNDARIES) + list(extra):
        for k in (1, 2, 3):
            for d in (-2, -1, 0, 1, 2):
                v = b * k + d
                if 0 <= v <= maxlen:
                    pts.add(v)
    return sorted(pts)


def lengths(maxlen=4500, extra=(), dense=70, big_weight=1):
    """Boundary-biased length strategy (by construction, no filtering)."""
    pts = [p for p in boundary_lengths(extra, maxlen)]
    parts = [st.integers(0, min(dense, maxlen)), st.integers(0, min(dense, maxlen)), st.sampled_from(pts),
             st.sampled_from(pts)]
    if maxlen > dense:
        parts.append(st.integers(0, min(maxlen, 600)))
        for _ in range(big_weight):
            parts.append(st.integers(0, maxlen))
    return st.one_of(*parts)


@st.composite
def data_of(draw, length_strategy):
    """Bytes of a drawn length. Content from a seed so that huge buffers stay cheap to shrink."""
    n = draw(length_strategy)
    if n <= 48:
        return draw(st.binary(min_size=n, max_size=n))
    seed = draw(st.binary(min_size=8, max_size=8))
    return expand(seed, n)


def expand(seed, n):
    import hashlib
    return hashlib.shake_128(b"pcdverif" + bytes(seed)).digest(n) if n else b""


def blob(maxlen=4500, extra=(), dense=70):
    return data_of(lengths(maxlen, extra, dense))


def fixed_bytes(n):
    return st.binary(min_size=n, max_size=n)


@st.composite
def partition(draw, total, block=16, max_cuts=6):
    """A list of segment lengths summing to `total`, biased to cuts at k*block-1,k*block,k*block+1,
    empty segments and one-byte segments."""
    if total == 0:
        return draw(st.sampled_from([[0], [0, 0], [], [0, 0, 0]]))
    ncuts = draw(st.integers(0, max_cuts))
    cand = set()
    for k in range(0, total // block + 2):
        for d in (-1, 0, 1):
            v = k * block + d
            if 0 <= v <= total:
                cand.add(v)
    cand = sorted(cand)
    cuts = []
    for _ in range(ncuts):
        cuts.append(draw(st.one_of(st.sampled_from(cand), st.integers(0, total), st.integers(0, min(total, 3)))))
    cuts = sorted(cuts)
    segs, prev = [], 0
    for c in cuts:
        segs.append(c - prev)
        prev = c
    segs.append(total - prev)
    return segs


def split_by(data, segs):
    out, p = [], 0
    for n in segs:
        out.append(data[p:p + n])
        p += n
    if p < len(data):
        out.append(data[p:])
    return out


BUFKINDS = ["bytes", "bytearray", "mv_ro", "mv_rw_off"]


def as_buffer(data, kind, offset=3):
    """Deliver `data` in the requested buffer type."""
    if kind == "bytes":
        return bytes(data)
    if kind == "bytearray":
        return bytearray(data)
    if kind == "mv_ro":
        return memoryview(bytes(data))
    if kind == "mv_rw_off":
        ba = bytearray(offset) + bytearray(data) + bytearray(5)
        return memoryview(ba)[offset:offset + len(data)]
    raise ValueError(kind)


def length_class(n, block=16):
    if n == 0:
        return "0"
    if n < block:
        return "<b"
    if n % block == 0:
        k = n // block
        return "%db" % k if k <= 9 else "kb"
    k = n // block
    r = n % block
    edge = "+1" if r == 1 else "-1" if r == block - 1 else "+r"
    return ("%db%s" % (k, edge)) if k <= 9 else "kb" + edge
