"""Child process of a 'fuzz' check: one atheris (libFuzzer) campaign over `check.decode` + `check.run`.

The semantic oracle runs inside the fuzz target.  The process never returns through libFuzzer's own
exit path for a finding: the first unknown Violation is written to --out and the process exits 77;
after --runs executions the recorder is written and the process exits 0.  libFuzzer's log (coverage,
corpus size) goes to stderr, which the parent keeps."""
import argparse
import importlib
import json
import os
import sys
import time


def main():
    ap = argparse.ArgumentParser()
    ap.add_argument("--prop", required=True)
    ap.add_argument("--check", required=True)
    ap.add_argument("--runs", type=int, required=True)
    ap.add_argument("--seed", type=int, required=True)
    ap.add_argument("--corpus", required=True)
    ap.add_argument("--out", required=True)
    a = ap.parse_args()
    try:
        sys.set_int_max_str_digits(0)
    except AttributeError:
        pass
    os.environ["PCDVERIF_FUZZCHILD"] = "1"
    import atheris
    from .core import Violation, HarnessError, Skip, Recorder, enc, norm, load_known, known_match, in_library, where
    mod = importlib.import_module("pcdverif.props." + a.prop.lower())
    chk = {c.name: c for c in mod.CHECKS}[a.check]
    # instrument the library under test (pure-Python part); the harness and the references are not instrumented
    with atheris.instrument_imports(include=list(chk.fuzz_modules), enable_loader_override=False):
        for m in getattr(mod, "FUZZ_IMPORTS", ()):
            importlib.import_module(m)
    rec = Recorder()
    known = load_known()
    state = {"n": 0, "t0": time.time()}

    def finish(status, extra=None):
        res = {"status": status, "rec": rec.dump(), "execs": state["n"], "wall_s": time.time() - state["t0"]}
        res.update(extra or {})
        tmp = a.out + ".tmp"
        with open(tmp, "w") as f:
            json.dump(res, f)
        os.replace(tmp, a.out)
        sys.stdout.flush()
        sys.stderr.flush()
        os._exit({"ok": 0, "violation": 77, "harness_error": 78}[status])

    def one(data):
        state["n"] += 1
        try:
            case = chk.decode(bytes(data))
            if case is not None:
                case = norm(case)
                rec.evaluations += 1
                try:
                    chk.run(case, rec)
                except Skip:
                    rec.skipped += 1
                except Violation as v:
                    if known_match(known, a.prop, a.check, v.bucket) is not None:
                        rec.known(v.bucket)
                    else:
                        finish("violation", {"violation": {"bucket": v.bucket, "message": v.message, "case": enc(case)}, "raw": bytes(data).hex()})
                except HarnessError as e:
                    finish("harness_error", {"error": str(e), "raw": bytes(data).hex()})
                except RecursionError:
                    raise
                except Exception as e:
                    if in_library(e):
                        finish("violation", {"violation": {"bucket": "exception/%s@%s" % (type(e).__name__, where(e)),
                                                           "message": "unexpected %s from library: %s" % (type(e).__name__, str(e)[:300]),
                                                           "case": enc(case)}, "raw": bytes(data).hex()})
                    import traceback
                    finish("harness_error", {"error": "check code raised %s: %s\n%s" % (type(e).__name__, e, traceback.format_exc()[-3000:]),
                                             "raw": bytes(data).hex()})
        finally:
            pass
        if state["n"] >= a.runs:
            finish("ok")

    argv = [sys.argv[0], "-seed=%d" % (a.seed % (2 ** 31 - 1) + 1), "-max_len=%d" % chk.max_len, "-timeout=120", "-rss_limit_mb=6000",
            "-print_final_stats=1", "-artifact_prefix=%s/" % os.path.dirname(a.out), "-verbosity=1", a.corpus]
    mk = getattr(mod, "fuzz_mutator", None)
    # (atheris.Mutate is re-bound when Fuzz() starts: look it up at call time)
    mut = mk(a.check, lambda d, n: atheris.Mutate(d, n)) if mk else None
    if mut is not None:
        atheris.Setup(argv, one, custom_mutator=mut)
    else:
        atheris.Setup(argv, one)
    atheris.Fuzz()
    finish("ok")


if __name__ == "__main__":
    main()
