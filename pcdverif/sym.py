"""Symmetric cipher specs: one JSON-able description -> library object and reference result.

spec keys
  kind   : "block" | "aead" | "stream" | "kw"
  cipher : AES DES DES3 Blowfish CAST ARC2 | ChaCha20 Salsa20 ARC4 | ChaCha20_Poly1305
  mode   : ECB CBC CFB OFB CTR OPENPGP | GCM CCM EAX SIV OCB | KW KWP
  key, iv, nonce, segment_size (bits), ctr {...}, mac_len, msg_len, assoc_len, ek (ARC2 effective_keylen), drop (ARC4)
"""
import importlib

from hypothesis import strategies as st

from . import oracles, gen
from .core import HarnessError, Skip
from .refs import modes, stream, libcrypto as lc

BLOCK_CIPHERS = ["AES", "DES", "DES3", "Blowfish", "CAST", "ARC2"]
BLOCK_MODES = ["ECB", "CBC", "CFB", "OFB", "CTR", "OPENPGP"]
AEAD_AES = ["GCM", "CCM", "EAX", "SIV", "OCB"]


def factory(name):
    return importlib.import_module("Crypto.Cipher." + name)


# ------------------------------------------------------------------ key material
def des3_ok(key):
    """3DES key the library accepts: K1 != K2 and K2 != K3 after parity normalisation."""
    def norm(k):
        return bytes(b & 0xFE for b in k)
    k1, k2 = norm(key[:8]), norm(key[8:16])
    k3 = norm(key[16:24]) if len(key) == 24 else k1
    return k1 != k2 and k2 != k3


@st.composite
def key_for(draw, cipher):
    if cipher == "DES3":
        n = draw(st.sampled_from([16, 24]))
        k = draw(st.binary(min_size=n, max_size=n))
        if not des3_ok(k):
            k = bytes(range(1, n + 1))
            k = bytes((b * 2 + 16 * (i // 8)) & 0xFF for i, b in enumerate(k))
        return k
    if cipher in oracles.KEYLENS:
        lens = oracles.KEYLENS[cipher]
        n = draw(st.one_of(st.sampled_from(lens), st.sampled_from([lens[0], lens[-1]])))
        return draw(st.binary(min_size=n, max_size=n))
    if cipher in ("ChaCha20", "ChaCha20_Poly1305"):
        return draw(st.binary(min_size=32, max_size=32))
    if cipher == "Salsa20":
        n = draw(st.sampled_from([16, 32]))
        return draw(st.binary(min_size=n, max_size=n))
    if cipher == "ARC4":
        n = draw(st.one_of(st.integers(1, 256), st.sampled_from([1, 5, 16, 40, 256])))
        return draw(gen.data_of(st.just(n)))
    raise ValueError(cipher)


# ------------------------------------------------------------------ spec strategies
@st.composite
def ctr_layout(draw, bs):
    """Counter layout for CTR mode, both constructor forms."""
    form = draw(st.sampled_from(["nonce", "nonce", "counter"]))
    if form == "nonce":
        nlen = draw(st.integers(0, bs - 1))
        clen = bs - nlen
        init = draw(st.one_of(st.just(0), st.integers(0, 5), st.integers(0, (1 << (8 * clen)) - 1),
                              st.integers(max(0, (1 << (8 * clen)) - 300), (1 << (8 * clen)) - 1)))
        return {"form": "nonce", "nonce": draw(st.binary(min_size=nlen, max_size=nlen)), "initial": init,
                "initial_as_bytes": draw(st.booleans()), "clen": clen}
    clen = draw(st.integers(1, bs))
    plen = draw(st.integers(0, bs - clen))
    slen = bs - clen - plen
    init = draw(st.one_of(st.just(1), st.integers(0, 5), st.integers(0, (1 << (8 * clen)) - 1),
                          st.integers(max(0, (1 << (8 * clen)) - 300), (1 << (8 * clen)) - 1)))
    return {"form": "counter", "prefix": draw(st.binary(min_size=plen, max_size=plen)),
            "suffix": draw(st.binary(min_size=slen, max_size=slen)), "clen": clen, "initial": init,
            "little": draw(st.booleans())}


@st.composite
def block_spec(draw, ciphers=BLOCK_CIPHERS, modes_=BLOCK_MODES):
    cipher = draw(st.sampled_from(ciphers))
    mode = draw(st.sampled_from(modes_))
    bs = oracles.BLOCK[cipher]
    s = {"kind": "block", "cipher": cipher, "mode": mode, "key": draw(key_for(cipher))}
    if cipher == "ARC2":
        s["ek"] = draw(st.one_of(st.just(1024), st.integers(40, 1024), st.sampled_from([40, 64, 128, 1023, 1024])))
    if mode in ("CBC", "CFB", "OFB", "OPENPGP"):
        s["iv"] = draw(st.binary(min_size=bs, max_size=bs))
    if mode == "CFB":
        s["segment_size"] = 8 * draw(st.one_of(st.integers(1, bs), st.sampled_from([1, bs])))
    if mode == "CTR":
        s["ctr"] = draw(ctr_layout(bs))
    return s


@st.composite
def aead_spec(draw, modes_=("GCM", "CCM", "EAX", "SIV", "OCB", "ChaCha20_Poly1305")):
    mode = draw(st.sampled_from(list(modes_)))
    if mode == "ChaCha20_Poly1305":
        nl = draw(st.sampled_from([8, 12, 12, 24]))
        return {"kind": "aead", "cipher": "ChaCha20_Poly1305", "mode": mode, "key": draw(st.binary(min_size=32, max_size=32)),
                "nonce": draw(st.binary(min_size=nl, max_size=nl)), "mac_len": 16}
    cipher = "AES"
    if mode == "EAX":
        cipher = draw(st.sampled_from(["AES", "AES", "DES3", "Blowfish", "CAST", "ARC2", "DES"]))
    bs = oracles.BLOCK[cipher]
    s = {"kind": "aead", "cipher": cipher, "mode": mode}
    if mode == "SIV":
        kl = draw(st.sampled_from([32, 48, 64]))
        s["key"] = draw(st.binary(min_size=kl, max_size=kl))
        s["nonce"] = draw(st.one_of(st.none(), gen.data_of(st.one_of(st.integers(1, 40), st.sampled_from([1, 12, 16, 17])))))
        s["mac_len"] = 16
        return s
    s["key"] = draw(key_for(cipher))
    if cipher == "ARC2":
        s["ek"] = draw(st.one_of(st.sampled_from([1024, 40, 128, 777]), st.integers(40, 1024)))
    if mode == "GCM":
        nl = draw(st.one_of(st.just(12), st.sampled_from([1, 11, 12, 13, 15, 16, 17, 32, 64]), st.integers(1, 64), st.sampled_from([127, 128, 129, 255, 256, 1000])))
        s["nonce"] = draw(gen.data_of(st.just(nl)))
        s["mac_len"] = draw(st.one_of(st.just(16), st.integers(4, 16)))
    elif mode == "CCM":
        nl = draw(st.integers(7, 13))
        s["nonce"] = draw(st.binary(min_size=nl, max_size=nl))
        s["mac_len"] = draw(st.sampled_from([4, 6, 8, 10, 12, 14, 16, 16]))
        s["declare_msg"] = draw(st.booleans())
        s["declare_assoc"] = draw(st.booleans())
    elif mode == "EAX":
        nl = draw(st.one_of(st.integers(1, 40), st.sampled_from([1, bs - 1, bs, bs + 1, 2 * bs])))
        s["nonce"] = draw(gen.data_of(st.just(nl)))
        s["mac_len"] = draw(st.one_of(st.just(bs), st.integers(2, bs)))
    elif mode == "OCB":
        nl = draw(st.one_of(st.just(15), st.just(12), st.integers(1, 15)))
        s["nonce"] = draw(st.binary(min_size=nl, max_size=nl))
        s["mac_len"] = draw(st.one_of(st.just(16), st.integers(8, 16)))
    return s


@st.composite
def stream_spec(draw, ciphers=("ChaCha20", "Salsa20", "ARC4")):
    cipher = draw(st.sampled_from(list(ciphers)))
    s = {"kind": "stream", "cipher": cipher, "key": draw(key_for(cipher))}
    if cipher == "ChaCha20":
        nl = draw(st.sampled_from([8, 12, 24]))
        s["nonce"] = draw(st.binary(min_size=nl, max_size=nl))
    elif cipher == "Salsa20":
        s["nonce"] = draw(st.binary(min_size=8, max_size=8))
    else:
        s["drop"] = draw(st.sampled_from([0, 0, 1, 256, 768, 3072]))
    return s


# ------------------------------------------------------------------ library object
def lib_new(spec, **override):
    """Create the library cipher object for a spec (override: extra constructor keywords)."""
    kind, cipher, mode = spec["kind"], spec["cipher"], spec.get("mode")
    key = spec["key"]
    if kind == "stream":
        f = factory(cipher)
        if cipher == "ARC4":
            kw = {"drop": spec["drop"]} if spec.get("drop") else {}
            kw.update(override)
            return f.new(key, **kw)
        kw = {"key": key, "nonce": spec["nonce"]}
        kw.update(override)
        return f.new(**kw)
    if cipher == "ChaCha20_Poly1305":
        kw = {"key": key, "nonce": spec["nonce"]}
        kw.update(override)
        return factory(cipher).new(**kw)
    f = factory(cipher)
    kw = {}
    if cipher == "ARC2" and "ek" in spec:
        kw["effective_keylen"] = spec["ek"]
    m = getattr(f, "MODE_" + mode)
    if mode in ("CBC", "CFB", "OFB", "OPENPGP"):
        kw["iv"] = spec["iv"]
    if mode == "CFB":
        kw["segment_size"] = spec["segment_size"]
    if mode == "CTR":
        c = spec["ctr"]
        if c["form"] == "nonce":
            kw["nonce"] = c["nonce"]
            kw["initial_value"] = c["initial"].to_bytes(c["clen"], "big") if c["initial_as_bytes"] else c["initial"]
        else:
            from Crypto.Util import Counter
            kw["counter"] = Counter.new(8 * c["clen"], prefix=c["prefix"], suffix=c["suffix"], initial_value=c["initial"],
                                        little_endian=c["little"])
    if kind == "aead":
        if mode == "SIV":
            if spec["nonce"] is not None:
                kw["nonce"] = spec["nonce"]
        else:
            kw["nonce"] = spec["nonce"]
            kw["mac_len"] = spec["mac_len"]
        if mode == "CCM":
            if spec.get("msg_len") is not None:
                kw["msg_len"] = spec["msg_len"]
            if spec.get("assoc_len") is not None:
                kw["assoc_len"] = spec["assoc_len"]
    kw.update(override)
    return f.new(key, m, **kw)


# ------------------------------------------------------------------ reference
def ref_bc(spec):
    return oracles.bc(spec["cipher"], spec["key"], effective_keylen=spec.get("ek", 1024 if spec["cipher"] == "ARC2" else None))


def ctr_blocks(spec):
    c = spec["ctr"]
    if c["form"] == "nonce":
        return modes.ctr_layout(c["nonce"], b"", c["clen"], c["initial"], False)
    return modes.ctr_layout(c["prefix"], c["suffix"], c["clen"], c["initial"], c["little"])


def ref_encrypt(spec, pt, aad=()):
    """Reference ciphertext (and tag) for the spec. aad: list of components (joined except for SIV)."""
    kind, cipher, mode = spec["kind"], spec["cipher"], spec.get("mode")
    pt = bytes(pt)
    if kind == "stream":
        if cipher == "ChaCha20":
            return stream.chacha20_xor(spec["key"], spec["nonce"], pt), None
        if cipher == "Salsa20":
            return stream.salsa20_xor(spec["key"], spec["nonce"], pt), None
        return stream.rc4_xor(spec["key"], pt, drop=spec.get("drop", 0)), None
    if cipher == "ChaCha20_Poly1305":
        return stream.chacha20_poly1305_encrypt(spec["key"], spec["nonce"], b"".join(aad), pt)
    if mode == "SIV":
        comps = [bytes(a) for a in aad]
        if spec["nonce"] is not None:
            comps.append(spec["nonce"])
        return modes.siv_encrypt(spec["key"], comps, pt)
    c = ref_bc(spec)
    if mode == "ECB":
        return modes.ecb_encrypt(c, pt), None
    if mode == "CBC":
        return modes.cbc_encrypt(c, spec["iv"], pt), None
    if mode == "CFB":
        return modes.cfb_encrypt(c, spec["iv"], pt, spec["segment_size"] // 8), None
    if mode == "OFB":
        return modes.ofb(c, spec["iv"], pt), None
    if mode == "CTR":
        return modes.ctr(c, ctr_blocks(spec), pt), None
    if mode == "OPENPGP":
        return modes.openpgp_encrypt(c, spec["iv"], pt), None
    a = b"".join(bytes(x) for x in aad)
    if mode == "GCM":
        ct, tag = modes.gcm_encrypt(c, spec["nonce"], a, pt)
        return ct, tag[:spec["mac_len"]]
    if mode == "CCM":
        return modes.ccm_encrypt(c, spec["nonce"], a, pt, spec["mac_len"])
    if mode == "EAX":
        return modes.eax_encrypt(c, spec["nonce"], a, pt, spec["mac_len"])
    if mode == "OCB":
        return modes.ocb_encrypt(c, spec["nonce"], a, pt, spec["mac_len"])
    if mode == "KW":
        return modes.kw_wrap(c, pt), None
    if mode == "KWP":
        return modes.kwp_wrap(c, pt), None
    raise HarnessError("no reference for %s/%s" % (cipher, mode))


def ref_tag(spec, ct, aad=()):
    """The tag the specification defines for (key, nonce, aad, ct) at mac_len — computed by re-encrypting the
    reference decryption (all modes here are length preserving and invertible without the tag)."""
    pt = ref_decrypt_noauth(spec, ct, aad)
    ct2, tag = ref_encrypt(spec, pt, aad)
    if ct2 != bytes(ct):
        raise HarnessError("reference encrypt/decrypt not inverse")
    return tag, pt


def ref_decrypt_noauth(spec, ct, aad=()):
    kind, cipher, mode = spec["kind"], spec["cipher"], spec.get("mode")
    ct = bytes(ct)
    if kind == "stream":
        return ref_encrypt(spec, ct)[0]
    if cipher == "ChaCha20_Poly1305":
        key, nonce = spec["key"], spec["nonce"]
        if len(nonce) == 24:
            key = stream.hchacha20(key, nonce[:16])
            nonce = bytes(4) + nonce[16:]
        return stream.chacha20_xor(key, nonce, ct, start_block=1)
    c = ref_bc(spec)
    if mode == "ECB":
        return modes.ecb_decrypt(c, ct)
    if mode == "CBC":
        return modes.cbc_decrypt(c, spec["iv"], ct)
    if mode == "CFB":
        return modes.cfb_decrypt(c, spec["iv"], ct, spec["segment_size"] // 8)
    if mode == "OFB":
        return modes.ofb(c, spec["iv"], ct)
    if mode == "CTR":
        return modes.ctr(c, ctr_blocks(spec), ct)
    if mode == "OPENPGP":
        return modes.openpgp_decrypt(c, ct)[1]
    a = b"".join(bytes(x) for x in aad)
    # AEADs: trial decryption through the reference with the reference's own tag is circular; use the CTR cores
    if mode == "GCM":
        # plaintext does not depend on the tag: decrypt by encrypting (CTR) with same parameters
        pt, _ = modes.gcm_encrypt(c, spec["nonce"], a, ct)
        return pt
    if mode == "CCM":
        pt, _ = modes.ccm_encrypt(c, spec["nonce"], a, ct, spec["mac_len"])
        return pt
    if mode == "EAX":
        pt, _ = modes.eax_encrypt(c, spec["nonce"], a, ct, spec["mac_len"])
        return pt
    raise HarnessError("no tag-free decryption for %s" % mode)


def ref_decrypt(spec, ct, aad, tag):
    """Reference verdict: plaintext or None (reject)."""
    kind, cipher, mode = spec["kind"], spec["cipher"], spec.get("mode")
    ct, tag = bytes(ct), bytes(tag) if tag is not None else None
    if cipher == "ChaCha20_Poly1305":
        if len(tag) != 16:
            return None
        return stream.chacha20_poly1305_decrypt(spec["key"], spec["nonce"], b"".join(aad), ct, tag)
    if mode == "SIV":
        comps = [bytes(a) for a in aad]
        if spec["nonce"] is not None:
            comps.append(spec["nonce"])
        if len(tag) != 16:
            return None
        return modes.siv_decrypt(spec["key"], comps, ct, tag)
    c = ref_bc(spec)
    a = b"".join(bytes(x) for x in aad)
    if len(tag) != spec["mac_len"]:
        return None
    if mode == "GCM":
        return modes.gcm_decrypt(c, spec["nonce"], a, ct, tag)
    if mode == "CCM":
        return modes.ccm_decrypt(c, spec["nonce"], a, ct, tag, spec["mac_len"])
    if mode == "EAX":
        return modes.eax_decrypt(c, spec["nonce"], a, ct, tag, spec["mac_len"])
    if mode == "OCB":
        return modes.ocb_decrypt(c, spec["nonce"], a, ct, tag, spec["mac_len"])
    raise HarnessError("no reference decrypt for %s" % mode)


# ------------------------------------------------------------------ libcrypto second opinion
def lc_aead_encrypt(spec, pt, aad):
    """Whole-mode result from libcrypto where it supports the parameters, else None."""
    mode, cipher = spec.get("mode"), spec["cipher"]
    a = b"".join(bytes(x) for x in aad)
    try:
        if cipher == "ChaCha20_Poly1305":
            if len(spec["nonce"]) != 12:
                return None
            return lc.aead_encrypt("chacha20-poly1305", spec["key"], spec["nonce"], a, bytes(pt), 16)
        if cipher != "AES":
            return None
        bits = len(spec["key"]) * 8
        if mode == "GCM":
            return lc.aead_encrypt("aes-%d-gcm" % bits, spec["key"], spec["nonce"], a, bytes(pt), spec["mac_len"])
        if mode == "CCM":
            return lc.aead_encrypt("aes-%d-ccm" % bits, spec["key"], spec["nonce"], a, bytes(pt), spec["mac_len"])
        if mode == "OCB":
            return lc.aead_encrypt("aes-%d-ocb" % bits, spec["key"], spec["nonce"], a, bytes(pt), spec["mac_len"])
        if mode == "SIV" and len(pt) > 0:
            comps = [bytes(x) for x in aad] + ([spec["nonce"]] if spec["nonce"] is not None else [])
            return lc.siv_encrypt(spec["key"], comps, bytes(pt))
    except lc.LibCryptoError:
        return None
    return None


def spec_label(spec):
    return "%s/%s" % (spec["cipher"], spec.get("mode", "stream"))
