"""Independent reference implementations of MD2 (RFC 1319) and MD4 (RFC 1320).

Written from the RFC texts; only the standard library is used and the library
under test is deliberately NOT imported -- this module is a test oracle.

The MD2 "PI_SUBST" permutation is not typed in: it is derived from the decimal
digits of pi (computed here with Machin's formula in integer arithmetic) by the
Durstenfeld shuffle that the MD2 designers used.
"""

import struct

__all__ = ["pi_digits", "md2_sbox", "md2", "md4", "selftest"]


# ---------------------------------------------------------------------------
# MD2
# ---------------------------------------------------------------------------

def _arctan_inv(x, one):
    """one * arctan(1/x) by the Gregory series, integer arithmetic."""
    x2 = x * x
    term = one // x
    total = term
    n = 1
    sign = 1
    while term:
        term //= x2
        n += 2
        sign = -sign
        total += sign * (term // n)
    return total


def pi_digits(n):
    """First n decimal digits of pi (3, 1, 4, 1, 5, 9, ...) as a list of ints.
    Machin: pi = 16 arctan(1/5) - 4 arctan(1/239), with 20 guard digits."""
    guard = 20
    one = 10 ** (n - 1 + guard)
    pi = 16 * _arctan_inv(5, one) - 4 * _arctan_inv(239, one)
    s = str(pi // 10 ** guard)
    assert len(s) == n
    return [int(ch) for ch in s]


def md2_sbox():
    """The 256-byte substitution table of RFC 1319 ("a 'random' permutation
    constructed from the digits of pi").

    Construction: S = identity; for i = 2..256: j = rand(i); swap S[j], S[i-1],
    where rand(n) draws as many decimal digits of pi as n has digits
    (1 digit for n <= 10, 2 for n <= 100, 3 otherwise), forming x in [0, y)
    with y = 10/100/1000, rejects x >= n * floor(y / n) (to avoid modulo bias)
    and otherwise returns x mod n.
    """
    digits = iter(pi_digits(1000))

    def rand(n):
        while True:
            x = next(digits)
            y = 10
            if n > 10:
                x = x * 10 + next(digits)
                y = 100
            if n > 100:
                x = x * 10 + next(digits)
                y = 1000
            if x < n * (y // n):
                return x % n

    S = list(range(256))
    for i in range(2, 257):
        j = rand(i)
        S[j], S[i - 1] = S[i - 1], S[j]
    return bytes(S)


_S = md2_sbox()


def md2(msg):
    """MD2 message digest (RFC 1319), 16 bytes."""
    S = _S
    m = bytearray(msg)
    # 3.1 padding: i bytes of value i, 1 <= i <= 16
    pad = 16 - len(m) % 16
    m += bytes([pad]) * pad
    # 3.2 checksum (as in the reference code md2c.c / RFC erratum 555:
    # C[j] is XORed with S[c xor L], not overwritten)
    C = [0] * 16
    L = 0
    for i in range(0, len(m), 16):
        for j in range(16):
            c = m[i + j]
            C[j] ^= S[c ^ L]
            L = C[j]
    m += bytes(C)
    # 3.3 / 3.4 process 16-byte blocks with a 48-byte buffer
    X = [0] * 48
    for i in range(0, len(m), 16):
        for j in range(16):
            X[16 + j] = m[i + j]
            X[32 + j] = X[16 + j] ^ X[j]
        t = 0
        for j in range(18):
            for k in range(48):
                t = X[k] = X[k] ^ S[t]
            t = (t + j) % 256
    return bytes(X[:16])


# ---------------------------------------------------------------------------
# MD4
# ---------------------------------------------------------------------------

_M32 = 0xFFFFFFFF


def _rol(x, s):
    return ((x << s) | (x >> (32 - s))) & _M32


def md4(msg):
    """MD4 message digest (RFC 1320), 16 bytes."""
    m = bytes(msg)
    bitlen = (8 * len(m)) & 0xFFFFFFFFFFFFFFFF
    # 3.1 / 3.2: a single 1 bit, zeros up to 448 mod 512, 64-bit length (low word first)
    m += b"\x80"
    m += bytes((56 - len(m) % 64) % 64)
    m += struct.pack("<Q", bitlen)

    A, B, C, D = 0x67452301, 0xEFCDAB89, 0x98BADCFE, 0x10325476

    for off in range(0, len(m), 64):
        X = struct.unpack_from("<16I", m, off)
        AA, BB, CC, DD = A, B, C, D

        # Round 1: a = (a + F(b,c,d) + X[k]) <<< s,  F = (b & c) | (~b & d)
        for k in range(16):
            s = (3, 7, 11, 19)[k % 4]
            f = (B & C) | (~B & D)
            A, B, C, D = D, _rol((A + f + X[k]) & _M32, s), B, C

        # Round 2: a = (a + G(b,c,d) + X[k] + 5A827999) <<< s,  G = majority
        for i in range(16):
            k = (i % 4) * 4 + i // 4            # 0 4 8 12 1 5 9 13 ...
            s = (3, 5, 9, 13)[i % 4]
            g = (B & C) | (B & D) | (C & D)
            A, B, C, D = D, _rol((A + g + X[k] + 0x5A827999) & _M32, s), B, C

        # Round 3: a = (a + H(b,c,d) + X[k] + 6ED9EBA1) <<< s,  H = b ^ c ^ d
        order3 = (0, 8, 4, 12, 2, 10, 6, 14, 1, 9, 5, 13, 3, 11, 7, 15)
        for i in range(16):
            k = order3[i]
            s = (3, 9, 11, 15)[i % 4]
            h = B ^ C ^ D
            A, B, C, D = D, _rol((A + h + X[k] + 0x6ED9EBA1) & _M32, s), B, C

        A = (A + AA) & _M32
        B = (B + BB) & _M32
        C = (C + CC) & _M32
        D = (D + DD) & _M32

    return struct.pack("<4I", A, B, C, D)


# ---------------------------------------------------------------------------
# Self test
# ---------------------------------------------------------------------------

_ALNUM = b"ABCDEFGHIJKLMNOPQRSTUVWXYZabcdefghijklmnopqrstuvwxyz0123456789"
_DIGITS80 = b"1234567890" * 8

# RFC 1319 appendix A.5
_MD2_RFC = [
    (b"", "8350e5a3e24c153df2275c9f80692773"),
    (b"a", "32ec01ec4a6dac72c0ab96fb34c0b5d1"),
    (b"abc", "da853b0d3f88d99b30283a69e6ded6bb"),
    (b"message digest", "ab4f496bfb2a530b219ff33031fe06b0"),
    (b"abcdefghijklmnopqrstuvwxyz", "4e8ddff3650292ab5a4108c3aa47940b"),
    (_ALNUM, "da33def2a42df13975352846c30338cd"),
    (_DIGITS80, "d5976f79d83d3a0dc9806c3c66f3efd8"),
]

# RFC 1320 appendix A.5
_MD4_RFC = [
    (b"", "31d6cfe0d16ae931b73c59d7e0c089c0"),
    (b"a", "bde52cb31de33e46245e05fbdbd6fb24"),
    (b"abc", "a448017aaf21d8525fc10ae87aa6729d"),
    (b"message digest", "d9130a8164549fe818874806e1c7014b"),
    (b"abcdefghijklmnopqrstuvwxyz", "d79e1c308aa5bbcdeea8ed63df412da9"),
    (_ALNUM, "043f8582f241db351ce627e153e7f0e4"),
    (_DIGITS80, "e33b4ddc9c38f2199c3e7b164fcc0536"),
]


def _openssl(args, data):
    import subprocess
    try:
        p = subprocess.run(["openssl"] + args, input=data, capture_output=True, timeout=60)
    except (OSError, subprocess.SubprocessError):
        return None
    if p.returncode != 0:
        return None
    return p.stdout


def selftest(use_openssl=True):
    """Validate this module.  Raises AssertionError on any mismatch and returns
    a dict {group: number of comparisons that passed}."""
    import random

    counts = {}

    def check(group, what, got, exp):
        if got != exp:
            raise AssertionError("%s / %s: got %s expected %s" % (group, what, got.hex(), exp.hex()))
        counts[group] = counts.get(group, 0) + 1

    # -- pi and the derived S-box
    d = pi_digits(1000)
    # 3.14159265358979323846..., and the well-known "Feynman point" 999999 at decimals 762..767
    assert d[:21] == [3, 1, 4, 1, 5, 9, 2, 6, 5, 3, 5, 8, 9, 7, 9, 3, 2, 3, 8, 4, 6], "pi digits"
    assert d[762:768] == [9] * 6 and d[761] == 4 and d[768] == 8, "pi digits (Feynman point)"
    assert d == pi_digits(1100)[:1000], "pi digits unstable w.r.t. precision"
    assert sorted(_S) == list(range(256)), "S-box is not a permutation"
    # the first and last table entries as printed in RFC 1319 (PI_SUBST): 41, 46, 67, 201 ... 131, 20
    assert list(_S[:4]) == [41, 46, 67, 201] and list(_S[-2:]) == [131, 20], "S-box endpoints"
    counts["md2_sbox"] = 5

    # -- RFC test suites
    for m, h in _MD2_RFC:
        check("rfc1319_md2", repr(m), md2(m), bytes.fromhex(h))
    for m, h in _MD4_RFC:
        check("rfc1320_md4", repr(m), md4(m), bytes.fromhex(h))

    # -- accepts bytes-like inputs
    check("bytes_like", "md2", md2(bytearray(b"abc")), md2(b"abc"))
    check("bytes_like", "md4", md4(memoryview(b"abc")), md4(b"abc"))

    # -- system OpenSSL (legacy provider) for MD4 on random inputs incl. block boundaries
    if use_openssl:
        args = ["dgst", "-md4", "-binary", "-provider", "legacy", "-provider", "default"]
        probe = _openssl(args, b"abc")
        if probe is not None and probe == bytes.fromhex("a448017aaf21d8525fc10ae87aa6729d"):
            rnd = random.Random(0x4D44)
            lens = [0, 1, 54, 55, 56, 57, 63, 64, 65, 119, 120, 121, 127, 128, 129, 1000, 4096, 65537]
            lens += [rnd.randrange(0, 3000) for _ in range(30)]
            for n in lens:
                m = rnd.randbytes(n)
                o = _openssl(args, m)
                if o is None:
                    raise AssertionError("openssl dgst -md4 failed")
                check("openssl_md4", "len=%d" % n, md4(m), o)
    return counts


if __name__ == "__main__":
    import time
    t0 = time.time()
    res = selftest()
    for k in sorted(res):
        print("%-16s %5d ok" % (k, res[k]))
    print("oldhash refs selftest OK: %d checks in %.1f s" % (sum(res.values()), time.time() - t0))
