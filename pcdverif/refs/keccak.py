"""Independent reference implementation of the Keccak family (test oracle).

Written from the specification texts only:

* FIPS 202            -- KECCAK-p[1600, nr], sponge, pad10*1, SHA-3, SHAKE
* Keccak submission   -- "legacy" Keccak (multi-rate padding without domain bits)
* NIST SP 800-185     -- left_encode/right_encode/encode_string/bytepad,
                         cSHAKE, KMAC (+ KMACXOF), TupleHash (+ TupleHashXOF)
* RFC 9861            -- TurboSHAKE128/256, KangarooTwelve (KT128), KT256

Only the standard library is used.  This module deliberately does NOT import
the library under test; it is meant to be an independent oracle.

All lengths are in BYTES unless a parameter is explicitly called ``bits``.
"""

import struct

__all__ = [
    "keccak_p1600", "sponge", "sha3", "keccak_legacy", "shake",
    "left_encode", "right_encode", "encode_string", "bytepad",
    "cshake", "kmac", "tuplehash", "turboshake", "length_encode",
    "k12", "kt128", "kt256", "ptn", "selftest",
]

_MASK64 = (1 << 64) - 1


# ---------------------------------------------------------------------------
# Constants, derived with the algorithms of FIPS 202 (nothing is typed in)
# ---------------------------------------------------------------------------

def _rc_bit(t):
    """Algorithm 5 of FIPS 202: rc(t)."""
    t %= 255
    if t == 0:
        return 1
    # R is a list of bits R[0..7] (then temporarily R[0..8])
    R = [1, 0, 0, 0, 0, 0, 0, 0]
    for _ in range(t):
        R = [0] + R
        R[0] ^= R[8]
        R[4] ^= R[8]
        R[5] ^= R[8]
        R[6] ^= R[8]
        R = R[:8]
    return R[0]


def _round_constants():
    """Algorithm 6 of FIPS 202 (iota), w = 64, l = 6, round indices 0..23."""
    rcs = []
    for ir in range(24):
        rc = 0
        for j in range(7):
            if _rc_bit(j + 7 * ir):
                rc |= 1 << ((1 << j) - 1)
        rcs.append(rc)
    return rcs


def _rho_offsets():
    """Algorithm 2 of FIPS 202 (rho): offsets indexed by x + 5*y."""
    off = [0] * 25
    x, y = 1, 0
    for t in range(24):
        off[x + 5 * y] = ((t + 1) * (t + 2) // 2) % 64
        x, y = y, (2 * x + 3 * y) % 5
    return off


_RC = _round_constants()
_RHO = _rho_offsets()


# ---------------------------------------------------------------------------
# The permutation.  The round function is generated as straight-line code
# (one local variable per lane) from the step-mapping definitions.
# ---------------------------------------------------------------------------

def _build_permutation():
    L = []
    emit = L.append
    emit("def _permute(state, rcs):")
    emit("    M = %d" % _MASK64)
    emit("    (" + ", ".join("a%d" % i for i in range(25)) + ") = state")
    emit("    for rc in rcs:")
    ind = "        "
    # theta:  C[x] = xor of column x;  D[x] = C[x-1] ^ ROT(C[x+1], 1)
    for x in range(5):
        emit(ind + "c%d = %s" % (x, " ^ ".join("a%d" % (x + 5 * y) for y in range(5))))
    for x in range(5):
        p, n = (x - 1) % 5, (x + 1) % 5
        emit(ind + "d%d = c%d ^ (((c%d << 1) | (c%d >> 63)) & M)" % (x, p, n, n))
    # theta (apply) + rho + pi:
    #   rho:  A[x,y] <- ROT(A[x,y], r[x,y])
    #   pi:   A'[x,y] = A[(x + 3y) mod 5, x]
    for y in range(5):
        for x in range(5):
            sx, sy = (x + 3 * y) % 5, x
            src = sx + 5 * sy
            r = _RHO[src]
            dst = x + 5 * y
            if r == 0:
                emit(ind + "b%d = a%d ^ d%d" % (dst, src, sx))
            else:
                emit(ind + "t = a%d ^ d%d" % (src, sx))
                emit(ind + "b%d = ((t << %d) | (t >> %d)) & M" % (dst, r, 64 - r))
    # chi:  A'[x,y] = A[x,y] ^ ((A[x+1,y] ^ 1) & A[x+2,y]);  iota on lane (0,0)
    for y in range(5):
        for x in range(5):
            i = x + 5 * y
            i1 = (x + 1) % 5 + 5 * y
            i2 = (x + 2) % 5 + 5 * y
            if i == 0:
                emit(ind + "a0 = b0 ^ (~b%d & b%d) ^ rc" % (i1, i2))
            else:
                emit(ind + "a%d = b%d ^ (~b%d & b%d)" % (i, i, i1, i2))
    emit("    return [" + ", ".join("a%d" % i for i in range(25)) + "]")
    ns = {}
    exec(compile("\n".join(L), "<keccak-p[1600] generated>", "exec"), ns)
    return ns["_permute"]


_permute = _build_permutation()


def keccak_p1600(state, rounds=24):
    """KECCAK-p[1600, rounds] on a list of 25 lanes (lane (x, y) at index x + 5*y,
    each a 64-bit non-negative int).  Returns a NEW list of 25 lanes.

    Per FIPS 202 section 3.3 the rounds executed are those with round index
    12 + 2*l - nr .. 12 + 2*l - 1, i.e. the LAST ``rounds`` rounds of Keccak-f[1600].
    """
    if not 0 <= rounds <= 24:
        raise ValueError("rounds must be in 0..24")
    if len(state) != 25:
        raise ValueError("state must have 25 lanes")
    return _permute(state, _RC[24 - rounds:])


def _keccak_p1600_slow(state, rounds=24):
    """Literal (array based, un-optimised) transcription of FIPS 202 section 3.2;
    used only to cross-check the generated straight-line code."""
    A = [[state[x + 5 * y] for y in range(5)] for x in range(5)]

    def rot(v, n):
        n %= 64
        return ((v << n) | (v >> (64 - n))) & _MASK64 if n else v

    for ir in range(24 - rounds, 24):
        C = [A[x][0] ^ A[x][1] ^ A[x][2] ^ A[x][3] ^ A[x][4] for x in range(5)]
        D = [C[(x - 1) % 5] ^ rot(C[(x + 1) % 5], 1) for x in range(5)]
        A = [[A[x][y] ^ D[x] for y in range(5)] for x in range(5)]
        A = [[rot(A[x][y], _RHO[x + 5 * y]) for y in range(5)] for x in range(5)]
        A = [[A[(x + 3 * y) % 5][x] for y in range(5)] for x in range(5)]
        A = [[A[x][y] ^ ((A[(x + 1) % 5][y] ^ _MASK64) & A[(x + 2) % 5][y])
              for y in range(5)] for x in range(5)]
        A[0][0] ^= _RC[ir]
    return [A[i % 5][i // 5] for i in range(25)]


# ---------------------------------------------------------------------------
# Sponge
# ---------------------------------------------------------------------------

def sponge(rate_bytes, msg, suffix, outlen, rounds=24):
    """SPONGE[KECCAK-p[1600, rounds], pad10*1, 8*rate_bytes](msg || suffix-bits, 8*outlen).

    ``suffix`` is the "delimited suffix" byte: the domain-separation bits
    (LSB first) followed by the first '1' bit of pad10*1.  E.g. 0x06 SHA-3,
    0x1F SHAKE, 0x04 cSHAKE, 0x01 legacy Keccak, D for TurboSHAKE.
    The final '1' bit of pad10*1 (0x80) is XORed into the last byte of the
    block; when the suffix byte itself is the last byte of the block both end
    up in the same byte.  If the suffix has its bit 7 set (first pad bit is
    the last bit of the block) an additional block is required.
    """
    msg = bytes(msg)
    if not (0 < rate_bytes < 200 and rate_bytes % 8 == 0):
        raise ValueError("rate must be a multiple of 8 in 8..192 bytes")
    if not 1 <= suffix <= 0xFF:
        raise ValueError("suffix must be a byte with at least one bit set")
    if outlen < 0:
        raise ValueError("negative output length")
    if not 0 <= rounds <= 24:
        raise ValueError("rounds must be in 0..24")

    # --- padding
    padded = bytearray(msg)
    padded.append(suffix)
    if (suffix & 0x80) and len(padded) % rate_bytes == 0:
        # first pad bit is the very last bit of this block: the closing
        # '1' bit goes to the end of an extra all-zero block
        padded.extend(bytes(rate_bytes))
    elif len(padded) % rate_bytes:
        padded.extend(bytes(rate_bytes - len(padded) % rate_bytes))
    padded[-1] ^= 0x80

    # --- absorbing
    nlanes = rate_bytes // 8
    fmt = "<%dQ" % nlanes
    state = [0] * 25
    rcs = _RC[24 - rounds:]
    unpack_from = struct.unpack_from
    for off in range(0, len(padded), rate_bytes):
        block = unpack_from(fmt, padded, off)
        for i in range(nlanes):
            state[i] ^= block[i]
        state = _permute(state, rcs)

    # --- squeezing
    out = bytearray()
    pack = struct.pack
    while True:
        out += pack(fmt, *state[:nlanes])
        if len(out) >= outlen:
            break
        state = _permute(state, rcs)
    return bytes(out[:outlen])


# ---------------------------------------------------------------------------
# FIPS 202 functions + legacy Keccak
# ---------------------------------------------------------------------------

def sha3(bits, msg):
    """SHA3-224/256/384/512: KECCAK[2*bits](M || 01, bits)."""
    if bits not in (224, 256, 384, 512):
        raise ValueError("unsupported SHA-3 size")
    return sponge(200 - 2 * bits // 8, msg, 0x06, bits // 8)


def keccak_legacy(digest_bits, msg):
    """Original (pre-FIPS) Keccak[r = 1600 - 2n, c = 2n] with plain pad10*1."""
    if digest_bits not in (224, 256, 384, 512):
        raise ValueError("unsupported Keccak digest size")
    return sponge(200 - 2 * digest_bits // 8, msg, 0x01, digest_bits // 8)


def shake(bits, msg, outlen):
    """SHAKE128/256: KECCAK[2*bits](M || 1111, 8*outlen)."""
    if bits not in (128, 256):
        raise ValueError("unsupported SHAKE strength")
    return sponge(200 - 2 * bits // 8, msg, 0x1F, outlen)


# ---------------------------------------------------------------------------
# SP 800-185
# ---------------------------------------------------------------------------

def _min_be(x):
    """Minimal big-endian byte string of x with at least one byte."""
    if x < 0:
        raise ValueError("negative integer")
    n = max(1, (x.bit_length() + 7) // 8)
    if n > 255:
        raise ValueError("integer too large (must be < 2**2040)")
    return x.to_bytes(n, "big")


def left_encode(x):
    """SP 800-185 2.3.1: O = n || x_1 .. x_n."""
    b = _min_be(x)
    return bytes([len(b)]) + b


def right_encode(x):
    """SP 800-185 2.3.1: O = x_1 .. x_n || n."""
    b = _min_be(x)
    return b + bytes([len(b)])


def encode_string(s):
    """SP 800-185 2.3.2: left_encode(len(S) in bits) || S."""
    s = bytes(s)
    return left_encode(8 * len(s)) + s


def bytepad(x, w):
    """SP 800-185 2.3.3: left_encode(w) || X, zero-padded to a multiple of w bytes."""
    if w <= 0:
        raise ValueError("w must be positive")
    z = left_encode(w) + bytes(x)
    if len(z) % w:
        z += bytes(w - len(z) % w)
    return z


def _strength_rate(bits):
    if bits not in (128, 256):
        raise ValueError("security strength must be 128 or 256")
    return 200 - 2 * bits // 8


def cshake(bits, msg, outlen, custom=b"", function=b""):
    """cSHAKE128/256(X, L, N, S) with L = 8*outlen, N = function, S = custom."""
    rate = _strength_rate(bits)
    custom = bytes(custom)
    function = bytes(function)
    if not custom and not function:
        return shake(bits, msg, outlen)
    prefix = bytepad(encode_string(function) + encode_string(custom), rate)
    return sponge(rate, prefix + bytes(msg), 0x04, outlen)


def kmac(bits, key, msg, outlen, custom=b"", xof=False):
    """KMAC128/256(K, X, L, S); with xof=True KMACXOF128/256 (right_encode(0))."""
    rate = _strength_rate(bits)
    new_x = bytepad(encode_string(key), rate) + bytes(msg) + \
        right_encode(0 if xof else 8 * outlen)
    return cshake(bits, new_x, outlen, custom=custom, function=b"KMAC")


def tuplehash(bits, items, outlen, custom=b"", xof=False):
    """TupleHash128/256(X, L, S); with xof=True TupleHashXOF128/256."""
    _strength_rate(bits)
    z = b"".join(encode_string(it) for it in items)
    new_x = z + right_encode(0 if xof else 8 * outlen)
    return cshake(bits, new_x, outlen, custom=custom, function=b"TupleHash")


# ---------------------------------------------------------------------------
# RFC 9861
# ---------------------------------------------------------------------------

def turboshake(bits, msg, outlen, domain=0x1F):
    """TurboSHAKE128/256(M, D, L): 12-round Keccak-p, rate 168/136, D in 0x01..0x7F."""
    rate = _strength_rate(bits)
    if not 0x01 <= domain <= 0x7F:
        raise ValueError("TurboSHAKE domain byte must be in 0x01..0x7F")
    return sponge(rate, msg, domain, outlen, rounds=12)


def length_encode(x):
    """RFC 9861 3.3: x as minimal big-endian base-256 string (empty for 0)
    followed by one byte giving the length of that string."""
    if x < 0:
        raise ValueError("negative integer")
    n = (x.bit_length() + 7) // 8
    if n > 255:
        raise ValueError("integer too large")
    return x.to_bytes(n, "big") + bytes([n])


_KT_CHUNK = 8192


def _kangaroo(bits, msg, outlen, custom):
    cvlen = 2 * bits // 8          # 32 bytes for KT128, 64 bytes for KT256
    custom = bytes(custom)
    s = bytes(msg) + custom + length_encode(len(custom))
    if len(s) <= _KT_CHUNK:
        return turboshake(bits, s, outlen, 0x07)
    final = bytearray(s[:_KT_CHUNK])
    final += b"\x03" + bytes(7)
    n = 0
    for off in range(_KT_CHUNK, len(s), _KT_CHUNK):
        final += turboshake(bits, s[off:off + _KT_CHUNK], cvlen, 0x0B)
        n += 1
    final += length_encode(n)
    final += b"\xFF\xFF"
    return turboshake(bits, bytes(final), outlen, 0x06)


def k12(msg, outlen, custom=b""):
    """KangarooTwelve = KT128(M, C, L) of RFC 9861."""
    return _kangaroo(128, msg, outlen, custom)


kt128 = k12


def kt256(msg, outlen, custom=b""):
    """KT256(M, C, L) of RFC 9861."""
    return _kangaroo(256, msg, outlen, custom)


def ptn(n):
    """RFC 9861 section 5: the pattern 00 01 .. FA repeated, truncated to n bytes."""
    pat = bytes(range(0xFB))
    return (pat * (n // 0xFB + 1))[:n]


# ---------------------------------------------------------------------------
# Self test
# ---------------------------------------------------------------------------

# RFC 9861 section 5 test vectors: (bits, M, D, L, number of trailing output bytes compared, hex)
_TURBOSHAKE_RFC = [
    (128, ('ptn', 0), 0x1F, 32, 32,
     "1e415f1c5983aff2169217277d17bb538cd945a397ddec541f1ce41af2c1b74c"),
    (128, ('ptn', 0), 0x1F, 64, 64,
     "1e415f1c5983aff2169217277d17bb538cd945a397ddec541f1ce41af2c1b74c"
     "3e8ccae2a4dae56c84a04c2385c03c15e8193bdf58737363321691c05462c8df"),
    (128, ('ptn', 0), 0x1F, 10032, 32,
     "a3b9b0385900ce761f22aed548e754da10a5242d62e8c658e3f3a923a7555607"),
    (128, ('ptn', 1), 0x1F, 32, 32,
     "55cedd6f60af7bb29a4042ae832ef3f58db7299f893ebb9247247d856958daa9"),
    (128, ('ptn', 17), 0x1F, 32, 32,
     "9c97d036a3bac819db70ede0ca554ec6e4c2a1a4ffbfd9ec269ca6a111161233"),
    (128, ('ptn', 289), 0x1F, 32, 32,
     "96c77c279e0126f7fc07c9b07f5cdae1e0be60bdbe10620040e75d7223a624d2"),
    (128, ('ptn', 4913), 0x1F, 32, 32,
     "d4976eb56bcf118520582b709f73e1d6853e001fdaf80e1b13e0d0599d5fb372"),
    (128, ('ptn', 83521), 0x1F, 32, 32,
     "da67c7039e98bf530cf7a37830c6664e14cbab7f540f58403b1b82951318ee5c"),
    (128, ('ptn', 1419857), 0x1F, 32, 32,
     "b97a906fbf83ef7c812517abf3b2d0aea0c4f60318ce11cf103925127f59eecd"),
    (128, ('ptn', 24137569), 0x1F, 32, 32,
     "35cd494adeded2f25239af09a7b8ef0c4d1ca4fe2d1ac370fa63216fe7b4c2b1"),
    (128, ('ff', 3), 0x01, 32, 32,
     "bf323f940494e88ee1c540fe660be8a0c93f43d15ec006998462fa994eed5dab"),
    (128, ('ff', 1), 0x06, 32, 32,
     "8ec9c66465ed0d4a6c35d13506718d687a25cb05c74cca1e42501abd83874a67"),
    (128, ('ff', 3), 0x07, 32, 32,
     "b658576001cad9b1e5f399a9f77723bba05458042d68206f7252682dba3663ed"),
    (128, ('ff', 7), 0x0B, 32, 32,
     "8deeaa1aec47ccee569f659c21dfa8e112db3cee37b18178b2acd805b799cc37"),
    (128, ('ff', 1), 0x30, 32, 32,
     "553122e2135e363c3292bed2c6421fa232bab03daa07c7d6636603286506325b"),
    (128, ('ff', 3), 0x7F, 32, 32,
     "16274cc656d44cefd422395d0f9053bda6d28e122aba15c765e5ad0e6eaf26f9"),
    (256, ('ptn', 0), 0x1F, 64, 64,
     "367a329dafea871c7802ec67f905ae13c57695dc2c6663c61035f59a18f8e7db"
     "11edc0e12e91ea60eb6b32df06dd7f002fbafabb6e13ec1cc20d995547600db0"),
    (256, ('ptn', 0), 0x1F, 10032, 32,
     "abefa11630c661269249742685ec082f207265dccf2f43534e9c61ba0c9d1d75"),
    (256, ('ptn', 1), 0x1F, 64, 64,
     "3e1712f928f8eaf1054632b2aa0a246ed8b0c378728f60bc970410155c28820e"
     "90cc90d8a3006aa2372c5c5ea176b0682bf22bae7467ac94f74d43d39b0482e2"),
    (256, ('ptn', 17), 0x1F, 64, 64,
     "b3bab0300e6a191fbe6137939835923578794ea54843f5011090fa2f3780a9e5"
     "cb22c59d78b40a0fbff9e672c0fbe0970bd2c845091c6044d687054da5d8e9c7"),
    (256, ('ptn', 289), 0x1F, 64, 64,
     "66b810db8e90780424c0847372fdc95710882fde31c6df75beb9d4cd9305cfca"
     "e35e7b83e8b7e6eb4b78605880116316fe2c078a09b94ad7b8213c0a738b65c0"),
    (256, ('ptn', 4913), 0x1F, 64, 64,
     "c74ebc919a5b3b0dd1228185ba02d29ef442d69d3d4276a93efe0bf9a16a7dc0"
     "cd4eabadab8cd7a5edd96695f5d360abe09e2c6511a3ec397da3b76b9e1674fb"),
    (256, ('ptn', 83521), 0x1F, 64, 64,
     "02cc3a8897e6f4f6ccb6fd46631b1f5207b66c6de9c7b55b2d1a23134a170afd"
     "ac234eaba9a77cff88c1f020b73724618c5687b362c430b248cd38647f848a1d"),
    (256, ('ptn', 1419857), 0x1F, 64, 64,
     "add53b06543e584b5823f626996aee50fe45ed15f20243a7165485acb4aa76b4"
     "ffda75cedf6d8cdc95c332bd56f4b986b58bb17d1778bfc1b1a97545cdf4ec9f"),
    (256, ('ptn', 24137569), 0x1F, 64, 64,
     "9e11bc59c24e73993c1484ec66358ef71db74aefd84e123f7800ba9c4853e02c"
     "fe701d9e6bb765a304f0dc34a4ee3ba82c410f0da70e86bfbd90ea877c2d6104"),
    (256, ('ff', 3), 0x01, 64, 64,
     "d21c6fbbf587fa2282f29aea620175fb0257413af78a0b1b2a87419ce031d933"
     "ae7a4d383327a8a17641a34f8a1d1003ad7da6b72dba84bb62fef28f62f12424"),
    (256, ('ff', 1), 0x06, 64, 64,
     "738d7b4e37d18b7f22ad1b5313e357e3dd7d07056a26a303c433fa3533455280"
     "f4f5a7d4f700efb437fe6d281405e07be32a0a972e22e63adc1b090daefe004b"),
    (256, ('ff', 3), 0x07, 64, 64,
     "18b3b5b7061c2e67c1753a00e6ad7ed7ba1c906cf93efb7092eaf27fbeebb755"
     "ae6e292493c110e48d260028492b8e09b5500612b8f2578985ded5357d00ec67"),
    (256, ('ff', 7), 0x0B, 64, 64,
     "bb36764951ec97e9d85f7ee9a67a7718fc005cf42556be79ce12c0bde50e5736"
     "d6632b0d0dfb202d1bbb8ffe3dd74cb00834fa756cb03471bab13a1e2c16b3c0"),
    (256, ('ff', 1), 0x30, 64, 64,
     "f3fe12873d34bcbb2e608779d6b70e7f86bec7e90bf113cbd4fdd0c4e2f4625e"
     "148dd7ee1a52776cf77f240514d9ccfc3b5ddab8ee255e39ee389072962c111a"),
    (256, ('ff', 3), 0x7F, 64, 64,
     "abe569c1f77ec340f02705e7d37c9ab7e155516e4a6a150021d70b6fac0bb40c"
     "069f9a9828a0d575cd99f9bae435ab1acf7ed9110ba97ce0388d074bac768776"),
]

# RFC 9861 section 5 test vectors: (bits, M, C, L, number of trailing output bytes compared, hex)
_KT_RFC = [
    (128, ('ptn', 0), ('ptn', 0), 32, 32,
     "1ac2d450fc3b4205d19da7bfca1b37513c0803577ac7167f06fe2ce1f0ef39e5"),
    (128, ('ptn', 0), ('ptn', 0), 64, 64,
     "1ac2d450fc3b4205d19da7bfca1b37513c0803577ac7167f06fe2ce1f0ef39e5"
     "4269c056b8c82e48276038b6d292966cc07a3d4645272e31ff38508139eb0a71"),
    (128, ('ptn', 0), ('ptn', 0), 10032, 32,
     "e8dc563642f7228c84684c898405d3a834799158c079b12880277a1d28e2ff6d"),
    (128, ('ptn', 1), ('ptn', 0), 32, 32,
     "2bda92450e8b147f8a7cb629e784a058efca7cf7d8218e02d345dfaa65244a1f"),
    (128, ('ptn', 17), ('ptn', 0), 32, 32,
     "6bf75fa2239198db4772e36478f8e19b0f371205f6a9a93a273f51df37122888"),
    (128, ('ptn', 289), ('ptn', 0), 32, 32,
     "0c315ebcdedbf61426de7dcf8fb725d1e74675d7f5327a5067f367b108ecb67c"),
    (128, ('ptn', 4913), ('ptn', 0), 32, 32,
     "cb552e2ec77d9910701d578b457ddf772c12e322e4ee7fe417f92c758f0d59d0"),
    (128, ('ptn', 83521), ('ptn', 0), 32, 32,
     "8701045e22205345ff4dda05555cbb5c3af1a771c2b89baef37db43d9998b9fe"),
    (128, ('ptn', 1419857), ('ptn', 0), 32, 32,
     "844d610933b1b9963cbdeb5ae3b6b05cc7cbd67ceedf883eb678a0a8e0371682"),
    (128, ('ptn', 24137569), ('ptn', 0), 32, 32,
     "3c390782a8a4e89fa6367f72feaaf13255c8d95878481d3cd8ce85f58e880af8"),
    (128, ('ff', 0), ('ptn', 1), 32, 32,
     "fab658db63e94a246188bf7af69a133045f46ee984c56e3c3328caaf1aa1a583"),
    (128, ('ff', 1), ('ptn', 41), 32, 32,
     "d848c5068ced736f4462159b9867fd4c20b808acc3d5bc48e0b06ba0a3762ec4"),
    (128, ('ff', 3), ('ptn', 1681), 32, 32,
     "c389e5009ae57120854c2e8c64670ac01358cf4c1baf89447a724234dc7ced74"),
    (128, ('ff', 7), ('ptn', 68921), 32, 32,
     "75d2f86a2e644566726b4fbcfc5657b9dbcf070c7b0dca06450ab291d7443bcf"),
    (128, ('ptn', 8191), ('ptn', 0), 32, 32,
     "1b577636f723643e990cc7d6a659837436fd6a103626600eb8301cd1dbe553d6"),
    (128, ('ptn', 8192), ('ptn', 0), 32, 32,
     "48f256f6772f9edfb6a8b661ec92dc93b95ebd05a08a17b39ae3490870c926c3"),
    (128, ('ptn', 8192), ('ptn', 8189), 32, 32,
     "3ed12f70fb05ddb58689510ab3e4d23c6c6033849aa01e1d8c220a297fedcd0b"),
    (128, ('ptn', 8192), ('ptn', 8190), 32, 32,
     "6a7c1b6a5cd0d8c9ca943a4a216cc64604559a2ea45f78570a15253d67ba00ae"),
    # KT256: the only RFC 9861 KT256 vector available offline (M = C = empty, L = 64)
    (256, ('ptn', 0), ('ptn', 0), 64, 64,
     "b23d2e9cea9f4904e02bec06817fc10ce38ce8e93ef4c89e6537076af8646404"
     "e3e8b68107b8833a5d30490aa33482353fd4adc7148ecb782855003aaebde4a9"),
]

# NIST SP 800-185 KMAC_samples.pdf: (bits, key, data, S, expected)
_KMAC_NIST = [
    (128, "404142434445464748494a4b4c4d4e4f505152535455565758595a5b5c5d5e5f",
     "00010203",
     b'',
     "e5780b0d3ea6f7d3a429c5706aa43a00fadbd7d49628839e3187243f456ee14e"),
    (128, "404142434445464748494a4b4c4d4e4f505152535455565758595a5b5c5d5e5f",
     "00010203",
     b'My Tagged Application',
     "3b1fba963cd8b0b59e8c1a6d71888b7143651af8ba0a7070c0979e2811324aa5"),
    (128, "404142434445464748494a4b4c4d4e4f505152535455565758595a5b5c5d5e5f",
     "000102030405060708090a0b0c0d0e0f101112131415161718191a1b1c1d1e1f"
     "202122232425262728292a2b2c2d2e2f303132333435363738393a3b3c3d3e3f"
     "404142434445464748494a4b4c4d4e4f505152535455565758595a5b5c5d5e5f"
     "606162636465666768696a6b6c6d6e6f707172737475767778797a7b7c7d7e7f"
     "808182838485868788898a8b8c8d8e8f909192939495969798999a9b9c9d9e9f"
     "a0a1a2a3a4a5a6a7a8a9aaabacadaeafb0b1b2b3b4b5b6b7b8b9babbbcbdbebf"
     "c0c1c2c3c4c5c6c7",
     b'My Tagged Application',
     "1f5b4e6cca02209e0dcb5ca635b89a15e271ecc760071dfd805faa38f9729230"),
    (256, "404142434445464748494a4b4c4d4e4f505152535455565758595a5b5c5d5e5f",
     "00010203",
     b'My Tagged Application',
     "20c570c31346f703c9ac36c61c03cb64c3970d0cfc787e9b79599d273a68d2f7"
     "f69d4cc3de9d104a351689f27cf6f5951f0103f33f4f24871024d9c27773a8dd"),
    (256, "404142434445464748494a4b4c4d4e4f505152535455565758595a5b5c5d5e5f",
     "000102030405060708090a0b0c0d0e0f101112131415161718191a1b1c1d1e1f"
     "202122232425262728292a2b2c2d2e2f303132333435363738393a3b3c3d3e3f"
     "404142434445464748494a4b4c4d4e4f505152535455565758595a5b5c5d5e5f"
     "606162636465666768696a6b6c6d6e6f707172737475767778797a7b7c7d7e7f"
     "808182838485868788898a8b8c8d8e8f909192939495969798999a9b9c9d9e9f"
     "a0a1a2a3a4a5a6a7a8a9aaabacadaeafb0b1b2b3b4b5b6b7b8b9babbbcbdbebf"
     "c0c1c2c3c4c5c6c7",
     b'',
     "75358cf39e41494e949707927cee0af20a3ff553904c86b08f21cc414bcfd691"
     "589d27cf5e15369cbbff8b9a4c2eb17800855d0235ff635da82533ec6b759b69"),
    (256, "404142434445464748494a4b4c4d4e4f505152535455565758595a5b5c5d5e5f",
     "000102030405060708090a0b0c0d0e0f101112131415161718191a1b1c1d1e1f"
     "202122232425262728292a2b2c2d2e2f303132333435363738393a3b3c3d3e3f"
     "404142434445464748494a4b4c4d4e4f505152535455565758595a5b5c5d5e5f"
     "606162636465666768696a6b6c6d6e6f707172737475767778797a7b7c7d7e7f"
     "808182838485868788898a8b8c8d8e8f909192939495969798999a9b9c9d9e9f"
     "a0a1a2a3a4a5a6a7a8a9aaabacadaeafb0b1b2b3b4b5b6b7b8b9babbbcbdbebf"
     "c0c1c2c3c4c5c6c7",
     b'My Tagged Application',
     "b58618f71f92e1d56c1b8c55ddd7cd188b97b4ca4d99831eb2699a837da2e4d9"
     "70fbacfde50033aea585f1a2708510c32d07880801bd182898fe476876fc8965"),
]

# NIST SP 800-185 TupleHash_samples.pdf: (bits, tuple, S, expected)
_TUPLEHASH_NIST = [
    (128, ['000102', '101112131415'], b'',
     "c5d8786c1afb9b82111ab34b65b2c0048fa64e6d48e263264ce1707d3ffc8ed1"),
    (128, ['000102', '101112131415'], b'My Tuple App',
     "75cdb20ff4db1154e841d758e24160c54bae86eb8c13e7f5f40eb35588e96dfb"),
    (128, ['000102', '101112131415', '202122232425262728'], b'My Tuple App',
     "e60f202c89a2631eda8d4c588ca5fd07f39e5151998deccf973adb3804bb6e84"),
    (256, ['000102', '101112131415'], b'',
     "cfb7058caca5e668f81a12a20a2195ce97a925f1dba3e7449a56f82201ec6073"
     "11ac2696b1ab5ea2352df1423bde7bd4bb78c9aed1a853c78672f9eb23bbe194"),
    (256, ['000102', '101112131415'], b'My Tuple App',
     "147c2191d5ed7efd98dbd96d7ab5a11692576f5fe2a5065f3e33de6bba9f3aa1"
     "c4e9a068a289c61c95aab30aee1e410b0b607de3620e24a4e3bf9852a1d4367e"),
    (256, ['000102', '101112131415', '202122232425262728'], b'My Tuple App',
     "45000be63f9b6bfd89f54717670f69a9bc763591a4f05c50d68891a744bcc6e7"
     "d6d5b5e82c018da999ed35b0bb49c9678e526abd8e85c13ed254021db9e790ce"),
]

# NIST SP 800-185 cSHAKE_samples.pdf: (bits, N, S, data, expected)
_CSHAKE_NIST = [
    (128, b'', b'Email Signature',
     "00010203",
     "c1c36925b6409a04f1b504fcbca9d82b4017277cb5ed2b2065fc1d3814d5aaf5"),
    (128, b'', b'Email Signature',
     "000102030405060708090a0b0c0d0e0f101112131415161718191a1b1c1d1e1f"
     "202122232425262728292a2b2c2d2e2f303132333435363738393a3b3c3d3e3f"
     "404142434445464748494a4b4c4d4e4f505152535455565758595a5b5c5d5e5f"
     "606162636465666768696a6b6c6d6e6f707172737475767778797a7b7c7d7e7f"
     "808182838485868788898a8b8c8d8e8f909192939495969798999a9b9c9d9e9f"
     "a0a1a2a3a4a5a6a7a8a9aaabacadaeafb0b1b2b3b4b5b6b7b8b9babbbcbdbebf"
     "c0c1c2c3c4c5c6c7",
     "c5221d50e4f822d96a2e8881a961420f294b7b24fe3d2094baed2c6524cc166b"),
    (256, b'', b'Email Signature',
     "00010203",
     "d008828e2b80ac9d2218ffee1d070c48b8e4c87bff32c9699d5b6896eee0edd1"
     "64020e2be0560858d9c00c037e34a96937c561a74c412bb4c746469527281c8c"),
    (256, b'', b'Email Signature',
     "000102030405060708090a0b0c0d0e0f101112131415161718191a1b1c1d1e1f"
     "202122232425262728292a2b2c2d2e2f303132333435363738393a3b3c3d3e3f"
     "404142434445464748494a4b4c4d4e4f505152535455565758595a5b5c5d5e5f"
     "606162636465666768696a6b6c6d6e6f707172737475767778797a7b7c7d7e7f"
     "808182838485868788898a8b8c8d8e8f909192939495969798999a9b9c9d9e9f"
     "a0a1a2a3a4a5a6a7a8a9aaabacadaeafb0b1b2b3b4b5b6b7b8b9babbbcbdbebf"
     "c0c1c2c3c4c5c6c7",
     "07dc27b11e51fbac75bc7b3c1d983e8b4b85fb1defaf218912ac864302730917"
     "27f42b17ed1df63e8ec118f04b23633c1dfb1574c8fb55cb45da8e25afb092bb"),
]


def _fail(what, got, exp):
    raise AssertionError("%s: got %s expected %s" % (what, bytes(got).hex(), bytes(exp).hex()))


def _check(counts, group, what, got, exp):
    if bytes(got) != bytes(exp):
        _fail("%s / %s" % (group, what), got, exp)
    counts[group] = counts.get(group, 0) + 1


def _parse_kat(path):
    """Parse the 'Key = hexvalue' record format of the KAT files (pure data)."""
    recs, cur = [], {}
    with open(path, "r", encoding="utf-8", errors="replace") as f:
        for line in f:
            line = line.strip()
            if not line or line.startswith("#"):
                continue
            if "=" not in line:
                continue
            k, v = [p.strip() for p in line.split("=", 1)]
            k = k.lower()
            cur[k] = v
            if k == "md":
                recs.append(cur)
                cur = {}
    return recs


def _mk_msg(spec):
    kind, n = spec
    if kind == "ptn":
        return ptn(n)
    if kind == "ff":
        return b"\xff" * n
    raise ValueError(kind)


def _openssl(args, data):
    import subprocess
    try:
        p = subprocess.run(["openssl"] + args, input=data, capture_output=True, timeout=60)
    except (OSError, subprocess.SubprocessError):
        return None
    if p.returncode != 0:
        return None
    return p.stdout


def selftest(full=False, kat_dir="/repo/test_vectors/pycryptodome_test_vectors/Hash",
             use_openssl=True):
    """Validate this module.  Raises AssertionError on any mismatch and returns
    a dict {group: number of comparisons that passed}.

    full=True additionally runs the multi-megabyte RFC 9861 vectors (17**6 bytes).
    """
    import hashlib
    import os
    import random

    counts = {}
    rnd = random.Random(0x5EED)

    # -- structural: constants and generated code vs. literal transcription
    assert _RC[0] == 1 and _RC[1] == 0x8082 and _RC[23] == 0x8000000080008008, "round constants"
    assert _RHO[1] == 1 and _RHO[5] == 36 and _RHO[24] == 14 and _RHO[0] == 0, "rho offsets"
    for nr in (24, 12, 1, 0):
        for _ in range(5):
            st = [rnd.getrandbits(64) for _ in range(25)]
            if keccak_p1600(st, nr) != _keccak_p1600_slow(st, nr):
                raise AssertionError("generated permutation != literal permutation (nr=%d)" % nr)
            counts["perm_vs_literal"] = counts.get("perm_vs_literal", 0) + 1
    for st in ([0] * 25, [_MASK64] * 25):
        if keccak_p1600(st, 24) != _keccak_p1600_slow(st, 24):
            raise AssertionError("generated permutation != literal permutation (edge state)")
        counts["perm_vs_literal"] += 1

    # -- encodings (examples given in SP 800-185 / RFC 9861 text)
    assert left_encode(0) == b"\x01\x00" and right_encode(0) == b"\x00\x01"
    assert left_encode(255) == b"\x01\xff" and left_encode(256) == b"\x02\x01\x00"
    assert right_encode(65536) == b"\x01\x00\x00\x03"
    assert encode_string(b"") == b"\x01\x00"
    assert encode_string(b"KMAC") == b"\x01\x20KMAC"
    assert bytepad(b"", 4) == b"\x01\x04\x00\x00" and bytepad(b"AAA", 4) == b"\x01\x04AAA\x00\x00\x00"
    assert length_encode(0) == b"\x00" and length_encode(12) == b"\x0c\x01"
    assert length_encode(65538) == b"\x01\x00\x02\x03"
    counts["encodings"] = 11

    # -- hashlib: SHA-3 / SHAKE, all lengths 0..300 + multi-rate lengths
    lens = list(range(0, 301)) + [2 * 72, 3 * 104 - 1, 3 * 104, 2 * 136, 2 * 136 + 1, 2 * 144 - 1,
                                  3 * 168 - 1, 3 * 168, 3 * 168 + 1, 1000, 1343, 1344, 1345, 4096]
    blob = rnd.randbytes(max(lens))
    for n in lens:
        m = blob[:n] if n % 2 else blob[len(blob) - n:]
        for bits in (224, 256, 384, 512):
            _check(counts, "hashlib_sha3", "sha3_%d len=%d" % (bits, n),
                   sha3(bits, m), hashlib.new("sha3_%d" % bits, m).digest())
        for bits in (128, 256):
            ol = (n * 7) % 501
            _check(counts, "hashlib_shake", "shake_%d len=%d out=%d" % (bits, n, ol),
                   shake(bits, m, ol), hashlib.new("shake_%d" % bits, m).digest(ol))
    for ol in range(0, 501):
        m = blob[:ol % 37]
        for bits in (128, 256):
            _check(counts, "hashlib_shake", "shake_%d out=%d" % (bits, ol),
                   shake(bits, m, ol), hashlib.new("shake_%d" % bits, m).digest(ol))

    # -- KAT files (Keccak team / NIST), parsed as data
    def kat_msg(rec):
        nbits = int(rec["len"])
        if nbits % 8:
            return None
        return bytes.fromhex(rec["msg"])[:nbits // 8]

    if kat_dir and os.path.isdir(kat_dir):
        for bits in (224, 256, 384, 512):
            p = os.path.join(kat_dir, "SHA3", "ShortMsgKAT_SHA3-%d.txt" % bits)
            if os.path.exists(p):
                for rec in _parse_kat(p):
                    m = kat_msg(rec)
                    if m is not None:
                        _check(counts, "kat_sha3", "SHA3-%d Len=%s" % (bits, rec["len"]),
                               sha3(bits, m), bytes.fromhex(rec["md"]))
            names = ["ShortMsgKAT_%d.txt" % bits, "LongMsgKAT_%d.txt" % bits]
            for name in names:
                p = os.path.join(kat_dir, "keccak", name)
                if os.path.exists(p):
                    for rec in _parse_kat(p):
                        m = kat_msg(rec)
                        if m is not None:
                            _check(counts, "kat_keccak_legacy", "%s Len=%s" % (name, rec["len"]),
                                   keccak_legacy(bits, m), bytes.fromhex(rec["md"]))
        for bits in (128, 256):
            p = os.path.join(kat_dir, "SHA3", "ShortMsgKAT_SHAKE%d.txt" % bits)
            if os.path.exists(p):
                for rec in _parse_kat(p):
                    m = kat_msg(rec)
                    if m is not None:
                        exp = bytes.fromhex(rec["md"])
                        _check(counts, "kat_shake", "SHAKE%d Len=%s" % (bits, rec["len"]),
                               shake(bits, m, len(exp)), exp)
            for name in ("ShortMsgSamples_cSHAKE%d.txt" % bits, "CustomMsgSamples_cSHAKE%d.txt" % bits):
                p = os.path.join(kat_dir, "SHA3", name)
                if os.path.exists(p):
                    for rec in _parse_kat(p):
                        m = bytes.fromhex(rec["msg"])[:int(rec["len"]) // 8]
                        fn = bytes.fromhex(rec["n"])[:int(rec.get("nlen", "0")) // 8]
                        cs = bytes.fromhex(rec["s"])[:int(rec.get("slen", "0")) // 8]
                        exp = bytes.fromhex(rec["md"])
                        _check(counts, "kat_cshake", "%s Len=%s SLen=%s" % (name, rec["len"], rec.get("slen")),
                               cshake(bits, m, len(exp), custom=cs, function=fn), exp)

    # -- NIST SP 800-185 sample vectors (embedded)
    for bits, fn, cs, msg_hex, exp_hex in _CSHAKE_NIST:
        exp = bytes.fromhex(exp_hex)
        _check(counts, "nist_cshake", "cSHAKE%d N=%r S=%r" % (bits, fn, cs),
               cshake(bits, bytes.fromhex(msg_hex), len(exp), custom=cs, function=fn), exp)
    for bits, key_hex, msg_hex, cs, exp_hex in _KMAC_NIST:
        exp = bytes.fromhex(exp_hex)
        _check(counts, "nist_kmac", "KMAC%d S=%r" % (bits, cs),
               kmac(bits, bytes.fromhex(key_hex), bytes.fromhex(msg_hex), len(exp), custom=cs), exp)
    for bits, items_hex, cs, exp_hex in _TUPLEHASH_NIST:
        exp = bytes.fromhex(exp_hex)
        _check(counts, "nist_tuplehash", "TupleHash%d S=%r n=%d" % (bits, cs, len(items_hex)),
               tuplehash(bits, [bytes.fromhex(h) for h in items_hex], len(exp), custom=cs), exp)

    # -- RFC 9861 vectors (embedded)
    big = 17 ** 6
    for bits, mspec, dom, outlen, tail, exp_hex in _TURBOSHAKE_RFC:
        if mspec[1] >= big and not full:
            continue
        out = turboshake(bits, _mk_msg(mspec), outlen, dom)
        _check(counts, "rfc_turboshake", "TurboSHAKE%d M=%r D=%02x L=%d" % (bits, mspec, dom, outlen),
               out[-tail:], bytes.fromhex(exp_hex))
    for bits, mspec, cspec, outlen, tail, exp_hex in _KT_RFC:
        if (mspec[1] >= big or cspec[1] >= big) and not full:
            continue
        f = k12 if bits == 128 else kt256
        out = f(_mk_msg(mspec), outlen, _mk_msg(cspec))
        _check(counts, "rfc_kt%d" % bits, "KT%d M=%r C=%r L=%d" % (bits, mspec, cspec, outlen),
               out[-tail:], bytes.fromhex(exp_hex))

    # -- prefix property of all XOFs (output of length a is a prefix of length b > a)
    m = blob[:100]
    for f in (lambda n: shake(128, m, n), lambda n: cshake(256, m, n, b"c", b"f"),
              lambda n: kmac(128, b"k" * 16, m, n, xof=True), lambda n: turboshake(256, m, n, 0x05),
              lambda n: k12(m, n, b"c"), lambda n: kt256(blob[:9000], n)):
        long = f(400)
        for n in (0, 1, 135, 136, 137, 167, 168, 169, 399):
            if f(n) != long[:n]:
                raise AssertionError("XOF prefix property violated")
            counts["xof_prefix"] = counts.get("xof_prefix", 0) + 1

    # -- system OpenSSL (CLI): KMAC128/256 with random inputs
    if use_openssl and _openssl(["version"], b"") is not None:
        probe = _openssl(["mac", "-macopt", "hexkey:" + "00" * 16, "-macopt", "size:8", "KMAC128"], b"")
        if probe is not None:
            for i in range(48):
                bits = (128, 256)[i % 2]
                rate = _strength_rate(bits)
                # OpenSSL limits: key 4..512 bytes, custom <= 512 bytes
                klen = rnd.choice([4, 16, 32, rate - 4, rate - 3, rate - 2, rate, rate + 1, 300, 512,
                                   rnd.randrange(4, 513)])
                clen = rnd.choice([0, 1, 21, 31, 32, 255, 256, 257, rate, 512, rnd.randrange(0, 513)])
                mlen = rnd.choice([0, 1, rate - 1, rate, rate + 1, 1000, rnd.randrange(0, 600)])
                olen = rnd.choice([1, 16, 32, 64, 65, 200, 255, 256, 257, rnd.randrange(1, 400)])
                xof = (i % 5 == 4)
                key, cs, msg = rnd.randbytes(klen), rnd.randbytes(clen), rnd.randbytes(mlen)
                args = ["mac", "-macopt", "hexkey:" + key.hex(), "-macopt", "size:%d" % olen]
                if clen:
                    args += ["-macopt", "hexcustom:" + cs.hex()]
                if xof:
                    args += ["-macopt", "xof:1"]
                args += ["KMAC%d" % bits]
                o = _openssl(args, msg)
                if o is None:
                    raise AssertionError("openssl mac failed for %r" % (args,))
                _check(counts, "openssl_kmac",
                       "KMAC%d klen=%d clen=%d mlen=%d olen=%d xof=%s" % (bits, klen, clen, mlen, olen, xof),
                       kmac(bits, key, msg, olen, custom=cs, xof=xof), bytes.fromhex(o.decode().strip()))
    return counts


if __name__ == "__main__":
    import sys
    import time
    t0 = time.time()
    res = selftest(full="--full" in sys.argv)
    dt = time.time() - t0
    st = list(range(25))
    n = 2000
    t1 = time.perf_counter()
    for _ in range(n):
        st = keccak_p1600(st)
    per = (time.perf_counter() - t1) / n
    for k in sorted(res):
        print("%-20s %6d ok" % (k, res[k]))
    print("keccak refs selftest OK: %d checks in %.1f s; keccak_p1600(24 rounds) = %.3f ms"
          % (sum(res.values()), dt, per * 1e3))
