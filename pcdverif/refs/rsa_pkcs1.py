"""Reference implementation of the RFC 8017 (PKCS #1 v2.2) encoding methods.

Written from the text of RFC 8017 only; used as an independent test oracle.
It deliberately favours clarity over speed and is NOT constant time.
Only the Python standard library is used, the library under test is never
imported.

Section numbers in comments refer to RFC 8017.

Public API
----------
i2osp, os2ip, mgf1
oaep_max_msg_len, oaep_encode, oaep_decode, oaep_build_em            (7.1)
pkcs1v15_enc_pad, pkcs1v15_enc_decode                               (7.2)
HASH_OIDS, HASH_DIGEST_SIZES, digest_info, emsa_pkcs1_v15,
pkcs1v15_sig_verify_em                                              (9.2)
pss_encode, pss_verify, pss_build_em                                (9.1)
rsa_public, rsa_private                                             (5.1/5.2)
selftest
"""

import hashlib
import os
import random
import re
import shutil
import subprocess
import tempfile

__all__ = [
    "i2osp", "os2ip", "mgf1",
    "oaep_max_msg_len", "oaep_encode", "oaep_decode", "oaep_build_em",
    "pkcs1v15_enc_pad", "pkcs1v15_enc_decode",
    "HASH_OIDS", "HASH_DIGEST_SIZES", "NULL_PARAMS_REQUIRED",
    "canonical_hash_name", "digest_info",
    "emsa_pkcs1_v15", "pkcs1v15_sig_verify_em",
    "pss_encode", "pss_verify", "pss_build_em",
    "rsa_public", "rsa_private", "selftest",
]


# --------------------------------------------------------------------------
# 4.1 / 4.2  Data conversion primitives
# --------------------------------------------------------------------------

def i2osp(x, n):
    """I2OSP (4.1): non-negative integer -> octet string of length n."""
    if x < 0:
        raise ValueError("integer must be non-negative")
    if n < 0:
        raise ValueError("negative length")
    if x >= 256 ** n:
        raise ValueError("integer too large")
    out = bytearray(n)
    for i in range(n - 1, -1, -1):
        out[i] = x & 0xFF
        x >>= 8
    return bytes(out)


def os2ip(b):
    """OS2IP (4.2): octet string -> non-negative integer."""
    x = 0
    for octet in bytes(b):
        x = (x << 8) | octet
    return x


def _xor(a, b):
    if len(a) != len(b):
        raise ValueError("xor operands differ in length")
    return bytes(x ^ y for x, y in zip(a, b))


# --------------------------------------------------------------------------
# B.2.1  MGF1
# --------------------------------------------------------------------------

def mgf1(seed, length, hash_fn):
    """MGF1 (B.2.1). hash_fn maps bytes -> digest bytes."""
    if length < 0:
        raise ValueError("negative mask length")
    hlen = len(hash_fn(b""))
    if length > (2 ** 32) * hlen:
        raise ValueError("mask too long")
    t = b""
    counter = 0
    while len(t) < length:
        t += hash_fn(bytes(seed) + i2osp(counter, 4))
        counter += 1
    return t[:length]


def _default_mgf(hash_fn):
    def _mgf(seed, length):
        return mgf1(seed, length, hash_fn)
    return _mgf


# --------------------------------------------------------------------------
# 5.1 / 5.2  Raw RSA primitives
# --------------------------------------------------------------------------

def rsa_public(n, e, m_int):
    """RSAEP / RSAVP1: m^e mod n. ValueError if m is not in [0, n-1]."""
    if not 0 <= m_int < n:
        raise ValueError("representative out of range")
    return pow(m_int, e, n)


def rsa_private(n, d, c_int):
    """RSADP / RSASP1: c^d mod n. ValueError if c is not in [0, n-1]."""
    if not 0 <= c_int < n:
        raise ValueError("representative out of range")
    return pow(c_int, d, n)


# --------------------------------------------------------------------------
# 7.1  RSAES-OAEP  (EME-OAEP encoding / decoding)
# --------------------------------------------------------------------------

def oaep_max_msg_len(k, hlen):
    """Largest mLen accepted by RSAES-OAEP-ENCRYPT (7.1.1 step 1.b);
    negative when the modulus is too small for the hash."""
    return k - 2 * hlen - 2


def oaep_build_em(k, hash_fn, hlen, label, seed, db_tail, y=0,
                  lhash_override=None, mgf=None):
    """Build EM = Y || maskedSeed || maskedDB (7.1.1 steps 2.e-2.i) for an
    ARBITRARY data block DB = (lhash_override or Hash(label)) || db_tail.

    db_tail must have k - 2*hlen - 1 octets, because DB has k - hLen - 1
    octets (in a well formed message db_tail is PS || 0x01 || M, i.e.
    (k - mLen - 2hLen - 2) + 1 + mLen octets).  y is the first octet of EM
    (0 in a well formed one).
    """
    label = bytes(label)
    seed = bytes(seed)
    db_tail = bytes(db_tail)
    if len(hash_fn(b"")) != hlen:
        raise ValueError("hlen does not match hash_fn")
    if k < 2 * hlen + 2:
        raise ValueError("modulus too short for this hash")
    if len(seed) != hlen:
        raise ValueError("seed must be hLen octets")
    if len(db_tail) != k - 2 * hlen - 1:
        raise ValueError("db_tail must be k - 2hLen - 1 octets")
    if not 0 <= y <= 255:
        raise ValueError("y must be an octet")
    lhash = hash_fn(label) if lhash_override is None else bytes(lhash_override)
    if len(lhash) != hlen:
        raise ValueError("lhash_override must be hLen octets")
    return _oaep_mask(k, hash_fn, hlen, seed, lhash + db_tail, y, mgf)


def _oaep_mask(k, hash_fn, hlen, seed, db, y, mgf):
    if mgf is None:
        mgf = _default_mgf(hash_fn)
    assert len(db) == k - hlen - 1
    db_mask = mgf(seed, k - hlen - 1)                 # 2.e
    masked_db = _xor(db, db_mask)                     # 2.f
    seed_mask = mgf(masked_db, hlen)                  # 2.g
    masked_seed = _xor(seed, seed_mask)               # 2.h
    em = bytes([y]) + masked_seed + masked_db         # 2.i
    assert len(em) == k
    return em


def oaep_encode(msg, k, label, hash_fn, hlen, seed, mgf=None):
    """EME-OAEP encoding (7.1.1 step 2) with a caller supplied seed.

    Returns EM (k octets).  ValueError('message too long') per step 1.b.
    """
    msg = bytes(msg)
    label = bytes(label)
    seed = bytes(seed)
    if len(hash_fn(b"")) != hlen:
        raise ValueError("hlen does not match hash_fn")
    if len(msg) > k - 2 * hlen - 2:                   # 1.b
        raise ValueError("message too long")
    if len(seed) != hlen:
        raise ValueError("seed must be hLen octets")
    lhash = hash_fn(label)                            # 2.a
    ps = bytes(k - len(msg) - 2 * hlen - 2)           # 2.b
    db = lhash + ps + b"\x01" + msg                   # 2.c
    return _oaep_mask(k, hash_fn, hlen, seed, db, 0, mgf)


def oaep_decode(em, label, hash_fn, hlen, mgf=None):
    """EME-OAEP decoding (7.1.2 step 3).  em has k octets (k = len(em)).

    Returns M, or None ("decryption error") iff
      * k < 2hLen + 2 (7.1.2 step 1.c), or
      * Y != 0, or
      * lHash' != lHash, or
      * there is no octet 0x01 separating PS from M, or
      * PS contains a non-zero octet before the 0x01.
    """
    em = bytes(em)
    label = bytes(label)
    k = len(em)
    if mgf is None:
        mgf = _default_mgf(hash_fn)
    if len(hash_fn(b"")) != hlen:
        raise ValueError("hlen does not match hash_fn")
    if k < 2 * hlen + 2:                              # 1.c
        return None
    lhash = hash_fn(label)                            # 3.a
    y = em[0]                                         # 3.b
    masked_seed = em[1:1 + hlen]
    masked_db = em[1 + hlen:]
    seed_mask = mgf(masked_db, hlen)                  # 3.c
    seed = _xor(masked_seed, seed_mask)               # 3.d
    db_mask = mgf(seed, k - hlen - 1)                 # 3.e
    db = _xor(masked_db, db_mask)                     # 3.f
    lhash2 = db[:hlen]                                # 3.g
    rest = db[hlen:]
    ok = True
    if y != 0:
        ok = False
    if lhash2 != lhash:
        ok = False
    # rest must be  PS (zero or more 0x00) || 0x01 || M
    sep = None
    for i, octet in enumerate(rest):
        if octet == 0x00:
            continue
        if octet == 0x01:
            sep = i
        break                                         # first non-zero octet
    if sep is None:
        ok = False
    if not ok:
        return None
    return rest[sep + 1:]


# --------------------------------------------------------------------------
# 7.2  RSAES-PKCS1-v1_5  (EME-PKCS1-v1_5)
# --------------------------------------------------------------------------

def pkcs1v15_enc_pad(msg, k, ps):
    """EME-PKCS1-v1_5 encoding (7.2.1 step 2) with caller supplied PS.

    EM = 0x00 || 0x02 || PS || 0x00 || M ;  PS: k - mLen - 3 non-zero octets.
    """
    msg = bytes(msg)
    ps = bytes(ps)
    if len(msg) > k - 11:                             # step 1
        raise ValueError("message too long")
    if len(ps) != k - len(msg) - 3:
        raise ValueError("PS must be k - mLen - 3 octets")
    if 0 in ps:
        raise ValueError("PS must consist of non-zero octets")
    em = b"\x00\x02" + ps + b"\x00" + msg
    assert len(em) == k
    return em


def pkcs1v15_enc_decode(em):
    """EME-PKCS1-v1_5 decoding (7.2.2 step 3).  em has k octets.

    Returns M, or None ("decryption error") iff k < 11, first octet != 0x00,
    second octet != 0x02, there is no 0x00 separating PS from M, or
    len(PS) < 8.
    """
    em = bytes(em)
    if len(em) < 11:                                  # 7.2.2 step 1
        return None
    if em[0] != 0x00 or em[1] != 0x02:
        return None
    sep = em.find(b"\x00", 2)
    if sep < 0:
        return None
    if sep - 2 < 8:                                   # PS shorter than 8
        return None
    return em[sep + 1:]


# --------------------------------------------------------------------------
# 9.2  EMSA-PKCS1-v1_5
# --------------------------------------------------------------------------

# Object identifiers of the hash functions (RFC 8017 B.1 / A.2.4,
# NIST CSOR for SHA-3, RFC 1320 for MD4, TeleTrusT for RIPEMD-160).
HASH_OIDS = {
    "MD2": "1.2.840.113549.2.2",
    "MD4": "1.2.840.113549.2.4",
    "MD5": "1.2.840.113549.2.5",
    "SHA-1": "1.3.14.3.2.26",
    "SHA-224": "2.16.840.1.101.3.4.2.4",
    "SHA-256": "2.16.840.1.101.3.4.2.1",
    "SHA-384": "2.16.840.1.101.3.4.2.2",
    "SHA-512": "2.16.840.1.101.3.4.2.3",
    "SHA-512/224": "2.16.840.1.101.3.4.2.5",
    "SHA-512/256": "2.16.840.1.101.3.4.2.6",
    "SHA3-224": "2.16.840.1.101.3.4.2.7",
    "SHA3-256": "2.16.840.1.101.3.4.2.8",
    "SHA3-384": "2.16.840.1.101.3.4.2.9",
    "SHA3-512": "2.16.840.1.101.3.4.2.10",
    "RIPEMD-160": "1.3.36.3.2.1",
}

HASH_DIGEST_SIZES = {
    "MD2": 16, "MD4": 16, "MD5": 16, "SHA-1": 20,
    "SHA-224": 28, "SHA-256": 32, "SHA-384": 48, "SHA-512": 64,
    "SHA-512/224": 28, "SHA-512/256": 32,
    "SHA3-224": 28, "SHA3-256": 32, "SHA3-384": 48, "SHA3-512": 64,
    "RIPEMD-160": 20,
}


def canonical_hash_name(name):
    """Map spellings such as 'sha256', 'SHA512_256', 'sha3_384', 'SHA-1',
    'ripemd160' to the keys of HASH_OIDS.  KeyError if unknown."""
    if name in HASH_OIDS:
        return name
    s = name.upper().replace("_", "-").replace(" ", "")
    if s in HASH_OIDS:
        return s
    flat = s.replace("-", "").replace("/", "")
    for key in HASH_OIDS:
        if key.replace("-", "").replace("/", "") == flat:
            return key
    raise KeyError("unknown hash function %r" % (name,))


def _der_len(n):
    if n < 0x80:
        return bytes([n])
    body = i2osp(n, (n.bit_length() + 7) // 8)
    return bytes([0x80 | len(body)]) + body


def _der_tlv(tag, content):
    return bytes([tag]) + _der_len(len(content)) + content


def _der_oid(dotted):
    arcs = [int(a) for a in dotted.split(".")]
    if len(arcs) < 2 or arcs[0] > 2 or (arcs[0] < 2 and arcs[1] > 39):
        raise ValueError("invalid OID")
    subids = [40 * arcs[0] + arcs[1]] + arcs[2:]
    body = b""
    for v in subids:
        chunk = [v & 0x7F]
        v >>= 7
        while v:
            chunk.append(0x80 | (v & 0x7F))
            v >>= 7
        body += bytes(reversed(chunk))
    return _der_tlv(0x06, body)


def digest_info(hash_name, digest, with_null=True):
    """DER encoding T of
         DigestInfo ::= SEQUENCE { digestAlgorithm AlgorithmIdentifier,
                                   digest OCTET STRING }
    with the AlgorithmIdentifier parameters either NULL or absent."""
    oid = HASH_OIDS[canonical_hash_name(hash_name)]
    params = b"\x05\x00" if with_null else b""
    alg = _der_tlv(0x30, _der_oid(oid) + params)
    return _der_tlv(0x30, alg + _der_tlv(0x04, bytes(digest)))


def emsa_pkcs1_v15(hash_name, digest, em_len, with_null=True,
                   check_digest_len=True):
    """EMSA-PKCS1-v1_5-ENCODE (9.2) starting from H = Hash(M) (= digest).

    EM = 0x00 || 0x01 || PS (0xff...) || 0x00 || T, len(PS) >= 8.
    ValueError('intended encoded message length too short') if
    em_len < tLen + 11.
    """
    digest = bytes(digest)
    name = canonical_hash_name(hash_name)
    if check_digest_len and len(digest) != HASH_DIGEST_SIZES[name]:
        raise ValueError("digest length does not match %s" % name)
    t = digest_info(name, digest, with_null)           # step 2
    if em_len < len(t) + 11:                           # step 3
        raise ValueError("intended encoded message length too short")
    ps = b"\xff" * (em_len - len(t) - 3)               # step 4
    em = b"\x00\x01" + ps + b"\x00" + t                # step 5
    assert len(em) == em_len and len(ps) >= 8
    return em


# RFC 8017 A.2.4: "The parameters field associated with id-md2 and id-md5
# shall have a value of type NULL" (MD4 is treated alike), whereas for the SHA
# family "implementations MUST accept AlgorithmIdentifier values both without
# parameters and with NULL parameters".
NULL_PARAMS_REQUIRED = frozenset({"MD2", "MD4", "MD5"})


def pkcs1v15_sig_verify_em(em, hash_name, digest, allow_absent_params=None):
    """RSASSA-PKCS1-V1_5-VERIFY steps 3-4 (8.2.2): compare em against the
    canonical re-encoding.  True iff em equals the canonical EM with NULL
    parameters or (when allowed) the canonical EM with absent parameters;
    anything else - BER variants, short PS, trailing garbage, ... - is False.

    allow_absent_params: None  -> RFC 8017 A.2.4 policy: the variant without
                                  NULL is accepted for every hash except
                                  MD2 / MD4 / MD5 (NULL_PARAMS_REQUIRED)
                         True  -> accepted for every hash
                         False -> only the encoding with NULL is accepted
    """
    em = bytes(em)
    name = canonical_hash_name(hash_name)
    if allow_absent_params is None:
        allow_absent_params = name not in NULL_PARAMS_REQUIRED
    variants = (True, False) if allow_absent_params else (True,)
    for with_null in variants:
        try:
            expected = emsa_pkcs1_v15(name, digest, len(em), with_null)
        except ValueError:
            continue
        if expected == em:
            return True
    return False


# --------------------------------------------------------------------------
# 9.1  EMSA-PSS
# --------------------------------------------------------------------------

def _clear_left_bits(data, nbits):
    """Set the leftmost nbits (0..8) bits of the first octet to zero."""
    if nbits == 0 or not data:
        return bytes(data)
    return bytes([data[0] & (0xFF >> nbits)]) + bytes(data[1:])


def pss_build_em(mhash, em_bits, salt, hash_fn, hlen, *, trailer=0xbc,
                 ps_override=None, sep=0x01, top_bits_set=False,
                 h_override=None, mgf=None):
    """EMSA-PSS-ENCODE (9.1.1 steps 3-13) with hooks to craft malformed EMs.

    trailer       last octet of EM (0xbc when well formed)
    ps_override   replaces the all-zero PS; same length
                  (emLen - sLen - hLen - 2).  Note: bits of PS that fall into
                  the leftmost 8emLen - emBits bits are cleared by step 11 and
                  ignored by the verifier (9.1.2 step 9), so a PS that is
                  non-zero ONLY there is still valid; use pss_verify to get
                  the expected verdict.
    sep           the octet between PS and salt (0x01 when well formed); when
                  PS is empty the same caveat about erased bits applies
    top_bits_set  set the lowest of the leftmost 8emLen - emBits bits of
                  maskedDB instead of clearing them all (9.1.2 step 6 must
                  reject); ValueError when em_bits is a multiple of 8 since
                  there is no such bit.  The resulting EM may be >= n.
    h_override    use this value (hLen octets) in place of H both as MGF seed
                  and in EM, so that DB decodes correctly and only the final
                  comparison H' == H (step 14) fails
    """
    mhash = bytes(mhash)
    salt = bytes(salt)
    if mgf is None:
        mgf = _default_mgf(hash_fn)
    if len(hash_fn(b"")) != hlen:
        raise ValueError("hlen does not match hash_fn")
    if len(mhash) != hlen:
        raise ValueError("mHash must be hLen octets")
    slen = len(salt)
    em_len = (em_bits + 7) // 8
    if em_len < hlen + slen + 2:                       # step 3
        raise ValueError("encoding error")
    m_prime = bytes(8) + mhash + salt                  # step 5
    h = hash_fn(m_prime)                               # step 6
    if h_override is not None:
        h = bytes(h_override)
        if len(h) != hlen:
            raise ValueError("h_override must be hLen octets")
    ps_len = em_len - slen - hlen - 2
    if ps_override is None:
        ps = bytes(ps_len)                             # step 7
    else:
        ps = bytes(ps_override)
        if len(ps) != ps_len:
            raise ValueError("ps_override must be %d octets" % ps_len)
    if not 0 <= sep <= 255 or not 0 <= trailer <= 255:
        raise ValueError("sep/trailer must be octets")
    db = ps + bytes([sep]) + salt                      # step 8
    assert len(db) == em_len - hlen - 1
    db_mask = mgf(h, em_len - hlen - 1)                # step 9
    masked_db = _xor(db, db_mask)                      # step 10
    nbits = 8 * em_len - em_bits
    if top_bits_set:
        if nbits == 0:
            raise ValueError("emBits is a multiple of 8: no top bits to set")
        masked_db = _clear_left_bits(masked_db, nbits)
        masked_db = bytes([masked_db[0] | (0x80 >> (nbits - 1))]) + masked_db[1:]
    else:
        masked_db = _clear_left_bits(masked_db, nbits)  # step 11
    em = masked_db + h + bytes([trailer])              # step 12
    assert len(em) == em_len
    return em


def pss_encode(mhash, em_bits, salt, hash_fn, hlen, mgf=None):
    """EMSA-PSS-ENCODE (9.1.1) from mHash = Hash(M) with a caller supplied
    salt.  Returns EM of ceil(emBits/8) octets; ValueError('encoding error')
    if emLen < hLen + sLen + 2."""
    return pss_build_em(mhash, em_bits, salt, hash_fn, hlen, mgf=mgf)


def pss_verify(mhash, em, em_bits, slen, hash_fn, hlen, mgf=None):
    """EMSA-PSS-VERIFY (9.1.2) from mHash = Hash(M).  True = "consistent".

    em must have exactly emLen = ceil(emBits/8) octets (otherwise False).
    """
    mhash = bytes(mhash)
    em = bytes(em)
    if mgf is None:
        mgf = _default_mgf(hash_fn)
    if len(hash_fn(b"")) != hlen:
        raise ValueError("hlen does not match hash_fn")
    if len(mhash) != hlen:
        raise ValueError("mHash must be hLen octets")
    if slen < 0:
        raise ValueError("negative salt length")
    em_len = (em_bits + 7) // 8
    if len(em) != em_len:
        return False
    if em_len < hlen + slen + 2:                       # step 3
        return False
    if em[-1] != 0xbc:                                 # step 4
        return False
    masked_db = em[:em_len - hlen - 1]                 # step 5
    h = em[em_len - hlen - 1:em_len - 1]
    nbits = 8 * em_len - em_bits
    if nbits and (masked_db[0] >> (8 - nbits)) != 0:   # step 6
        return False
    db_mask = mgf(h, em_len - hlen - 1)                # step 7
    db = _xor(masked_db, db_mask)                      # step 8
    db = _clear_left_bits(db, nbits)                   # step 9
    ps_len = em_len - hlen - slen - 2
    if any(db[:ps_len]):                               # step 10
        return False
    if db[ps_len] != 0x01:
        return False
    salt = db[len(db) - slen:] if slen else b""        # step 11
    m_prime = bytes(8) + mhash + salt                  # step 12
    h2 = hash_fn(m_prime)                              # step 13
    return h2 == h                                     # step 14


# --------------------------------------------------------------------------
# Self test
# --------------------------------------------------------------------------

def _check(cond, msg):
    if not cond:
        raise AssertionError(msg)


def _hfn(name):
    def f(data):
        return hashlib.new(name, data).digest()
    return f


_SELFTEST_HASHES = [
    ("sha1", 20), ("sha224", 28), ("sha256", 32), ("sha384", 48),
    ("sha512", 64), ("sha3_256", 32), ("md5", 16),
]

# DigestInfo prefixes printed in RFC 8017, section 9.2, note 1.
_RFC8017_DIGESTINFO_PREFIXES = {
    "MD2": "3020300c06082a864886f70d020205000410",
    "MD5": "3020300c06082a864886f70d020505000410",
    "SHA-1": "3021300906052b0e03021a05000414",
    "SHA-224": "302d300d06096086480165030402040500041c",
    "SHA-256": "3031300d060960864801650304020105000420",
    "SHA-384": "3041300d060960864801650304020205000430",
    "SHA-512": "3051300d060960864801650304020305000440",
    "SHA-512/224": "302d300d06096086480165030402050500041c",
    "SHA-512/256": "3031300d060960864801650304020605000420",
}


def _nonzero_bytes(rng, n):
    return bytes(rng.randrange(1, 256) for _ in range(n))


def _selftest_primitives(rng, counts):
    _check(i2osp(0, 0) == b"", "i2osp(0,0)")
    _check(i2osp(0x0102, 4) == b"\x00\x00\x01\x02", "i2osp padding")
    for bad in ((256, 1), (1, 0), (-1, 2)):
        try:
            i2osp(*bad)
        except ValueError:
            pass
        else:
            raise AssertionError("i2osp%r must fail" % (bad,))
    for _ in range(200):
        n = rng.randrange(0, 40)
        b = rng.randbytes(n)
        _check(i2osp(os2ip(b), n) == b, "i2osp/os2ip round trip")
        _check(os2ip(b) == int.from_bytes(b, "big"), "os2ip vs int.from_bytes")
        counts["i2osp_roundtrip"] += 1
    # MGF1: prefix property and explicit first block
    for name, hlen in _SELFTEST_HASHES:
        h = _hfn(name)
        seed = rng.randbytes(rng.randrange(0, 50))
        full = mgf1(seed, 3 * hlen + 5, h)
        _check(len(full) == 3 * hlen + 5, "mgf1 length")
        _check(full[:hlen] == h(seed + b"\x00\x00\x00\x00"), "mgf1 block 0")
        _check(full[hlen:2 * hlen] == h(seed + b"\x00\x00\x00\x01"),
               "mgf1 block 1")
        for ln in (0, 1, hlen - 1, hlen, hlen + 1):
            _check(mgf1(seed, ln, h) == full[:ln], "mgf1 prefix")
        counts["mgf1"] += 1


def _selftest_oaep(rng, counts):
    for name, hlen in _SELFTEST_HASHES:
        h = _hfn(name)
        for k in (2 * hlen + 2, 2 * hlen + 3, 2 * hlen + 20, 128, 256, 257):
            if k < 2 * hlen + 2:
                continue
            mmax = oaep_max_msg_len(k, hlen)
            for mlen in sorted({0, 1, mmax // 2, max(mmax - 1, 0), mmax}):
                if mlen > mmax:
                    continue
                label = rng.randbytes(rng.choice([0, 0, 1, 7, 100]))
                msg = rng.randbytes(mlen)
                seed = rng.randbytes(hlen)
                em = oaep_encode(msg, k, label, h, hlen, seed)
                _check(len(em) == k and em[0] == 0, "oaep EM shape")
                _check(oaep_decode(em, label, h, hlen) == msg,
                       "oaep round trip %s k=%d mlen=%d" % (name, k, mlen))
                # same through oaep_build_em
                tail = bytes(mmax - mlen) + b"\x01" + msg
                _check(oaep_build_em(k, h, hlen, label, seed, tail) == em,
                       "oaep_build_em != oaep_encode")
                counts["oaep_roundtrip"] += 1
                # independent MGF hash
                mg = lambda s, l: mgf1(s, l, _hfn("sha1"))
                em2 = oaep_encode(msg, k, label, h, hlen, seed, mgf=mg)
                _check(oaep_decode(em2, label, h, hlen, mgf=mg) == msg,
                       "oaep round trip with custom mgf")
                if name != "sha1":
                    _check(em2 != em, "custom mgf has no effect")
                # --- malformations
                # wrong label
                _check(oaep_decode(em, label + b"x", h, hlen) is None,
                       "oaep wrong label accepted")
                # Y != 0
                bad = oaep_build_em(k, h, hlen, label, seed, tail,
                                    y=rng.randrange(1, 256))
                _check(oaep_decode(bad, label, h, hlen) is None,
                       "oaep Y!=0 accepted")
                # lHash mismatch
                lh = bytearray(h(label))
                lh[rng.randrange(hlen)] ^= 1 << rng.randrange(8)
                bad = oaep_build_em(k, h, hlen, label, seed, tail,
                                    lhash_override=bytes(lh))
                _check(oaep_decode(bad, label, h, hlen) is None,
                       "oaep lHash mismatch accepted")
                # no 0x01 separator at all (all zero tail)
                bad = oaep_build_em(k, h, hlen, label, seed, bytes(mmax + 1))
                _check(oaep_decode(bad, label, h, hlen) is None,
                       "oaep missing separator accepted")
                # first non zero octet is not 0x01
                t2 = bytearray(tail)
                t2[mmax - mlen] = rng.choice([0x02, 0x03, 0x81, 0xff])
                bad = oaep_build_em(k, h, hlen, label, seed, bytes(t2))
                _check(oaep_decode(bad, label, h, hlen) is None,
                       "oaep bad separator accepted")
                # non zero octet inside PS (other than 0x01, which would
                # just be an earlier separator)
                if mmax - mlen > 0:
                    t2 = bytearray(tail)
                    t2[rng.randrange(mmax - mlen)] = rng.randrange(2, 256)
                    bad = oaep_build_em(k, h, hlen, label, seed, bytes(t2))
                    _check(oaep_decode(bad, label, h, hlen) is None,
                           "oaep dirty PS accepted")
                    # a 0x01 earlier in PS is a VALID message (longer M)
                    t2 = bytearray(tail)
                    pos = rng.randrange(mmax - mlen)
                    t2[pos] = 0x01
                    alt = oaep_build_em(k, h, hlen, label, seed, bytes(t2))
                    _check(oaep_decode(alt, label, h, hlen) ==
                           bytes(t2[pos + 1:]), "oaep early separator")
                # bit flip in EM -> (overwhelmingly) rejected
                b2 = bytearray(em)
                b2[rng.randrange(1, k)] ^= 1 << rng.randrange(8)
                _check(oaep_decode(bytes(b2), label, h, hlen) is None,
                       "oaep bit flip accepted")
                counts["oaep_malformed_rejected"] += 6
            # message too long
            try:
                oaep_encode(bytes(mmax + 1), k, b"", h, hlen, bytes(hlen))
            except ValueError:
                pass
            else:
                raise AssertionError("oaep message too long accepted")
        # too short EM
        _check(oaep_decode(bytes(2 * hlen + 1), b"", h, hlen) is None,
               "oaep short EM accepted")


def _selftest_v15_enc(rng, counts):
    for k in (11, 12, 64, 128, 256):
        for mlen in sorted({0, 1, (k - 11) // 2, k - 11}):
            if mlen > k - 11:
                continue
            msg = rng.randbytes(mlen)
            ps = _nonzero_bytes(rng, k - 3 - mlen)
            em = pkcs1v15_enc_pad(msg, k, ps)
            _check(len(em) == k, "v1.5 EM length")
            _check(pkcs1v15_enc_decode(em) == msg, "v1.5 enc round trip")
            counts["v15enc_roundtrip"] += 1
            for pos, val in ((0, 1), (0, 0xff), (1, 1), (1, 0), (1, 3)):
                b = bytearray(em)
                b[pos] = val
                _check(pkcs1v15_enc_decode(bytes(b)) is None,
                       "v1.5 bad header accepted")
                counts["v15enc_malformed_rejected"] += 1
            # zero inside the first 8 octets of PS
            for pos in range(2, 10):
                b = bytearray(em)
                b[pos] = 0
                _check(pkcs1v15_enc_decode(bytes(b)) is None,
                       "v1.5 short PS accepted (zero at %d)" % pos)
                counts["v15enc_malformed_rejected"] += 1
            # zero at PS index >= 8 gives a valid, longer message
            if len(ps) > 8:
                pos = rng.randrange(10, 2 + len(ps))
                b = bytearray(em)
                b[pos] = 0
                _check(pkcs1v15_enc_decode(bytes(b)) == bytes(b[pos + 1:]),
                       "v1.5 early separator")
            # no separator
            b = b"\x00\x02" + _nonzero_bytes(rng, k - 2)
            _check(pkcs1v15_enc_decode(b) is None, "v1.5 no separator")
            counts["v15enc_malformed_rejected"] += 1
        for bad_ps in (_nonzero_bytes(rng, k - 3)[:-1] + b"\x00",
                       _nonzero_bytes(rng, k - 2),
                       _nonzero_bytes(rng, k - 4)):
            try:
                pkcs1v15_enc_pad(b"", k, bad_ps)
            except ValueError:
                pass
            else:
                raise AssertionError("bad PS accepted by pkcs1v15_enc_pad")
        try:
            pkcs1v15_enc_pad(bytes(k - 10), k, b"\x01" * 7)
        except ValueError:
            pass
        else:
            raise AssertionError("v1.5 message too long accepted")
    _check(pkcs1v15_enc_decode(b"\x00\x02" + b"\x01" * 7 + b"\x00") is None,
           "v1.5 k<11 accepted")


def _selftest_emsa_v15(rng, counts):
    for name, prefix in _RFC8017_DIGESTINFO_PREFIXES.items():
        d = rng.randbytes(HASH_DIGEST_SIZES[name])
        _check(digest_info(name, d) == bytes.fromhex(prefix) + d,
               "DigestInfo prefix for %s differs from RFC 8017" % name)
        counts["digestinfo_rfc_prefix"] += 1
    for name in HASH_OIDS:
        dl = HASH_DIGEST_SIZES[name]
        d = rng.randbytes(dl)
        t1 = digest_info(name, d, True)
        t0 = digest_info(name, d, False)
        _check(len(t1) == len(t0) + 2, "NULL is two octets")
        for with_null, t in ((True, t1), (False, t0)):
            min_len = len(t) + 11
            for em_len in (min_len, min_len + 1, 128, 256):
                if em_len < min_len:
                    continue
                em = emsa_pkcs1_v15(name, d, em_len, with_null)
                _check(len(em) == em_len, "emsa length")
                if not with_null:
                    _check(pkcs1v15_sig_verify_em(em, name, d) ==
                           (name not in NULL_PARAMS_REQUIRED),
                           "absent parameters policy (A.2.4)")
                    _check(not pkcs1v15_sig_verify_em(em, name, d, False),
                           "allow_absent_params=False")
                _check(em[:2] == b"\x00\x01" and em.endswith(b"\x00" + t)
                       and set(em[2:em_len - len(t) - 1]) == {0xff},
                       "emsa layout")
                _check(pkcs1v15_sig_verify_em(em, name, d, True), "emsa verify")
                counts["emsa_v15_ok"] += 1
                # malformations
                muts = []
                b = bytearray(em); b[0] = 1; muts.append(b)
                b = bytearray(em); b[1] = 2; muts.append(b)
                b = bytearray(em); b[2 + rng.randrange(em_len - len(t) - 3)] = 0xfe
                muts.append(b)
                b = bytearray(em); b[em_len - len(t) - 1] = 0xff; muts.append(b)
                b = bytearray(em); b[-1] ^= 1; muts.append(b)
                b = bytearray(em); b[rng.randrange(em_len)] ^= 1 << rng.randrange(8)
                muts.append(b)
                muts.append(bytearray(em[1:]))            # shorter
                muts.append(bytearray(b"\x00" + em))      # longer
                # trailing garbage hidden by shortening PS
                muts.append(bytearray(b"\x00\x01" + b"\xff" * (em_len - len(t) - 4)
                                      + b"\x00" + t + b"\x00"))
                for m in muts:
                    _check(not pkcs1v15_sig_verify_em(bytes(m), name, d, True),
                           "emsa malformed accepted")
                    counts["emsa_v15_malformed_rejected"] += 1
            try:
                emsa_pkcs1_v15(name, d, min_len - 1, with_null)
            except ValueError as e:
                _check("intended encoded message length too short" in str(e),
                       "emsa short message text")
            else:
                raise AssertionError("emsa too short accepted")
        # other digest
        d2 = bytes([d[0] ^ 1]) + d[1:]
        _check(not pkcs1v15_sig_verify_em(emsa_pkcs1_v15(name, d, 128), name, d2),
               "emsa other digest accepted")
    _check(canonical_hash_name("sha256") == "SHA-256", "name alias")
    _check(canonical_hash_name("SHA512_256") == "SHA-512/256", "name alias")
    _check(canonical_hash_name("sha3_384") == "SHA3-384", "name alias")
    _check(canonical_hash_name("SHA1") == "SHA-1", "name alias")
    _check(canonical_hash_name("ripemd160") == "RIPEMD-160", "name alias")


def _selftest_pss(rng, counts):
    for name, hlen in _SELFTEST_HASHES:
        h = _hfn(name)
        for mod_bits in (8 * (hlen + 2) + 1, 512, 1024, 1025, 1026, 1031,
                         1032, 2048):
            em_bits = mod_bits - 1
            em_len = (em_bits + 7) // 8
            for slen in sorted({0, 1, hlen, em_len - hlen - 2,
                                max(em_len - hlen - 3, 0)}):
                if slen < 0:
                    continue
                if em_len < hlen + slen + 2:
                    try:
                        pss_encode(bytes(hlen), em_bits, bytes(slen), h, hlen)
                    except ValueError:
                        pass
                    else:
                        raise AssertionError("pss encoding error expected")
                    continue
                mhash = h(rng.randbytes(10))
                salt = rng.randbytes(slen)
                em = pss_encode(mhash, em_bits, salt, h, hlen)
                _check(len(em) == em_len, "pss EM length")
                _check(os2ip(em).bit_length() <= em_bits, "pss EM bit length")
                _check(pss_verify(mhash, em, em_bits, slen, h, hlen),
                       "pss round trip %s emBits=%d sLen=%d"
                       % (name, em_bits, slen))
                counts["pss_roundtrip"] += 1
                mg = lambda s, l: mgf1(s, l, _hfn("sha512"))
                em2 = pss_encode(mhash, em_bits, salt, h, hlen, mgf=mg)
                _check(pss_verify(mhash, em2, em_bits, slen, h, hlen, mgf=mg),
                       "pss round trip custom mgf")
                if name != "sha512" and em_len > hlen + 2:
                    _check(not pss_verify(mhash, em2, em_bits, slen, h, hlen),
                           "pss custom mgf has no effect")
                # --- rejections
                rej = []
                # wrong message hash
                mh2 = bytes([mhash[0] ^ 0x80]) + mhash[1:]
                _check(not pss_verify(mh2, em, em_bits, slen, h, hlen),
                       "pss wrong mHash accepted")
                # wrong expected salt length
                for s2 in (slen - 1, slen + 1):
                    if s2 >= 0:
                        _check(not pss_verify(mhash, em, em_bits, s2, h, hlen),
                               "pss wrong sLen accepted")
                # wrong length
                _check(not pss_verify(mhash, em + b"\xbc", em_bits, slen, h, hlen),
                       "pss long EM accepted")
                _check(not pss_verify(mhash, em[1:], em_bits, slen, h, hlen),
                       "pss short EM accepted")
                rej.append(("trailer", pss_build_em(
                    mhash, em_bits, salt, h, hlen,
                    trailer=rng.choice([0x00, 0xbd, 0xcc, 0xff]))))
                nbits = 8 * em_len - em_bits
                ps_len = em_len - slen - hlen - 2
                bad_sep = rng.choice([0x00, 0x02, 0x81, 0xff])
                if ps_len == 0 and nbits:
                    # the separator is the first octet of DB: its leftmost
                    # bits are erased, 0x81 may legitimately read as 0x01
                    ok_em = pss_build_em(mhash, em_bits, salt, h, hlen,
                                         sep=0x01 | (0x100 >> nbits))
                    _check(ok_em == em, "erased separator bits must not matter")
                    bad_sep = 0x00
                rej.append(("sep", pss_build_em(
                    mhash, em_bits, salt, h, hlen, sep=bad_sep)))
                if nbits:
                    rej.append(("topbits", pss_build_em(
                        mhash, em_bits, salt, h, hlen, top_bits_set=True)))
                else:
                    try:
                        pss_build_em(mhash, em_bits, salt, h, hlen,
                                     top_bits_set=True)
                    except ValueError:
                        pass
                    else:
                        raise AssertionError("top_bits_set needs spare bits")
                if ps_len > 0:
                    ps = bytearray(ps_len)
                    pos = rng.randrange(ps_len)
                    # keep clear of the bits erased by step 11
                    ps[pos] = 0x01 if pos == 0 else rng.randrange(1, 256)
                    if not (pos == 0 and nbits == 8):
                        rej.append(("ps", pss_build_em(
                            mhash, em_bits, salt, h, hlen,
                            ps_override=bytes(ps))))
                    if nbits:
                        # non zero only in the erased bits: still consistent
                        ps = bytearray(ps_len)
                        ps[0] = 0x80
                        ok = pss_build_em(mhash, em_bits, salt, h, hlen,
                                          ps_override=bytes(ps))
                        _check(ok == em, "erased PS bits must not matter")
                ho = bytearray(h(bytes(8) + mhash + salt))
                ho[rng.randrange(hlen)] ^= 1 << rng.randrange(8)
                rej.append(("h", pss_build_em(mhash, em_bits, salt, h, hlen,
                                              h_override=bytes(ho))))
                b = bytearray(em)
                b[rng.randrange(em_len)] ^= 1 << rng.randrange(8)
                rej.append(("bitflip", bytes(b)))
                for what, bad in rej:
                    _check(len(bad) == em_len, "pss crafted length")
                    _check(not pss_verify(mhash, bad, em_bits, slen, h, hlen),
                           "pss malformed (%s) accepted %s emBits=%d sLen=%d"
                           % (what, name, em_bits, slen))
                    counts["pss_malformed_rejected"] += 1


# ---- cross validation with the openssl command line tool -----------------

def _run(args, stdin=None):
    p = subprocess.run(args, input=stdin, stdout=subprocess.PIPE,
                       stderr=subprocess.PIPE)
    return p.returncode, p.stdout, p.stderr


def _run_ok(args, stdin=None):
    rc, out, err = _run(args, stdin)
    if rc != 0:
        raise AssertionError("command failed (%d): %s\n%s"
                             % (rc, " ".join(args), err.decode("latin-1")))
    return out


def _parse_openssl_rsa_text(text):
    """Extract the integers from `openssl rsa -text -noout` output."""
    fields = {}
    current = None
    for line in text.splitlines():
        m = re.match(r"^([A-Za-z0-9]+):\s*(.*)$", line)
        if m and not line.startswith(" "):
            current = m.group(1)
            rest = m.group(2).strip()
            m2 = re.match(r"^(\d+) \(0x[0-9a-fA-F]+\)$", rest)
            if m2:
                fields[current] = int(m2.group(1))
                current = None
            else:
                fields[current] = ""
            continue
        if current is not None and line.startswith(" "):
            fields[current] += line.strip().replace(":", "")
    out = {}
    for key, val in fields.items():
        if isinstance(val, int):
            out[key] = val
        elif val and re.fullmatch(r"[0-9a-fA-F]+", val):
            out[key] = int(val, 16)
    return out


def _selftest_openssl(rng, counts):
    openssl = shutil.which("openssl")
    if openssl is None:
        counts["openssl_skipped"] += 1
        return
    tmp = tempfile.mkdtemp(prefix="rsa_pkcs1_selftest_")
    try:
        key = os.path.join(tmp, "key.pem")
        pub = os.path.join(tmp, "pub.pem")
        _run_ok([openssl, "genrsa", "-out", key, "1024"])
        _run_ok([openssl, "rsa", "-in", key, "-pubout", "-out", pub])
        text = _run_ok([openssl, "rsa", "-in", key, "-text", "-noout"])
        ints = _parse_openssl_rsa_text(text.decode("ascii", "replace"))
        n, e, d = ints["modulus"], ints["publicExponent"], ints["privateExponent"]
        p, q = ints["prime1"], ints["prime2"]
        _check(p * q == n and n.bit_length() == 1024, "key parse: n")
        _check((e * d) % ((p - 1) * (q - 1) // _gcd(p - 1, q - 1)) == 1,
               "key parse: d")
        k = 128
        mod_bits = n.bit_length()

        def wr(name, data):
            path = os.path.join(tmp, name)
            with open(path, "wb") as f:
                f.write(data)
            return path

        def rd(name):
            with open(os.path.join(tmp, name), "rb") as f:
                return f.read()

        # (a) OAEP
        for md, mgfmd in (("sha256", None), ("sha1", None), ("sha384", None),
                          ("sha256", "sha1"), ("sha1", "sha256")):
            h = _hfn(md)
            hlen = len(h(b""))
            mg = None if mgfmd is None else (
                lambda s, l, _m=mgfmd: mgf1(s, l, _hfn(_m)))
            opts = ["-pkeyopt", "rsa_padding_mode:oaep",
                    "-pkeyopt", "rsa_oaep_md:" + md]
            # openssl defaults the MGF1 digest to the OAEP digest
            opts += ["-pkeyopt", "rsa_mgf1_md:" + (mgfmd or md)]
            mmax = oaep_max_msg_len(k, hlen)
            for trial in range(4):
                label = b"" if trial % 2 == 0 else rng.randbytes(rng.randrange(1, 30))
                lopts = list(opts)
                if label:
                    lopts += ["-pkeyopt", "rsa_oaep_label:" + label.hex()]
                mlen = [0, 1, mmax, rng.randrange(mmax + 1)][trial]
                msg = rng.randbytes(mlen)
                # openssl -> us
                mp = wr("m.bin", msg)
                _run_ok([openssl, "pkeyutl", "-encrypt", "-pubin", "-inkey", pub,
                         "-in", mp, "-out", os.path.join(tmp, "c.bin")] + lopts)
                c = rd("c.bin")
                _check(len(c) == k, "openssl oaep ciphertext length")
                em = i2osp(rsa_private(n, d, os2ip(c)), k)
                got = oaep_decode(em, label, h, hlen, mgf=mg)
                _check(got == msg, "oaep_decode disagrees with openssl encrypt "
                       "(md=%s mgf=%s label=%s)" % (md, mgfmd, label.hex()))
                if label:
                    _check(oaep_decode(em, b"", h, hlen, mgf=mg) is None,
                           "oaep_decode ignores label")
                # us -> openssl
                em = oaep_encode(msg, k, label, h, hlen, rng.randbytes(hlen), mgf=mg)
                c = i2osp(rsa_public(n, e, os2ip(em)), k)
                cp = wr("c2.bin", c)
                out = _run_ok([openssl, "pkeyutl", "-decrypt", "-inkey", key,
                               "-in", cp] + lopts)
                _check(out == msg, "openssl decrypt disagrees with oaep_encode "
                       "(md=%s mgf=%s)" % (md, mgfmd))
                counts["openssl_oaep"] += 2
                # crafted malformed EMs must be refused by openssl as well
                tail = bytes(mmax - mlen) + b"\x01" + msg
                seed = rng.randbytes(hlen)
                bads = []
                if mgfmd is None:
                    bads.append(oaep_build_em(k, h, hlen, label, seed, tail, y=1))
                    bads.append(oaep_build_em(k, h, hlen, label, seed,
                                              bytes(mmax + 1)))
                    bads.append(oaep_build_em(k, h, hlen, label + b"!", seed, tail))
                    if mmax - mlen > 0:
                        t2 = bytearray(tail)
                        t2[0] = 0x02
                        bads.append(oaep_build_em(k, h, hlen, label, seed,
                                                  bytes(t2)))
                for bad in bads:
                    _check(oaep_decode(bad, label, h, hlen) is None,
                           "crafted OAEP EM accepted by reference")
                    if os2ip(bad) >= n:
                        continue
                    cp = wr("c3.bin", i2osp(rsa_public(n, e, os2ip(bad)), k))
                    rc, out, _ = _run([openssl, "pkeyutl", "-decrypt", "-inkey",
                                       key, "-in", cp] + lopts)
                    _check(rc != 0, "openssl accepted crafted malformed OAEP EM")
                    counts["openssl_oaep_malformed"] += 1

        # (b) PKCS#1 v1.5 encryption
        opts = ["-pkeyopt", "rsa_padding_mode:pkcs1"]
        for trial in range(6):
            mlen = [0, 1, k - 11, 16, 48, rng.randrange(k - 10)][trial]
            msg = rng.randbytes(mlen)
            mp = wr("m.bin", msg)
            _run_ok([openssl, "pkeyutl", "-encrypt", "-pubin", "-inkey", pub,
                     "-in", mp, "-out", os.path.join(tmp, "c.bin")] + opts)
            em = i2osp(rsa_private(n, d, os2ip(rd("c.bin"))), k)
            _check(pkcs1v15_enc_decode(em) == msg,
                   "pkcs1v15_enc_decode disagrees with openssl encrypt")
            em = pkcs1v15_enc_pad(msg, k, _nonzero_bytes(rng, k - 3 - mlen))
            cp = wr("c2.bin", i2osp(rsa_public(n, e, os2ip(em)), k))
            # OpenSSL 3 applies implicit rejection (returns a pseudo random
            # message instead of failing) - irrelevant for valid input.
            out = _run_ok([openssl, "pkeyutl", "-decrypt", "-inkey", key,
                           "-in", cp] + opts)
            _check(out == msg,
                   "openssl decrypt disagrees with pkcs1v15_enc_pad")
            counts["openssl_v15enc"] += 2

        # (c) RSASSA-PKCS1-v1_5
        for md, name in (("sha256", "SHA-256"), ("sha1", "SHA-1"),
                         ("sha384", "SHA-384"), ("sha512", "SHA-512"),
                         ("sha224", "SHA-224"), ("md5", "MD5"),
                         ("sha512-256", "SHA-512/256"),
                         ("sha512-224", "SHA-512/224"),
                         ("sha3-256", "SHA3-256"), ("sha3-512", "SHA3-512"),
                         ("sha3-224", "SHA3-224"), ("sha3-384", "SHA3-384")):
            msg = rng.randbytes(rng.randrange(0, 200))
            mp = wr("m.bin", msg)
            pyname = {"sha512-256": "sha512_256", "sha512-224": "sha512_224"
                      }.get(md, md.replace("-", "_"))
            digest = hashlib.new(pyname, msg).digest()
            sp = os.path.join(tmp, "s.bin")
            _run_ok([openssl, "dgst", "-" + md, "-sign", key, "-out", sp, mp])
            s = rd("s.bin")
            _check(len(s) == k, "signature length")
            em = i2osp(rsa_public(n, e, os2ip(s)), k)
            _check(pkcs1v15_sig_verify_em(em, name, digest),
                   "pkcs1v15_sig_verify_em rejects openssl signature (%s)" % md)
            _check(em == emsa_pkcs1_v15(name, digest, k, True),
                   "openssl %s signature is not the with-NULL encoding" % md)
            em = emsa_pkcs1_v15(name, digest, k, True)
            wr("s2.bin", i2osp(rsa_private(n, d, os2ip(em)), k))
            _check(rd("s2.bin") == s, "v1.5 signature is deterministic")
            out = _run_ok([openssl, "dgst", "-" + md, "-verify", pub,
                           "-signature", os.path.join(tmp, "s2.bin"), mp])
            _check(b"Verified OK" in out, "openssl rejects our v1.5 signature")
            # tampered EM
            bad = bytearray(em)
            bad[5] = 0xfe
            wr("s3.bin", i2osp(rsa_private(n, d, os2ip(bytes(bad))), k))
            rc, out, _ = _run([openssl, "dgst", "-" + md, "-verify", pub,
                               "-signature", os.path.join(tmp, "s3.bin"), mp])
            _check(rc != 0 and b"Verified OK" not in out,
                   "openssl accepts tampered v1.5 EM")
            counts["openssl_v15sig"] += 3

        # (d) RSASSA-PSS
        em_bits = mod_bits - 1
        em_len = (em_bits + 7) // 8
        for md, mgfmd, slen in (("sha256", None, 20), ("sha256", None, 32),
                                ("sha256", None, 0), ("sha1", None, 20),
                                ("sha384", None, 48), ("sha512", None, 62),
                                ("sha256", "sha1", 11), ("sha1", "sha512", 5),
                                ("sha256", None, 94)):
            h = _hfn(md)
            hlen = len(h(b""))
            mg = None if mgfmd is None else (
                lambda s, l, _m=mgfmd: mgf1(s, l, _hfn(_m)))
            sopts = ["-sigopt", "rsa_padding_mode:pss",
                     "-sigopt", "rsa_pss_saltlen:%d" % slen]
            if mgfmd:
                sopts += ["-sigopt", "rsa_mgf1_md:" + mgfmd]
            msg = rng.randbytes(rng.randrange(0, 200))
            mp = wr("m.bin", msg)
            mhash = h(msg)
            sp = os.path.join(tmp, "s.bin")
            _run_ok([openssl, "dgst", "-" + md] + sopts +
                    ["-sign", key, "-out", sp, mp])
            s = rd("s.bin")
            m_int = rsa_public(n, e, os2ip(s))
            _check(m_int.bit_length() <= em_bits, "pss representative size")
            em = i2osp(m_int, em_len)
            _check(pss_verify(mhash, em, em_bits, slen, h, hlen, mgf=mg),
                   "pss_verify rejects openssl signature md=%s mgf=%s sLen=%d"
                   % (md, mgfmd, slen))
            _check(not pss_verify(mhash, em, em_bits, slen + 1, h, hlen, mgf=mg),
                   "pss_verify ignores sLen")
            _check(not pss_verify(h(msg + b"x"), em, em_bits, slen, h, hlen,
                                  mgf=mg), "pss_verify ignores mHash")
            salt = rng.randbytes(slen)
            em = pss_encode(mhash, em_bits, salt, h, hlen, mgf=mg)
            wr("s2.bin", i2osp(rsa_private(n, d, os2ip(em)), k))
            out = _run_ok([openssl, "dgst", "-" + md] + sopts +
                          ["-verify", pub, "-signature",
                           os.path.join(tmp, "s2.bin"), mp])
            _check(b"Verified OK" in out, "openssl rejects our PSS signature")
            counts["openssl_pss"] += 2
            # crafted malformed EMs must be refused by openssl too
            bads = [pss_build_em(mhash, em_bits, salt, h, hlen, mgf=mg, trailer=0xcc),
                    pss_build_em(mhash, em_bits, salt, h, hlen, mgf=mg, sep=0x02),
                    pss_build_em(mhash, em_bits, salt, h, hlen, mgf=mg,
                                 top_bits_set=True),
                    pss_build_em(mhash, em_bits, salt, h, hlen, mgf=mg,
                                 h_override=bytes(hlen))]
            ps_len = em_len - slen - hlen - 2
            if ps_len > 1:
                bads.append(pss_build_em(mhash, em_bits, salt, h, hlen, mgf=mg,
                                         ps_override=bytes(ps_len - 1) + b"\x40"))
            for bad in bads:
                _check(not pss_verify(mhash, bad, em_bits, slen, h, hlen, mgf=mg),
                       "crafted PSS EM accepted by reference")
                if os2ip(bad) >= n:
                    continue
                wr("s3.bin", i2osp(rsa_private(n, d, os2ip(bad)), k))
                rc, out, _ = _run([openssl, "dgst", "-" + md] + sopts +
                                  ["-verify", pub, "-signature",
                                   os.path.join(tmp, "s3.bin"), mp])
                _check(rc != 0 and b"Verified OK" not in out,
                       "openssl accepts crafted malformed PSS EM")
                counts["openssl_pss_malformed"] += 1
    finally:
        shutil.rmtree(tmp, ignore_errors=True)


def _gcd(a, b):
    while b:
        a, b = b, a % b
    return a


def selftest(seed=None, use_openssl=True):
    """Run the self checks.  Raises AssertionError on the first mismatch,
    returns a dict of counters otherwise."""
    import collections
    rng = random.Random(seed)
    counts = collections.Counter()
    _selftest_primitives(rng, counts)
    _selftest_oaep(rng, counts)
    _selftest_v15_enc(rng, counts)
    _selftest_emsa_v15(rng, counts)
    _selftest_pss(rng, counts)
    if use_openssl:
        _selftest_openssl(rng, counts)
    return dict(counts)


if __name__ == "__main__":
    import json
    print(json.dumps(selftest(), indent=1, sort_keys=True))
