"""ctypes binding to the system OpenSSL 3.x ``libcrypto`` used as an independent oracle.

This module never imports ``Crypto`` (pycryptodome); it only wraps ``libcrypto.so.3``
(default + legacy provider).  All functions take and return ``bytes`` / ``int``.

Conventions
-----------
* Unsupported algorithm names, bad key / IV lengths and failing *encrypt* operations raise
  :class:`LibCryptoError`.
* A failing *decrypt / verify* operation (tag mismatch, key-wrap integrity failure, bad
  padding, rejected peer key) returns ``None``.
* Not thread-safe.

Run ``python libcrypto.py`` for the self test.
"""

import atexit
import ctypes
import ctypes.util
import os
import sys
import weakref
from ctypes import (POINTER, byref, c_char_p, c_int, c_size_t, c_uint, c_ulong,
                    c_void_p, create_string_buffer)

__all__ = [
    'LibCryptoError', 'available', 'legacy_available', 'version', 'ecb', 'make_ecb', 'cipher',
    'aead_encrypt', 'aead_decrypt', 'siv_encrypt', 'siv_decrypt', 'digest', 'mac', 'kdf',
    'decode_key', 'ecdh', 'xdh', 'selftest',
]


class LibCryptoError(Exception):
    """libcrypto is missing, an algorithm is unsupported, or an operation failed."""


# --------------------------------------------------------------------------------------
# library loading
# --------------------------------------------------------------------------------------

_CANDIDATES = (
    '/usr/lib/x86_64-linux-gnu/libcrypto.so.3',
    '/lib/x86_64-linux-gnu/libcrypto.so.3',
    '/usr/lib/aarch64-linux-gnu/libcrypto.so.3',
    '/usr/lib64/libcrypto.so.3',
    '/usr/lib/libcrypto.so.3',
)

_lib = None
_load_error = None
_providers = []


def _load():
    global _lib, _load_error
    names = [p for p in _CANDIDATES if os.path.exists(p)]
    found = ctypes.util.find_library('crypto')
    if found:
        names.append(found)
    names.append('libcrypto.so.3')
    last = None
    for n in names:
        try:
            lib = ctypes.CDLL(n)
            lib.OSSL_PROVIDER_load          # OpenSSL >= 3.0 only
            lib.EVP_MAC_fetch
            _lib = lib
            return
        except (OSError, AttributeError) as e:   # pragma: no cover
            last = e
    _load_error = last or OSError('libcrypto.so.3 not found')   # pragma: no cover


_load()


class _Missing(object):
    def __init__(self, name):
        self.name = name

    def __call__(self, *a):
        raise LibCryptoError('libcrypto function %s is not available' % self.name)


def _fn(name, restype, *argtypes):
    """Declare a libcrypto function with explicit restype/argtypes."""
    if _lib is None:
        return _Missing(name)
    try:
        f = getattr(_lib, name)
    except AttributeError:          # pragma: no cover
        return _Missing(name)
    f.restype = restype
    f.argtypes = list(argtypes)
    return f


_P = c_void_p
_PP = POINTER(c_void_p)
_PINT = POINTER(c_int)
_PSZ = POINTER(c_size_t)


class OSSL_PARAM(ctypes.Structure):
    _fields_ = [('key', c_char_p),
                ('data_type', c_uint),
                ('data', c_void_p),
                ('data_size', c_size_t),
                ('return_size', c_size_t)]


_PPARAM = POINTER(OSSL_PARAM)

OSSL_PARAM_INTEGER = 1
OSSL_PARAM_UNSIGNED_INTEGER = 2
OSSL_PARAM_UTF8_STRING = 4
OSSL_PARAM_OCTET_STRING = 5
_OSSL_PARAM_UNSET = ctypes.c_size_t(-1).value

# -- general
_OSSL_PROVIDER_load = _fn('OSSL_PROVIDER_load', _P, _P, c_char_p)
_OSSL_PROVIDER_unload = _fn('OSSL_PROVIDER_unload', c_int, _P)
_OpenSSL_version = _fn('OpenSSL_version', c_char_p, c_int)
_ERR_get_error = _fn('ERR_get_error', c_ulong)
_ERR_error_string_n = _fn('ERR_error_string_n', None, c_ulong, _P, c_size_t)
_ERR_clear_error = _fn('ERR_clear_error', None)

# -- ciphers
_EVP_CIPHER_fetch = _fn('EVP_CIPHER_fetch', _P, _P, c_char_p, c_char_p)
_EVP_CIPHER_free = _fn('EVP_CIPHER_free', None, _P)
_EVP_CIPHER_get_mode = _fn('EVP_CIPHER_get_mode', c_int, _P)
_EVP_CIPHER_get_flags = _fn('EVP_CIPHER_get_flags', c_ulong, _P)
_EVP_CIPHER_get_block_size = _fn('EVP_CIPHER_get_block_size', c_int, _P)
_EVP_CIPHER_CTX_new = _fn('EVP_CIPHER_CTX_new', _P)
_EVP_CIPHER_CTX_free = _fn('EVP_CIPHER_CTX_free', None, _P)
_EVP_CipherInit_ex = _fn('EVP_CipherInit_ex', c_int, _P, _P, _P, c_char_p, c_char_p, c_int)
_EVP_CipherUpdate = _fn('EVP_CipherUpdate', c_int, _P, _P, _PINT, c_char_p, c_int)
_EVP_CipherFinal_ex = _fn('EVP_CipherFinal_ex', c_int, _P, _P, _PINT)
_EVP_CIPHER_CTX_set_key_length = _fn('EVP_CIPHER_CTX_set_key_length', c_int, _P, c_int)
_EVP_CIPHER_CTX_get_key_length = _fn('EVP_CIPHER_CTX_get_key_length', c_int, _P)
_EVP_CIPHER_CTX_get_iv_length = _fn('EVP_CIPHER_CTX_get_iv_length', c_int, _P)
_EVP_CIPHER_CTX_set_padding = _fn('EVP_CIPHER_CTX_set_padding', c_int, _P, c_int)
_EVP_CIPHER_CTX_ctrl = _fn('EVP_CIPHER_CTX_ctrl', c_int, _P, c_int, c_int, _P)
_EVP_CIPHER_CTX_set_flags = _fn('EVP_CIPHER_CTX_set_flags', None, _P, c_int)

# -- digests
_EVP_MD_fetch = _fn('EVP_MD_fetch', _P, _P, c_char_p, c_char_p)
_EVP_MD_free = _fn('EVP_MD_free', None, _P)
_EVP_MD_get_size = _fn('EVP_MD_get_size', c_int, _P)
_EVP_MD_get_flags = _fn('EVP_MD_get_flags', c_ulong, _P)
_EVP_MD_CTX_new = _fn('EVP_MD_CTX_new', _P)
_EVP_MD_CTX_free = _fn('EVP_MD_CTX_free', None, _P)
_EVP_DigestInit_ex = _fn('EVP_DigestInit_ex', c_int, _P, _P, _P)
_EVP_DigestUpdate = _fn('EVP_DigestUpdate', c_int, _P, c_char_p, c_size_t)
_EVP_DigestFinal_ex = _fn('EVP_DigestFinal_ex', c_int, _P, _P, POINTER(c_uint))
_EVP_DigestFinalXOF = _fn('EVP_DigestFinalXOF', c_int, _P, _P, c_size_t)

# -- MACs
_EVP_MAC_fetch = _fn('EVP_MAC_fetch', _P, _P, c_char_p, c_char_p)
_EVP_MAC_free = _fn('EVP_MAC_free', None, _P)
_EVP_MAC_CTX_new = _fn('EVP_MAC_CTX_new', _P, _P)
_EVP_MAC_CTX_free = _fn('EVP_MAC_CTX_free', None, _P)
_EVP_MAC_init = _fn('EVP_MAC_init', c_int, _P, c_char_p, c_size_t, _PPARAM)
_EVP_MAC_update = _fn('EVP_MAC_update', c_int, _P, c_char_p, c_size_t)
_EVP_MAC_final = _fn('EVP_MAC_final', c_int, _P, _P, _PSZ, c_size_t)
_EVP_MAC_settable_ctx_params = _fn('EVP_MAC_settable_ctx_params', _PPARAM, _P)

# -- KDFs
_EVP_KDF_fetch = _fn('EVP_KDF_fetch', _P, _P, c_char_p, c_char_p)
_EVP_KDF_free = _fn('EVP_KDF_free', None, _P)
_EVP_KDF_CTX_new = _fn('EVP_KDF_CTX_new', _P, _P)
_EVP_KDF_CTX_free = _fn('EVP_KDF_CTX_free', None, _P)
_EVP_KDF_derive = _fn('EVP_KDF_derive', c_int, _P, _P, c_size_t, _PPARAM)
_EVP_KDF_settable_ctx_params = _fn('EVP_KDF_settable_ctx_params', _PPARAM, _P)

# -- keys
_OSSL_DECODER_CTX_new_for_pkey = _fn('OSSL_DECODER_CTX_new_for_pkey', _P,
                                     _PP, c_char_p, c_char_p, c_char_p, c_int, _P, c_char_p)
_OSSL_DECODER_CTX_free = _fn('OSSL_DECODER_CTX_free', None, _P)
_OSSL_DECODER_CTX_set_passphrase = _fn('OSSL_DECODER_CTX_set_passphrase', c_int,
                                       _P, c_char_p, c_size_t)
_PASSPHRASE_CB = ctypes.CFUNCTYPE(c_int, _P, c_size_t, _PSZ, _P, _P)
_OSSL_DECODER_CTX_set_passphrase_cb = _fn('OSSL_DECODER_CTX_set_passphrase_cb', c_int,
                                          _P, _PASSPHRASE_CB, _P)
_OSSL_DECODER_from_data = _fn('OSSL_DECODER_from_data', c_int, _P, _PP, _PSZ)
_EVP_PKEY_free = _fn('EVP_PKEY_free', None, _P)
_EVP_PKEY_get0_type_name = _fn('EVP_PKEY_get0_type_name', c_char_p, _P)
_EVP_PKEY_get_bn_param = _fn('EVP_PKEY_get_bn_param', c_int, _P, c_char_p, _PP)
_EVP_PKEY_get_utf8_string_param = _fn('EVP_PKEY_get_utf8_string_param', c_int,
                                      _P, c_char_p, _P, c_size_t, _PSZ)
_EVP_PKEY_get_octet_string_param = _fn('EVP_PKEY_get_octet_string_param', c_int,
                                       _P, c_char_p, _P, c_size_t, _PSZ)
_EVP_PKEY_get_raw_public_key = _fn('EVP_PKEY_get_raw_public_key', c_int, _P, _P, _PSZ)
_EVP_PKEY_get_raw_private_key = _fn('EVP_PKEY_get_raw_private_key', c_int, _P, _P, _PSZ)
_EVP_PKEY_new_raw_private_key_ex = _fn('EVP_PKEY_new_raw_private_key_ex', _P,
                                       _P, c_char_p, c_char_p, c_char_p, c_size_t)
_EVP_PKEY_new_raw_public_key_ex = _fn('EVP_PKEY_new_raw_public_key_ex', _P,
                                      _P, c_char_p, c_char_p, c_char_p, c_size_t)
_EVP_PKEY_CTX_new_from_name = _fn('EVP_PKEY_CTX_new_from_name', _P, _P, c_char_p, c_char_p)
_EVP_PKEY_CTX_new_from_pkey = _fn('EVP_PKEY_CTX_new_from_pkey', _P, _P, _P, c_char_p)
_EVP_PKEY_CTX_free = _fn('EVP_PKEY_CTX_free', None, _P)
_EVP_PKEY_fromdata_init = _fn('EVP_PKEY_fromdata_init', c_int, _P)
_EVP_PKEY_fromdata = _fn('EVP_PKEY_fromdata', c_int, _P, _PP, c_int, _PPARAM)
_EVP_PKEY_derive_init = _fn('EVP_PKEY_derive_init', c_int, _P)
_EVP_PKEY_derive_set_peer = _fn('EVP_PKEY_derive_set_peer', c_int, _P, _P)
_EVP_PKEY_derive = _fn('EVP_PKEY_derive', c_int, _P, _P, _PSZ)
_BN_num_bits = _fn('BN_num_bits', c_int, _P)
_BN_bn2bin = _fn('BN_bn2bin', c_int, _P, _P)
_BN_clear_free = _fn('BN_clear_free', None, _P)


def _errors():
    """Drain the OpenSSL error queue and return it as a string."""
    msgs = []
    buf = create_string_buffer(256)
    while True:
        e = _ERR_get_error()
        if not e:
            break
        _ERR_error_string_n(e, buf, len(buf))
        msgs.append(buf.value.decode('ascii', 'replace'))
    return '; '.join(msgs)


def _fail(what):
    raise LibCryptoError('%s failed: %s' % (what, _errors() or 'no OpenSSL error queued'))


if _lib is not None:
    for _name in (b'default', b'legacy'):
        _p = _OSSL_PROVIDER_load(None, _name)
        if _p:
            _providers.append((_name.decode(), _p))
    _ERR_clear_error()


def available():
    """True when libcrypto (>= 3.0) is loaded together with the default provider."""
    return _lib is not None and any(n == 'default' for n, _ in _providers)


def legacy_available():
    """True when the legacy provider (DES, BF, CAST5, RC2, RC4, MD4, PBKDF1...) is loaded."""
    return _lib is not None and any(n == 'legacy' for n, _ in _providers)


def version():
    if _lib is None:
        raise LibCryptoError('libcrypto not loaded: %r' % (_load_error,))
    return _OpenSSL_version(0).decode('ascii', 'replace')


def _need():
    if _lib is None:
        raise LibCryptoError('libcrypto not loaded: %r' % (_load_error,))


def _b(x, what='data'):
    """Coerce a bytes-like object to bytes."""
    if isinstance(x, bytes):
        return x
    if isinstance(x, (bytearray, memoryview)):
        return bytes(x)
    raise TypeError('%s must be bytes, not %s' % (what, type(x).__name__))


# --------------------------------------------------------------------------------------
# algorithm caches (fetched implementations are shared, freed at exit)
# --------------------------------------------------------------------------------------

_fetched = {}


def _fetch(kind, name):
    _need()
    k = (kind, name.lower())
    h = _fetched.get(k)
    if h is None:
        fetch = {'cipher': _EVP_CIPHER_fetch, 'md': _EVP_MD_fetch,
                 'mac': _EVP_MAC_fetch, 'kdf': _EVP_KDF_fetch}[kind]
        h = fetch(None, name.encode('ascii'), None)
        if not h:
            raise LibCryptoError('unsupported %s %r: %s' % (kind, name, _errors()))
        _fetched[k] = h
    return h


def _cleanup():     # pragma: no cover
    free = {'cipher': _EVP_CIPHER_free, 'md': _EVP_MD_free,
            'mac': _EVP_MAC_free, 'kdf': _EVP_KDF_free}
    for (kind, _), h in list(_fetched.items()):
        try:
            free[kind](h)
        except Exception:
            pass
    _fetched.clear()


atexit.register(_cleanup)


# --------------------------------------------------------------------------------------
# OSSL_PARAM construction
# --------------------------------------------------------------------------------------

class _Params(object):
    """Hand-built OSSL_PARAM array; keeps every referenced buffer alive."""

    def __init__(self, items=()):
        self._keep = []
        self._items = []
        for k, v in items:
            self.add(k, v)
        self._array = None

    def add(self, key, value):
        if isinstance(key, str):
            key = key.encode('ascii')
        if isinstance(value, bool):
            value = int(value)
        if isinstance(value, int):
            if value >= 0:
                if value >= 1 << 64:
                    raise LibCryptoError('integer parameter %r too large' % key)
                box = ctypes.c_uint64(value)
                typ = OSSL_PARAM_UNSIGNED_INTEGER
            else:
                box = ctypes.c_int64(value)
                typ = OSSL_PARAM_INTEGER
            size = 8
        elif isinstance(value, str):
            raw = value.encode('utf-8')
            box = create_string_buffer(raw, len(raw) + 1)
            typ = OSSL_PARAM_UTF8_STRING
            size = len(raw)
        elif isinstance(value, (bytes, bytearray, memoryview)):
            raw = bytes(value)
            box = create_string_buffer(raw, len(raw) + 1)
            typ = OSSL_PARAM_OCTET_STRING
            size = len(raw)
        elif isinstance(value, _BigNum):
            raw = value.native
            box = create_string_buffer(raw, len(raw) + 1)
            typ = OSSL_PARAM_UNSIGNED_INTEGER
            size = len(raw)
        else:
            raise TypeError('parameter %r: unsupported type %s' % (key, type(value).__name__))
        key = bytes(key)
        self._keep.append((key, box))
        self._items.append((key, typ, box, size))
        self._array = None

    def __len__(self):
        return len(self._items)

    @property
    def array(self):
        if self._array is None:
            arr = (OSSL_PARAM * (len(self._items) + 1))()
            for i, (key, typ, box, size) in enumerate(self._items):
                arr[i].key = key            # ctypes keeps a reference to the bytes object
                arr[i].data_type = typ
                arr[i].data = ctypes.addressof(box)
                arr[i].data_size = size
                arr[i].return_size = _OSSL_PARAM_UNSET
            # last entry is all-zero (terminator)
            self._array = arr
        return self._array


class _BigNum(object):
    """Marks an int to be passed as an arbitrary-size native-endian unsigned OSSL_PARAM."""

    def __init__(self, value, nbytes=None):
        n = max((value.bit_length() + 7) // 8, 1)
        if nbytes is not None:
            n = max(n, nbytes)
        self.native = value.to_bytes(n, sys.byteorder)


_settable_cache = {}


def _settable(kind, handle):
    """Names of the parameters an EVP_MAC / EVP_KDF implementation understands."""
    k = (kind, handle)
    names = _settable_cache.get(k)
    if names is None:
        f = _EVP_MAC_settable_ctx_params if kind == 'mac' else _EVP_KDF_settable_ctx_params
        arr = f(handle)
        names = set()
        i = 0
        while arr and arr[i].key is not None and i < 1000:
            names.add(arr[i].key.decode('ascii'))
            i += 1
        _settable_cache[k] = names
    return names


def _check_params(kind, alg, handle, params):
    """Providers silently ignore unknown parameters; turn that into an error."""
    known = _settable(kind, handle)
    if not known:           # pragma: no cover  (implementation does not publish its list)
        return
    for key, _, _, _ in params._items:
        if key.decode('ascii') not in known:
            raise LibCryptoError('%s %s: parameter %r is not supported by this OpenSSL '
                                 '(known: %s)' % (kind.upper(), alg, key.decode('ascii'),
                                                  ', '.join(sorted(known))))


# --------------------------------------------------------------------------------------
# symmetric ciphers
# --------------------------------------------------------------------------------------

_MODE_ECB, _MODE_CBC, _MODE_CFB, _MODE_OFB, _MODE_CTR, _MODE_GCM, _MODE_CCM = 1, 2, 3, 4, 5, 6, 7
_MODE_XTS, _MODE_WRAP, _MODE_OCB, _MODE_SIV = 0x10001, 0x10002, 0x10003, 0x10004

EVP_CTRL_SET_RC2_KEY_BITS = 0x3
EVP_CTRL_AEAD_SET_IVLEN = 0x9
EVP_CTRL_AEAD_GET_TAG = 0x10
EVP_CTRL_AEAD_SET_TAG = 0x11
EVP_CIPHER_CTX_FLAG_WRAP_ALLOW = 0x1

#: effective key bits used for RC2 when the caller does not specify them.  NOTE: this is the
#: RFC 2268 maximum (no reduction; pycryptodome's default), *not* OpenSSL's own default (128).
RC2_DEFAULT_EFFECTIVE_BITS = 1024

_MAX_INT = 0x7fffffff


def _is_rc2(name):
    return name.lower().startswith('rc2')


def _cipher_ctx(name, key, iv, enc, padding=False, rc2_effective_bits=None,
                pre_key=None):
    """Create and key an EVP_CIPHER_CTX.  The caller owns (frees) the returned ctx.

    pre_key(ctx, cipher) is called after the cipher is selected but before key/IV are set
    (used for IV-length / tag-length controls).  It may return the IV length to expect.
    """
    key = _b(key, 'key')
    if iv is not None:
        iv = _b(iv, 'iv')
    if not key:
        raise LibCryptoError('%s: empty key' % name)
    c = _fetch('cipher', name)
    enc = 1 if enc else 0
    ctx = _EVP_CIPHER_CTX_new()
    if not ctx:
        _fail('EVP_CIPHER_CTX_new')
    try:
        mode = _EVP_CIPHER_get_mode(c)
        if mode == _MODE_WRAP:
            _EVP_CIPHER_CTX_set_flags(ctx, EVP_CIPHER_CTX_FLAG_WRAP_ALLOW)
        if _EVP_CipherInit_ex(ctx, c, None, None, None, enc) != 1:
            _fail('EVP_CipherInit_ex(%s)' % name)
        if _EVP_CIPHER_CTX_get_key_length(ctx) != len(key):
            ok = _EVP_CIPHER_CTX_set_key_length(ctx, len(key))
            if ok <= 0 or _EVP_CIPHER_CTX_get_key_length(ctx) != len(key):
                raise LibCryptoError('%s: key length %d not accepted (%s)'
                                     % (name, len(key), _errors()))
        if _is_rc2(name):
            bits = RC2_DEFAULT_EFFECTIVE_BITS if rc2_effective_bits is None else rc2_effective_bits
            if not 1 <= bits <= 1024:
                raise LibCryptoError('RC2 effective key bits %r out of range' % (bits,))
            if _EVP_CIPHER_CTX_ctrl(ctx, EVP_CTRL_SET_RC2_KEY_BITS, bits, None) <= 0:
                _fail('EVP_CTRL_SET_RC2_KEY_BITS')
        elif rc2_effective_bits is not None:
            raise LibCryptoError('rc2_effective_bits given for non-RC2 cipher %s' % name)
        if pre_key is not None:
            pre_key(ctx, c)
        ivlen = _EVP_CIPHER_CTX_get_iv_length(ctx)
        if iv is None:
            if ivlen > 0 and mode != _MODE_WRAP:
                raise LibCryptoError('%s needs a %d-byte IV' % (name, ivlen))
        elif len(iv) != ivlen:
            if ivlen == 0 and len(iv) == 0:
                iv = None
            else:
                raise LibCryptoError('%s: IV length %d, expected %d' % (name, len(iv), ivlen))
        if _EVP_CipherInit_ex(ctx, None, None, key, iv, enc) != 1:
            _fail('EVP_CipherInit_ex(%s, key)' % name)
        if _EVP_CIPHER_CTX_set_padding(ctx, 1 if padding else 0) != 1:
            _fail('EVP_CIPHER_CTX_set_padding')
        _ERR_clear_error()
        return ctx
    except BaseException:
        _EVP_CIPHER_CTX_free(ctx)
        raise


def _update(ctx, data, want_out=True):
    """One EVP_CipherUpdate call.  Returns output bytes, or None on failure."""
    n = len(data)
    if n > _MAX_INT - 64:
        raise LibCryptoError('input too long')
    outl = c_int(0)
    if not want_out:
        if _EVP_CipherUpdate(ctx, None, byref(outl), data, n) != 1:
            return None
        return b''
    out = create_string_buffer(n + 64)
    if _EVP_CipherUpdate(ctx, out, byref(outl), data, n) != 1:
        return None
    if not 0 <= outl.value <= n + 64:       # pragma: no cover
        raise LibCryptoError('EVP_CipherUpdate returned a bad length')
    return out.raw[:outl.value]


def _final(ctx):
    outl = c_int(0)
    out = create_string_buffer(64)
    if _EVP_CipherFinal_ex(ctx, out, byref(outl)) != 1:
        return None
    return out.raw[:outl.value]


def _ecb_name(cipher, key):
    c = cipher.upper().replace('-', '').replace('_', '')
    n = len(key)
    if c == 'AES':
        if n not in (16, 24, 32):
            raise LibCryptoError('AES key length %d' % n)
        return 'aes-%d-ecb' % (8 * n)
    if c == 'DES':
        if n != 8:
            raise LibCryptoError('DES key length %d' % n)
        return 'des-ecb'
    if c in ('DES3', '3DES', 'TDES'):
        if n == 24:
            return 'des-ede3-ecb'
        if n == 16:
            return 'des-ede-ecb'
        raise LibCryptoError('DES3 key length %d' % n)
    if c in ('BF', 'BLOWFISH'):
        return 'bf-ecb'
    if c in ('CAST5', 'CAST', 'CAST128'):
        return 'cast5-ecb'
    if c in ('RC2', 'ARC2'):
        return 'rc2-ecb'
    raise LibCryptoError('unsupported ECB cipher %r' % cipher)


def ecb(cipher, key, data, encrypt=True, rc2_effective_bits=None):
    """Raw block primitive: ECB without padding.

    cipher in {'AES','DES','DES3','BF','CAST5','RC2'}.  For RC2, ``rc2_effective_bits=None``
    means 1024 (see RC2_DEFAULT_EFFECTIVE_BITS).  len(data) must be a multiple of the block.
    """
    key = _b(key, 'key')
    data = _b(data)
    name = _ecb_name(cipher, key)
    ctx = _cipher_ctx(name, key, None, encrypt, False, rc2_effective_bits)
    try:
        bs = _EVP_CIPHER_CTX_get_block_size(ctx)
        if len(data) % bs:
            raise LibCryptoError('%s: data length %d not a multiple of %d' % (name, len(data), bs))
        out = _update(ctx, data)
        fin = _final(ctx) if out is not None else None
        if out is None or fin is None or len(out) + len(fin) != len(data):
            _fail('%s ECB' % name)
        return out + fin
    finally:
        _EVP_CIPHER_CTX_free(ctx)


_EVP_CIPHER_CTX_get_block_size = _fn('EVP_CIPHER_CTX_get_block_size', c_int, _P)

# second prototype of EVP_CipherUpdate for the hot path (no POINTER() conversions)
if _lib is not None:
    _fast_update = ctypes.CFUNCTYPE(c_int, c_void_p, c_void_p, c_void_p, c_char_p, c_int)(
        ('EVP_CipherUpdate', _lib))
else:                                   # pragma: no cover
    _fast_update = _Missing('EVP_CipherUpdate')


class _CtxHolder(object):
    """Owns EVP_CIPHER_CTX pointers; frees them when garbage collected (or at exit)."""

    def __init__(self, *ctxs):
        self.ctxs = ctxs
        self._fin = weakref.finalize(self, _CtxHolder._free, ctxs)

    @staticmethod
    def _free(ctxs):
        for c in ctxs:
            _EVP_CIPHER_CTX_free(c)

    def close(self):
        self._fin()


def _make_ecb_closure(ctx_int, bs, holder):
    ctx = c_void_p(ctx_int)
    one = create_string_buffer(bs)
    outl = c_int(0)
    p_outl = ctypes.addressof(outl)
    upd = _fast_update

    def f(data):
        n = len(data)
        if n == bs:
            if upd(ctx, one, p_outl, data, n) != 1 or outl.value != n:
                raise LibCryptoError('EVP_CipherUpdate failed: %s' % _errors())
            return one.raw
        if n % bs or n > _MAX_INT:
            raise LibCryptoError('data length %d not a multiple of %d' % (n, bs))
        if n == 0:
            return b''
        buf = create_string_buffer(n)
        if upd(ctx, buf, p_outl, data, n) != 1 or outl.value != n:
            raise LibCryptoError('EVP_CipherUpdate failed: %s' % _errors())
        return buf.raw

    f._holder = holder          # keeps the ctx (and outl/one buffers via closure) alive
    return f


def make_ecb(cipher, key, rc2_effective_bits=None):
    """Return (encrypt, decrypt) closures: bytes -> bytes, raw ECB on whole blocks.

    The key schedule is computed once; each call is a single EVP_CipherUpdate.  ``data`` must
    be ``bytes`` whose length is a multiple of the block size (``enc.block_size``).
    """
    key = _b(key, 'key')
    name = _ecb_name(cipher, key)
    e = _cipher_ctx(name, key, None, True, False, rc2_effective_bits)
    try:
        d = _cipher_ctx(name, key, None, False, False, rc2_effective_bits)
    except BaseException:
        _EVP_CIPHER_CTX_free(e)
        raise
    holder = _CtxHolder(e, d)
    bs = _EVP_CIPHER_CTX_get_block_size(e)
    fe = _make_ecb_closure(e, bs, holder)
    fd = _make_ecb_closure(d, bs, holder)
    fe.block_size = fd.block_size = bs
    return fe, fd


def cipher(name, key, iv, data, encrypt=True, padding=False, rc2_effective_bits=None):
    """Generic EVP cipher by OpenSSL name (e.g. 'aes-128-cbc', 'bf-cbc', 'rc4', 'chacha20',
    'id-aes128-wrap', 'id-aes128-wrap-pad', 'aes-128-xts').

    Variable key lengths are honoured.  ``iv`` must have exactly the cipher's IV length
    (``None``/``b''`` for IV-less ciphers; ``None`` with the key-wrap modes selects the
    default IV of RFC 3394/5649).  'chacha20' takes 4-byte LE counter || 12-byte nonce.
    Decrypt failures (bad padding, wrap integrity, bad length) return ``None``; encrypt
    failures raise LibCryptoError.  For 'rc2-*' the effective key bits default to 1024.
    AEAD modes are refused here: use aead_encrypt / aead_decrypt / siv_*.
    """
    data = _b(data)
    c = _fetch('cipher', name)
    if _EVP_CIPHER_get_mode(c) in (_MODE_GCM, _MODE_CCM, _MODE_OCB, _MODE_SIV) or \
            'poly1305' in name.lower():
        raise LibCryptoError('%s is an AEAD; use aead_encrypt/aead_decrypt' % name)
    ctx = _cipher_ctx(name, key, iv, encrypt, padding, rc2_effective_bits)
    try:
        out = _update(ctx, data)
        fin = _final(ctx) if out is not None else None
        if out is None or fin is None:
            if encrypt:
                _fail('%s encrypt' % name)
            _ERR_clear_error()
            return None
        return out + fin
    finally:
        _EVP_CIPHER_CTX_free(ctx)


# --------------------------------------------------------------------------------------
# AEAD
# --------------------------------------------------------------------------------------

def _aead_kind(name):
    c = _fetch('cipher', name)
    mode = _EVP_CIPHER_get_mode(c)
    if mode == _MODE_GCM:
        return 'gcm'
    if mode == _MODE_CCM:
        return 'ccm'
    if mode == _MODE_OCB:
        return 'ocb'
    if name.lower() == 'chacha20-poly1305':
        return 'chachapoly'
    raise LibCryptoError('%s is not a supported AEAD (use siv_* for SIV)' % name)


def _set_len_ccm(ctx, n):
    outl = c_int(0)
    if _EVP_CipherUpdate(ctx, None, byref(outl), None, n) != 1:
        _fail('CCM set message length')


def aead_encrypt(name, key, nonce, aad, pt, tag_len=16):
    """AEAD encryption -> (ciphertext, tag).

    name: 'aes-{128,192,256}-gcm' (any nonce length >= 1), 'aes-*-ccm' (nonce 7..13, even tag
    length 4..16), 'aes-*-ocb' (nonce 1..15, tag 1..16), 'chacha20-poly1305' (nonce 12;
    tag_len < 16 truncates).  Bad parameters raise LibCryptoError.
    """
    key, nonce, aad, pt = _b(key, 'key'), _b(nonce, 'nonce'), _b(aad, 'aad'), _b(pt)
    kind = _aead_kind(name)
    if not 1 <= tag_len <= 16:
        raise LibCryptoError('tag length %r out of range' % (tag_len,))
    if not nonce:
        raise LibCryptoError('empty nonce')

    def pre(ctx, c):
        if _EVP_CIPHER_CTX_ctrl(ctx, EVP_CTRL_AEAD_SET_IVLEN, len(nonce), None) <= 0:
            raise LibCryptoError('%s: nonce length %d rejected (%s)' % (name, len(nonce), _errors()))
        if kind in ('ccm', 'ocb'):
            if _EVP_CIPHER_CTX_ctrl(ctx, EVP_CTRL_AEAD_SET_TAG, tag_len, None) <= 0:
                raise LibCryptoError('%s: tag length %d rejected (%s)' % (name, tag_len, _errors()))

    ctx = _cipher_ctx(name, key, nonce, True, pre_key=pre)
    try:
        if kind == 'ccm':
            _set_len_ccm(ctx, len(pt))
        if aad:
            if _update(ctx, aad, want_out=False) is None:
                _fail('%s AAD' % name)
        ct = _update(ctx, pt)
        if ct is None:
            _fail('%s encrypt' % name)
        fin = _final(ctx)
        if fin is None:
            _fail('%s final' % name)
        ct += fin
        if len(ct) != len(pt):      # pragma: no cover
            raise LibCryptoError('%s: unexpected ciphertext length' % name)
        tag = create_string_buffer(tag_len)
        if _EVP_CIPHER_CTX_ctrl(ctx, EVP_CTRL_AEAD_GET_TAG, tag_len, tag) <= 0:
            _fail('%s get tag' % name)
        return ct, tag.raw
    finally:
        _EVP_CIPHER_CTX_free(ctx)


def aead_decrypt(name, key, nonce, aad, ct, tag):
    """AEAD decryption -> plaintext, or None when authentication fails."""
    key, nonce, aad, ct, tag = (_b(key, 'key'), _b(nonce, 'nonce'), _b(aad, 'aad'), _b(ct),
                                _b(tag, 'tag'))
    kind = _aead_kind(name)
    if not 1 <= len(tag) <= 16:
        raise LibCryptoError('tag length %d out of range' % len(tag))
    if not nonce:
        raise LibCryptoError('empty nonce')
    tagbuf = create_string_buffer(tag, len(tag))

    def pre(ctx, c):
        if _EVP_CIPHER_CTX_ctrl(ctx, EVP_CTRL_AEAD_SET_IVLEN, len(nonce), None) <= 0:
            raise LibCryptoError('%s: nonce length %d rejected (%s)' % (name, len(nonce), _errors()))
        if kind == 'ocb':
            # the provider wants the tag *length* first (NULL pointer), then the tag value
            if _EVP_CIPHER_CTX_ctrl(ctx, EVP_CTRL_AEAD_SET_TAG, len(tag), None) <= 0:
                raise LibCryptoError('%s: tag length %d rejected (%s)' % (name, len(tag), _errors()))
        if kind in ('ccm', 'ocb'):
            if _EVP_CIPHER_CTX_ctrl(ctx, EVP_CTRL_AEAD_SET_TAG, len(tag), tagbuf) <= 0:
                raise LibCryptoError('%s: tag length %d rejected (%s)' % (name, len(tag), _errors()))

    ctx = _cipher_ctx(name, key, nonce, False, pre_key=pre)
    try:
        if kind in ('gcm', 'chachapoly'):
            if _EVP_CIPHER_CTX_ctrl(ctx, EVP_CTRL_AEAD_SET_TAG, len(tag), tagbuf) <= 0:
                raise LibCryptoError('%s: tag length %d rejected (%s)' % (name, len(tag), _errors()))
        if kind == 'ccm':
            _set_len_ccm(ctx, len(ct))
        if aad:
            if _update(ctx, aad, want_out=False) is None:
                _fail('%s AAD' % name)
        pt = _update(ctx, ct)
        if pt is None:
            _ERR_clear_error()
            return None
        if kind != 'ccm':           # CCM verifies the tag inside Update
            fin = _final(ctx)
            if fin is None:
                _ERR_clear_error()
                return None
            pt += fin
        if len(pt) != len(ct):
            _ERR_clear_error()
            return None
        return pt
    finally:
        _EVP_CIPHER_CTX_free(ctx)


_SIV_NAMES = {32: 'aes-128-siv', 48: 'aes-192-siv', 64: 'aes-256-siv'}


def _siv_name(key):
    try:
        return _SIV_NAMES[len(key)]
    except KeyError:
        raise LibCryptoError('SIV key length %d (need 32, 48 or 64)' % len(key))


_siv_empty_aad = None


def _siv_empty_aad_ok():
    """Some OpenSSL builds drop zero-length AAD Update calls from S2V; probe once."""
    global _siv_empty_aad
    if _siv_empty_aad is None:
        _siv_empty_aad = True           # let the probe itself through
        try:
            key = bytes(range(32))
            a = siv_encrypt(key, [b'a'], b'x')
            b = siv_encrypt(key, [b'a', b''], b'x')
            c = siv_encrypt(key, [b'', b'a'], b'x')
            _siv_empty_aad = a != b and a != c and b != c
        except LibCryptoError:          # pragma: no cover
            _siv_empty_aad = False
    return _siv_empty_aad


def _siv_check(aad_list, data):
    aads = [_b(a, 'aad component') for a in aad_list]
    if len(aads) > 126:
        raise LibCryptoError('too many SIV AAD components')
    if any(len(a) == 0 for a in aads) and not _siv_empty_aad_ok():
        raise LibCryptoError('this OpenSSL drops empty SIV AAD components')
    if len(data) == 0:
        # EVP_CipherUpdate(len 0) never runs S2V and EVP_CipherFinal then fails
        raise LibCryptoError('OpenSSL SIV cannot process an empty message')
    return aads


def siv_encrypt(key, aad_list, pt):
    """AES-SIV (RFC 5297) -> (ciphertext, 16-byte tag).  Each element of aad_list is one S2V
    component (by convention the nonce is the last one).  An empty plaintext raises
    LibCryptoError (not expressible through OpenSSL's EVP interface); empty AAD components are
    accepted only if a run-time probe shows that this OpenSSL does not drop them."""
    key, pt = _b(key, 'key'), _b(pt)
    name = _siv_name(key)
    aads = _siv_check(aad_list, pt)
    ctx = _cipher_ctx(name, key, None, True)
    try:
        for a in aads:
            if _update(ctx, a, want_out=False) is None:
                _fail('SIV AAD')
        ct = _update(ctx, pt)
        if ct is None or len(ct) != len(pt):
            _fail('SIV encrypt')
        if _final(ctx) is None:
            _fail('SIV final')
        tag = create_string_buffer(16)
        if _EVP_CIPHER_CTX_ctrl(ctx, EVP_CTRL_AEAD_GET_TAG, 16, tag) <= 0:
            _fail('SIV get tag')
        return ct, tag.raw
    finally:
        _EVP_CIPHER_CTX_free(ctx)


def siv_decrypt(key, aad_list, ct, tag):
    """AES-SIV decryption -> plaintext or None if the tag does not verify."""
    key, ct, tag = _b(key, 'key'), _b(ct), _b(tag, 'tag')
    name = _siv_name(key)
    if len(tag) != 16:
        raise LibCryptoError('SIV tag must be 16 bytes')
    aads = _siv_check(aad_list, ct)
    ctx = _cipher_ctx(name, key, None, False)
    try:
        tagbuf = create_string_buffer(tag, 16)
        if _EVP_CIPHER_CTX_ctrl(ctx, EVP_CTRL_AEAD_SET_TAG, 16, tagbuf) <= 0:
            _fail('SIV set tag')
        for a in aads:
            if _update(ctx, a, want_out=False) is None:
                _fail('SIV AAD')
        pt = _update(ctx, ct)
        if pt is None or len(pt) != len(ct) or _final(ctx) is None:
            _ERR_clear_error()
            return None
        return pt
    finally:
        _EVP_CIPHER_CTX_free(ctx)


# --------------------------------------------------------------------------------------
# digests
# --------------------------------------------------------------------------------------

_EVP_MD_FLAG_XOF = 0x2


def digest(name, data, outlen=None):
    """One-shot hash by OpenSSL name ('md4', 'md5', 'sha1', 'sha224', ..., 'sha512-224',
    'sha512-256', 'sha3-256', 'shake128', 'shake256', 'blake2b512', 'blake2s256', 'ripemd160',
    'sm3', ...).  ``outlen`` selects the output length of the XOFs (default 16 bytes for
    shake128, 32 for shake256) and must be None or the digest size for everything else."""
    data = _b(data)
    md = _fetch('md', name)
    xof = bool(_EVP_MD_get_flags(md) & _EVP_MD_FLAG_XOF)
    size = _EVP_MD_get_size(md)
    if not xof and outlen is not None and outlen != size:
        raise LibCryptoError('%s has a fixed %d-byte output' % (name, size))
    if xof and outlen is None:
        outlen = size
    if xof and outlen < 0:
        raise LibCryptoError('negative output length')
    ctx = _EVP_MD_CTX_new()
    if not ctx:
        _fail('EVP_MD_CTX_new')
    try:
        if _EVP_DigestInit_ex(ctx, md, None) != 1:
            _fail('EVP_DigestInit_ex(%s)' % name)
        if _EVP_DigestUpdate(ctx, data, len(data)) != 1:
            _fail('EVP_DigestUpdate')
        if xof:
            out = create_string_buffer(max(outlen, 1))
            if _EVP_DigestFinalXOF(ctx, out, outlen) != 1:
                _fail('EVP_DigestFinalXOF')
            return out.raw[:outlen]
        out = create_string_buffer(64 if size < 64 else size)
        n = c_uint(0)
        if _EVP_DigestFinal_ex(ctx, out, byref(n)) != 1:
            _fail('EVP_DigestFinal_ex')
        return out.raw[:n.value]
    finally:
        _EVP_MD_CTX_free(ctx)


# --------------------------------------------------------------------------------------
# MACs
# --------------------------------------------------------------------------------------

def mac(alg, key, data, *, cipher=None, digest=None, custom=None, size=None, iv=None,
        salt=None, xof=None, extra=None):
    """One-shot EVP_MAC.

    alg: 'CMAC' (cipher='aes-128-cbc' | 'des-ede3-cbc' ...), 'HMAC' (digest=...),
    'KMAC128'/'KMAC256' (custom=, size=, xof=; key 4..512 bytes), 'POLY1305' (32-byte key),
    'BLAKE2BMAC'/'BLAKE2SMAC' (size=, custom= (personalisation), salt=), 'GMAC'
    (cipher='aes-128-gcm', iv=), 'SIPHASH' (size= 8|16).  ``extra`` is a dict of further raw
    OSSL_PARAMs (name -> int | str | bytes).
    """
    key, data = _b(key, 'key'), _b(data)
    m = _fetch('mac', alg)
    params = _Params()
    if cipher is not None:
        params.add('cipher', cipher)
    if digest is not None:
        params.add('digest', digest)
    if custom is not None:
        params.add('custom', _b(custom, 'custom'))
    if salt is not None:
        params.add('salt', _b(salt, 'salt'))
    if iv is not None:
        params.add('iv', _b(iv, 'iv'))
    if xof is not None:
        params.add('xof', int(bool(xof)))
    if size is not None:
        if size < 0:
            raise LibCryptoError('negative MAC size')
        params.add('size', int(size))
    for k, v in (extra or {}).items():
        params.add(k, v)
    _check_params('mac', alg, m, params)
    if alg.upper() == 'CMAC':
        if cipher is None:
            raise LibCryptoError('CMAC needs cipher=')
        if _EVP_CIPHER_get_mode(_fetch('cipher', cipher)) != _MODE_CBC:
            raise LibCryptoError('CMAC needs a CBC cipher name, not %r' % (cipher,))
    ctx = _EVP_MAC_CTX_new(m)
    if not ctx:
        _fail('EVP_MAC_CTX_new')
    try:
        if _EVP_MAC_init(ctx, key, len(key), params.array) != 1:
            _fail('EVP_MAC_init(%s)' % alg)
        if _EVP_MAC_update(ctx, data, len(data)) != 1:
            _fail('EVP_MAC_update(%s)' % alg)
        n = c_size_t(0)
        if _EVP_MAC_final(ctx, None, byref(n), 0) != 1:
            _fail('EVP_MAC_final(%s) size query' % alg)
        outsize = n.value
        if size is not None and outsize != size:     # pragma: no cover
            raise LibCryptoError('%s: output size %d, asked for %d' % (alg, outsize, size))
        out = create_string_buffer(max(outsize, 1))
        if _EVP_MAC_final(ctx, out, byref(n), outsize) != 1:
            _fail('EVP_MAC_final(%s)' % alg)
        if n.value > outsize:                        # pragma: no cover
            raise LibCryptoError('EVP_MAC_final overflow')
        return out.raw[:n.value]
    finally:
        _EVP_MAC_CTX_free(ctx)
        del params


# --------------------------------------------------------------------------------------
# KDFs
# --------------------------------------------------------------------------------------

# friendly (python identifier) names -> OSSL_PARAM names
_KDF_ALIASES = {
    'use_l': 'use-l', 'use_separator': 'use-separator',
    'password': 'pass', 'passphrase': 'pass', 'iterations': 'iter', 'count': 'iter',
    'hash': 'digest', 'N': 'n', 'maxmem': 'maxmem_bytes', 'label': 'salt', 'context': 'info',
    'secret': 'key',
}

_KDF_NAMES = {
    'HKDF': 'HKDF', 'PBKDF2': 'PBKDF2', 'PBKDF1': 'PBKDF1', 'SCRYPT': 'SCRYPT',
    'KBKDF': 'KBKDF', 'SP800-108': 'KBKDF', 'SSKDF': 'SSKDF', 'X963KDF': 'X963KDF',
    'TLS1-PRF': 'TLS1-PRF', 'SSHKDF': 'SSHKDF', 'KRB5KDF': 'KRB5KDF',
    'X942KDF-ASN1': 'X942KDF-ASN1', 'PKCS12KDF': 'PKCS12KDF',
}


def kdf(alg, outlen, params=None, **kwparams):
    """EVP_KDF one-shot.  Parameters are OSSL_PARAM names -> int (unsigned 64-bit) | str
    (UTF-8 string) | bytes (octet string), given as a dict and/or keyword arguments
    (keyword ``use_l`` / ``use_separator`` map to "use-l" / "use-separator").

    HKDF: digest, key, salt, info, mode ('EXTRACT_AND_EXPAND' | 'EXTRACT_ONLY' | 'EXPAND_ONLY')
    PBKDF2: pass, salt, iter, digest  ("pkcs5"=1 is added unless given: no lower-bound checks)
    SCRYPT: pass, salt, n, r, p, maxmem_bytes (default here 2**31 when not given)
    KBKDF: mode ('counter' | 'feedback'), mac ('HMAC' | 'CMAC'), digest | cipher, key,
           salt (=Label), info (=Context), seed (feedback IV), use-l, use-separator
           (OpenSSL 3.0 has no "r": the counter is always 32 bits)
    PBKDF1 (legacy provider): pass, salt, iter, digest
    A list/tuple value emits the parameter several times (e.g. several "info" chunks).
    """
    name = _KDF_NAMES.get(alg.upper(), alg)
    k = _fetch('kdf', name)
    if outlen < 0:
        raise LibCryptoError('negative output length')
    merged = {}
    if params:
        merged.update(params)
    merged.update(kwparams)
    p = _Params()
    seen = set()
    for key, v in merged.items():
        key = _KDF_ALIASES.get(key, key)
        seen.add(key)
        if isinstance(v, (list, tuple)):
            for item in v:
                p.add(key, item)
        else:
            p.add(key, v)
    up = name.upper()
    if up == 'PBKDF2' and 'pkcs5' not in seen:
        p.add('pkcs5', 1)
    if up == 'SCRYPT' and 'maxmem_bytes' not in seen:
        p.add('maxmem_bytes', 1 << 31)
    _check_params('kdf', alg, k, p)
    ctx = _EVP_KDF_CTX_new(k)
    if not ctx:
        _fail('EVP_KDF_CTX_new')
    try:
        out = create_string_buffer(max(outlen, 1))
        if _EVP_KDF_derive(ctx, out, outlen, p.array) != 1:
            _fail('EVP_KDF_derive(%s)' % alg)
        return out.raw[:outlen]
    finally:
        _EVP_KDF_CTX_free(ctx)
        del p


# --------------------------------------------------------------------------------------
# keys
# --------------------------------------------------------------------------------------

def _pw_refuse(buf, size, plen, params, arg):      # never prompt, never succeed
    return 0


_pw_refuse_cb = _PASSPHRASE_CB(_pw_refuse)          # module-level reference keeps it alive


def _get_bn(pkey, name):
    """EVP_PKEY_get_bn_param -> int, or None when the key has no such component."""
    bn = c_void_p(None)
    ok = _EVP_PKEY_get_bn_param(pkey, name, byref(bn))
    if ok != 1 or not bn.value:
        _ERR_clear_error()
        if bn.value:                    # pragma: no cover
            _BN_clear_free(bn)
        return None
    try:
        nbytes = (_BN_num_bits(bn) + 7) // 8
        buf = create_string_buffer(max(nbytes, 1))
        n = _BN_bn2bin(bn, buf)
        if n != nbytes:                 # pragma: no cover
            raise LibCryptoError('BN_bn2bin length mismatch')
        return int.from_bytes(buf.raw[:n], 'big')
    finally:
        _BN_clear_free(bn)


def _get_utf8(pkey, name):
    buf = create_string_buffer(256)
    n = c_size_t(0)
    if _EVP_PKEY_get_utf8_string_param(pkey, name, buf, len(buf), byref(n)) != 1:
        _ERR_clear_error()
        return None
    return buf.raw[:n.value].split(b'\0')[0].decode('utf-8', 'replace')


def _get_octets(pkey, name):
    n = c_size_t(0)
    if _EVP_PKEY_get_octet_string_param(pkey, name, None, 0, byref(n)) != 1:
        _ERR_clear_error()
        return None
    buf = create_string_buffer(max(n.value, 1))
    n2 = c_size_t(0)
    if _EVP_PKEY_get_octet_string_param(pkey, name, buf, n.value, byref(n2)) != 1:
        _ERR_clear_error()
        return None
    return buf.raw[:n2.value]


def _get_raw(pkey, private):
    f = _EVP_PKEY_get_raw_private_key if private else _EVP_PKEY_get_raw_public_key
    n = c_size_t(0)
    if f(pkey, None, byref(n)) != 1:
        _ERR_clear_error()
        return None
    buf = create_string_buffer(max(n.value, 1))
    if f(pkey, buf, byref(n)) != 1:
        _ERR_clear_error()
        return None
    return buf.raw[:n.value]


def _describe_pkey(pkey):
    tn = _EVP_PKEY_get0_type_name(pkey)
    typ = (tn or b'?').decode('ascii', 'replace').upper()
    out = {'type': typ}
    if typ in ('RSA', 'RSA-PSS'):
        out['n'] = _get_bn(pkey, b'n')
        out['e'] = _get_bn(pkey, b'e')
        d = _get_bn(pkey, b'd')
        out['private'] = d is not None
        if d is not None:
            out['d'] = d
            for k, pn in (('p', b'rsa-factor1'), ('q', b'rsa-factor2'),
                          ('dp', b'rsa-exponent1'), ('dq', b'rsa-exponent2'),
                          ('qinv', b'rsa-coefficient1')):
                out[k] = _get_bn(pkey, pn)
            extra = _get_bn(pkey, b'rsa-factor3')
            if extra is not None:
                out['multiprime'] = True
    elif typ in ('DSA', 'DH', 'DHX'):
        for k in ('p', 'q', 'g'):
            out[k] = _get_bn(pkey, k.encode())
        out['pub'] = _get_bn(pkey, b'pub')
        x = _get_bn(pkey, b'priv')
        out['private'] = x is not None
        if x is not None:
            out['priv'] = x
    elif typ in ('EC', 'SM2'):
        out['group'] = _get_utf8(pkey, b'group')
        p = _get_bn(pkey, b'p')
        out['curve_p'] = p
        out['curve_a'] = _get_bn(pkey, b'a')
        out['curve_b'] = _get_bn(pkey, b'b')
        out['curve_order'] = _get_bn(pkey, b'order')
        out['curve_generator'] = _get_octets(pkey, b'generator')
        x, y = _get_bn(pkey, b'qx'), _get_bn(pkey, b'qy')
        out['x'], out['y'] = x, y
        if x is not None and y is not None and p:
            flen = (p.bit_length() + 7) // 8
            out['pub'] = b'\x04' + x.to_bytes(flen, 'big') + y.to_bytes(flen, 'big')
        else:
            out['pub'] = None
        out['pub_encoded'] = _get_octets(pkey, b'pub')      # in the key's own point format
        d = _get_bn(pkey, b'priv')
        out['private'] = d is not None
        if d is not None:
            out['priv'] = d
    elif typ in ('ED25519', 'ED448', 'X25519', 'X448'):
        out['pub'] = _get_raw(pkey, False)
        d = _get_raw(pkey, True)
        out['private'] = d is not None
        if d is not None:
            out['priv'] = d
    else:
        out['private'] = None
    _ERR_clear_error()
    return out


def decode_key(data, passphrase=None):
    """Parse a PEM or DER key (PKCS#1, PKCS#8 incl. encrypted, SPKI, SEC1, traditional
    encrypted PEM, ...) with OSSL_DECODER and return its components:

      RSA:  type, private, n, e [, d, p, q, dp, dq, qinv]
      DSA:  type, private, p, q, g, pub (y) [, priv (x)]
      EC:   type, private, group (OpenSSL short name, None for unnamed explicit curves), x, y,
            pub (uncompressed point bytes), pub_encoded (point in the key's own format),
            curve_p/curve_a/curve_b/curve_order/curve_generator [, priv]
      ED25519/ED448/X25519/X448: type, private, pub (bytes) [, priv (bytes)]

    Without ``passphrase`` an encrypted key fails (never prompts).  Raises LibCryptoError when
    decoding fails.  Leading/trailing garbage after a DER structure is not diagnosed here.
    """
    _need()
    if isinstance(data, str):           # PEM text
        data = data.encode('ascii', 'replace')
    data = _b(data)
    if not data:
        raise LibCryptoError('empty key data')
    pkey = c_void_p(None)
    dctx = _OSSL_DECODER_CTX_new_for_pkey(byref(pkey), None, None, None, 0, None, None)
    if not dctx:
        _fail('OSSL_DECODER_CTX_new_for_pkey')
    try:
        if passphrase is not None:
            passphrase = _b(passphrase, 'passphrase')
            if _OSSL_DECODER_CTX_set_passphrase(dctx, passphrase, len(passphrase)) != 1:
                _fail('OSSL_DECODER_CTX_set_passphrase')
        else:
            if _OSSL_DECODER_CTX_set_passphrase_cb(dctx, _pw_refuse_cb, None) != 1:
                _fail('OSSL_DECODER_CTX_set_passphrase_cb')
        buf = create_string_buffer(data, len(data))
        pdata = c_void_p(ctypes.addressof(buf))
        plen = c_size_t(len(data))
        ok = _OSSL_DECODER_from_data(dctx, byref(pdata), byref(plen))
        if ok != 1 or not pkey.value:
            raise LibCryptoError('key decoding failed: %s' % (_errors() or 'unsupported'))
        res = _describe_pkey(pkey)
        res['remaining'] = plen.value          # bytes of input not consumed by the decoder
        return res
    finally:
        if pkey.value:
            _EVP_PKEY_free(pkey)
        _OSSL_DECODER_CTX_free(dctx)
        _ERR_clear_error()


_EVP_PKEY_PUBLIC_KEY = 0x86
_EVP_PKEY_KEYPAIR = 0x87

_EC_ALIASES = {
    'p-192': 'prime192v1', 'p192': 'prime192v1', 'nist p-192': 'prime192v1',
    'secp192r1': 'prime192v1', 'prime192v1': 'prime192v1',
    'p-224': 'secp224r1', 'p224': 'secp224r1', 'nist p-224': 'secp224r1',
    'prime224v1': 'secp224r1', 'secp224r1': 'secp224r1',
    'p-256': 'prime256v1', 'p256': 'prime256v1', 'nist p-256': 'prime256v1',
    'secp256r1': 'prime256v1', 'prime256v1': 'prime256v1',
    'p-384': 'secp384r1', 'p384': 'secp384r1', 'nist p-384': 'secp384r1',
    'prime384v1': 'secp384r1', 'secp384r1': 'secp384r1',
    'p-521': 'secp521r1', 'p521': 'secp521r1', 'nist p-521': 'secp521r1',
    'prime521v1': 'secp521r1', 'secp521r1': 'secp521r1',
}

_EC_FIELD_BYTES = {'prime192v1': 24, 'secp224r1': 28, 'prime256v1': 32, 'secp384r1': 48,
                   'secp521r1': 66}


def _ec_fromdata(group, selection, items):
    """EVP_PKEY_fromdata for an EC key.  Returns an EVP_PKEY pointer (int) or None."""
    pctx = _EVP_PKEY_CTX_new_from_name(None, b'EC', None)
    if not pctx:
        _fail('EVP_PKEY_CTX_new_from_name(EC)')
    try:
        if _EVP_PKEY_fromdata_init(pctx) != 1:
            _fail('EVP_PKEY_fromdata_init')
        params = _Params([('group', group)] + items)
        pkey = c_void_p(None)
        if _EVP_PKEY_fromdata(pctx, byref(pkey), selection, params.array) != 1 or not pkey.value:
            if pkey.value:              # pragma: no cover
                _EVP_PKEY_free(pkey)
            return None
        return pkey.value
    finally:
        _EVP_PKEY_CTX_free(pctx)


def _derive(priv_pkey, peer_pkey):
    ctx = _EVP_PKEY_CTX_new_from_pkey(None, priv_pkey, None)
    if not ctx:
        _fail('EVP_PKEY_CTX_new_from_pkey')
    try:
        if _EVP_PKEY_derive_init(ctx) != 1:
            _fail('EVP_PKEY_derive_init')
        if _EVP_PKEY_derive_set_peer(ctx, peer_pkey) != 1:
            _ERR_clear_error()
            return None
        n = c_size_t(0)
        if _EVP_PKEY_derive(ctx, None, byref(n)) != 1:
            _ERR_clear_error()
            return None
        buf = create_string_buffer(max(n.value, 1))
        if _EVP_PKEY_derive(ctx, buf, byref(n)) != 1:
            _ERR_clear_error()
            return None
        return buf.raw[:n.value]
    finally:
        _EVP_PKEY_CTX_free(ctx)


def ecdh(group, priv, peer_x, peer_y):
    """Plain (non-cofactor; all supported curves have h=1) ECDH: x-coordinate of priv*Peer,
    left-padded to the field size.  group: OpenSSL or NIST name ('prime256v1', 'P-256',
    'secp384r1', ...).  Returns None when libcrypto rejects the peer point (not on the curve,
    infinity) or the derivation fails; raises LibCryptoError for unknown groups / bad scalars.
    """
    _need()
    g = _EC_ALIASES.get(group.lower(), group)
    flen = _EC_FIELD_BYTES.get(g)
    if flen is None:
        raise LibCryptoError('unsupported EC group %r' % (group,))
    if priv <= 0:
        raise LibCryptoError('private scalar must be positive')
    if not (0 <= peer_x < 1 << (8 * flen) and 0 <= peer_y < 1 << (8 * flen)):
        return None
    point = b'\x04' + peer_x.to_bytes(flen, 'big') + peer_y.to_bytes(flen, 'big')
    peer = _ec_fromdata(g, _EVP_PKEY_PUBLIC_KEY, [('pub', point)])
    if peer is None:
        _ERR_clear_error()
        return None
    try:
        mine = _ec_fromdata(g, _EVP_PKEY_KEYPAIR, [('priv', _BigNum(priv, flen))])
        if mine is None:
            _fail('EVP_PKEY_fromdata(EC private key)')
        try:
            return _derive(mine, peer)
        finally:
            _EVP_PKEY_free(mine)
    finally:
        _EVP_PKEY_free(peer)
        _ERR_clear_error()


_XDH_LEN = {'X25519': 32, 'X448': 56}


def xdh(alg, priv, peer_pub):
    """X25519 / X448 (RFC 7748).  Returns the shared secret, or None when libcrypto refuses
    (all-zero output for low-order points)."""
    _need()
    alg = alg.upper()
    n = _XDH_LEN.get(alg)
    if n is None:
        raise LibCryptoError('unsupported XDH algorithm %r' % (alg,))
    priv, peer_pub = _b(priv, 'priv'), _b(peer_pub, 'peer_pub')
    if len(priv) != n or len(peer_pub) != n:
        raise LibCryptoError('%s keys must be %d bytes' % (alg, n))
    name = alg.encode('ascii')
    mine = _EVP_PKEY_new_raw_private_key_ex(None, name, None, priv, n)
    if not mine:
        _fail('EVP_PKEY_new_raw_private_key_ex(%s)' % alg)
    try:
        peer = _EVP_PKEY_new_raw_public_key_ex(None, name, None, peer_pub, n)
        if not peer:
            _ERR_clear_error()
            return None
        try:
            return _derive(mine, peer)
        finally:
            _EVP_PKEY_free(peer)
    finally:
        _EVP_PKEY_free(mine)
        _ERR_clear_error()


# --------------------------------------------------------------------------------------
# self test
# --------------------------------------------------------------------------------------

def _parse_pkey_text(text):
    """Parse `openssl pkey -text -noout` output -> {label(lower): int | bytes | str}."""
    import re
    fields = {}
    cur = None
    for line in text.splitlines():
        m = re.match(r'^([A-Za-z0-9][A-Za-z0-9 _\-]*):\s*(.*?)\s*$', line)
        if m:
            cur = m.group(1).strip().lower()
            val = m.group(2)
            m2 = re.match(r'^(\d+) \(0x[0-9a-fA-F]+\)$', val)
            if m2:
                fields[cur] = int(m2.group(1))
                cur = None
            elif val:
                fields[cur] = val
                cur = None
            else:
                fields[cur] = b''
        elif cur is not None and re.match(r'^\s+[0-9a-fA-F:]+\s*$', line):
            fields[cur] += bytes.fromhex(line.strip().replace(':', ''))
    return fields


def _selftest_cli(check):
    """decode_key against keys made (and printed) by the openssl command line tool."""
    import shutil
    import subprocess
    import tempfile
    exe = shutil.which('openssl')
    if exe is None:
        return 0
    tmp = tempfile.mkdtemp(prefix='pcdverif-libcrypto-')
    n = 0

    def run(*args):
        r = subprocess.run((exe,) + args, cwd=tmp, stdin=subprocess.DEVNULL,
                           stdout=subprocess.PIPE, stderr=subprocess.PIPE, timeout=120)
        if r.returncode != 0:
            raise AssertionError('openssl %s failed: %s' % (' '.join(args), r.stderr[-300:]))
        return r.stdout

    def rd(name):
        with open(os.path.join(tmp, name), 'rb') as f:
            return f.read()

    def beint(b):
        return int.from_bytes(b, 'big')

    try:
        run('genrsa', '-out', 'rsa.pem', '1024')
        run('ecparam', '-name', 'prime256v1', '-genkey', '-noout', '-out', 'ec256.pem')
        run('ecparam', '-name', 'secp384r1', '-genkey', '-noout', '-out', 'ec384.pem')
        run('ecparam', '-name', 'secp521r1', '-genkey', '-noout', '-out', 'ec521.pem')
        run('genpkey', '-algorithm', 'ed25519', '-out', 'ed25519.pem')
        run('genpkey', '-algorithm', 'ed448', '-out', 'ed448.pem')
        run('genpkey', '-algorithm', 'x25519', '-out', 'x25519.pem')
        run('genpkey', '-algorithm', 'x448', '-out', 'x448.pem')
        run('dsaparam', '-genkey', '-noout', '-out', 'dsa.pem', '1024')
        groups = {'ec256': 'prime256v1', 'ec384': 'secp384r1', 'ec521': 'secp521r1'}
        for base in ('rsa', 'ec256', 'ec384', 'ec521', 'ed25519', 'ed448', 'x25519', 'x448',
                     'dsa'):
            src = base + '.pem'
            txt = _parse_pkey_text(run('pkey', '-in', src, '-text', '-noout').decode())
            run('pkcs8', '-topk8', '-v2', 'aes-128-cbc', '-passout', 'pass:secret',
                '-in', src, '-out', base + '.enc.pem')
            run('pkcs8', '-topk8', '-v2', 'aes-128-cbc', '-passout', 'pass:secret',
                '-in', src, '-outform', 'DER', '-out', base + '.enc.der')
            run('pkey', '-in', src, '-outform', 'DER', '-out', base + '.der')
            run('pkey', '-in', src, '-pubout', '-out', base + '.pub.pem')
            run('pkey', '-in', src, '-pubout', '-outform', 'DER', '-out', base + '.pub.der')
            variants = [(src, None), (base + '.der', None), (base + '.enc.pem', b'secret'),
                        (base + '.enc.der', b'secret')]
            if base in ('rsa', 'dsa', 'ec256'):
                run('pkey', '-in', src, '-traditional', '-aes128', '-passout', 'pass:secret',
                    '-out', base + '.trad.pem')
                variants.append((base + '.trad.pem', b'secret'))
            for fname, pw in variants + [(base + '.pub.pem', None), (base + '.pub.der', None)]:
                k = decode_key(rd(fname), pw)
                priv = '.pub.' not in fname
                what = 'decode_key(%s)' % fname
                check(k['private'] is priv, what + ' private flag')
                if base == 'rsa':
                    check(k['type'] == 'RSA', what + ' type')
                    check(k['n'] == beint(txt['modulus']) and k['e'] == txt['publicexponent'],
                          what + ' n/e')
                    if priv:
                        check(k['d'] == beint(txt['privateexponent'])
                              and k['p'] == beint(txt['prime1']) and k['q'] == beint(txt['prime2'])
                              and k['dp'] == beint(txt['exponent1'])
                              and k['dq'] == beint(txt['exponent2'])
                              and k['qinv'] == beint(txt['coefficient']), what + ' private part')
                        check(k['p'] * k['q'] == k['n'], what + ' p*q')
                    else:
                        check('d' not in k, what + ' leaks d')
                elif base == 'dsa':
                    check(k['type'] == 'DSA', what + ' type')
                    check(k['p'] == beint(txt['p']) and k['q'] == beint(txt['q'])
                          and k['g'] == beint(txt['g']) and k['pub'] == beint(txt['pub']),
                          what + ' p/q/g/y')
                    if priv:
                        check(k['priv'] == beint(txt['priv']), what + ' x')
                        check(pow(k['g'], k['priv'], k['p']) == k['pub'], what + ' g^x')
                    else:
                        check('priv' not in k, what + ' leaks x')
                elif base.startswith('ec'):
                    check(k['type'] == 'EC' and k['group'] == groups[base] == txt['asn1 oid'],
                          what + ' group')
                    check(k['pub'] == txt['pub'], what + ' public point')
                    flen = (len(txt['pub']) - 1) // 2
                    check(k['x'] == beint(txt['pub'][1:1 + flen])
                          and k['y'] == beint(txt['pub'][1 + flen:]), what + ' x/y')
                    if priv:
                        check(k['priv'] == beint(txt['priv']), what + ' d')
                    else:
                        check('priv' not in k, what + ' leaks d')
                else:
                    check(k['type'] == base.upper(), what + ' type')
                    check(k['pub'] == txt['pub'], what + ' pub')
                    if priv:
                        check(k['priv'] == txt['priv'], what + ' priv')
                    else:
                        check('priv' not in k, what + ' leaks priv')
                n += 1
                if pw is not None:
                    for bad in (None, b'Secret', b''):
                        try:
                            decode_key(rd(fname), bad)
                        except LibCryptoError:
                            pass
                        else:
                            raise AssertionError('%s decoded with passphrase %r' % (fname, bad))
                        n += 1
        # DH between two CLI-made keys: our derive against `openssl pkeyutl -derive`
        for a, b, fn in (('ec256', 'ec256', 'ecdh'), ('x25519', 'x25519', 'xdh'),
                         ('x448', 'x448', 'xdh')):
            other = a + '.peer.pem'
            if fn == 'ecdh':
                run('ecparam', '-name', 'prime256v1', '-genkey', '-noout', '-out', other)
            else:
                run('genpkey', '-algorithm', a, '-out', other)
            run('pkey', '-in', other, '-pubout', '-out', a + '.peer.pub.pem')
            ref = run('pkeyutl', '-derive', '-inkey', a + '.pem', '-peerkey', a + '.peer.pub.pem')
            mine = decode_key(rd(a + '.pem'))
            peer = decode_key(rd(a + '.peer.pub.pem'))
            if fn == 'ecdh':
                got = ecdh(mine['group'], mine['priv'], peer['x'], peer['y'])
            else:
                got = xdh(mine['type'], mine['priv'], peer['pub'])
            check(got == ref, '%s vs openssl pkeyutl -derive' % fn)
            n += 1
    finally:
        shutil.rmtree(tmp, ignore_errors=True)
    return n


def selftest(cli=True, rounds=40, seed=20260925):
    """Known answers, cross-checks with hashlib/hmac, round trips, decode_key against the
    openssl CLI.  Raises AssertionError on mismatch; returns a dict of check counts."""
    import hashlib
    import hmac as _hmac
    import random
    if not available():
        raise AssertionError('libcrypto not available: %r' % (_load_error,))
    counts = {'kat': 0, 'xcheck': 0, 'roundtrip': 0, 'negative': 0, 'cli_keys': 0}
    rnd = random.Random(seed)
    H = bytes.fromhex

    def rb(n):
        return bytes(rnd.getrandbits(8) for _ in range(n))

    def check(cond, msg):
        if not cond:
            raise AssertionError('libcrypto selftest: ' + msg)

    def kat(got, want_hex, msg):
        check(got == H(want_hex), 'KAT %s: got %s' % (msg, got.hex() if got is not None else None))
        counts['kat'] += 1

    def refuses(f, msg):
        try:
            f()
        except LibCryptoError:
            counts['negative'] += 1
        else:
            raise AssertionError('libcrypto selftest: %s was not refused' % msg)

    seq = bytes(range(256))

    # ---- known answers: block ciphers ------------------------------------------------
    kat(ecb('AES', seq[:16], H('00112233445566778899aabbccddeeff')),
        '69c4e0d86a7b0430d8cdb78070b4c55a', 'AES-128 FIPS-197 C.1')
    kat(ecb('AES', seq[:24], H('00112233445566778899aabbccddeeff')),
        'dda97ca4864cdfe06eaf70a0ec0d7191', 'AES-192 FIPS-197 C.2')
    kat(ecb('AES', seq[:32], H('00112233445566778899aabbccddeeff')),
        '8ea2b7ca516745bfeafc49904b496089', 'AES-256 FIPS-197 C.3')
    kat(ecb('AES', seq[:16], H('69c4e0d86a7b0430d8cdb78070b4c55a'), encrypt=False),
        '00112233445566778899aabbccddeeff', 'AES-128 decrypt')
    kat(ecb('DES', H('0123456789abcdef'), b'Now is t'), '3fa40e8a984d4815', 'DES')
    kat(ecb('DES3', H('0123456789abcdef') * 3, b'Now is t'), '3fa40e8a984d4815', '3DES k1=k2=k3')
    kat(ecb('BF', bytes(8), bytes(8)), '4ef997456198dd78', 'Blowfish (Schneier)')
    kat(ecb('CAST5', H('0123456712345678234567893456789a'), H('0123456789abcdef')),
        '238b4fe5847e44b2', 'CAST5 RFC 2144 128-bit')
    kat(ecb('CAST5', H('01234567123456782345'), H('0123456789abcdef')),
        'eb6a711a2c02271b', 'CAST5 RFC 2144 80-bit')
    kat(ecb('CAST5', H('0123456712'), H('0123456789abcdef')),
        '7ac816d16e9b302e', 'CAST5 RFC 2144 40-bit')
    kat(ecb('RC2', bytes(8), bytes(8), rc2_effective_bits=63), 'ebb773f993278eff', 'RC2 RFC 2268 #1')
    kat(ecb('RC2', b'\xff' * 8, b'\xff' * 8, rc2_effective_bits=64), '278b27e42e2f0d49',
        'RC2 RFC 2268 #2')
    kat(ecb('RC2', H('88'), bytes(8), rc2_effective_bits=64), '61a8a244adacccf0', 'RC2 RFC 2268 #4')
    kat(ecb('RC2', H('88bca90e90875a7f0f79c384627bafb2'), bytes(8), rc2_effective_bits=128),
        '2269552ab0f85ca6', 'RC2 RFC 2268 #7')
    kat(cipher('rc4', b'Key', None, b'Plaintext'), 'bbf316e8d940af0ad3', 'RC4')
    kat(cipher('id-aes128-wrap', seq[:16], None, H('00112233445566778899aabbccddeeff')),
        '1fa68b0a8112b447aef34bd8fb5a7b829d3e862371d2cfe5', 'AES-KW RFC 3394 4.1')
    kwp_kek = H('5840df6e29b02af1ab493b705bf16ea1ae8338f4dcc176a8')
    kat(cipher('id-aes192-wrap-pad', kwp_kek, None, H('c37b7e6492584340bed12207808941155068f738')),
        '138bdeaa9b8fa7fc61f97742e72248ee5ae6ae5360d1ae6a5f54f373fa543b6a', 'AES-KWP RFC 5649 #1')
    kat(cipher('id-aes192-wrap-pad', kwp_kek, None, H('466f7250617369')),
        'afbeb0f07dfbf5419200f2ccb50bb24f', 'AES-KWP RFC 5649 #2')
    # SP 800-38A F.2.1 / F.5.1 first blocks
    k38 = H('2b7e151628aed2a6abf7158809cf4f3c')
    p38 = H('6bc1bee22e409f96e93d7e117393172a')
    kat(cipher('aes-128-cbc', k38, seq[:16], p38), '7649abac8119b246cee98e9b12e9197d',
        'AES-CBC SP 800-38A')
    kat(cipher('aes-128-ctr', k38, H('f0f1f2f3f4f5f6f7f8f9fafbfcfdfeff'), p38),
        '874d6191b620e3261bef6864990db6ce', 'AES-CTR SP 800-38A')
    kat(cipher('aes-128-cfb', k38, seq[:16], p38), '3b3fd92eb72dad20333449f8e83cfb4a',
        'AES-CFB128 SP 800-38A')
    kat(cipher('aes-128-ofb', k38, seq[:16], p38), '3b3fd92eb72dad20333449f8e83cfb4a',
        'AES-OFB SP 800-38A')
    kat(cipher('aes-128-cfb8', k38, seq[:16], p38[:2]), '3b79', 'AES-CFB8 SP 800-38A')

    # ---- known answers: AEAD -----------------------------------------------------------
    ct, tag = aead_encrypt('aes-128-gcm', bytes(16), bytes(12), b'', b'', 16)
    kat(ct + tag, '58e2fccefa7e3061367f1d57a4e7455a', 'GCM test case 1')
    ct, tag = aead_encrypt('aes-128-gcm', bytes(16), bytes(12), b'', bytes(16), 16)
    kat(ct + tag, '0388dace60b6a392f328c2b971b2fe78ab6e47d42cec13bdf53a67b21257bddf',
        'GCM test case 2')
    ct, tag = aead_encrypt('aes-128-ocb', seq[:16], H('bbaa99887766554433221100'), b'', b'', 16)
    kat(ct + tag, '785407bfffc8ad9edcc5520ac9111ee6', 'OCB RFC 7253 #1')
    ct, tag = aead_encrypt('aes-128-ocb', seq[:16], H('bbaa99887766554433221101'),
                           seq[:8], seq[:8], 16)
    kat(ct + tag, '6820b3657b6f615a5725bda0d3b4eb3a257c9af1f8f03009', 'OCB RFC 7253 #2')
    ct, tag = aead_encrypt('aes-128-ccm', H('c0c1c2c3c4c5c6c7c8c9cacbcccdcecf'),
                           H('00000003020100a0a1a2a3a4a5'), seq[:8], seq[8:31], 8)
    kat(ct + tag, '588c979a61c663d2f066d0c2c0f989806d5f6b61dac38417e8d12cfdf926e0',
        'CCM RFC 3610 #1')
    sun = (b"Ladies and Gentlemen of the class of '99: If I could offer you only one tip for "
           b"the future, sunscreen would be it.")
    ct, tag = aead_encrypt('chacha20-poly1305', seq[0x80:0xa0], H('070000004041424344454647'),
                           H('50515253c0c1c2c3c4c5c6c7'), sun, 16)
    kat(ct[:16] + tag, 'd31a8d34648e60db7b86afbc53ef7ec21ae10b594f09e26a7e902ecbd0600691',
        'ChaCha20-Poly1305 RFC 8439 2.8.2')
    sivkey = H('fffefdfcfbfaf9f8f7f6f5f4f3f2f1f0f0f1f2f3f4f5f6f7f8f9fafbfcfdfeff')
    ct, tag = siv_encrypt(sivkey, [seq[0x10:0x28]], H('112233445566778899aabbccddee'))
    kat(tag + ct, '85632d07c6e8f37f950acd320a2ecc9340c02b9690c4dc04daef7f6afe5c',
        'AES-SIV RFC 5297 A.1')
    check(siv_decrypt(sivkey, [seq[0x10:0x28]], ct, tag) == H('112233445566778899aabbccddee'),
          'SIV decrypt')
    counts['roundtrip'] += 1

    # ---- known answers: hashes, MACs, KDFs -----------------------------------------------
    kat(digest('sha256', b'abc'),
        'ba7816bf8f01cfea414140de5dae2223b00361a396177a9cb410ff61f20015ad', 'SHA-256')
    kat(digest('md4', b'abc'), 'a448017aaf21d8525fc10ae87aa6729d', 'MD4')
    kat(digest('ripemd160', b'abc'), '8eb208f7e05d987a9b044a8e98c6b087f15a0bfc', 'RIPEMD-160')
    kat(digest('sha3-256', b''),
        'a7ffc6f8bf1ed76651c14756a061d662f580ff4de43b49fa82d80a4b80f8434a', 'SHA3-256')
    kat(digest('shake128', b'', 32),
        '7f9c2ba4e88f827d616045507605853ed73b8093f6efbc88eb1a6eacfa66ef26', 'SHAKE128')
    kat(mac('HMAC', b'\x0b' * 20, b'Hi There', digest='sha256'),
        'b0344c61d8db38535ca8afceaf0bf12b881dc200c9833da726e9376c2e32cff7', 'HMAC RFC 4231 #1')
    kat(mac('CMAC', k38, b'', cipher='aes-128-cbc'), 'bb1d6929e95937287fa37d129b756746',
        'CMAC SP 800-38B #1')
    kat(mac('CMAC', k38, p38, cipher='aes-128-cbc'), '070a16b46b4d4144f79bdd9dd04a287c',
        'CMAC SP 800-38B #2')
    kat(mac('POLY1305', H('85d6be7857556d337f4452fe42d506a80103808afb0db2fd4abff6af4149f51b'),
            b'Cryptographic Forum Research Group'), 'a8061dc1305136c6c22b8baf0c0127a9',
        'Poly1305 RFC 8439 2.5.2')
    kat(mac('KMAC128', seq[0x40:0x60], H('00010203'), custom=b'', size=32),
        'e5780b0d3ea6f7d3a429c5706aa43a00fadbd7d49628839e3187243f456ee14e', 'KMAC128 NIST #1')
    kat(mac('KMAC128', seq[0x40:0x60], H('00010203'), custom=b'My Tagged Application', size=32),
        '3b1fba963cd8b0b59e8c1a6d71888b7143651af8ba0a7070c0979e2811324aa5', 'KMAC128 NIST #2')
    kat(kdf('HKDF', 42, digest='sha256', key=b'\x0b' * 22, salt=seq[:13], info=seq[0xf0:0xfa]),
        '3cb25f25faacd57a90434f64d0362f2a2d2d0a90cf1a5a4c5db02d56ecc4c5bf34007208d5b887185865',
        'HKDF RFC 5869 #1')
    kat(kdf('HKDF', 32, digest='sha256', key=b'\x0b' * 22, salt=seq[:13], mode='EXTRACT_ONLY'),
        '077709362c2e32df0ddc3f0dc47bba6390b6c73bb50f9c3122ec844ad7c2b3e5', 'HKDF-Extract')
    kat(kdf('SCRYPT', 64, {'pass': b'', 'salt': b'', 'n': 16, 'r': 1, 'p': 1}),
        '77d6576238657b203b19ca42c18a0497f16b4844e3074ae8dfdffa3fede21442'
        'fcd0069ded0948f8326a753a0fc81f17e8d3e0fb2e0d3628cf35e20c38d18906', 'scrypt RFC 7914 #1')
    kat(kdf('SCRYPT', 64, {'pass': b'password', 'salt': b'NaCl', 'n': 1024, 'r': 8, 'p': 16}),
        'fdbabe1c9d3472007856e7190d01e9fe7c6ad7cbc8237830e77376634b373162'
        '2eaf30d92e22a3886ff109279d9830dac727afb94a83ee6d8360cbdfa2cc0640', 'scrypt RFC 7914 #2')
    kat(kdf('PBKDF2', 20, {'pass': b'password', 'salt': b'salt', 'iter': 1, 'digest': 'sha1'}),
        '0c60c80f961f0e71f3a9b524af6012062fe037a6', 'PBKDF2 RFC 6070 #1')
    kat(kdf('PBKDF2', 20, {'pass': b'password', 'salt': b'salt', 'iter': 4096, 'digest': 'sha1'}),
        '4b007901b765489abead49d926f721d065a429c1', 'PBKDF2 RFC 6070 #3')

    # ---- known answers: key agreement ------------------------------------------------------
    kat(xdh('X25519', H('77076d0a7318a57d3c16c17251b26645df4c2f87ebc0992ab177fba51db92c2a'),
            H('de9edb7d7b7dc1b4d35b61c2ece435373f8343c85b78674dadfc7e146f882b4f')),
        '4a5d9d5ba4ce2de1728e3bf480350f25e07e21c947d19e3376f09b3c1e161742', 'X25519 RFC 7748')
    kat(xdh('X448', H('9a8f4925d1519f5775cf46b04b5800d4ee9ee8bae8bc5565d498c28dd9c9baf5'
                      '74a9419744897391006382a6f127ab1d9ac2d8c0a598726b'),
            H('3eb7a829b0cd20f5bcfc0b599b6feccf6da4627107bdb0d4f345b43027d8b972'
              'fc3e34fb4232a13ca706dcb57aec3dae07bdc1c67bf33609')),
        '07fff4181ac6cc95ec1c16a94a0f74d12da232ce40a77552281d282bb60c0b56'
        'fd2464c335543936521c24403085d59a449a5037514a879d', 'X448 RFC 7748')
    check(xdh('X25519', rb(32), bytes(32)) is None, 'X25519 low-order point must give None')
    counts['negative'] += 1
    kat(ecdh('P-256', int('c88f01f510d9ac3f70a292daa2316de544e9aab8afe84049c62a9c57862d1433', 16),
             int('d12dfb5289c8d4f81208b70270398c342296970a0bccb74c736fc7554494bf63', 16),
             int('56fbf3ca366cc23e8157854c13c58d6aac23f046ada30f8353e74f33039872ab', 16)),
        'd6840f6b42f6edafd13116e0e12565202fef8e9ece7dce03812464d04b9442de', 'ECDH RFC 5903 8.1')
    # generator * 1 == generator (and an off-curve point is rejected)
    gx = int('6b17d1f2e12c4247f8bce6e563a440f277037d812deb33a0f4a13945d898c296', 16)
    gy = int('4fe342e2fe1a7f9b8ee7eb4a7c0f9e162bce33576b315ececbb6406837bf51f5', 16)
    check(ecdh('prime256v1', 1, gx, gy) == gx.to_bytes(32, 'big'), 'ECDH 1*G')
    check(ecdh('prime256v1', 1, gx, gy ^ 1) is None, 'ECDH off-curve point must give None')
    counts['kat'] += 1
    counts['negative'] += 1

    # ---- cross-checks with hashlib / hmac ------------------------------------------------
    hl = {'md5': 'md5', 'sha1': 'sha1', 'sha224': 'sha224', 'sha256': 'sha256',
          'sha384': 'sha384', 'sha512': 'sha512', 'sha512-224': 'sha512_224',
          'sha512-256': 'sha512_256', 'sha3-224': 'sha3_224', 'sha3-256': 'sha3_256',
          'sha3-384': 'sha3_384', 'sha3-512': 'sha3_512', 'blake2b512': 'blake2b',
          'blake2s256': 'blake2s', 'ripemd160': 'ripemd160', 'sm3': 'sm3'}
    for _ in range(rounds):
        d = rb(rnd.choice([0, 1, 55, 56, 63, 64, 65, 111, 112, 127, 128, 135, 136, 137, 200, 999]))
        for ours, theirs in hl.items():
            try:
                ref = hashlib.new(theirs, d).digest()
            except ValueError:
                continue
            check(digest(ours, d) == ref, 'digest %s vs hashlib' % ours)
            counts['xcheck'] += 1
        n = rnd.randint(0, 300)
        check(digest('shake128', d, n) == hashlib.shake_128(d).digest(n), 'shake128 vs hashlib')
        check(digest('shake256', d, n) == hashlib.shake_256(d).digest(n), 'shake256 vs hashlib')
        k = rb(rnd.choice([0, 1, 20, 64, 65, 128, 129, 200]))
        for h in ('md5', 'sha1', 'sha256', 'sha384', 'sha512', 'sha3-256'):
            check(mac('HMAC', k, d, digest=h) == _hmac.new(k, d, hl[h]).digest(),
                  'HMAC-%s vs hmac' % h)
            counts['xcheck'] += 1
        k = rb(rnd.randint(1, 64))
        sz = rnd.randint(1, 64)
        check(mac('BLAKE2BMAC', k, d, size=sz) == hashlib.blake2b(d, key=k, digest_size=sz).digest(),
              'BLAKE2BMAC vs hashlib')
        k = rb(rnd.randint(1, 32))
        sz = rnd.randint(1, 32)
        check(mac('BLAKE2SMAC', k, d, size=sz) == hashlib.blake2s(d, key=k, digest_size=sz).digest(),
              'BLAKE2SMAC vs hashlib')
        pw, salt = rb(rnd.randint(0, 40)), rb(rnd.randint(0, 40))
        it, n = rnd.randint(1, 30), rnd.randint(1, 100)
        h = rnd.choice(['sha1', 'sha256', 'sha512'])
        check(kdf('PBKDF2', n, {'pass': pw, 'salt': salt, 'iter': it, 'digest': h})
              == hashlib.pbkdf2_hmac(h, pw, salt, it, n), 'PBKDF2 vs hashlib')
        if hasattr(hashlib, 'scrypt'):
            N, r, p = 2 ** rnd.randint(1, 7), rnd.randint(1, 4), rnd.randint(1, 3)
            check(kdf('SCRYPT', n, {'pass': pw, 'salt': salt, 'n': N, 'r': r, 'p': p})
                  == hashlib.scrypt(pw, salt=salt, n=N, r=r, p=p, dklen=n), 'scrypt vs hashlib')
            counts['xcheck'] += 1
        # HKDF / KBKDF / PBKDF1 against their definitions computed with hmac/hashlib
        ikm, info = rb(rnd.randint(1, 60)), rb(rnd.randint(0, 40))
        prk = _hmac.new(salt or bytes(32), ikm, 'sha256').digest()
        okm, t, i = b'', b'', 1
        while len(okm) < n:
            t = _hmac.new(prk, t + info + bytes([i]), 'sha256').digest()
            okm += t
            i += 1
        check(kdf('HKDF', n, digest='sha256', key=ikm, salt=salt, info=info) == okm[:n],
              'HKDF vs definition')
        check(kdf('HKDF', n, digest='sha256', key=prk, info=info, mode='EXPAND_ONLY') == okm[:n],
              'HKDF expand-only vs definition')
        label, context = rb(rnd.randint(1, 20)), rb(rnd.randint(1, 20))
        ki = rb(rnd.randint(1, 80))
        out, i = b'', 1
        while len(out) < n:
            out += _hmac.new(ki, i.to_bytes(4, 'big') + label + b'\0' + context
                             + (8 * n).to_bytes(4, 'big'), 'sha256').digest()
            i += 1
        check(kdf('KBKDF', n, mode='counter', mac='HMAC', digest='sha256', key=ki, salt=label,
                  info=context) == out[:n], 'KBKDF counter/HMAC vs definition')
        kc = rb(16)
        out, i = b'', 1
        while len(out) < n:
            out += mac('CMAC', kc, i.to_bytes(4, 'big') + label + context, cipher='aes-128-cbc')
            i += 1
        check(kdf('KBKDF', n, mode='counter', mac='CMAC', cipher='aes-128-cbc', key=kc,
                  salt=label, info=context, use_l=0, use_separator=0) == out[:n],
              'KBKDF counter/CMAC (no L, no separator) vs definition')
        if legacy_available():
            t = pw + salt[:8].ljust(8, b'\1')
            for _i in range(it):
                t = hashlib.sha1(t).digest()
            n1 = rnd.randint(1, 20)
            check(kdf('PBKDF1', n1, {'pass': pw, 'salt': salt[:8].ljust(8, b'\1'), 'iter': it,
                                     'digest': 'sha1'}) == t[:n1], 'PBKDF1 vs definition')
            counts['xcheck'] += 1
        counts['xcheck'] += 9

    # ---- round trips -----------------------------------------------------------------
    def rt_ecb(c, key, bits=None):
        e, d = make_ecb(c, key, bits)
        bs = e.block_size
        blk = rb(bs)
        many = rb(bs * rnd.randint(2, 5))
        x = e(blk)
        check(len(x) == bs and d(x) == blk, 'make_ecb %s round trip (key %d bytes)' % (c, len(key)))
        check(x == ecb(c, key, blk, True, bits), 'make_ecb vs ecb %s' % c)
        check(ecb(c, key, x, False, bits) == blk, 'ecb %s decrypt' % c)
        check(e(many) == b''.join(e(many[i:i + bs]) for i in range(0, len(many), bs))
              and d(e(many)) == many, 'make_ecb %s multi-block' % c)
        check(e(blk) == x, 'make_ecb %s is stateless' % c)
        counts['roundtrip'] += 1

    for kl in (16, 24, 32):
        rt_ecb('AES', rb(kl))
    rt_ecb('DES', rb(8))
    rt_ecb('DES3', rb(16))
    rt_ecb('DES3', rb(24))
    for kl in range(4, 57):
        rt_ecb('BF', rb(kl))
    for kl in range(5, 17):
        rt_ecb('CAST5', rb(kl))
    for kl in range(1, 129):
        rt_ecb('RC2', rb(kl), rnd.randint(40, 1024))
        rt_ecb('RC2', rb(kl))
    k = rb(16)
    check(ecb('RC2', k, bytes(8), rc2_effective_bits=40) != ecb('RC2', k, bytes(8),
                                                                 rc2_effective_bits=1024)
          and ecb('RC2', k, bytes(8)) == ecb('RC2', k, bytes(8), rc2_effective_bits=1024),
          'RC2 effective bits are honoured / default to 1024')
    check(ecb('BF', k[:8], bytes(8)) != ecb('BF', k[:9], bytes(8)), 'BF key length is honoured')
    for kl in range(1, 257):
        key, d = rb(kl), rb(rnd.randint(0, 70))
        x = cipher('rc4', key, None, d)
        check(len(x) == len(d) and cipher('rc4', key, None, x, False) == d, 'RC4 round trip')
        counts['roundtrip'] += 1
    check(cipher('rc4', k[:5], None, bytes(8)) != cipher('rc4', k[:6], None, bytes(8)),
          'RC4 key length is honoured')

    modes = [('aes-128-cbc', 16, 16, 16), ('aes-192-cbc', 24, 16, 16), ('aes-256-cbc', 32, 16, 16),
             ('aes-128-cfb', 16, 16, 1), ('aes-256-cfb8', 32, 16, 1), ('aes-128-ofb', 16, 16, 1),
             ('aes-128-ctr', 16, 16, 1), ('aes-128-ecb', 16, 0, 16), ('aes-128-xts', 32, 16, -16),
             ('des-cbc', 8, 8, 8), ('des-cfb', 8, 8, 1), ('des-cfb8', 8, 8, 1), ('des-ofb', 8, 8, 1),
             ('des-ede3-cbc', 24, 8, 8), ('des-ede3-cfb', 24, 8, 1), ('des-ede3-cfb8', 24, 8, 1),
             ('des-ede3-ofb', 24, 8, 1), ('des-ede-cbc', 16, 8, 8), ('des-ede-ofb', 16, 8, 1),
             ('bf-cbc', None, 8, 8), ('bf-cfb', None, 8, 1), ('bf-ofb', None, 8, 1),
             ('cast5-cbc', None, 8, 8), ('cast5-cfb', None, 8, 1), ('cast5-ofb', None, 8, 1),
             ('rc2-cbc', None, 8, 8), ('rc2-cfb', None, 8, 1), ('rc2-ofb', None, 8, 1),
             ('chacha20', 32, 16, 1), ('camellia-128-cbc', 16, 16, 16)]
    var = {'bf': (4, 56), 'cast5': (5, 16), 'rc2': (1, 128)}
    for name, kl, ivl, unit in modes:
        for _ in range(4):
            fam = name.split('-')[0]
            key = rb(kl if kl else rnd.randint(*var[fam]))
            iv = rb(ivl) if ivl else None
            if unit == -16:
                d = rb(rnd.randint(16, 80))
            else:
                d = rb(unit * rnd.randint(0, 80 // unit))
            bits = rnd.randint(40, 1024) if fam == 'rc2' else None
            x = cipher(name, key, iv, d, True, False, bits)
            check(x is not None and len(x) == len(d), '%s encrypt length' % name)
            check(cipher(name, key, iv, x, False, False, bits) == d, '%s round trip' % name)
            if unit > 1:
                d = rb(rnd.randint(0, 50))
                x = cipher(name, key, iv, d, True, True, bits)
                check(len(x) == (len(d) // unit + 1) * unit, '%s padded length' % name)
                check(cipher(name, key, iv, x, False, True, bits) == d, '%s padded round trip' % name)
            counts['roundtrip'] += 1
    # the pure block primitive and the generic interface agree (CBC of one block, zero IV)
    for c, name, kl in (('AES', 'aes-128-cbc', 16), ('DES3', 'des-ede3-cbc', 24),
                        ('BF', 'bf-cbc', 11), ('CAST5', 'cast5-cbc', 7), ('RC2', 'rc2-cbc', 13)):
        key = rb(kl)
        bs = 16 if c == 'AES' else 8
        blk = rb(bs)
        check(cipher(name, key, bytes(bs), blk) == ecb(c, key, blk), '%s: cbc vs ecb' % c)
        counts['xcheck'] += 1

    for bits in (128, 192, 256):
        key = rb(bits // 8)
        for n in (16, 24, 32, 40, 64):
            d = rb(n)
            w = cipher('id-aes%d-wrap' % bits, key, None, d)
            check(len(w) == n + 8 and cipher('id-aes%d-wrap' % bits, key, None, w, False) == d,
                  'AES-KW round trip')
            bad = bytes([w[0] ^ 1]) + w[1:]
            check(cipher('id-aes%d-wrap' % bits, key, None, bad, False) is None,
                  'AES-KW integrity failure must give None')
            counts['roundtrip'] += 1
            counts['negative'] += 1
        for n in (1, 7, 8, 9, 16, 17, 31, 64):
            d = rb(n)
            w = cipher('id-aes%d-wrap-pad' % bits, key, None, d)
            check(len(w) == (n + 7) // 8 * 8 + 8
                  and cipher('id-aes%d-wrap-pad' % bits, key, None, w, False) == d,
                  'AES-KWP round trip')
            bad = w[:-1] + bytes([w[-1] ^ 1])
            check(cipher('id-aes%d-wrap-pad' % bits, key, None, bad, False) is None,
                  'AES-KWP integrity failure must give None')
            counts['roundtrip'] += 1
            counts['negative'] += 1
    x = cipher('aes-128-cbc', k, bytes(16), bytes(16), True, True)      # 16 x 00 + 16 x 10
    check(cipher('aes-128-cbc', k, bytes(16), x[:-1] + bytes([x[-1] ^ 0xff]), False, True) is None
          or len(x) != 32, 'bad padding must give None')
    counts['negative'] += 1
    check(cipher('aes-128-cbc', k, bytes(16), rb(15), False) is None,
          'ragged ciphertext must give None')
    counts['negative'] += 1

    for _ in range(rounds):
        kl = rnd.choice([16, 24, 32])
        key, aad, pt = rb(kl), rb(rnd.choice([0, 1, 16, 33])), rb(rnd.choice([0, 1, 15, 16, 17, 70]))
        cases = [('aes-%d-gcm' % (8 * kl), key, rb(rnd.choice([1, 8, 12, 16, 64])), rnd.randint(4, 16)),
                 ('aes-%d-ccm' % (8 * kl), key, rb(rnd.randint(7, 13)), rnd.choice([4, 6, 8, 10, 12, 14, 16])),
                 ('aes-%d-ocb' % (8 * kl), key, rb(rnd.randint(1, 15)), rnd.randint(1, 16)),
                 ('chacha20-poly1305', rb(32), rb(12), 16)]
        for name, key_, nonce, tl in cases:
            ct, tag = aead_encrypt(name, key_, nonce, aad, pt, tl)
            check(len(ct) == len(pt) and len(tag) == tl, '%s lengths' % name)
            check(aead_decrypt(name, key_, nonce, aad, ct, tag) == pt, '%s round trip' % name)
            if tl >= 4:
                bad = bytes([tag[0] ^ 0x80]) + tag[1:]
                check(aead_decrypt(name, key_, nonce, aad, ct, bad) is None, '%s bad tag' % name)
                check(aead_decrypt(name, key_, nonce, aad + b'x', ct, tag) is None, '%s bad AAD' % name)
                counts['negative'] += 2
            counts['roundtrip'] += 1
        key = rb(rnd.choice([32, 48, 64]))
        aads = [rb(rnd.randint(1, 40)) for _ in range(rnd.randint(0, 4))]
        pt = rb(rnd.randint(1, 70))
        ct, tag = siv_encrypt(key, aads, pt)
        check(siv_decrypt(key, aads, ct, tag) == pt, 'SIV round trip')
        check(siv_decrypt(key, aads + [b'x'], ct, tag) is None, 'SIV bad AAD')
        check(siv_decrypt(key, aads, ct, bytes([tag[0] ^ 1]) + tag[1:]) is None, 'SIV bad tag')
        counts['roundtrip'] += 1
        counts['negative'] += 2

    # ---- things that must be refused ------------------------------------------------------
    refuses(lambda: cipher('no-such-cipher', k, None, b''), 'unknown cipher')
    refuses(lambda: digest('no-such-digest', b''), 'unknown digest')
    refuses(lambda: mac('NOSUCHMAC', k, b''), 'unknown MAC')
    refuses(lambda: kdf('NOSUCHKDF', 16), 'unknown KDF')
    refuses(lambda: cipher('aes-128-cbc', k[:15], bytes(16), b''), 'short AES key')
    refuses(lambda: cipher('aes-128-cbc', k, bytes(15), b''), 'short IV')
    refuses(lambda: cipher('aes-128-cbc', k, bytes(16), b'x'), 'ragged plaintext w/o padding')
    refuses(lambda: ecb('AES', k, b'x' * 15), 'ragged ECB input')
    refuses(lambda: ecb('DES3', k[:8], bytes(8)), '8-byte 3DES key')
    refuses(lambda: aead_encrypt('aes-128-ccm', k, bytes(6), b'', b'', 16), 'CCM 6-byte nonce')
    refuses(lambda: aead_encrypt('aes-128-ccm', k, bytes(12), b'', b'', 5), 'CCM odd tag')
    refuses(lambda: aead_encrypt('aes-128-ocb', k, bytes(16), b'', b'', 16), 'OCB 16-byte nonce')
    refuses(lambda: siv_encrypt(k, [], b'x'), 'SIV 16-byte key')
    refuses(lambda: kdf('KBKDF', 16, mode='counter', mac='HMAC', digest='sha256', key=k, r=8),
            'KBKDF "r" parameter (not in OpenSSL 3.0)')
    refuses(lambda: decode_key(b'not a key'), 'garbage key')
    refuses(lambda: ecdh('no-such-curve', 1, 1, 1), 'unknown EC group')

    if cli:
        counts['cli_keys'] = _selftest_cli(check)
    check(_errors() == '', 'OpenSSL error queue not empty at the end')
    return counts


if __name__ == '__main__':      # pragma: no cover
    import time as _time
    print(version(), '| legacy provider:', legacy_available())
    _t0 = _time.perf_counter()
    _res = selftest()
    print('selftest ok in %.2f s:' % (_time.perf_counter() - _t0), _res)
    for _c, _kl in (('AES', 16), ('DES3', 24), ('BF', 16), ('CAST5', 16), ('RC2', 16)):
        _e, _d = make_ecb(_c, bytes(range(_kl)))
        _blk = bytes(_e.block_size)
        _n = 200000
        _t0 = _time.perf_counter()
        for _ in range(_n):
            _e(_blk)
        _dt = (_time.perf_counter() - _t0) / _n
        print('make_ecb(%s) closure: %.2f us per %d-byte block call' % (_c, _dt * 1e6, len(_blk)))

