"""Independent reference implementations (test oracles) for stream ciphers,
Poly1305 and the ChaCha20-Poly1305 AEAD family.

Written directly from the specification texts:

* RFC 8439 (ChaCha20 and Poly1305 for IETF Protocols), and D. J. Bernstein,
  "ChaCha, a variant of Salsa20" for the original 64-bit counter / 64-bit
  nonce layout;
* draft-irtf-cfrg-xchacha-03 (HChaCha20, XChaCha20, XChaCha20-Poly1305);
* D. J. Bernstein, "Salsa20 specification";
* the classic RC4 description (KSA + PRGA), vectors from RFC 6229;
* D. J. Bernstein, "The Poly1305-AES message-authentication code".

Only the standard library is used.  This module deliberately does NOT import
the library under test; it favours obviousness over speed.

Run ``python stream.py`` to execute :func:`selftest`.
"""

import hashlib
import json
import os
import random
import shutil
import struct
import subprocess

__all__ = [
    "chacha_quarter_round", "chacha20_block", "chacha20_stream", "hchacha20",
    "chacha20_xor",
    "salsa20_quarter_round", "salsa20_block", "salsa20_stream", "salsa20_xor",
    "rc4_stream", "rc4_xor",
    "poly1305", "poly1305_with_cipher", "poly1305_aes_s", "poly1305_aes",
    "chacha20_poly1305_key_gen", "chacha20_poly1305_mac_data",
    "chacha20_poly1305_encrypt", "chacha20_poly1305_decrypt",
    "selftest",
]

_M32 = 0xFFFFFFFF


def _rotl32(v, n):
    return ((v << n) & _M32) | (v >> (32 - n))


def _xor(a, b):
    """XOR of two equal-length byte strings."""
    assert len(a) == len(b)
    n = len(a)
    return (int.from_bytes(a, "big") ^ int.from_bytes(b, "big")).to_bytes(n, "big")


def _bytes_arg(x, name):
    if not isinstance(x, (bytes, bytearray, memoryview)):
        raise TypeError("%s must be bytes-like" % name)
    return bytes(x)


def _nonneg_int(x, name):
    if isinstance(x, bool) or not isinstance(x, int):
        raise TypeError("%s must be an int" % name)
    if x < 0:
        raise ValueError("%s must be non-negative" % name)
    return x


# "expand 32-byte k" / "expand 16-byte k" as four little-endian words each.
_SIGMA = struct.unpack("<4I", b"expand 32-byte k")
_TAU = struct.unpack("<4I", b"expand 16-byte k")


# ---------------------------------------------------------------------------
# ChaCha20 (RFC 8439 section 2.1 - 2.4)
# ---------------------------------------------------------------------------

def chacha_quarter_round(a, b, c, d):
    """RFC 8439 section 2.1."""
    a = (a + b) & _M32; d ^= a; d = _rotl32(d, 16)
    c = (c + d) & _M32; b ^= c; b = _rotl32(b, 12)
    a = (a + b) & _M32; d ^= a; d = _rotl32(d, 8)
    c = (c + d) & _M32; b ^= c; b = _rotl32(b, 7)
    return a, b, c, d


# RFC 8439 section 2.3: four column rounds followed by four diagonal rounds.
_CHACHA_ROUND_INDICES = (
    (0, 4, 8, 12), (1, 5, 9, 13), (2, 6, 10, 14), (3, 7, 11, 15),
    (0, 5, 10, 15), (1, 6, 11, 12), (2, 7, 8, 13), (3, 4, 9, 14),
)


def _chacha_20_rounds(state):
    """Apply the 20 ChaCha rounds (10 double rounds) to a 16-word state and
    return the permuted words (no feed-forward addition)."""
    x = list(state)
    qr = chacha_quarter_round
    for _ in range(10):
        for ia, ib, ic, id_ in _CHACHA_ROUND_INDICES:
            x[ia], x[ib], x[ic], x[id_] = qr(x[ia], x[ib], x[ic], x[id_])
    return x


def chacha20_block(key32, counter_words, nonce):
    """The ChaCha20 block function; returns the 64-byte serialized block.

    State words 0..3 are the constants, 4..11 the key.  Words 12..15:

    * 12-byte nonce (RFC 8439): word 12 = 32-bit block counter,
      words 13..15 = nonce;
    * 8-byte nonce (original Bernstein): words 12..13 = 64-bit block counter
      (little-endian, low word first), words 14..15 = nonce.

    ``counter_words`` is the integer block counter.  OverflowError is raised
    if it does not fit the counter field.
    """
    key32 = _bytes_arg(key32, "key")
    nonce = _bytes_arg(nonce, "nonce")
    counter = _nonneg_int(counter_words, "counter")
    if len(key32) != 32:
        raise ValueError("ChaCha20 key must be 32 bytes")
    if len(nonce) == 12:
        if counter >> 32:
            raise OverflowError("ChaCha20 32-bit block counter overflow")
        tail = (counter,) + struct.unpack("<3I", nonce)
    elif len(nonce) == 8:
        if counter >> 64:
            raise OverflowError("ChaCha20 64-bit block counter overflow")
        tail = (counter & _M32, counter >> 32) + struct.unpack("<2I", nonce)
    else:
        raise ValueError("chacha20_block: nonce must be 8 or 12 bytes")
    state = _SIGMA + struct.unpack("<8I", key32) + tail
    x = _chacha_20_rounds(state)
    out = [(x[i] + state[i]) & _M32 for i in range(16)]
    return struct.pack("<16I", *out)


def hchacha20(key, nonce16):
    """HChaCha20 (draft-irtf-cfrg-xchacha-03 section 2.2): 32-byte subkey."""
    key = _bytes_arg(key, "key")
    nonce16 = _bytes_arg(nonce16, "nonce")
    if len(key) != 32:
        raise ValueError("HChaCha20 key must be 32 bytes")
    if len(nonce16) != 16:
        raise ValueError("HChaCha20 nonce must be 16 bytes")
    state = _SIGMA + struct.unpack("<8I", key) + struct.unpack("<4I", nonce16)
    x = _chacha_20_rounds(state)
    # First and last rows, *without* adding the input state.
    return struct.pack("<8I", *(x[0:4] + x[12:16]))


def _chacha20_params(key, nonce):
    """Resolve (key, nonce) to the effective (key, 8-or-12-byte nonce,
    number of addressable blocks)."""
    key = _bytes_arg(key, "key")
    nonce = _bytes_arg(nonce, "nonce")
    if len(key) != 32:
        raise ValueError("ChaCha20 key must be 32 bytes")
    if len(nonce) == 8:
        return key, nonce, 1 << 64
    if len(nonce) == 12:
        return key, nonce, 1 << 32
    if len(nonce) == 24:
        # XChaCha20, draft section 2.3
        subkey = hchacha20(key, nonce[:16])
        return subkey, b"\x00\x00\x00\x00" + nonce[16:24], 1 << 32
    raise ValueError("ChaCha20 nonce must be 8, 12 or 24 bytes")


def chacha20_stream(key, nonce, nbytes, start_block=0, start_offset=0):
    """``nbytes`` of (X)ChaCha20 key stream, starting ``start_offset`` bytes
    into block number ``start_block`` (i.e. at absolute key stream position
    ``64*start_block + start_offset``).

    nonce: 8 bytes (64-bit counter), 12 bytes (RFC 8439, 32-bit counter) or
    24 bytes (XChaCha20, 32-bit counter).  OverflowError is raised if a byte
    from a block whose counter is not representable would be needed.

    The block whose counter is all ones (2^32-1, resp. 2^64-1) is a perfectly
    valid block: RFC 8439 section 2.8 counts on counters 1..2^32-1 for its
    274,877,906,880-byte AEAD plaintext limit.  So the key stream is exactly
    2^38 (resp. 2^70) bytes long; requesting zero bytes never fails.
    """
    key, nonce, nblocks = _chacha20_params(key, nonce)
    nbytes = _nonneg_int(nbytes, "nbytes")
    pos = 64 * _nonneg_int(start_block, "start_block") \
        + _nonneg_int(start_offset, "start_offset")
    if nbytes == 0:
        return b""
    first, skip = divmod(pos, 64)
    last = (pos + nbytes - 1) // 64
    if last >= nblocks:
        raise OverflowError("ChaCha20 key stream exhausted (block counter overflow)")
    out = b"".join(chacha20_block(key, c, nonce) for c in range(first, last + 1))
    return out[skip:skip + nbytes]


def chacha20_xor(key, nonce, data, start_block=0):
    """Encrypt/decrypt ``data`` with (X)ChaCha20, key stream starting at
    block ``start_block`` (RFC 8439 section 2.4 "initial counter")."""
    data = _bytes_arg(data, "data")
    return _xor(data, chacha20_stream(key, nonce, len(data), start_block))


# ---------------------------------------------------------------------------
# Salsa20 (Bernstein, "Salsa20 specification")
# ---------------------------------------------------------------------------

def salsa20_quarter_round(y0, y1, y2, y3):
    """Spec section 3."""
    z1 = y1 ^ _rotl32((y0 + y3) & _M32, 7)
    z2 = y2 ^ _rotl32((z1 + y0) & _M32, 9)
    z3 = y3 ^ _rotl32((z2 + z1) & _M32, 13)
    z0 = y0 ^ _rotl32((z3 + z2) & _M32, 18)
    return z0, z1, z2, z3


# Spec section 5 (columnround) and section 4 (rowround), expressed as the
# index quadruples fed to quarterround; doubleround = rowround o columnround.
_SALSA_COLUMN_INDICES = ((0, 4, 8, 12), (5, 9, 13, 1), (10, 14, 2, 6), (15, 3, 7, 11))
_SALSA_ROW_INDICES = ((0, 1, 2, 3), (5, 6, 7, 4), (10, 11, 8, 9), (15, 12, 13, 14))


def _salsa20_hash(words):
    """Spec section 8: Salsa20(x) = x + doubleround^10(x) on 16 LE words."""
    x = list(words)
    qr = salsa20_quarter_round
    for _ in range(10):
        for i0, i1, i2, i3 in _SALSA_COLUMN_INDICES + _SALSA_ROW_INDICES:
            x[i0], x[i1], x[i2], x[i3] = qr(x[i0], x[i1], x[i2], x[i3])
    return struct.pack("<16I", *((x[i] + words[i]) & _M32 for i in range(16)))


def salsa20_block(key, nonce8, counter):
    """Salsa20_k(v || i): 64-byte block number ``counter`` (spec sections 9, 10).

    key: 32 bytes (sigma constants, k0 || k1) or 16 bytes (tau constants,
    "expand 16-byte k", key used twice).  nonce8: 8 bytes.  counter: 0..2^64-1.
    """
    key = _bytes_arg(key, "key")
    nonce8 = _bytes_arg(nonce8, "nonce")
    counter = _nonneg_int(counter, "counter")
    if len(nonce8) != 8:
        raise ValueError("Salsa20 nonce must be 8 bytes")
    if counter >> 64:
        raise OverflowError("Salsa20 64-bit block counter overflow")
    if len(key) == 32:
        c = _SIGMA
        k0 = struct.unpack("<4I", key[:16])
        k1 = struct.unpack("<4I", key[16:])
    elif len(key) == 16:
        c = _TAU
        k0 = k1 = struct.unpack("<4I", key)
    else:
        raise ValueError("Salsa20 key must be 16 or 32 bytes")
    n = struct.unpack("<2I", nonce8) + (counter & _M32, counter >> 32)
    words = (c[0],) + k0 + (c[1],) + n + (c[2],) + k1 + (c[3],)
    return _salsa20_hash(words)


def salsa20_stream(key, nonce8, nbytes, start_block=0, start_offset=0):
    """``nbytes`` of Salsa20 key stream (by default from the beginning)."""
    nbytes = _nonneg_int(nbytes, "nbytes")
    pos = 64 * _nonneg_int(start_block, "start_block") \
        + _nonneg_int(start_offset, "start_offset")
    if nbytes == 0:
        salsa20_block(key, nonce8, 0)   # still validates key / nonce sizes
        return b""
    first, skip = divmod(pos, 64)
    last = (pos + nbytes - 1) // 64
    if last >> 64:
        raise OverflowError("Salsa20 key stream exhausted (block counter overflow)")
    out = b"".join(salsa20_block(key, nonce8, c) for c in range(first, last + 1))
    return out[skip:skip + nbytes]


def salsa20_xor(key, nonce, data):
    data = _bytes_arg(data, "data")
    return _xor(data, salsa20_stream(key, nonce, len(data)))


# ---------------------------------------------------------------------------
# RC4
# ---------------------------------------------------------------------------

def rc4_stream(key, nbytes, drop=0):
    """``nbytes`` of RC4 key stream after discarding the first ``drop`` bytes
    (RC4-drop[n]).  key: 1..256 bytes."""
    key = _bytes_arg(key, "key")
    nbytes = _nonneg_int(nbytes, "nbytes")
    drop = _nonneg_int(drop, "drop")
    if not 1 <= len(key) <= 256:
        raise ValueError("RC4 key must be 1..256 bytes")
    # key-scheduling algorithm
    S = list(range(256))
    j = 0
    for i in range(256):
        j = (j + S[i] + key[i % len(key)]) % 256
        S[i], S[j] = S[j], S[i]
    # pseudo-random generation algorithm
    i = j = 0
    out = bytearray()
    for n in range(drop + nbytes):
        i = (i + 1) % 256
        j = (j + S[i]) % 256
        S[i], S[j] = S[j], S[i]
        if n >= drop:
            out.append(S[(S[i] + S[j]) % 256])
    return bytes(out)


def rc4_xor(key, data, drop=0):
    data = _bytes_arg(data, "data")
    return _xor(data, rc4_stream(key, len(data), drop))


# ---------------------------------------------------------------------------
# Poly1305 (RFC 8439 section 2.5; Bernstein's Poly1305-AES)
# ---------------------------------------------------------------------------

_P1305 = (1 << 130) - 5
_R_CLAMP = 0x0FFFFFFC0FFFFFFC0FFFFFFC0FFFFFFF


def poly1305_with_cipher(r, s, msg):
    """Poly1305 primitive: r (16 bytes, clamped here; a no-op for an r that
    already has the required bits clear), s (16 bytes, the value added at the
    end: second key half for RFC 8439, AES_k(nonce) for Poly1305-AES)."""
    r = _bytes_arg(r, "r")
    s = _bytes_arg(s, "s")
    msg = _bytes_arg(msg, "msg")
    if len(r) != 16 or len(s) != 16:
        raise ValueError("Poly1305 r and s must be 16 bytes each")
    rn = int.from_bytes(r, "little") & _R_CLAMP
    sn = int.from_bytes(s, "little")
    acc = 0
    for i in range(0, len(msg), 16):
        chunk = msg[i:i + 16]
        n = int.from_bytes(chunk + b"\x01", "little")
        acc = ((acc + n) * rn) % _P1305
    return ((acc + sn) & ((1 << 128) - 1)).to_bytes(16, "little")


def poly1305(key32, msg):
    """RFC 8439 section 2.5: key32 = r || s, r is clamped here."""
    key32 = _bytes_arg(key32, "key")
    if len(key32) != 32:
        raise ValueError("Poly1305 key must be 32 bytes")
    return poly1305_with_cipher(key32[:16], key32[16:], msg)


def poly1305_aes_s(aes_key16, nonce16, aes_encrypt_block):
    """Poly1305-AES: s = AES_k(n).  ``aes_encrypt_block(key, block)`` must
    return the 16-byte AES-128 encryption of the 16-byte ``block``."""
    aes_key16 = _bytes_arg(aes_key16, "aes_key")
    nonce16 = _bytes_arg(nonce16, "nonce")
    if len(aes_key16) != 16:
        raise ValueError("Poly1305-AES k must be 16 bytes")
    if len(nonce16) != 16:
        raise ValueError("Poly1305-AES nonce must be 16 bytes")
    s = bytes(aes_encrypt_block(aes_key16, nonce16))
    if len(s) != 16:
        raise ValueError("aes_encrypt_block must return 16 bytes")
    return s


def poly1305_aes(key32, nonce16, msg, aes_encrypt_block):
    """Poly1305-AES with key32 = k (16-byte AES key) || r (16 bytes)."""
    key32 = _bytes_arg(key32, "key")
    if len(key32) != 32:
        raise ValueError("Poly1305-AES key must be 32 bytes (k || r)")
    s = poly1305_aes_s(key32[:16], nonce16, aes_encrypt_block)
    return poly1305_with_cipher(key32[16:], s, msg)


# ---------------------------------------------------------------------------
# AEAD_CHACHA20_POLY1305 (RFC 8439 section 2.8) and XChaCha20-Poly1305
# ---------------------------------------------------------------------------

def chacha20_poly1305_key_gen(key, nonce):
    """RFC 8439 section 2.6: one-time Poly1305 key = first 32 bytes of block 0.
    For 24-byte nonces the HChaCha20 subkey / shortened nonce are used; for
    8-byte nonces the 64-bit-counter layout."""
    key, nonce, _ = _chacha20_params(key, nonce)
    return chacha20_block(key, 0, nonce)[:32]


def _pad16(x):
    return b"\x00" * (-len(x) % 16)


def chacha20_poly1305_mac_data(aad, ct):
    """RFC 8439 section 2.8: aad | pad16 | ct | pad16 | le64(len aad) | le64(len ct)."""
    return (aad + _pad16(aad) + ct + _pad16(ct)
            + struct.pack("<Q", len(aad)) + struct.pack("<Q", len(ct)))


def chacha20_poly1305_encrypt(key, nonce, aad, pt):
    """Returns (ciphertext, 16-byte tag).

    nonce 12 bytes: RFC 8439 section 2.8.  nonce 8 bytes: identical
    construction over original ChaCha20 (64-bit counter, 64-bit nonce; one-time
    key from block 0, data from block 1).  nonce 24 bytes: XChaCha20-Poly1305
    (draft-irtf-cfrg-xchacha-03 section 2).
    """
    aad = _bytes_arg(aad, "aad")
    pt = _bytes_arg(pt, "pt")
    otk = chacha20_poly1305_key_gen(key, nonce)
    ct = chacha20_xor(key, nonce, pt, start_block=1)
    tag = poly1305(otk, chacha20_poly1305_mac_data(aad, ct))
    return ct, tag


def chacha20_poly1305_decrypt(key, nonce, aad, ct, tag):
    """Returns the plaintext, or None if the tag does not verify."""
    aad = _bytes_arg(aad, "aad")
    ct = _bytes_arg(ct, "ct")
    tag = _bytes_arg(tag, "tag")
    otk = chacha20_poly1305_key_gen(key, nonce)
    expected = poly1305(otk, chacha20_poly1305_mac_data(aad, ct))
    if tag != expected:
        return None
    return chacha20_xor(key, nonce, ct, start_block=1)


# ---------------------------------------------------------------------------
# Self test
# ---------------------------------------------------------------------------

def _h(s):
    return bytes.fromhex("".join(s.split()).replace(":", ""))


_SUNSCREEN = (b"Ladies and Gentlemen of the class of '99: If I could offer you "
              b"only one tip for the future, sunscreen would be it.")

_RFC_KEY_00_1F = bytes(range(0x00, 0x20))
_RFC_KEY_80_9F = bytes(range(0x80, 0xA0))

_WYCHEPROOF_DIR = "/repo/test_vectors/pycryptodome_test_vectors/Cipher/wycheproof"


def _check(cond, msg):
    if not cond:
        raise AssertionError(msg)


def _eq(got, want, what):
    if got != want:
        raise AssertionError("%s: got %s, expected %s" % (
            what,
            got.hex() if isinstance(got, (bytes, bytearray)) else repr(got),
            want.hex() if isinstance(want, (bytes, bytearray)) else repr(want)))


def _raises(exc, fn, *args, **kw):
    try:
        fn(*args, **kw)
    except exc:
        return True
    except Exception as e:  # pragma: no cover
        raise AssertionError("%s%r raised %r, expected %s" % (fn.__name__, args, e, exc.__name__))
    raise AssertionError("%s%r did not raise %s" % (fn.__name__, args, exc.__name__))


def _st_rfc8439():
    n = 0
    # 2.1.1 quarter round
    _eq(chacha_quarter_round(0x11111111, 0x01020304, 0x9b8d6f43, 0x01234567),
        (0xea2a92f4, 0xcb1cf8ce, 0x4581472e, 0x5881c4bb), "RFC 8439 2.1.1"); n += 1
    # 2.3.2 block function
    _eq(chacha20_block(_RFC_KEY_00_1F, 1, _h("000000090000004a00000000")), _h("""
        10 f1 e7 e4 d1 3b 59 15 50 0f dd 1f a3 20 71 c4
        c7 d1 f4 c7 33 c0 68 03 04 22 aa 9a c3 d4 6c 4e
        d2 82 64 46 07 9f aa 09 14 c2 d7 05 d9 8b 02 a2
        b5 12 9c d1 de 16 4e b9 cb d0 83 e8 a2 50 3c 4e"""), "RFC 8439 2.3.2"); n += 1
    # 2.4.2 encryption
    ct242 = _h("""
        6e 2e 35 9a 25 68 f9 80 41 ba 07 28 dd 0d 69 81
        e9 7e 7a ec 1d 43 60 c2 0a 27 af cc fd 9f ae 0b
        f9 1b 65 c5 52 47 33 ab 8f 59 3d ab cd 62 b3 57
        16 39 d6 24 e6 51 52 ab 8f 53 0c 35 9f 08 61 d8
        07 ca 0d bf 50 0d 6a 61 56 a3 8e 08 8a 22 b6 5e
        52 bc 51 4d 16 cc f8 06 81 8c e9 1a b7 79 37 36
        5a f9 0b bf 74 a3 5b e6 b4 0b 8e ed f2 78 5e 42
        87 4d""")
    nonce242 = _h("000000000000004a00000000")
    _eq(chacha20_xor(_RFC_KEY_00_1F, nonce242, _SUNSCREEN, start_block=1), ct242,
        "RFC 8439 2.4.2 encrypt"); n += 1
    _eq(chacha20_xor(_RFC_KEY_00_1F, nonce242, ct242, start_block=1), _SUNSCREEN,
        "RFC 8439 2.4.2 decrypt"); n += 1
    # 2.5.2 Poly1305
    k252 = _h("85:d6:be:78:57:55:6d:33:7f:44:52:fe:42:d5:06:a8:"
              "01:03:80:8a:fb:0d:b2:fd:4a:bf:f6:af:41:49:f5:1b")
    _eq(poly1305(k252, b"Cryptographic Forum Research Group"),
        _h("a8:06:1d:c1:30:51:36:c6:c2:2b:8b:af:0c:01:27:a9"), "RFC 8439 2.5.2"); n += 1
    # 2.6.2 Poly1305 key generation
    _eq(chacha20_poly1305_key_gen(_RFC_KEY_80_9F, _h("00 00 00 00 00 01 02 03 04 05 06 07")),
        _h("""8a d5 a0 8b 90 5f 81 cc 81 50 40 27 4a b2 94 71
              a8 33 b6 37 e3 fd 0d a5 08 db b8 e2 fd d1 a6 46"""), "RFC 8439 2.6.2"); n += 1
    # 2.8.2 AEAD
    nonce282 = _h("07 00 00 00 40 41 42 43 44 45 46 47")
    aad282 = _h("50 51 52 53 c0 c1 c2 c3 c4 c5 c6 c7")
    ct282 = _h("""
        d3 1a 8d 34 64 8e 60 db 7b 86 af bc 53 ef 7e c2
        a4 ad ed 51 29 6e 08 fe a9 e2 b5 a7 36 ee 62 d6
        3d be a4 5e 8c a9 67 12 82 fa fb 69 da 92 72 8b
        1a 71 de 0a 9e 06 0b 29 05 d6 a5 b6 7e cd 3b 36
        92 dd bd 7f 2d 77 8b 8c 98 03 ae e3 28 09 1b 58
        fa b3 24 e4 fa d6 75 94 55 85 80 8b 48 31 d7 bc
        3f f4 de f0 8e 4b 7a 9d e5 76 d2 65 86 ce c6 4b
        61 16""")
    tag282 = _h("1a:e1:0b:59:4f:09:e2:6a:7e:90:2e:cb:d0:60:06:91")
    _eq(chacha20_poly1305_key_gen(_RFC_KEY_80_9F, nonce282),
        _h("""7b ac 2b 25 2d b4 47 af 09 b6 7a 55 a4 e9 55 84
              0a e1 d6 73 10 75 d9 eb 2a 93 75 78 3e d5 53 ff"""), "RFC 8439 2.8.2 otk"); n += 1
    _eq(chacha20_poly1305_encrypt(_RFC_KEY_80_9F, nonce282, aad282, _SUNSCREEN),
        (ct282, tag282), "RFC 8439 2.8.2 encrypt"); n += 1
    _eq(chacha20_poly1305_decrypt(_RFC_KEY_80_9F, nonce282, aad282, ct282, tag282),
        _SUNSCREEN, "RFC 8439 2.8.2 decrypt"); n += 1
    bad = bytes([tag282[0] ^ 1]) + tag282[1:]
    _eq(chacha20_poly1305_decrypt(_RFC_KEY_80_9F, nonce282, aad282, ct282, bad),
        None, "RFC 8439 2.8.2 bad tag"); n += 1
    _eq(chacha20_poly1305_decrypt(_RFC_KEY_80_9F, nonce282, aad282 + b"\0", ct282, tag282),
        None, "RFC 8439 2.8.2 bad aad"); n += 1

    # Appendix A.1 / A.2 (block and encryption test vectors)
    key_a3 = _h("1c9240a5eb55d38af333888604f6b5f0473917c1402b80099dca5cbc207075c0")
    zero_block = _h("""76b8e0ada0f13d90405d6ae55386bd28bdd219b8a08ded1aa836efcc8b770dc7
                       da41597c5157488d7724e03fb8d84a376a43b8f41518a11cc387b669b2ee6586""")
    _eq(chacha20_block(bytes(32), 0, bytes(12)), zero_block, "RFC 8439 A.1 #1"); n += 1
    _eq(chacha20_block(bytes(32), 1, bytes(12)),
        _h("""9f07e7be5551387a98ba977c732d080dcb0f29a048e3656912c6533e32ee7aed
              29b721769ce64e43d57133b074d839d531ed1f28510afb45ace10a1f4b794d6f"""),
        "RFC 8439 A.1 #2"); n += 1
    _eq(chacha20_block(_h("00ff" + "00" * 30), 2, bytes(12)),
        _h("""72d54dfbf12ec44b362692df94137f328fea8da73990265ec1bbbea1ae9af0ca
              13b25aa26cb4a648cb9b9d1be65b2c0924a66c54d545ec1b7374f4872e99f096"""),
        "RFC 8439 A.1 #4"); n += 1
    jabber = (b"'Twas brillig, and the slithy toves\nDid gyre and gimble in the wabe:\n"
              b"All mimsy were the borogoves,\nAnd the mome raths outgrabe.")
    _eq(chacha20_xor(key_a3, _h("00" * 11 + "02"), jabber, start_block=42), _h("""
        62e6347f95ed87a45ffae7426f27a1df5fb69110044c0d73118effa95b01e5cf
        166d3df2d721caf9b21e5fb14c616871fd84c54f9d65b283196c7fe4f60553eb
        f39c6402c42234e32a356b3e764312a61a5532055716ead6962568f87d3f3f77
        04c6a8d1bcd1bf4d50d6154b6da731b187b58dfd728afa36757a797ac188d1"""),
        "RFC 8439 A.2 #3"); n += 1
    # A.3 Poly1305 corner cases
    a3 = [
        ("00" * 32, "00" * 64, "00" * 16),
        ("02" + "00" * 31, "ff" * 16, "03" + "00" * 15),
        ("02" + "00" * 15 + "ff" * 16, "02" + "00" * 15, "03" + "00" * 15),
        ("01" + "00" * 31, "ff" * 16 + "f0" + "ff" * 15 + "11" + "00" * 15, "05" + "00" * 15),
        ("01" + "00" * 31, "ff" * 16 + "fb" + "fe" * 15 + "01" * 16, "00" * 16),
        ("02" + "00" * 31, "fd" + "ff" * 15, "fa" + "ff" * 15),
        ("01 00 00 00 00 00 00 00 04 00 00 00 00 00 00 00" + "00" * 16,
         "E3 35 94 D7 50 5E 43 B9 00 00 00 00 00 00 00 00"
         "33 94 D7 50 5E 43 79 CD 01 00 00 00 00 00 00 00"
         "00 00 00 00 00 00 00 00 00 00 00 00 00 00 00 00"
         "01 00 00 00 00 00 00 00 00 00 00 00 00 00 00 00",
         "14 00 00 00 00 00 00 00 55 00 00 00 00 00 00 00"),
        ("01 00 00 00 00 00 00 00 04 00 00 00 00 00 00 00" + "00" * 16,
         "E3 35 94 D7 50 5E 43 B9 00 00 00 00 00 00 00 00"
         "33 94 D7 50 5E 43 79 CD 01 00 00 00 00 00 00 00"
         "00 00 00 00 00 00 00 00 00 00 00 00 00 00 00 00",
         "13" + "00" * 15),
        ("1c9240a5eb55d38af333888604f6b5f0473917c1402b80099dca5cbc207075c0",
         jabber.hex(), "4541669a7eaaee61e708dc7cbcc5eb62"),
    ]
    for i, (k, m, t) in enumerate(a3):
        _eq(poly1305(_h(k), _h(m)), _h(t), "RFC 8439 A.3 list item %d" % i); n += 1
    # A.4 Poly1305 key generation
    _eq(chacha20_poly1305_key_gen(bytes(32), bytes(12)), zero_block[:32], "RFC 8439 A.4 #1"); n += 1
    _eq(chacha20_poly1305_key_gen(_h("00" * 31 + "01"), _h("00" * 11 + "02")),
        _h("ecfa254f845f647473d3cb140da9e87606cb33066c447b87bc2666dde3fbb739"),
        "RFC 8439 A.4 #2"); n += 1
    _eq(chacha20_poly1305_key_gen(key_a3, _h("00" * 11 + "02")),
        _h("965e3bc6f9ec7ed9560808f4d229f94b137ff275ca9b3fcbdd59deaad23310ae"),
        "RFC 8439 A.4 #3"); n += 1
    # A.5 AEAD decryption
    ct_a5 = _h("""
        64 a0 86 15 75 86 1a f4 60 f0 62 c7 9b e6 43 bd 5e 80 5c fd 34 5c f3 89 f1 08 67 0a c7 6c 8c b2
        4c 6c fc 18 75 5d 43 ee a0 9e e9 4e 38 2d 26 b0 bd b7 b7 3c 32 1b 01 00 d4 f0 3b 7f 35 58 94 cf
        33 2f 83 0e 71 0b 97 ce 98 c8 a8 4a bd 0b 94 81 14 ad 17 6e 00 8d 33 bd 60 f9 82 b1 ff 37 c8 55
        97 97 a0 6e f4 f0 ef 61 c1 86 32 4e 2b 35 06 38 36 06 90 7b 6a 7c 02 b0 f9 f6 15 7b 53 c8 67 e4
        b9 16 6c 76 7b 80 4d 46 a5 9b 52 16 cd e7 a4 e9 90 40 c5 a4 04 33 22 5e e2 82 a1 b0 a0 6c 52 3e
        af 45 34 d7 f8 3f a1 15 5b 00 47 71 8c bc 54 6a 0d 07 2b 04 b3 56 4e ea 1b 42 22 73 f5 48 27 1a
        0b b2 31 60 53 fa 76 99 19 55 eb d6 31 59 43 4e ce bb 4e 46 6d ae 5a 10 73 a6 72 76 27 09 7a 10
        49 e6 17 d9 1d 36 10 94 fa 68 f0 ff 77 98 71 30 30 5b ea ba 2e da 04 df 99 7b 71 4d 6c 6f 2c 29
        a6 ad 5c b4 02 2b 02 70 9b""")
    pt_a5 = ("Internet-Drafts are draft documents valid for a maximum of six months and "
             "may be updated, replaced, or obsoleted by other documents at any time. It is "
             "inappropriate to use Internet-Drafts as reference material or to cite them "
             "other than as /“work in progress./”").encode("utf-8")
    _eq(chacha20_poly1305_decrypt(key_a3, _h("000000000102030405060708"),
                                  _h("f33388860000000000004e91"), ct_a5,
                                  _h("eead9d67890cbb22392336fea1851f38")),
        pt_a5, "RFC 8439 A.5"); n += 1
    return n


def _st_chacha_original():
    """Original 64-bit-nonce ChaCha20 vectors (draft-agl-tls-chacha20poly1305-04
    section 7, draft-strombergson-chacha-test-vectors)."""
    n = 0
    tvs = [
        ("00" * 32, "00" * 8,
         "76b8e0ada0f13d90405d6ae55386bd28bdd219b8a08ded1aa836efcc8b770dc7"
         "da41597c5157488d7724e03fb8d84a376a43b8f41518a11cc387b669b2ee6586"
         "9f07e7be5551387a98ba977c732d080dcb0f29a048e3656912c6533e32ee7aed"
         "29b721769ce64e43d57133b074d839d531ed1f28510afb45ace10a1f4b794d6f"),
        ("00" * 31 + "01", "00" * 8,
         "4540f05a9f1fb296d7736e7b208e3c96eb4fe1834688d2604f450952ed432d41"
         "bbe2a0b6ea7566d2a5d1e7e20d42af2c53d792b1c43fea817e9ad275ae546963"),
        ("00" * 32, "00" * 7 + "01",
         "de9cba7bf3d69ef5e786dc63973f653a0b49e015adbff7134fcb7df137821031"
         "e85a050278a7084527214f73efc7fa5b5277062eb7a0433e445f41e3"),
        ("00" * 32, "01" + "00" * 7,
         "ef3fdfd6c61578fbf5cf35bd3dd33b8009631634d21e42ac33960bd138e50d32"
         "111e4caf237ee53ca8ad6426194a88545ddc497a0b466e7d6bbdb0041b2f586b"),
        ("000102030405060708090a0b0c0d0e0f101112131415161718191a1b1c1d1e1f",
         "0001020304050607",
         "f798a189f195e66982105ffb640bb7757f579da31602fc93ec01ac56f85ac3c1"
         "34a4547b733b46413042c9440049176905d3be59ea1c53f15916155c2be8241a"
         "38008b9a26bc35941e2444177c8ade6689de95264986d95889fb60e84629c9bd"
         "9a5acb1cc118be563eb9b3a4a472f82e09a7e778492b562ef7130e88dfe031c7"
         "9db9d4f7c7a899151b9a475032b63fc385245fe054e3dd5a97a5f576fe064025"
         "d3ce042c566ab2c507b138db853e3d6959660996546cc9c4a6eafdc777c040d7"
         "0eaf46f76dad3979e5c5360c3317166a1c894c94a371876a94df7628fe4eaaf2"
         "ccb27d5aaae0ad7ad0f9d4b6ad3b54098746d4524d38407a6deb3ab78fab78c9"),
    ]
    for i, (k, nonce, ks) in enumerate(tvs):
        ks = _h(ks)
        _eq(chacha20_stream(_h(k), _h(nonce), len(ks)), ks, "ChaCha20/64 vector %d" % i); n += 1
    return n


def _st_xchacha():
    n = 0
    # draft-irtf-cfrg-xchacha-03 section 2.2.1
    _eq(hchacha20(_RFC_KEY_00_1F, _h("00:00:00:09:00:00:00:4a:00:00:00:00:31:41:59:27")),
        _h("82413b42 27b27bfe d30e4250 8a877d73 a0f9e4d5 8a74a853 c12ec413 26d3ecdc"),
        "XChaCha draft 2.2.1 HChaCha20"); n += 1
    # A.3.1 AEAD_XCHACHA20_POLY1305
    nonce = bytes(range(0x40, 0x58))
    aad = _h("50515253c0c1c2c3c4c5c6c7")
    ct = _h("""
        bd6d179d3e83d43b9576579493c0e939572a1700252bfaccbed2902c21396cbb
        731c7f1b0b4aa6440bf3a82f4eda7e39ae64c6708c54c216cb96b72e1213b452
        2f8c9ba40db5d945b11b69b982c1bb9e3f3fac2bc369488f76b2383565d3fff9
        21f9664c97637da9768812f615c68b13b52e""")
    tag = _h("c0875924c1c7987947deafd8780acf49")
    _eq(chacha20_poly1305_key_gen(_RFC_KEY_80_9F, nonce),
        _h("7b191f80f361f099094f6f4b8fb97df847cc6873a8f2b190dd73807183f907d5"),
        "XChaCha draft A.3.1 otk"); n += 1
    _eq(chacha20_poly1305_encrypt(_RFC_KEY_80_9F, nonce, aad, _SUNSCREEN), (ct, tag),
        "XChaCha draft A.3.1 encrypt"); n += 1
    _eq(chacha20_poly1305_decrypt(_RFC_KEY_80_9F, nonce, aad, ct, tag), _SUNSCREEN,
        "XChaCha draft A.3.1 decrypt"); n += 1
    # A.3.2 XChaCha20 (initial block counter 1)
    dhole = (b'The dhole (pronounced "dole") is also known as the Asiatic wild dog, '
             b'red dog, and whistling dog. It is about the size of a German shepherd '
             b'but looks more like a long-legged fox. This highly elusive and skilled '
             b'jumper is classified with wolves, coyotes, jackals, and foxes in the '
             b'taxonomic family Canidae.')
    nonce2 = bytes(range(0x40, 0x57)) + b"\x58"
    _eq(chacha20_xor(_RFC_KEY_80_9F, nonce2, dhole, start_block=1), _h("""
        7d0a2e6b7f7c65a236542630294e063b7ab9b555a5d5149aa21e4ae1e4fbce87
        ecc8e08a8b5e350abe622b2ffa617b202cfad72032a3037e76ffdcdc4376ee05
        3a190d7e46ca1de04144850381b9cb29f051915386b8a710b8ac4d027b8b050f
        7cba5854e028d564e453b8a968824173fc16488b8970cac828f11ae53cabd201
        12f87107df24ee6183d2274fe4c8b1485534ef2c5fbc1ec24bfc3663efaa08bc
        047d29d25043532db8391a8a3d776bf4372a6955827ccb0cdd4af403a7ce4c63
        d595c75a43e045f0cce1f29c8b93bd65afc5974922f214a40b7c402cdb91ae73
        c0b63615cdad0480680f16515a7ace9d39236464328a37743ffc28f4ddb324f4
        d0f5bbdc270c65b1749a6efff1fbaa09536175ccd29fb9e6057b307320d31683
        8a9c71f70b5b5907a66f7ea49aadc409"""), "XChaCha draft A.3.2"); n += 1
    return n


def _st_salsa20():
    n = 0
    # Salsa20 specification, section 3 examples
    _eq(salsa20_quarter_round(0, 0, 0, 0), (0, 0, 0, 0), "Salsa20 spec qr #1"); n += 1
    _eq(salsa20_quarter_round(1, 0, 0, 0),
        (0x08008145, 0x00000080, 0x00010200, 0x20500000), "Salsa20 spec qr #2"); n += 1
    _eq(salsa20_quarter_round(0xe7e8c006, 0xc4f9417d, 0x6479b4b2, 0x68c67137),
        (0xe876d72b, 0x9361dfd5, 0xf1460244, 0x948541a3), "Salsa20 spec qr #3"); n += 1
    # Section 9 examples: k0 = 1..16, k1 = 201..216, n = 101..116
    k0 = bytes(range(1, 17))
    k1 = bytes(range(201, 217))
    nn = bytes(range(101, 117))
    ctr = int.from_bytes(nn[8:], "little")
    _eq(salsa20_block(k0 + k1, nn[:8], ctr), bytes([
        69, 37, 68, 39, 41, 15, 107, 193, 255, 139, 122, 6, 170, 233, 217, 98,
        89, 144, 182, 106, 21, 51, 200, 65, 239, 49, 222, 34, 215, 114, 40, 126,
        104, 197, 7, 225, 197, 153, 31, 2, 102, 78, 76, 176, 84, 245, 246, 184,
        177, 160, 133, 130, 6, 72, 149, 119, 192, 195, 132, 236, 234, 103, 246, 74]),
        "Salsa20 spec section 9, 32-byte key"); n += 1
    _eq(salsa20_block(k0, nn[:8], ctr), bytes([
        39, 173, 46, 248, 30, 200, 82, 17, 48, 67, 254, 239, 37, 18, 13, 247,
        241, 200, 61, 144, 10, 55, 50, 185, 6, 47, 246, 253, 143, 86, 187, 225,
        134, 85, 110, 246, 161, 163, 43, 235, 231, 94, 171, 51, 145, 214, 112, 29,
        14, 232, 5, 16, 151, 140, 183, 141, 171, 9, 122, 181, 104, 182, 177, 193]),
        "Salsa20 spec section 9, 16-byte key"); n += 1
    # ECRYPT verified.test-vectors: (key, iv, length, stream[0..63],
    # stream[448..511], sha256 of stream[0..length-1])
    ecrypt = [
        ("80000000000000000000000000000000", "0000000000000000", 512,
         "4dfa5e481da23ea09a31022050859936da52fcee218005164f267cb65f5cfd7f"
         "2b4f97e0ff16924a52df269515110a07f9e460bc65ef95da58f740b7d1dbb0aa",
         "b375703739daced4dd4059fd71c3c47fc2f9939670fad4a46066adcc6a564578"
         "3308b90ffb72be04a6b147cbe38cc0c3b9267c296a92a7c69873f9f263be9703",
         "91cfd83465c2c358319dee87afcc939afa4a8528b2fdde9713e7772e039cc461"),
        ("8000000000000000000000000000000000000000000000000000000000000000",
         "0000000000000000", 512,
         "e3be8fdd8beca2e3ea8ef9475b29a6e7003951e1097a5c38d23b7a5fad9f6844"
         "b22c97559e2723c7cbbd3fe4fc8d9a0744652a83e72a9c461876af4d7ef1a117",
         "696afcfd0cddcc83c7e77f11a649d79acdc3354e9635ff137e929933a0bd6f53"
         "77efa105a3a4266b7c0d089d08f1e855cc32b15b93784a36e56a76cc64bc8477",
         "31cb939278c24702033547a9d3feb8bce2bf485c9f0011c66d5882fc4be13c87"),
        ("09090909090909090909090909090909", "0000000000000000", 512,
         "169060ccb42bea7bee4d8012a02f3635eb7bca12859fa159cd559094b3507db8"
         "01735d1a1300102a9c9415546829cbd2021ba217b39b81d89c55b13d0c603359",
         "f70a0ff4ecd155e0f033604693a51e2363880e2ecf98699e7174af7c2c6b0fc6"
         "59ae329599a3949272a37b9b2183a0910922a3f325ae124dcbdd735364055ceb",
         "97957702263ae2fc168fa77a3a08cb58f928756b9083f5490e8617fcb55149df"),
        ("0909090909090909090909090909090909090909090909090909090909090909",
         "0000000000000000", 512,
         "7041e747ceb22ed7812985465f50333124f971da1c5d6efe5ca201b886f31046"
         "e757e5c3ec914f60ed1f6bce2819b6810953f12b8ba1199bf82d746a8b8a88f1",
         "5cf38c1232023e6a6ef66c315bcb2a4328642faabb7ca1e889e039e7c444b34b"
         "b3443f596ac730f3df3dfcdb343c307c80f76e43e8898c5e8f43dc3bb280add0",
         "d7b9f563c1e09dbfefb47e4bf5413a38e211871bc81215d43020c17037ac1a67"),
        ("0F62B5085BAE0154A7FA4DA0F34699EC", "288FF65DC42B92F9", 1024,
         "71daee5142d0728b41b6597933ebf467e43279e30978677078941602629cbf68"
         "b73d6bd2c95f118d2b3e6ec955dabb6dc61c4143bc9a9b32b99dbe6866166dc0",
         "b81bf0ef133b7fd90248b8ffb499b2414cd4fa003093ff0864575a43749bf596"
         "02f26c717fa96b1d057697db08ebc3fa664a016a67dcef8807577cc3a09385d3",
         "03feed764aafb1a9d2153b9da841626ce24ca5348cbe5575ca8eb3d2e988f1ec"),
        ("0F62B5085BAE0154A7FA4DA0F34699EC3F92E5388BDE3184D72A7DD02376C91C",
         "288FF65DC42B92F9", 1024,
         "5e5e71f90199340304abb22a37b6625bf883fb89ce3b21f54a10b81066ef87da"
         "30b77699aa7379da595c77dd59542da208e5954f89e40eb7aa80a84a6176663f",
         "760a03a5f17d6e91d4b42313b3f1077ee270e432fe04917ed1fc8babebf7c941"
         "42b80dfb44a28a2a3e59093027606f6860bfb8c2e5897078cfccda7314c70035",
         "ca300746bfd9ee8eabfa719d93899294f19709744bc10d656e74d661be1dc0cb"),
    ]
    for i, (k, iv, ln, s0, s448, dig) in enumerate(ecrypt):
        ks = salsa20_stream(_h(k), _h(iv), ln)
        _eq(ks[:64], _h(s0), "Salsa20 ECRYPT #%d stream[0..63]" % i)
        _eq(ks[448:512], _h(s448), "Salsa20 ECRYPT #%d stream[448..511]" % i)
        _eq(hashlib.sha256(ks).hexdigest(), dig, "Salsa20 ECRYPT #%d sha256" % i)
        _eq(salsa20_stream(_h(k), _h(iv), 64, start_block=7), ks[448:512],
            "Salsa20 ECRYPT #%d start_block" % i)
        _eq(salsa20_xor(_h(k), _h(iv), ks), bytes(ln), "Salsa20 ECRYPT #%d xor" % i)
        n += 1
    return n


def _st_rc4():
    n = 0
    # Rescorla's cypherpunks vectors (key, plaintext, ciphertext)
    for i, (k, p, c) in enumerate([
            ("0123456789abcdef", "0123456789abcdef", "75b7878099e0c596"),
            ("0123456789abcdef", "0000000000000000", "7494c2e7104b0879"),
            ("0000000000000000", "0000000000000000", "de188941a3375d3a"),
            ("ef012345", "00000000000000000000", "d6a141a7ec3c38dfbd61")]):
        _eq(rc4_xor(_h(k), _h(p)), _h(c), "RC4 classic vector %d" % i); n += 1
    # RFC 6229
    rfc6229 = [
        ("0102030405", {
            0: "b2 39 63 05 f0 3d c0 27 cc c3 52 4a 0a 11 18 a8",
            16: "69 82 94 4f 18 fc 82 d5 89 c4 03 a4 7a 0d 09 19",
            240: "28 cb 11 32 c9 6c e2 86 42 1d ca ad b8 b6 9e ae",
            256: "1c fc f6 2b 03 ed db 64 1d 77 df cf 7f 8d 8c 93",
            1520: "32 94 f7 44 d8 f9 79 05 07 e7 0f 62 e5 bb ce ea",
            4096: "ff 25 b5 89 95 99 67 07 e5 1f bd f0 8b 34 d8 75"}),
        ("0102030405060708090a0b0c0d0e0f101112131415161718191a1b1c1d1e1f20", {
            0: "ea a6 bd 25 88 0b f9 3d 3f 5d 1e 4c a2 61 1d 91",
            16: "cf a4 5c 9f 7e 71 4b 54 bd fa 80 02 7c b1 43 80",
            768: "e7 a7 b9 e9 ec 54 0d 5f f4 3b db 12 79 2d 1b 35",
            3072: "62 5a 1a b0 0e e3 9a 53 27 34 6b dd b0 1a 9c 18",
            4096: "f3 e4 c0 a2 e0 2d 1d 01 f7 f0 a7 46 18 af 2b 48"}),
        ("833222772a", {
            0: "80 ad 97 bd c9 73 df 8a 2e 87 9e 92 a4 97 ef da",
            2048: "78 5b 60 fd 7e c4 e9 fc b6 54 5f 35 0d 66 0f ab",
            4096: "bf 42 c3 01 8c 2f 7c 66 bf de 52 49 75 76 81 15"}),
        ("1ada31d5cf688221c109163908ebe51debb46227c6cc8b37641910833222772a", {
            0: "dd 5b cb 00 18 e9 22 d4 94 75 9d 7c 39 5d 02 d3",
            1008: "5f 40 d5 9e c1 b0 3b 33 73 8e fa 60 b2 25 5d 31",
            4096: "37 0b 1c 1f e6 55 91 6d 97 fd 0d 47 ca 1d 72 b8"}),
    ]
    for k, offs in rfc6229:
        ks = rc4_stream(_h(k), 4112)
        for off, want in offs.items():
            _eq(ks[off:off + 16], _h(want), "RFC 6229 key %s offset %d" % (k, off))
            _eq(rc4_stream(_h(k), 16, drop=off), _h(want),
                "RFC 6229 key %s drop %d" % (k, off))
            n += 1
    return n


def _openssl(args, data=b""):
    p = subprocess.run(["openssl"] + args, input=data, stdout=subprocess.PIPE,
                       stderr=subprocess.PIPE, timeout=60)
    if p.returncode != 0:
        raise AssertionError("openssl %s failed: %s" % (" ".join(args), p.stderr.decode(errors="replace")))
    return p.stdout


def _openssl_aes128_block(key, block):
    return _openssl(["enc", "-aes-128-ecb", "-nopad", "-K", key.hex()], block)


def _st_poly1305_aes(have_openssl):
    """Appendix B of the Poly1305-AES paper: (k, r, n, AES_k(n), m, tag)."""
    n = 0
    tvs = [
        ("ec074c835580741701425b623235add6", "851fc40c3467ac0be05cc20404f3f700",
         "fb447350c4e868c52ac3275cf9d4327e", "580b3b0f9447bb1e69d095b5928b6dbc",
         "f3f6", "f4c633c3044fc145f84f335cb81953de"),
        ("75deaa25c09f208e1dc4ce6b5cad3fbf", "a0f3080000f46400d0c7e9076c834403",
         "61ee09218d29b0aaed7e154a2c5509cc", "dd3fab2251f11ac759f0887129cc2ee7",
         "", "dd3fab2251f11ac759f0887129cc2ee7"),
        ("6acb5f61a7176dd320c5c1eb2edcdc74", "48443d0bb0d21109c89a100b5ce2c208",
         "ae212a55399729595dea458bc621ff0e", "83149c69b561dd88298a1798b10716ef",
         "663cea190ffb83d89593f3f476b6bc24d7e679107ea26adb8caf6652d0656136",
         "0ee1c16bb73f0f4fd19881753c01cdbe"),
        ("e1a5668a4d5b66a5f68cc5424ed5982d", "12976a08c4426d0ce8a82407c4f48207",
         "9ae831e743978d3a23527c7128149e3a", "80f8c20aa71202d1e29179cbcb555a57",
         "ab0812724a7f1e342742cbed374d94d136c6b8795d45b3819830f2c04491faf0"
         "990c62e48b8018b2c3e4a0fa3134cb67fa83e158c994d961c4cb21095c1bf9",
         "5154ad0d2cb26e01274fc51148491f1b"),
    ]
    for i, (k, r, nonce, s, m, t) in enumerate(tvs):
        _eq(poly1305_with_cipher(_h(r), _h(s), _h(m)), _h(t), "Poly1305-AES paper #%d" % i)
        table = {(_h(k), _h(nonce)): _h(s)}
        _eq(poly1305_aes(_h(k) + _h(r), _h(nonce), _h(m), lambda kk, bb: table[(kk, bb)]),
            _h(t), "Poly1305-AES paper #%d (k||r API)" % i)
        if have_openssl:
            _eq(poly1305_aes_s(_h(k), _h(nonce), _openssl_aes128_block), _h(s),
                "Poly1305-AES paper #%d AES_k(n) via openssl" % i)
        n += 1
    return n


def _st_poly1305_misc():
    n = 0
    k = b"this is 32-byte key for Poly1305"
    for m, t in [
            ("00" * 32, "49ec78090e481ec6c26b33b91ccc0307"),      # draft-agl-tls-chacha20poly1305-00
            (b"Hello world!".hex(), "a6f745008f81c916a20dcc74eef2b2f0"),
            ("", k[16:].hex())]:                                      # empty message: tag == s
        _eq(poly1305(k, _h(m)), _h(t), "Poly1305 draft-agl vector"); n += 1
    return n


def _st_internal():
    """Structural identities that follow from the specifications."""
    n = 0
    rng = random.Random(2)
    key = rng.randbytes(32)
    n8, n12, n24 = rng.randbytes(8), rng.randbytes(12), rng.randbytes(24)
    for nonce in (n8, n12, n24):
        full = chacha20_stream(key, nonce, 400)
        for blk, off, ln in [(0, 0, 0), (0, 0, 1), (0, 63, 2), (1, 0, 64), (0, 65, 130),
                             (2, 200, 72), (5, 79, 1), (0, 399, 1)]:
            pos = 64 * blk + off
            _eq(chacha20_stream(key, nonce, ln, blk, off), full[pos:pos + ln],
                "chacha20_stream slice nonce%d blk=%d off=%d" % (len(nonce), blk, off)); n += 1
        _eq(chacha20_xor(key, nonce, chacha20_xor(key, nonce, full, 3), 3), full,
            "chacha20_xor involution"); n += 1
    # 64-bit counter layout == 32-bit counter layout with high half moved into the nonce
    for ctr in (0, 1, 0xFFFFFFFF, 0x100000000, 0x123456789ABCDEF0, (1 << 64) - 1):
        _eq(chacha20_block(key, ctr, n8),
            chacha20_block(key, ctr & _M32, struct.pack("<I", ctr >> 32) + n8),
            "ChaCha20 64-bit vs 32-bit counter layout, ctr=%#x" % ctr); n += 1
    # XChaCha20 == ChaCha20(HChaCha20 subkey, 0^4 || nonce[16:])
    _eq(chacha20_stream(key, n24, 130, 3, 5),
        chacha20_stream(hchacha20(key, n24[:16]), bytes(4) + n24[16:], 130, 3, 5),
        "XChaCha20 composition"); n += 1
    # counter limits
    for nonce in (n12, n24):
        _check(len(chacha20_stream(key, nonce, 64, (1 << 32) - 1)) == 64, "last 32-bit block"); n += 1
        _raises(OverflowError, chacha20_stream, key, nonce, 65, (1 << 32) - 1); n += 1
        _raises(OverflowError, chacha20_stream, key, nonce, 1, 1 << 32); n += 1
        _raises(OverflowError, chacha20_stream, key, nonce, 1, 0, 1 << 38); n += 1
        _eq(chacha20_stream(key, nonce, 0, 1 << 32), b"", "zero bytes at end"); n += 1
    _check(len(chacha20_stream(key, n8, 128, (1 << 32) - 1)) == 128, "64-bit counter crosses 2^32"); n += 1
    _check(len(chacha20_stream(key, n8, 64, (1 << 64) - 1)) == 64, "last 64-bit block"); n += 1
    _raises(OverflowError, chacha20_stream, key, n8, 65, (1 << 64) - 1); n += 1
    _raises(OverflowError, chacha20_block, key, 1 << 32, n12); n += 1
    _raises(OverflowError, chacha20_block, key, 1 << 64, n8); n += 1
    _raises(OverflowError, salsa20_block, key, n8, 1 << 64); n += 1
    # argument validation
    _raises(ValueError, chacha20_stream, key[:31], n12, 1); n += 1
    _raises(ValueError, chacha20_stream, key, n12[:11], 1); n += 1
    _raises(ValueError, chacha20_block, key, 0, n24); n += 1
    _raises(ValueError, hchacha20, key, n12); n += 1
    _raises(ValueError, salsa20_stream, key[:24], n8, 1); n += 1
    _raises(ValueError, salsa20_stream, key, n12, 0); n += 1
    _raises(ValueError, rc4_stream, b"", 1); n += 1
    _raises(ValueError, rc4_stream, bytes(257), 1); n += 1
    _raises(ValueError, poly1305, key[:31], b""); n += 1
    _raises(ValueError, chacha20_poly1305_encrypt, key, bytes(16), b"", b""); n += 1
    # Poly1305 clamps r
    r, s = rng.randbytes(16), rng.randbytes(16)
    rc = (int.from_bytes(r, "little") & _R_CLAMP).to_bytes(16, "little")
    m = rng.randbytes(77)
    _eq(poly1305(r + s, m), poly1305(rc + s, m), "Poly1305 clamp"); n += 1
    # AEAD round trips for all nonce sizes and awkward lengths; 8-byte nonce
    # construction spelled out explicitly.
    for nonce in (n8, n12, n24):
        for la, lp in [(0, 0), (1, 0), (0, 1), (13, 63), (16, 64), (17, 65), (5, 129)]:
            aad, pt = rng.randbytes(la), rng.randbytes(lp)
            ct, tag = chacha20_poly1305_encrypt(key, nonce, aad, pt)
            _check(len(ct) == lp and len(tag) == 16, "AEAD sizes")
            _eq(chacha20_poly1305_decrypt(key, nonce, aad, ct, tag), pt, "AEAD round trip")
            ks = chacha20_stream(key, nonce, 64 + lp)
            _eq(ct, _xor(pt, ks[64:]), "AEAD data from block 1")
            _eq(tag, poly1305(ks[:32], chacha20_poly1305_mac_data(aad, ct)), "AEAD tag from block 0")
            _eq(chacha20_poly1305_decrypt(key, nonce, aad, ct, tag[:15]), None, "AEAD short tag")
            if lp:
                bad = bytes([ct[0] ^ 0x80]) + ct[1:]
                _eq(chacha20_poly1305_decrypt(key, nonce, aad, bad, tag), None, "AEAD bad ct")
            n += 1
    # RC4 drop
    rk = rng.randbytes(16)
    _eq(rc4_stream(rk, 40, drop=3072), rc4_stream(rk, 3112)[3072:], "RC4 drop"); n += 1
    _eq(rc4_xor(rk, rc4_xor(rk, m, 5), 5), m, "RC4 involution"); n += 1
    return n


def _st_aead_aligned():
    """A few Project Wycheproof vectors (transcribed) whose AAD / message
    lengths are 0 or multiples of 16, i.e. where pad16() must add nothing.
    (key, nonce, aad, msg, ct, tag)"""
    tvs = [
        ("80ba3192c803ce965ea371d5ff073cf0f43b6a2ab576b208426e11409c09b9b0",
         "4da5bf8dfd5852c1ea12379d", "", "", "", "76acb342cf3166a5b63c0c0ea1383c8d"),
        ("59d4eafb4de0cfc7d3db99a8f54b15d7b39f0acc8da69763b019c1699f87674a",
         "2fcb1b38a99e71b84740ad9b", "", "549b365af913f3b081131ccb6b825588",
         "e9110e9f56ab3ca483500ceabab67a13", "836ccabf15a6a22a51c1071cfa68fa0c"),
        ("cb5575f5c7c45c91cf320b139fb594237560d0a3e6f865a67d4f633f2c08f016",
         "1a6518f02ede1da6809266d9", "89cce9fb47441d07e0245a66fe8b778b",
         "623b7850c321e2cf0c6fbcc8dfd1aff2", "c84c9bb7c61c1bcb17772a1c500c5095",
         "dbadf7a5138ca03459a2cd65831e092f"),
        ("ab1562faea9f47af3ae1c3d6d030e3af230255dff3df583ced6fbbcbf9d606a9",
         "6a5e0c4617e07091b605a4de2c02dde117de2ebd53b23497", "", "", "",
         "e2697ea6877aba39d9555a00e14db041"),
        ("73005bc9d00e9688afcb340ea7cf81113d49e33d628e13b89949920102b1a9c1",
         "367a95373b3f2bd4f2bfb03619368639fcc19eccdeccd04f",
         "f15449e7c7810a11609f5da5e33b9085", "c47c17dcd3efabfe2de42702f27a840f",
         "7732ee206cd5734558c2f05f5bc1907b", "4e32369f9ba08950b27b7952c3804fe8"),
    ]
    for i, tv in enumerate(tvs):
        key, nonce, aad, msg, ct, tag = map(_h, tv)
        _eq(chacha20_poly1305_encrypt(key, nonce, aad, msg), (ct, tag), "aligned AEAD #%d encrypt" % i)
        _eq(chacha20_poly1305_decrypt(key, nonce, aad, ct, tag), msg, "aligned AEAD #%d decrypt" % i)
    return len(tvs)


def _st_wycheproof(path, own_iv_bits):
    with open(path) as f:
        doc = json.load(f)
    n = 0
    for group in doc["testGroups"]:
        _check(group["keySize"] == 256 and group["tagSize"] == 128, "unexpected wycheproof group")
        for t in group["tests"]:
            what = "%s tcId %d (%s)" % (os.path.basename(path), t["tcId"], t["comment"])
            key, iv, aad = _h(t["key"]), _h(t["iv"]), _h(t["aad"])
            msg, ct, tag = _h(t["msg"]), _h(t["ct"]), _h(t["tag"])
            if group["ivSize"] != own_iv_bits:
                # Nonce sizes foreign to this algorithm: always "invalid".
                _check(t["result"] == "invalid", what + ": expected invalid")
                if len(iv) not in (8, 12, 24):
                    _raises(ValueError, chacha20_poly1305_encrypt, key, iv, aad, msg)
                    n += 1
                continue
            dec = chacha20_poly1305_decrypt(key, iv, aad, ct, tag)
            if t["result"] == "valid":
                _eq(chacha20_poly1305_encrypt(key, iv, aad, msg), (ct, tag), what + " encrypt")
                _eq(dec, msg, what + " decrypt")
            else:
                _eq(dec, None, what + " must be rejected")
            n += 1
    return n


_AWKWARD_LENGTHS = [0, 1, 2, 15, 16, 17, 31, 32, 33, 47, 48, 49, 63, 64, 65, 66, 95, 96, 97,
                    127, 128, 129, 130, 191, 192, 193, 255, 256, 257, 319, 320, 321, 511, 512,
                    513, 1000, 1023, 1024, 1025, 4099]


def _st_openssl():
    counts = {"openssl_chacha20": 0, "openssl_chacha20_64bit_counter": 0,
              "openssl_rc4": 0, "openssl_poly1305": 0}
    rng = random.Random(1)
    for ln in _AWKWARD_LENGTHS:
        key, nonce, data = rng.randbytes(32), rng.randbytes(12), rng.randbytes(ln)
        ctr = rng.choice([0, 1, 2, rng.randrange(1 << 32), (1 << 32) - 1 - (ln + 63) // 64])
        ctr = max(ctr, 0)
        iv = struct.pack("<I", ctr) + nonce
        got = _openssl(["enc", "-chacha20", "-K", key.hex(), "-iv", iv.hex()], data)
        _eq(chacha20_xor(key, nonce, data, start_block=ctr), got,
            "openssl chacha20 len=%d ctr=%d" % (ln, ctr))
        counts["openssl_chacha20"] += 1
    # OpenSSL's 16-byte IV is state words 12..15 verbatim and its counter
    # carries from word 12 into word 13, i.e. exactly the original layout
    # le64(counter) || nonce8.
    for ln in _AWKWARD_LENGTHS[::3] + [200, 300]:
        key, nonce, data = rng.randbytes(32), rng.randbytes(8), rng.randbytes(ln)
        ctr = rng.choice([(1 << 32) - 1, (1 << 32) - 2, 1 << 32, rng.randrange(1 << 64) >> 1,
                          (5 << 32) - 1])
        iv = struct.pack("<Q", ctr) + nonce
        got = _openssl(["enc", "-chacha20", "-K", key.hex(), "-iv", iv.hex()], data)
        _eq(chacha20_xor(key, nonce, data, start_block=ctr), got,
            "openssl chacha20/64 len=%d ctr=%d" % (ln, ctr))
        counts["openssl_chacha20_64bit_counter"] += 1
    for ln in _AWKWARD_LENGTHS:
        for alg, klen in (("-rc4", 16), ("-rc4-40", 5)):
            key, data = rng.randbytes(klen), rng.randbytes(ln)
            got = _openssl(["enc", alg, "-K", key.hex(), "-provider", "legacy",
                            "-provider", "default"], data)
            _eq(rc4_xor(key, data), got, "openssl %s len=%d" % (alg, ln))
            counts["openssl_rc4"] += 1
    for ln in _AWKWARD_LENGTHS:
        key, data = rng.randbytes(32), rng.randbytes(ln)
        if ln % 5 == 0:
            # exercise the high limbs / final reduction
            data = b"\xff" * ln
            key = b"\xff" * 16 + key[16:]
        out = _openssl(["mac", "-macopt", "hexkey:" + key.hex(), "Poly1305"], data)
        _eq(poly1305(key, data), _h(out.decode()), "openssl Poly1305 len=%d" % ln)
        counts["openssl_poly1305"] += 1
    return counts


def selftest(wycheproof_dir=_WYCHEPROOF_DIR, use_openssl=True):
    """Run all known-answer and cross checks.  Raises AssertionError with a
    message on the first mismatch; returns a dict of check counts.  Checks
    whose external data (wycheproof JSON, ``openssl`` binary) is unavailable
    are reported with a count of 0."""
    counts = {}
    counts["rfc8439"] = _st_rfc8439()
    counts["chacha20_original_64bit_nonce"] = _st_chacha_original()
    counts["xchacha_draft"] = _st_xchacha()
    counts["salsa20"] = _st_salsa20()
    counts["rc4"] = _st_rc4()
    counts["poly1305_misc"] = _st_poly1305_misc()
    have_openssl = bool(use_openssl and shutil.which("openssl"))
    counts["poly1305_aes_paper"] = _st_poly1305_aes(have_openssl)
    counts["internal_identities"] = _st_internal()
    counts["aead_aligned_lengths"] = _st_aead_aligned()
    for name, bits in (("chacha20_poly1305_test.json", 96), ("xchacha20_poly1305_test.json", 192)):
        path = os.path.join(wycheproof_dir, name) if wycheproof_dir else None
        key = "wycheproof_" + name[:-len("_test.json")]
        counts[key] = _st_wycheproof(path, bits) if path and os.path.exists(path) else 0
    if have_openssl:
        counts.update(_st_openssl())
    else:
        counts.update({"openssl_chacha20": 0, "openssl_chacha20_64bit_counter": 0,
                       "openssl_rc4": 0, "openssl_poly1305": 0})
    return counts


if __name__ == "__main__":
    print(selftest())
