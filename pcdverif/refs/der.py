"""Strict DER (ITU-T X.690) reader / writer used as a canonicality oracle.

Written from the text of X.690 (08/2015) only; clause numbers in comments
refer to it.  Only the Python standard library is used and the library under
test is never imported.

Reader : parse, parse_prefix, Node (as_int/as_oid/as_bytes/as_bitstring/
         as_bool), check_set_of_sorted, reencode
Writer : enc_len, enc_tlv, enc_int, enc_oid, enc_octets, enc_bitstring,
         enc_null, enc_bool, enc_seq, enc_setof, enc_explicit, enc_implicit
Fuzzing: mutations, mutation_depth
selftest
"""

import random
import re
import shutil
import subprocess
from dataclasses import dataclass, field
from typing import List, Optional

__all__ = [
    "DerError", "DerDepthError", "Node", "parse", "parse_prefix",
    "check_set_of_sorted", "reencode",
    "enc_len", "enc_tlv", "enc_int", "enc_oid", "enc_octets", "enc_bitstring",
    "enc_null", "enc_bool", "enc_seq", "enc_setof", "enc_explicit",
    "enc_implicit", "mutations", "mutation_depth", "selftest",
]

UNIVERSAL, APPLICATION, CONTEXT, PRIVATE = 0, 1, 2, 3

T_BOOLEAN, T_INTEGER, T_BITSTRING, T_OCTETSTRING, T_NULL, T_OID = 1, 2, 3, 4, 5, 6
T_ENUMERATED, T_RELATIVE_OID, T_SEQUENCE, T_SET = 10, 13, 16, 17

# Universal types whose encoding is always constructed (8.9, 8.11, 8.18,
# 8.19 via SEQUENCE: EXTERNAL, EMBEDDED PDV, unrestricted CHARACTER STRING).
_ALWAYS_CONSTRUCTED = frozenset({8, 11, T_SEQUENCE, T_SET, 29})
# Universal types that are primitive in DER: the intrinsically primitive ones
# and every string / time type (10.2: "the constructed form of encoding
# shall not be used").  15 is reserved, it is left unconstrained.
_ALWAYS_PRIMITIVE = frozenset(
    t for t in range(1, 37) if t not in _ALWAYS_CONSTRUCTED and t != 15)

MAX_DEPTH = 200


class DerError(ValueError):
    """The input is not a valid DER encoding."""


class DerDepthError(DerError):
    """Nesting deeper than max_depth (a limit of this parser, not of DER)."""


# --------------------------------------------------------------------------
# Content rules of the universal types
# --------------------------------------------------------------------------

def _check_integer_content(c, what="INTEGER"):
    if len(c) == 0:                                    # 8.3.1
        raise DerError("%s with empty content" % what)
    if len(c) > 1:                                     # 8.3.2
        if c[0] == 0x00 and c[1] < 0x80:
            raise DerError("%s with redundant leading 0x00" % what)
        if c[0] == 0xFF and c[1] >= 0x80:
            raise DerError("%s with redundant leading 0xFF" % what)


def _check_boolean_content(c):
    if len(c) != 1:                                    # 8.2.1
        raise DerError("BOOLEAN content must be one octet")
    if c[0] not in (0x00, 0xFF):                       # 11.1
        raise DerError("BOOLEAN must be 0x00 or 0xFF in DER")


def _check_bitstring_content(c):
    if len(c) == 0:                                    # 8.6.2.2
        raise DerError("BIT STRING without initial octet")
    unused = c[0]
    if unused > 7:                                     # 8.6.2.2
        raise DerError("BIT STRING unused bits > 7")
    if len(c) == 1:
        if unused != 0:                                # 8.6.2.3
            raise DerError("empty BIT STRING with unused bits != 0")
    elif c[-1] & ((1 << unused) - 1):                  # 11.2.1
        raise DerError("BIT STRING unused bits are not zero")


def _subidentifiers(c, what):
    """Decode a series of base-128 sub-identifiers strictly (8.19.2)."""
    if len(c) == 0:
        raise DerError("%s with empty content" % what)
    if c[-1] & 0x80:
        raise DerError("%s: last sub-identifier is not terminated" % what)
    out = []
    value = 0
    start = True
    for octet in c:
        if start and octet == 0x80:
            raise DerError("%s: sub-identifier with leading 0x80" % what)
        start = False
        value = (value << 7) | (octet & 0x7F)
        if not octet & 0x80:
            out.append(value)
            value = 0
            start = True
    return out


def _check_universal(tag, constructed, content):
    if tag == 0:
        raise DerError("universal tag 0 (end-of-contents) is not a type")
    if tag in _ALWAYS_CONSTRUCTED and not constructed:
        raise DerError("universal type %d must be constructed" % tag)
    if tag in _ALWAYS_PRIMITIVE and constructed:
        raise DerError("universal type %d must be primitive in DER" % tag)
    if tag == T_BOOLEAN:
        _check_boolean_content(content)
    elif tag == T_INTEGER:
        _check_integer_content(content)
    elif tag == T_ENUMERATED:                          # 8.4
        _check_integer_content(content, "ENUMERATED")
    elif tag == T_BITSTRING:
        _check_bitstring_content(content)
    elif tag == T_NULL:
        if len(content) != 0:                          # 8.8.2
            raise DerError("NULL with content")
    elif tag == T_OID:
        _subidentifiers(content, "OBJECT IDENTIFIER")
    elif tag == T_RELATIVE_OID:
        _subidentifiers(content, "RELATIVE-OID")


# --------------------------------------------------------------------------
# Node
# --------------------------------------------------------------------------

@dataclass
class Node:
    cls: int                       # 0 universal, 1 application, 2 context, 3 private
    constructed: bool
    tag: int                       # tag number
    content: bytes                 # raw content octets
    children: Optional[List["Node"]]   # parsed content if constructed
    raw: bytes                     # the complete TLV
    header_len: int = field(default=0, compare=False)

    def is_universal(self, tag):
        return self.cls == UNIVERSAL and self.tag == tag

    def _require(self, tags, what, implicit):
        if implicit:
            if self.constructed:
                raise DerError("%s must be primitive" % what)
            return
        if self.cls != UNIVERSAL or self.tag not in tags or self.constructed:
            raise DerError("node is not a universal %s" % what)

    def as_int(self, implicit=False):
        """Value of an INTEGER / ENUMERATED.  implicit=True: interpret the
        content of an implicitly tagged node (rules are applied here)."""
        self._require((T_INTEGER, T_ENUMERATED), "INTEGER", implicit)
        _check_integer_content(self.content)
        return int.from_bytes(self.content, "big", signed=True)

    def as_oid(self, implicit=False):
        self._require((T_OID,), "OBJECT IDENTIFIER", implicit)
        subids = _subidentifiers(self.content, "OBJECT IDENTIFIER")
        first = subids[0]                              # 8.19.4
        if first < 40:
            arcs = [0, first]
        elif first < 80:
            arcs = [1, first - 40]
        else:
            arcs = [2, first - 80]
        arcs.extend(subids[1:])
        return ".".join(str(a) for a in arcs)

    def as_bytes(self, implicit=False):
        self._require((T_OCTETSTRING,), "OCTET STRING", implicit)
        return self.content

    def as_bitstring(self, implicit=False):
        """-> (unused_bits, payload bytes)"""
        self._require((T_BITSTRING,), "BIT STRING", implicit)
        _check_bitstring_content(self.content)
        return self.content[0], self.content[1:]

    def as_bool(self, implicit=False):
        self._require((T_BOOLEAN,), "BOOLEAN", implicit)
        _check_boolean_content(self.content)
        return self.content[0] == 0xFF

    def __getitem__(self, i):
        if self.children is None:
            raise DerError("primitive node has no children")
        return self.children[i]

    def __len__(self):
        if self.children is None:
            raise DerError("primitive node has no children")
        return len(self.children)


# --------------------------------------------------------------------------
# Reader
# --------------------------------------------------------------------------

def _read_header(data, off, end, single_octet_ident=False):
    """Decode identifier and length octets at data[off:end].
    -> (cls, constructed, tagnum, content_offset, content_length)

    single_octet_ident=True (internal, used by mutations() only) mimics
    decoders without support for the high tag number form: the first octet
    is always taken as the complete identifier."""
    if off >= end:
        raise DerError("truncated: no identifier octet")
    first = data[off]
    off += 1
    cls = first >> 6
    constructed = bool(first & 0x20)
    tag = first & 0x1F
    if tag == 0x1F and not single_octet_ident:         # 8.1.2.4 high tag number
        tag = 0
        n = 0
        while True:
            if off >= end:
                raise DerError("truncated: identifier octets")
            octet = data[off]
            off += 1
            if n == 0 and octet == 0x80:               # 8.1.2.4.2 c)
                raise DerError("high tag number with leading 0x80")
            tag = (tag << 7) | (octet & 0x7F)
            n += 1
            if not octet & 0x80:
                break
        if tag < 31:                                   # 8.1.2.2 / 8.1.2.4
            raise DerError("high tag number form used for tag < 31")
    if off >= end:
        raise DerError("truncated: no length octet")
    lo = data[off]
    off += 1
    if lo < 0x80:                                      # 8.1.3.4 short form
        length = lo
    elif lo == 0x80:                                   # 8.1.3.6 / 10.1
        raise DerError("indefinite length is not allowed in DER")
    elif lo == 0xFF:                                   # 8.1.3.5 c)
        raise DerError("length octet 0xFF is reserved")
    else:                                              # 8.1.3.5 long form
        n = lo & 0x7F
        if off + n > end:
            raise DerError("truncated: length octets")
        if data[off] == 0x00:                          # 10.1
            raise DerError("non-minimal length: leading zero octet")
        length = int.from_bytes(data[off:off + n], "big")
        off += n
        if length < 0x80:                              # 10.1
            raise DerError("non-minimal length: long form for value < 128")
    if length > end - off:
        raise DerError("truncated: content shorter than the declared length")
    return cls, constructed, tag, off, length


def _parse_at(data, off, end, depth, checks, recurse_limit, max_depth,
              single_octet_ident=False):
    if depth > max_depth:
        raise DerDepthError("nesting deeper than %d" % max_depth)
    cls, constructed, tag, c_off, c_len = _read_header(data, off, end,
                                                       single_octet_ident)
    c_end = c_off + c_len
    content = bytes(data[c_off:c_end])
    if checks and cls == UNIVERSAL:
        _check_universal(tag, constructed, content)
    children = None
    if constructed and (recurse_limit is None or depth < recurse_limit):
        children = []
        pos = c_off
        while pos < c_end:
            child, pos = _parse_at(data, pos, c_end, depth + 1, checks,
                                   recurse_limit, max_depth,
                                   single_octet_ident)
            children.append(child)
    node = Node(cls, constructed, tag, content, children,
                bytes(data[off:c_end]), c_off - off)
    return node, c_end


def parse_prefix(data, universal_checks=True, max_depth=MAX_DEPTH):
    """Parse one TLV at the start of data.  -> (Node, remaining bytes)"""
    data = bytes(data)
    node, end = _parse_at(data, 0, len(data), 0, universal_checks, None,
                          max_depth)
    return node, data[end:]


def parse(data, universal_checks=True, max_depth=MAX_DEPTH):
    """Parse exactly one TLV spanning the whole input (strict DER).

    universal_checks=False only validates the TLV structure (identifier and
    length octets, bounds, recursion into constructed encodings) and skips
    the per-type content rules of the universal class.
    """
    node, rest = parse_prefix(data, universal_checks, max_depth)
    if rest:
        raise DerError("%d trailing octet(s) after the TLV" % len(rest))
    return node


def check_set_of_sorted(node):
    """True iff the children of a SET OF node are in DER order (11.6:
    ascending, compared as octet strings, the shorter one padded with
    trailing zero octets).  SET and SET OF share the tag, hence this is not
    applied automatically by parse()."""
    if node.children is None:
        raise DerError("not a constructed node")
    encs = [c.raw for c in node.children]
    for a, b in zip(encs, encs[1:]):
        if _setof_key(a, max(len(a), len(b))) > _setof_key(b, max(len(a), len(b))):
            return False
    return True


def _setof_key(enc, width):
    return enc + bytes(width - len(enc))


def reencode(node):
    """Rebuild the canonical encoding from the tree (children when present,
    raw content otherwise).  Equals node.raw for anything parse() accepted."""
    if node.children is not None:
        content = b"".join(reencode(c) for c in node.children)
    else:
        content = node.content
    return enc_tlv((node.cls, node.constructed, node.tag), content)


# --------------------------------------------------------------------------
# Writer
# --------------------------------------------------------------------------

def enc_len(n):
    """Length octets, minimal (10.1)."""
    if n < 0:
        raise ValueError("negative length")
    if n < 0x80:
        return bytes([n])
    body = n.to_bytes((n.bit_length() + 7) // 8, "big")
    if len(body) > 126:
        raise ValueError("length too large")
    return bytes([0x80 | len(body)]) + body


def _base128(v):
    out = [v & 0x7F]
    v >>= 7
    while v:
        out.append(0x80 | (v & 0x7F))
        v >>= 7
    return bytes(reversed(out))


def _enc_identifier(cls, constructed, tagnum):
    if cls not in (0, 1, 2, 3):
        raise ValueError("class must be 0..3")
    if tagnum < 0:
        raise ValueError("negative tag number")
    lead = (cls << 6) | (0x20 if constructed else 0)
    if tagnum < 31:
        return bytes([lead | tagnum])
    return bytes([lead | 0x1F]) + _base128(tagnum)


def enc_tlv(tag, content):
    """tag: an identifier octet (int, low tag number form) or a tuple
    (cls, constructed, tagnum)."""
    content = bytes(content)
    if isinstance(tag, tuple):
        ident = _enc_identifier(*tag)
    else:
        if not 0 <= tag <= 0xFF or (tag & 0x1F) == 0x1F:
            raise ValueError("not a single identifier octet: %r" % (tag,))
        ident = bytes([tag])
    return ident + enc_len(len(content)) + content


def enc_int(v):
    """INTEGER, minimal two's complement (8.3.2)."""
    if v >= 0:
        n = v.bit_length() // 8 + 1
    else:
        n = (v + 1).bit_length() // 8 + 1
    return enc_tlv(0x02, v.to_bytes(n, "big", signed=True))


_ARC_RE = re.compile(r"^(0|[1-9][0-9]*)$")


def enc_oid(dotted):
    parts = dotted.split(".")
    if len(parts) < 2:
        raise ValueError("an OID needs at least two arcs")
    for p in parts:
        if not _ARC_RE.match(p) or not p.isascii():
            raise ValueError("invalid arc %r" % p)
    arcs = [int(p) for p in parts]
    if arcs[0] > 2:                                    # 8.19.4
        raise ValueError("first arc must be 0, 1 or 2")
    if arcs[0] < 2 and arcs[1] > 39:
        raise ValueError("second arc must be < 40 when the first is 0 or 1")
    subids = [40 * arcs[0] + arcs[1]] + arcs[2:]
    return enc_tlv(0x06, b"".join(_base128(s) for s in subids))


def enc_octets(b):
    return enc_tlv(0x04, bytes(b))


def enc_bitstring(b, unused=0):
    b = bytes(b)
    if not 0 <= unused <= 7:
        raise ValueError("unused bits must be 0..7")
    if not b and unused:
        raise ValueError("empty BIT STRING cannot have unused bits")
    if unused and b[-1] & ((1 << unused) - 1):
        raise ValueError("unused bits must be zero")
    return enc_tlv(0x03, bytes([unused]) + b)


def enc_null():
    return b"\x05\x00"


def enc_bool(v):
    return b"\x01\x01\xff" if v else b"\x01\x01\x00"


def enc_seq(items):
    return enc_tlv(0x30, b"".join(bytes(i) for i in items))


def enc_setof(items):
    """SET OF: the element encodings are sorted (11.6)."""
    items = [bytes(i) for i in items]
    width = max([len(i) for i in items], default=0)
    items.sort(key=lambda e: _setof_key(e, width))
    return enc_tlv(0x31, b"".join(items))


def enc_explicit(tagnum, inner, cls=CONTEXT):
    """[tagnum] EXPLICIT: constructed wrapper around a complete TLV."""
    return enc_tlv((cls, True, tagnum), bytes(inner))


def enc_implicit(tagnum, encoded, cls=CONTEXT):
    """[tagnum] IMPLICIT: replace the identifier octets of an encoded TLV,
    keeping its primitive/constructed bit (8.14.4)."""
    encoded = bytes(encoded)
    if not encoded:
        raise ValueError("empty encoding")
    constructed = bool(encoded[0] & 0x20)
    pos = 1
    if encoded[0] & 0x1F == 0x1F:
        while True:
            if pos >= len(encoded):
                raise ValueError("truncated identifier")
            pos += 1
            if not encoded[pos - 1] & 0x80:
                break
    return _enc_identifier(cls, constructed, tagnum) + encoded[pos:]


# --------------------------------------------------------------------------
# Mutations: structurally invalid variants of a valid encoding
# --------------------------------------------------------------------------

def mutation_depth(label):
    """Nesting depth encoded in a label produced by mutations()."""
    return int(label.split("@", 1)[1].split(":", 1)[0])


def _structure_rejects(data, depth, single_octet_ident=False):
    """True iff a decoder that checks only the TLV structure (no type
    specific content rule) and only down to `depth` rejects data."""
    try:
        node, end = _parse_at(data, 0, len(data), 0, False, depth, MAX_DEPTH,
                              single_octet_ident)
    except DerError:
        return True
    return end != len(data)


def mutations(data):
    """Given a VALID DER encoding return [(label, mutated_bytes), ...] where
    every mutated encoding MUST be rejected by a strict DER decoder that
    parses the structure at least down to the nesting depth named in the
    label.  Labels are '<kind>@<depth>' for the outermost TLV (depth 0) and
    '<kind>@<depth>:<i.j.k>' for nested ones (path of child indices):

      trailing            1..3 octets appended after the outermost TLV
      len-too-long        outermost length declares one octet more
      truncated-chop      last octet of the whole input removed
      indefinite          length octet 0x80, content, 00 00
      nonminimal-len-81   long form 0x81 for a length < 128
      nonminimal-len-lz   long form with an extra leading zero length octet
      truncated           last content octet of a nested TLV dropped while
                          its length field is kept; the enclosing lengths are
                          shortened so that only this TLV is short

    Enclosing lengths are always re-computed (minimal form), so exactly one
    defect is present.  Raises DerError if data is not valid DER.
    """
    data = bytes(data)
    root = parse(data)
    out = []

    out.append(("trailing@0", data + b"\x00"))
    out.append(("trailing@0", data + b"\x05\x00"))
    out.append(("trailing@0", data + b"\xff\xff\xff"))
    ident0 = data[:root.header_len - len(enc_len(len(root.content)))]
    out.append(("len-too-long@0",
                ident0 + enc_len(len(root.content) + 1) + root.content))
    out.append(("truncated-chop@0", data[:-1]))

    def rebuild(path, replacement):
        """Encoding of the whole tree with the TLV at `path` replaced."""
        def rec(node, p):
            if not p:
                return replacement
            idx = p[0]
            parts = []
            for i, child in enumerate(node.children):
                parts.append(rec(child, p[1:]) if i == idx else child.raw)
            return enc_tlv((node.cls, node.constructed, node.tag),
                           b"".join(parts))
        return rec(root, path)

    def is_last_everywhere_needed(path):
        """True if the node is the last child of its parent."""
        node = root
        for idx in path[:-1]:
            node = node.children[idx]
        return path[-1] == len(node.children) - 1

    def walk(node, path):
        depth = len(path)
        suffix = "@%d" % depth + ((":" + ".".join(map(str, path))) if path else "")
        ident = _enc_identifier(node.cls, node.constructed, node.tag)
        c = node.content
        cand = []
        cand.append(("indefinite", ident + b"\x80" + c + b"\x00\x00", True))
        if len(c) < 0x80:
            cand.append(("nonminimal-len-81", ident + b"\x81" + bytes([len(c)]) + c,
                         True))
            cand.append(("nonminimal-len-lz",
                         ident + b"\x82\x00" + bytes([len(c)]) + c, True))
        else:
            lb = len(c).to_bytes((len(c).bit_length() + 7) // 8, "big")
            cand.append(("nonminimal-len-lz",
                         ident + bytes([0x80 | (len(lb) + 1)]) + b"\x00" + lb + c,
                         True))
        if depth > 0 and len(c) > 0:
            # Certain only when the short TLV is the last one of its parent
            # (it then overruns the parent).  Otherwise it swallows the first
            # octet of its sibling and what follows might, by chance, parse:
            # keep it only when it provably does not - neither for a decoder
            # that knows the high tag number form nor for one that takes
            # every identifier as a single octet.
            cand.append(("truncated", ident + enc_len(len(c)) + c[:-1],
                         is_last_everywhere_needed(path)))
        for kind, repl, certain in cand:
            mutated = rebuild(path, repl)
            rejected = _structure_rejects(mutated, depth)
            if certain:
                assert rejected, (kind, suffix)
            else:
                rejected = rejected and _structure_rejects(mutated, depth, True)
            if rejected:
                out.append((kind + suffix, mutated))
        if node.children is not None:
            for i, child in enumerate(node.children):
                walk(child, path + (i,))

    walk(root, ())
    return out


# --------------------------------------------------------------------------
# Self test
# --------------------------------------------------------------------------

def _check(cond, msg):
    if not cond:
        raise AssertionError(msg)


def _rejects(data, msg):
    try:
        parse(data)
    except DerError:
        return
    raise AssertionError("accepted: %s (%s)" % (msg, bytes(data).hex()))


def _minimal_twos_complement(v):
    """Independent (brute force) minimal signed big endian encoding."""
    n = 1
    while True:
        try:
            return v.to_bytes(n, "big", signed=True)
        except OverflowError:
            n += 1


def _rand_int(rng):
    kind = rng.randrange(6)
    if kind == 0:
        return rng.choice([0, 1, -1, 127, 128, -128, -129, 255, 256, 32767,
                           32768, -32768, -32769, 2 ** 63, -2 ** 63,
                           2 ** 64 - 1, -2 ** 64])
    bits = rng.choice([7, 8, 9, 15, 16, 31, 33, 64, 127, 128, 521, 1024, 2048])
    v = rng.getrandbits(bits)
    return -v if rng.random() < 0.4 else v


def _rand_oid(rng):
    first = rng.randrange(3)
    second = rng.randrange(40) if first < 2 else rng.choice(
        [0, 39, 40, 47, 48, 999, 2 ** 32, rng.getrandbits(70)])
    arcs = [first, second]
    for _ in range(rng.randrange(0, 8)):
        arcs.append(rng.choice([0, 1, 127, 128, 16383, 16384, 113549,
                                rng.getrandbits(rng.choice([5, 20, 40, 64, 90]))]))
    return ".".join(str(a) for a in arcs)


def _rand_tree(rng, depth=0):
    """-> (encoding, model) where model mirrors the expected parse."""
    kinds = ["int", "bool", "null", "oid", "octets", "bits", "utf8", "enum",
             "ctxprim", "apphigh"]
    if depth < 5:
        kinds += ["seq", "set", "explicit", "implicit", "seq", "privcons"]
    kind = rng.choice(kinds)
    if kind == "int":
        v = _rand_int(rng)
        return enc_int(v), ("int", v)
    if kind == "enum":
        v = _rand_int(rng)
        return enc_implicit(10, enc_int(v), cls=UNIVERSAL), ("int", v)
    if kind == "bool":
        v = rng.random() < 0.5
        return enc_bool(v), ("bool", v)
    if kind == "null":
        return enc_null(), ("null",)
    if kind == "oid":
        o = _rand_oid(rng)
        return enc_oid(o), ("oid", o)
    if kind == "octets":
        b = rng.randbytes(rng.choice([0, 1, 5, 127, 128, 129, 255, 256, 300]))
        return enc_octets(b), ("octets", b)
    if kind == "bits":
        n = rng.choice([0, 1, 2, 33, 200])
        unused = rng.randrange(8) if n else 0
        b = bytearray(rng.randbytes(n))
        if n:
            b[-1] &= 0xFF << unused & 0xFF
        return enc_bitstring(bytes(b), unused), ("bits", unused, bytes(b))
    if kind == "utf8":
        b = "".join(rng.choice("abcXYZ 09") for _ in range(rng.randrange(20))).encode()
        return enc_tlv(0x0C, b), ("raw", UNIVERSAL, False, 12, b)
    if kind == "ctxprim":
        t = rng.choice([0, 1, 2, 30])
        b = rng.randbytes(rng.randrange(6))
        return enc_tlv((CONTEXT, False, t), b), ("raw", CONTEXT, False, t, b)
    if kind == "apphigh":
        t = rng.choice([31, 32, 127, 128, 16383, 16384, 2 ** 21, 2 ** 27 + 5])
        cls = rng.choice([APPLICATION, CONTEXT, PRIVATE])
        b = rng.randbytes(rng.randrange(6))
        return enc_tlv((cls, False, t), b), ("raw", cls, False, t, b)
    # constructed
    n = rng.choice([0, 1, 2, 3, 5]) if kind != "explicit" else 1
    kids = [_rand_tree(rng, depth + 1) for _ in range(n)]
    encs = [k[0] for k in kids]
    models = [k[1] for k in kids]
    if kind == "seq":
        return enc_seq(encs), ("cons", UNIVERSAL, 16, models)
    if kind == "set":
        enc = enc_setof(encs)
        order = sorted(range(n), key=lambda i: encs[i])
        return enc, ("cons", UNIVERSAL, 17, [models[i] for i in order])
    if kind == "explicit":
        t = rng.choice([0, 1, 3, 30, 31, 1000])
        return enc_explicit(t, encs[0]), ("cons", CONTEXT, t, models)
    if kind == "implicit":
        t = rng.choice([0, 2, 30, 31, 200])
        return enc_implicit(t, enc_seq(encs)), ("cons", CONTEXT, t, models)
    t = rng.choice([0, 5, 31, 40000])
    return enc_tlv((PRIVATE, True, t), b"".join(encs)), ("cons", PRIVATE, t, models)


def _match(node, model, counts):
    kind = model[0]
    if kind == "int":
        _check(node.as_int() == model[1], "integer value")
        counts["ints"] += 1
    elif kind == "bool":
        _check(node.as_bool() is model[1], "boolean value")
    elif kind == "null":
        _check(node.is_universal(T_NULL) and node.content == b"", "null")
    elif kind == "oid":
        _check(node.as_oid() == model[1], "oid value")
        counts["oids"] += 1
    elif kind == "octets":
        _check(node.as_bytes() == model[1], "octet string value")
    elif kind == "bits":
        _check(node.as_bitstring() == (model[1], model[2]), "bit string value")
    elif kind == "raw":
        _check((node.cls, node.constructed, node.tag, node.content) == model[1:],
               "raw node")
        _check(node.children is None, "primitive has children")
    else:
        _check((node.cls, node.tag) == model[1:3] and node.constructed,
               "constructed node header")
        _check(len(node.children) == len(model[3]), "children count")
        _check(node.content == b"".join(c.raw for c in node.children),
               "content is the concatenation of the children")
        for c, m in zip(node.children, model[3]):
            _match(c, m, counts)


def _flatten_values(model, out):
    if model[0] == "int":
        out.append(("INTEGER", model[1]))
    elif model[0] == "oid":
        out.append(("OBJECT", model[1]))
    elif model[0] == "cons":
        for m in model[3]:
            _flatten_values(m, out)


def _openssl_asn1parse(openssl, data):
    p = subprocess.run([openssl, "asn1parse", "-inform", "DER"], input=data,
                       stdout=subprocess.PIPE, stderr=subprocess.PIPE)
    return p.returncode, p.stdout.decode("latin-1")


_OSSL_LINE = re.compile(r"^\s*\d+:d=\s*\d+\s+hl=\s*\d+\s+l=\s*\d+\s+prim:\s+"
                        r"(INTEGER|ENUMERATED|OBJECT)\s+:(.*)$")


def _openssl_values(text):
    vals = []
    for line in text.splitlines():
        m = _OSSL_LINE.match(line)
        if not m:
            continue
        kind, v = m.group(1), m.group(2).strip()
        if kind in ("INTEGER", "ENUMERATED"):
            neg = v.startswith("-")
            vals.append(("INTEGER", (-1 if neg else 1) * int(v.lstrip("-"), 16)))
        else:
            vals.append(("OBJECT", v))
    return vals


def _selftest_vectors(counts):
    # --- writers against encodings worked out by hand / printed in X.690
    vec = [
        (enc_int(0), "020100"), (enc_int(127), "02017f"),
        (enc_int(128), "02020080"), (enc_int(256), "02020100"),
        (enc_int(-1), "0201ff"), (enc_int(-128), "020180"),
        (enc_int(-129), "0202ff7f"), (enc_int(-32768), "02028000"),
        (enc_int(2 ** 64), "0209010000000000000000"),
        (enc_oid("2.999.3"), "0603883703"),            # X.690 8.19.5 example
        (enc_oid("1.2.840.113549"), "06062a864886f70d"),
        (enc_oid("2.5.4.3"), "0603550403"),
        (enc_oid("0.0"), "060100"), (enc_oid("1.39"), "06014f"),
        (enc_oid("2.0"), "060150"), (enc_oid("2.47"), "06017f"),
        (enc_oid("2.48"), "06028100"),
        (enc_bool(True), "0101ff"), (enc_bool(False), "010100"),
        (enc_null(), "0500"),
        (enc_bitstring(b""), "030100"),
        (enc_bitstring(b"\x0a\x3b\x5f\x29\x1c\xd0", 4), "0307040a3b5f291cd0"),  # 8.6.4.2
        (enc_octets(b""), "0400"),
        (enc_octets(bytes(127))[:2], "047f"),
        (enc_octets(bytes(128))[:3], "048180"),
        (enc_octets(bytes(256))[:4], "04820100"),
        (enc_octets(bytes(65536))[:5], "0483010000"),
        (enc_seq([enc_int(1), enc_null()]), "30050201010500"),
        (enc_setof([enc_int(2), enc_int(1), enc_null()]), "3108020101020102" "0500"),
        (enc_explicit(0, enc_int(5)), "a003020105"),
        (enc_implicit(0, enc_int(5)), "800105"),
        (enc_implicit(1, enc_seq([enc_null()])), "a1020500"),
        (enc_implicit(31, enc_int(5)), "9f1f0105"),
        (enc_explicit(1000, enc_null()), "bf87680205" "00"),
        (enc_tlv((APPLICATION, True, 1000), b""), "7f876800"),
        (enc_len(0), "00"), (enc_len(127), "7f"), (enc_len(128), "8180"),
        (enc_len(255), "81ff"), (enc_len(256), "820100"),
    ]
    for got, want in vec:
        _check(got.hex() == want.replace(" ", ""), "writer: %s != %s" % (got.hex(), want))
        counts["writer_vectors"] += 1
    for bad in ("3.1", "0.40", "1.40", "1", "", "1..2", "1.-2", "1.02", "a.b",
                "1.2.", " 1.2", "1.2 "):
        try:
            enc_oid(bad)
        except ValueError:
            counts["writer_rejects"] += 1
        else:
            raise AssertionError("enc_oid accepted %r" % bad)
    for args in ((b"\x01", 1), (b"", 1), (b"\x00", 8)):
        try:
            enc_bitstring(*args)
        except ValueError:
            counts["writer_rejects"] += 1
        else:
            raise AssertionError("enc_bitstring accepted %r" % (args,))

    # --- reader: every class of malformation
    bad = {
        "empty input": "",
        "identifier only": "02",
        "trailing octet": "02010500",
        "indefinite length": "30800201050000",
        "indefinite primitive": "0280050000",
        "reserved length 0xff": "02ff05",
        "long form < 128": "02810105",
        "long form 127": "0481" "7f" + "00" * 127,
        "leading zero length octet": "0282000105",
        "leading zero length octet (>=128)": "04820080" + "00" * 128,
        "truncated content": "020205",
        "truncated length octets": "0282",
        "truncated length octets 2": "028201",
        "child overruns parent": "3003020205" ,
        "child truncated in parent": "30020201",
        "INTEGER empty": "0200",
        "INTEGER leading 00": "02020005",
        "INTEGER leading 00 (zero)": "02020000",
        "INTEGER leading ff": "0202ff80",
        "INTEGER leading ff (-1)": "0202ffff",
        "INTEGER constructed": "2203020105",
        "ENUMERATED leading 00": "0a020005",
        "ENUMERATED empty": "0a00",
        "BOOLEAN 01": "010101",
        "BOOLEAN 7f": "01017f",
        "BOOLEAN empty": "0100",
        "BOOLEAN two octets": "0102ffff",
        "NULL with content": "050100",
        "NULL constructed": "2500",
        "BIT STRING empty content": "0300",
        "BIT STRING unused 8": "03020800",
        "BIT STRING unused bits set": "030201ff",
        "BIT STRING unused bits set 2": "03020408",
        "BIT STRING empty with unused": "030101",
        "BIT STRING constructed": "2305030300ffff",
        "OCTET STRING constructed": "240404020102",
        "UTF8String constructed": "2c040c026162",
        "OID empty": "0600",
        "OID leading 80": "06028001",
        "OID leading 80 later": "06032a8001",
        "OID unterminated": "06022a86",
        "OID constructed": "2603060155",
        "RELATIVE-OID leading 80": "0d028001",
        "SEQUENCE primitive": "1000",
        "SEQUENCE primitive 2": "1003020105",
        "SET primitive": "1100",
        "SEQUENCE with junk": "3001ff",
        "explicit with junk content": "a00105",
        "universal tag 0": "0000",
        "high tag form for tag 30": "1f1e00",
        "high tag form for tag 5": "9f0500",
        "high tag leading 80": "9f80810000" ,
        "high tag leading 80 (b)": "9f801f00",
        "high tag truncated": "9f81",
        "high tag no length": "9f8101",
        "nested indefinite": "3004" "30800000",
        "nested nonminimal length": "3004" "02810105",
        "nested leading zero INTEGER": "3006" "3004" "02020001",
    }
    for name, hx in bad.items():
        _rejects(bytes.fromhex(hx), name)
        counts["reader_rejects"] += 1

    good = {
        "int 0": "020100", "int -128": "020180", "int 128": "02020080",
        "int -129": "0202ff7f", "bool": "0101ff", "null": "0500",
        "bitstring empty": "030100", "bitstring 7 unused": "03020780",
        "octets empty": "0400", "oid 2.999.3": "0603883703",
        "empty seq": "3000", "empty set": "3100",
        "seq": "3008" "020105" "010100" "0500",
        "ctx prim": "8000", "ctx prim content": "8203ffffff",
        "ctx explicit": "a003020105", "high tag 31": "9f1f00",
        "high tag 128": "5f810000", "app constructed": "6100",
        "ctx constructed empty": "a000",
        "unsorted set (SET vs SET OF unknown)": "3106" "020102" "020101",
        "long length 128": "048180" + "ab" * 128,
        "long length 256": "04820100" + "cd" * 256,
        "relative oid": "0d0201" "05",
    }
    for name, hx in good.items():
        raw = bytes.fromhex(hx)
        try:
            node = parse(raw)
        except DerError as e:
            raise AssertionError("rejected valid %s: %s" % (name, e))
        _check(node.raw == raw and reencode(node) == raw, "reencode " + name)
        counts["reader_accepts"] += 1
    _check(not check_set_of_sorted(parse(bytes.fromhex("3106020102020101"))),
           "unsorted SET OF not detected")
    _check(check_set_of_sorted(parse(bytes.fromhex("3106020101020102"))),
           "sorted SET OF flagged")
    _check(check_set_of_sorted(parse(bytes.fromhex("3106020101020101"))),
           "SET OF with duplicates flagged")
    _check(check_set_of_sorted(parse(bytes.fromhex("3100"))), "empty SET OF")
    # shorter-first when one is a prefix-padded comparison case
    _check(check_set_of_sorted(parse(enc_setof([enc_octets(b"\x00"), enc_null(),
                                                enc_int(0)]))), "enc_setof order")
    node, rest = parse_prefix(bytes.fromhex("0201050500"))
    _check(node.as_int() == 5 and rest == b"\x05\x00", "parse_prefix")
    # helper type checks
    n = parse(bytes.fromhex("0400"))
    for fn in (n.as_int, n.as_oid, n.as_bitstring, n.as_bool):
        try:
            fn()
        except DerError:
            pass
        else:
            raise AssertionError("helper accepted wrong type")
    _check(parse(bytes.fromhex("8002ff7f")).as_int(implicit=True) == -129,
           "implicit as_int")
    try:
        parse(bytes.fromhex("8002007f")).as_int(implicit=True)
    except DerError:
        pass
    else:
        raise AssertionError("implicit as_int accepted non minimal")
    # structure only mode skips the universal content rules
    _check(parse(bytes.fromhex("02020005"), universal_checks=False).content
           == b"\x00\x05", "structure only mode")
    # depth limit
    deep = b""
    for _ in range(MAX_DEPTH + 5):
        deep = enc_seq([deep])
    try:
        parse(deep)
    except DerDepthError:
        pass
    else:
        raise AssertionError("depth limit not enforced")
    parse(deep, max_depth=MAX_DEPTH + 10)


def selftest(seed=None, n_random=400, use_openssl=True):
    """Run the self checks; AssertionError on the first failure, else a dict
    of counters."""
    import collections
    rng = random.Random(seed)
    counts = collections.Counter()
    _selftest_vectors(counts)

    # round trips of scalar writers / readers
    for _ in range(500):
        v = _rand_int(rng)
        e = enc_int(v)
        _check(parse(e).as_int() == v, "enc_int/as_int %d" % v)
        n = parse(e)
        _check(n.content == _minimal_twos_complement(v),
               "enc_int is minimal for %d" % v)
        o = _rand_oid(rng)
        _check(parse(enc_oid(o)).as_oid() == o, "enc_oid/as_oid " + o)
        counts["scalar_roundtrip"] += 2

    openssl = shutil.which("openssl") if use_openssl else None
    samples = []
    for i in range(n_random):
        enc, model = _rand_tree(rng)
        node = parse(enc)
        _check(node.raw == enc, "raw")
        _check(reencode(node) == enc, "reencode(parse(x)) != x")
        _match(node, model, counts)
        counts["random_trees"] += 1
        samples.append((enc, model))

        muts = mutations(enc)
        kinds = set()
        for label, m in muts:
            kinds.add(label.split("@")[0])
            d = mutation_depth(label)
            _check(m != enc, "mutation %s is the identity" % label)
            try:
                parse(m)
            except DerError:
                pass
            else:
                raise AssertionError("mutation %s accepted: %s -> %s"
                                     % (label, enc.hex(), m.hex()))
            _check(_structure_rejects(m, d), "mutation %s not structural" % label)
            counts["mutations_rejected"] += 1
            counts["mut_" + label.split("@")[0]] += 1
        for need in ("trailing", "indefinite", "nonminimal-len-lz",
                     "len-too-long", "truncated-chop"):
            _check(need in kinds, "mutation kind %s missing" % need)

        # single octet corruption: whatever is accepted must re-encode to
        # itself (canonicality: one encoding per accepted tree)
        for _ in range(5):
            b = bytearray(enc)
            b[rng.randrange(len(b))] = rng.randrange(256)
            try:
                n2 = parse(bytes(b))
            except DerError:
                counts["corrupt_rejected"] += 1
            else:
                _check(reencode(n2) == bytes(b), "accepted non canonical input")
                counts["corrupt_accepted_canonical"] += 1

    if openssl:
        for enc, model in samples[:150]:
            rc, text = _openssl_asn1parse(openssl, enc)
            _check(rc == 0, "openssl asn1parse rejects what we accept: " + enc.hex())
            want = []
            _flatten_values(model, want)
            got = _openssl_values(text)
            # openssl prints names for OIDs it knows: compare numeric ones only
            if len(got) == len(want):
                for g, w in zip(got, want):
                    if g[0] == "OBJECT" and not re.fullmatch(r"[0-9.]+", g[1]):
                        continue
                    _check(g == w, "openssl decodes %r, expected %r in %s"
                           % (g, w, enc.hex()))
                    counts["openssl_values_equal"] += 1
            else:
                raise AssertionError("openssl value count differs for " + enc.hex())
            counts["openssl_valid_accepted"] += 1
        # invalid ones: openssl is a BER parser, only collect statistics
        n_bad = 0
        for enc, _ in samples[:40]:
            for label, m in mutations(enc)[:12]:
                rc, _t = _openssl_asn1parse(openssl, m)
                counts["openssl_invalid_%s" % ("rejected" if rc else "accepted")] += 1
                n_bad += 1
    else:
        counts["openssl_skipped"] += 1
    return dict(counts)


if __name__ == "__main__":
    import json
    print(json.dumps(selftest(), indent=1, sort_keys=True))
