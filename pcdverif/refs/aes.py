"""Pure-Python AES (FIPS 197) used as an independent test oracle.

Written from the text of FIPS 197 only.  Nothing here imports or is derived
from the library under test.

* The S-box is *computed* (multiplicative inverse in GF(2^8) modulo
  x^8+x^4+x^3+x+1 followed by the affine map of FIPS 197 section 5.1.1).
* The cipher (section 5.1) and the "equivalent inverse cipher" (section 5.3.5)
  are evaluated with four 256-entry 32-bit lookup tables per direction
  ("T-tables"): each table entry is SubBytes followed by the MixColumns
  contribution of one input byte of a column.
* A straightforward byte-matrix implementation (`_encrypt_block_slow`,
  `_decrypt_block_slow`) that follows the pseudo code of the standard literally
  is kept as well; `selftest()` checks the two against each other.

State words are big-endian columns: word c = s[0][c]<<24 | s[1][c]<<16 |
s[2][c]<<8 | s[3][c], i.e. exactly the 4 consecutive input bytes in[4c..4c+3].
"""

from __future__ import annotations

import functools
import struct

__all__ = ["encrypt_block", "decrypt_block", "expand_key", "selftest",
           "SBOX", "INV_SBOX"]

# --------------------------------------------------------------------------
# GF(2^8) arithmetic, FIPS 197 section 4
# --------------------------------------------------------------------------


def _xtime(a: int) -> int:
    """Multiplication by x (i.e. {02}) modulo m(x) = x^8+x^4+x^3+x+1."""
    a <<= 1
    if a & 0x100:
        a ^= 0x11B
    return a


def _gmul(a: int, b: int) -> int:
    """Product of two field elements (section 4.2)."""
    r = 0
    while b:
        if b & 1:
            r ^= a
        a = _xtime(a)
        b >>= 1
    return r


def _ginv(a: int) -> int:
    """Multiplicative inverse, with 0 mapped to 0: a^254."""
    if a == 0:
        return 0
    r = 1
    for _ in range(254):
        r = _gmul(r, a)
    return r


def _affine(b: int) -> int:
    """b'_i = b_i ^ b_(i+4) ^ b_(i+5) ^ b_(i+6) ^ b_(i+7) ^ c_i, c = {63}."""
    out = 0
    for i in range(8):
        bit = ((b >> i) ^ (b >> ((i + 4) % 8)) ^ (b >> ((i + 5) % 8)) ^
               (b >> ((i + 6) % 8)) ^ (b >> ((i + 7) % 8)) ^ (0x63 >> i)) & 1
        out |= bit << i
    return out


SBOX = tuple(_affine(_ginv(x)) for x in range(256))
_inv = [0] * 256
for _x, _y in enumerate(SBOX):
    _inv[_y] = _x
INV_SBOX = tuple(_inv)
del _inv, _x, _y

# --------------------------------------------------------------------------
# T-tables
# --------------------------------------------------------------------------


def _ror8(w: int) -> int:
    return ((w >> 8) | (w << 24)) & 0xFFFFFFFF


def _make_tables():
    te0, td0 = [], []
    for x in range(256):
        s = SBOX[x]
        # MixColumns matrix first column: (02, 01, 01, 03)
        te0.append((_gmul(s, 2) << 24) | (s << 16) | (s << 8) | _gmul(s, 3))
        si = INV_SBOX[x]
        # InvMixColumns matrix first column: (0e, 09, 0d, 0b)
        td0.append((_gmul(si, 14) << 24) | (_gmul(si, 9) << 16) |
                   (_gmul(si, 13) << 8) | _gmul(si, 11))
    te = [tuple(te0)]
    td = [tuple(td0)]
    for _ in range(3):
        te.append(tuple(_ror8(w) for w in te[-1]))
        td.append(tuple(_ror8(w) for w in td[-1]))
    return te, td


(_TE0, _TE1, _TE2, _TE3), (_TD0, _TD1, _TD2, _TD3) = _make_tables()

# --------------------------------------------------------------------------
# Key expansion, FIPS 197 section 5.2
# --------------------------------------------------------------------------


def _sub_word(w: int) -> int:
    return ((SBOX[w >> 24] << 24) | (SBOX[(w >> 16) & 255] << 16) |
            (SBOX[(w >> 8) & 255] << 8) | SBOX[w & 255])


def _rot_word(w: int) -> int:
    return ((w << 8) | (w >> 24)) & 0xFFFFFFFF


def _inv_mix_word(w: int) -> int:
    """InvMixColumns applied to a single column word."""
    a0, a1, a2, a3 = w >> 24, (w >> 16) & 255, (w >> 8) & 255, w & 255
    g = _gmul
    return (((g(a0, 14) ^ g(a1, 11) ^ g(a2, 13) ^ g(a3, 9)) << 24) |
            ((g(a0, 9) ^ g(a1, 14) ^ g(a2, 11) ^ g(a3, 13)) << 16) |
            ((g(a0, 13) ^ g(a1, 9) ^ g(a2, 14) ^ g(a3, 11)) << 8) |
            (g(a0, 11) ^ g(a1, 13) ^ g(a2, 9) ^ g(a3, 14)))


@functools.lru_cache(maxsize=512)
def expand_key(key: bytes):
    """Return (Nr, w, dw).

    w  : tuple of 4*(Nr+1) words, the key schedule of section 5.2.
    dw : the schedule for the equivalent inverse cipher of section 5.3.5,
         already stored in the order in which decryption consumes it.
    """
    if len(key) not in (16, 24, 32):
        raise ValueError("AES key must be 16, 24 or 32 bytes long")
    nk = len(key) // 4
    nr = nk + 6
    w = list(struct.unpack(">%dI" % nk, key))
    rcon = 1
    for i in range(nk, 4 * (nr + 1)):
        temp = w[i - 1]
        if i % nk == 0:
            temp = _sub_word(_rot_word(temp)) ^ (rcon << 24)
            rcon = _xtime(rcon)
        elif nk > 6 and i % nk == 4:
            temp = _sub_word(temp)
        w.append(w[i - nk] ^ temp)
    # Equivalent inverse cipher: round keys in reverse round order,
    # InvMixColumns applied to all but the first and the last round key.
    dw = []
    for rnd in range(nr, -1, -1):
        words = w[4 * rnd:4 * rnd + 4]
        if 0 < rnd < nr:
            words = [_inv_mix_word(x) for x in words]
        dw.extend(words)
    return nr, tuple(w), tuple(dw)


# --------------------------------------------------------------------------
# Block operations
# --------------------------------------------------------------------------

_unpack4 = struct.Struct(">4I").unpack
_pack4 = struct.Struct(">4I").pack


def encrypt_block(key: bytes, block: bytes) -> bytes:
    """Cipher() of FIPS 197 section 5.1 on one 16-byte block."""
    nr, w, _ = expand_key(bytes(key))
    if len(block) != 16:
        raise ValueError("AES block must be 16 bytes long")
    s0, s1, s2, s3 = _unpack4(block)
    s0 ^= w[0]
    s1 ^= w[1]
    s2 ^= w[2]
    s3 ^= w[3]
    te0, te1, te2, te3 = _TE0, _TE1, _TE2, _TE3
    k = 4
    for _ in range(nr - 1):
        # ShiftRows: row r of output column c comes from column (c + r) mod 4
        t0 = te0[s0 >> 24] ^ te1[(s1 >> 16) & 255] ^ te2[(s2 >> 8) & 255] ^ te3[s3 & 255] ^ w[k]
        t1 = te0[s1 >> 24] ^ te1[(s2 >> 16) & 255] ^ te2[(s3 >> 8) & 255] ^ te3[s0 & 255] ^ w[k + 1]
        t2 = te0[s2 >> 24] ^ te1[(s3 >> 16) & 255] ^ te2[(s0 >> 8) & 255] ^ te3[s1 & 255] ^ w[k + 2]
        t3 = te0[s3 >> 24] ^ te1[(s0 >> 16) & 255] ^ te2[(s1 >> 8) & 255] ^ te3[s2 & 255] ^ w[k + 3]
        s0, s1, s2, s3 = t0, t1, t2, t3
        k += 4
    sb = SBOX
    # final round: SubBytes, ShiftRows, AddRoundKey (no MixColumns)
    t0 = ((sb[s0 >> 24] << 24) | (sb[(s1 >> 16) & 255] << 16) | (sb[(s2 >> 8) & 255] << 8) | sb[s3 & 255]) ^ w[k]
    t1 = ((sb[s1 >> 24] << 24) | (sb[(s2 >> 16) & 255] << 16) | (sb[(s3 >> 8) & 255] << 8) | sb[s0 & 255]) ^ w[k + 1]
    t2 = ((sb[s2 >> 24] << 24) | (sb[(s3 >> 16) & 255] << 16) | (sb[(s0 >> 8) & 255] << 8) | sb[s1 & 255]) ^ w[k + 2]
    t3 = ((sb[s3 >> 24] << 24) | (sb[(s0 >> 16) & 255] << 16) | (sb[(s1 >> 8) & 255] << 8) | sb[s2 & 255]) ^ w[k + 3]
    return _pack4(t0, t1, t2, t3)


def decrypt_block(key: bytes, block: bytes) -> bytes:
    """EqInvCipher() of FIPS 197 section 5.3.5 on one 16-byte block."""
    nr, _, dw = expand_key(bytes(key))
    if len(block) != 16:
        raise ValueError("AES block must be 16 bytes long")
    s0, s1, s2, s3 = _unpack4(block)
    s0 ^= dw[0]
    s1 ^= dw[1]
    s2 ^= dw[2]
    s3 ^= dw[3]
    td0, td1, td2, td3 = _TD0, _TD1, _TD2, _TD3
    k = 4
    for _ in range(nr - 1):
        # InvShiftRows: row r of output column c comes from column (c - r) mod 4
        t0 = td0[s0 >> 24] ^ td1[(s3 >> 16) & 255] ^ td2[(s2 >> 8) & 255] ^ td3[s1 & 255] ^ dw[k]
        t1 = td0[s1 >> 24] ^ td1[(s0 >> 16) & 255] ^ td2[(s3 >> 8) & 255] ^ td3[s2 & 255] ^ dw[k + 1]
        t2 = td0[s2 >> 24] ^ td1[(s1 >> 16) & 255] ^ td2[(s0 >> 8) & 255] ^ td3[s3 & 255] ^ dw[k + 2]
        t3 = td0[s3 >> 24] ^ td1[(s2 >> 16) & 255] ^ td2[(s1 >> 8) & 255] ^ td3[s0 & 255] ^ dw[k + 3]
        s0, s1, s2, s3 = t0, t1, t2, t3
        k += 4
    sb = INV_SBOX
    t0 = ((sb[s0 >> 24] << 24) | (sb[(s3 >> 16) & 255] << 16) | (sb[(s2 >> 8) & 255] << 8) | sb[s1 & 255]) ^ dw[k]
    t1 = ((sb[s1 >> 24] << 24) | (sb[(s0 >> 16) & 255] << 16) | (sb[(s3 >> 8) & 255] << 8) | sb[s2 & 255]) ^ dw[k + 1]
    t2 = ((sb[s2 >> 24] << 24) | (sb[(s1 >> 16) & 255] << 16) | (sb[(s0 >> 8) & 255] << 8) | sb[s3 & 255]) ^ dw[k + 2]
    t3 = ((sb[s3 >> 24] << 24) | (sb[(s2 >> 16) & 255] << 16) | (sb[(s1 >> 8) & 255] << 8) | sb[s0 & 255]) ^ dw[k + 3]
    return _pack4(t0, t1, t2, t3)


# --------------------------------------------------------------------------
# Literal transcription of the FIPS 197 pseudo code (slow; cross-check only)
# --------------------------------------------------------------------------


def _round_key_bytes(w, rnd):
    return b"".join(x.to_bytes(4, "big") for x in w[4 * rnd:4 * rnd + 4])


def _encrypt_block_slow(key: bytes, block: bytes) -> bytes:
    nr, w, _ = expand_key(bytes(key))
    # state kept column-major as a flat list: st[4*c + r] = s[r][c] = in[r + 4c]
    st = [a ^ b for a, b in zip(block, _round_key_bytes(w, 0))]
    for rnd in range(1, nr + 1):
        st = [SBOX[a] for a in st]                                       # SubBytes
        st = [st[4 * ((c + r) % 4) + r] for c in range(4) for r in range(4)]  # ShiftRows
        if rnd != nr:                                                    # MixColumns
            out = []
            for c in range(4):
                a = st[4 * c:4 * c + 4]
                out += [
                    _gmul(a[0], 2) ^ _gmul(a[1], 3) ^ a[2] ^ a[3],
                    a[0] ^ _gmul(a[1], 2) ^ _gmul(a[2], 3) ^ a[3],
                    a[0] ^ a[1] ^ _gmul(a[2], 2) ^ _gmul(a[3], 3),
                    _gmul(a[0], 3) ^ a[1] ^ a[2] ^ _gmul(a[3], 2),
                ]
            st = out
        st = [a ^ b for a, b in zip(st, _round_key_bytes(w, rnd))]       # AddRoundKey
    return bytes(st)


def _decrypt_block_slow(key: bytes, block: bytes) -> bytes:
    """InvCipher() of section 5.3 (the straightforward one, not EqInvCipher)."""
    nr, w, _ = expand_key(bytes(key))
    st = [a ^ b for a, b in zip(block, _round_key_bytes(w, nr))]
    for rnd in range(nr - 1, -1, -1):
        st = [st[4 * ((c - r) % 4) + r] for c in range(4) for r in range(4)]  # InvShiftRows
        st = [INV_SBOX[a] for a in st]                                   # InvSubBytes
        st = [a ^ b for a, b in zip(st, _round_key_bytes(w, rnd))]       # AddRoundKey
        if rnd != 0:                                                     # InvMixColumns
            out = []
            for c in range(4):
                a = st[4 * c:4 * c + 4]
                out += [
                    _gmul(a[0], 14) ^ _gmul(a[1], 11) ^ _gmul(a[2], 13) ^ _gmul(a[3], 9),
                    _gmul(a[0], 9) ^ _gmul(a[1], 14) ^ _gmul(a[2], 11) ^ _gmul(a[3], 13),
                    _gmul(a[0], 13) ^ _gmul(a[1], 9) ^ _gmul(a[2], 14) ^ _gmul(a[3], 11),
                    _gmul(a[0], 11) ^ _gmul(a[1], 13) ^ _gmul(a[2], 9) ^ _gmul(a[3], 14),
                ]
            st = out
    return bytes(st)


# --------------------------------------------------------------------------
# Self test
# --------------------------------------------------------------------------


def selftest() -> dict:
    """FIPS 197 known answers + internal consistency.  Raises AssertionError."""
    n = 0
    # Figure 7 of FIPS 197: a few S-box entries
    assert SBOX[0x00] == 0x63 and SBOX[0x53] == 0xED and SBOX[0xFF] == 0x16, "S-box"
    assert SBOX[0x01] == 0x7C and SBOX[0x10] == 0xCA and SBOX[0xC9] == 0xDD, "S-box"
    assert sorted(SBOX) == list(range(256)), "S-box is not a permutation"
    # section 4.2 example: {57} x {83} = {c1}; 4.2.1: {57} x {13} = {fe}
    assert _gmul(0x57, 0x83) == 0xC1 and _gmul(0x57, 0x13) == 0xFE, "GF(2^8) multiply"

    pt = bytes.fromhex("00112233445566778899aabbccddeeff")
    kats = [  # Appendix C.1, C.2, C.3
        (bytes(range(16)), "69c4e0d86a7b0430d8cdb78070b4c55a"),
        (bytes(range(24)), "dda97ca4864cdfe06eaf70a0ec0d7191"),
        (bytes(range(32)), "8ea2b7ca516745bfeafc49904b496089"),
    ]
    for key, want in kats:
        got = encrypt_block(key, pt)
        assert got.hex() == want, "FIPS 197 appendix C, Nk=%d: got %s" % (len(key) // 4, got.hex())
        assert decrypt_block(key, got) == pt, "FIPS 197 appendix C decrypt, Nk=%d" % (len(key) // 4)
        assert _encrypt_block_slow(key, pt).hex() == want, "slow path, appendix C"
        assert _decrypt_block_slow(key, got) == pt, "slow inverse path, appendix C"
        n += 4
    # Appendix B example
    key = bytes.fromhex("2b7e151628aed2a6abf7158809cf4f3c")
    got = encrypt_block(key, bytes.fromhex("3243f6a8885a308d313198a2e0370734"))
    assert got.hex() == "3925841d02dc09fbdc118597196a0b32", "FIPS 197 appendix B: got " + got.hex()
    n += 1
    # Appendix A.1: last word of the 128-bit key expansion, A.2, A.3
    assert expand_key(key)[1][43] == 0xB6630CA6, "key expansion A.1"
    k192 = bytes.fromhex("8e73b0f7da0e6452c810f32b809079e562f8ead2522c6b7b")
    assert expand_key(k192)[1][51] == 0x01002202, "key expansion A.2"
    k256 = bytes.fromhex("603deb1015ca71be2b73aef0857d77811f352c073b6108d72d9810a30914dff4")
    assert expand_key(k256)[1][59] == 0x706C631E, "key expansion A.3"
    n += 3

    import random
    rnd = random.Random(197)
    for i in range(60):
        key = rnd.randbytes((16, 24, 32)[i % 3])
        blk = rnd.randbytes(16)
        ct = encrypt_block(key, blk)
        assert ct == _encrypt_block_slow(key, blk), "T-table vs literal cipher mismatch"
        assert decrypt_block(key, ct) == blk, "decrypt(encrypt(x)) != x"
        assert _decrypt_block_slow(key, ct) == blk, "literal inverse cipher mismatch"
        n += 3
    for bad in (b"", bytes(15), bytes(17), bytes(33)):
        try:
            encrypt_block(bad, bytes(16))
        except ValueError:
            pass
        else:
            raise AssertionError("bad key length accepted")
    return {"aes_checks": n}


if __name__ == "__main__":
    import timeit
    print(selftest())
    _k = bytes(range(16))
    _b = bytes(16)
    _n = 20000
    print("encrypt_block: %.1f us/block" % (timeit.timeit(lambda: encrypt_block(_k, _b), number=_n) / _n * 1e6))
    print("decrypt_block: %.1f us/block" % (timeit.timeit(lambda: decrypt_block(_k, _b), number=_n) / _n * 1e6))
