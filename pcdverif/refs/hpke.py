"""Reference HPKE (RFC 9180) on top of stdlib hmac/hashlib, the reference EC arithmetic (refs/ec.py) and the
reference AEADs (refs/modes.py, refs/stream.py). Written from the RFC text; imports nothing from Crypto."""
import hashlib
import hmac

from . import ec, modes, stream

KEMS = {
    # name: (kem_id, hash, Nsecret, kdf_id used by the library for this curve, ref curve, Npk)
    "p256": (0x0010, "sha256", 32, 0x0001, "P-256"),
    "p384": (0x0011, "sha384", 48, 0x0002, "P-384"),
    "p521": (0x0012, "sha512", 64, 0x0003, "P-521"),
    "curve25519": (0x0020, "sha256", 32, 0x0001, "Curve25519"),
    "curve448": (0x0021, "sha512", 64, 0x0003, "Curve448"),
}
KDF_HASH = {0x0001: "sha256", 0x0002: "sha384", 0x0003: "sha512"}
AEADS = {0x0001: ("aes128gcm", 16), 0x0002: ("aes256gcm", 32), 0x0003: ("chacha20poly1305", 32)}
NN, NT = 12, 16
MODE_BASE, MODE_PSK, MODE_AUTH, MODE_AUTH_PSK = 0, 1, 2, 3


def _extract(hname, salt, ikm):
    hl = hashlib.new(hname).digest_size
    return hmac.new(salt if salt else bytes(hl), ikm, hname).digest()


def _expand(hname, prk, info, L):
    out, t, i = b"", b"", 1
    while len(out) < L:
        t = hmac.new(prk, t + info + bytes([i]), hname).digest()
        out += t
        i += 1
    return out[:L]


def labeled_extract(hname, suite_id, salt, label, ikm):
    return _extract(hname, salt, b"HPKE-v1" + suite_id + label + ikm)


def labeled_expand(hname, suite_id, prk, label, info, L):
    return _expand(hname, prk, L.to_bytes(2, "big") + b"HPKE-v1" + suite_id + label + info, L)


# ---------------------------------------------------------------- DHKEM
def serialize_pub(kem, pub):
    c = ec.CURVES[KEMS[kem][4]]
    if kem.startswith("p"):
        return ec.sec1_encode(c, pub, False)
    return bytes(pub)


def deserialize_pub(kem, data):
    c = ec.CURVES[KEMS[kem][4]]
    if kem.startswith("p"):
        P = ec.sec1_decode(c, bytes(data), allow_infinity=False)
        if len(data) != 1 + 2 * c["size"] or data[0] != 4:
            raise ValueError("not an uncompressed point")
        return P
    ln = 32 if kem == "curve25519" else 56
    if len(data) != ln:
        raise ValueError("bad length")
    return bytes(data)


def pub_of(kem, sk):
    c = ec.CURVES[KEMS[kem][4]]
    if kem.startswith("p"):
        return ec.ws_mul(c, sk, (c["Gx"], c["Gy"]))
    f = ec.x25519 if kem == "curve25519" else ec.x448
    return f(sk, (9 if kem == "curve25519" else 5).to_bytes(32 if kem == "curve25519" else 56, "little"))


def dh(kem, sk, pk):
    c = ec.CURVES[KEMS[kem][4]]
    if kem.startswith("p"):
        P = ec.ws_mul(c, sk, pk)
        if P is None:
            raise ValueError("DH result is the point at infinity")
        return P[0].to_bytes(c["size"], "big")
    f = ec.x25519 if kem == "curve25519" else ec.x448
    z = f(sk, pk)
    if z == bytes(len(z)):
        raise ValueError("all-zero DH output")
    return z


def extract_and_expand(kem, dh_bytes, kem_context):
    kem_id, hname, nsecret = KEMS[kem][:3]
    suite = b"KEM" + kem_id.to_bytes(2, "big")
    eae = labeled_extract(hname, suite, b"", b"eae_prk", dh_bytes)
    return labeled_expand(hname, suite, eae, b"shared_secret", kem_context, nsecret)


def encap(kem, pkR, skE, skS=None):
    """Returns (shared_secret, enc). skE is the ephemeral private key chosen by the caller."""
    pkE = pub_of(kem, skE)
    enc = serialize_pub(kem, pkE)
    d = dh(kem, skE, pkR)
    ctx = enc + serialize_pub(kem, pkR)
    if skS is not None:
        d += dh(kem, skS, pkR)
        ctx += serialize_pub(kem, pub_of(kem, skS))
    return extract_and_expand(kem, d, ctx), enc


def decap(kem, enc, skR, pkS=None):
    pkE = deserialize_pub(kem, enc)
    d = dh(kem, skR, pkE)
    ctx = bytes(enc) + serialize_pub(kem, pub_of(kem, skR))
    if pkS is not None:
        d += dh(kem, skR, pkS)
        ctx += serialize_pub(kem, pkS)
    return extract_and_expand(kem, d, ctx)


# ---------------------------------------------------------------- key schedule and contexts
def key_schedule(kem, aead_id, mode, shared_secret, info=b"", psk=b"", psk_id=b""):
    kem_id, _, _, kdf_id, _ = KEMS[kem]
    hname = KDF_HASH[kdf_id]
    suite = b"HPKE" + kem_id.to_bytes(2, "big") + kdf_id.to_bytes(2, "big") + aead_id.to_bytes(2, "big")
    got_psk = psk != b""
    got_id = psk_id != b""
    if got_psk != got_id:
        raise ValueError("Inconsistent PSK inputs")
    if got_psk and mode in (MODE_BASE, MODE_AUTH):
        raise ValueError("PSK input provided when not needed")
    if (not got_psk) and mode in (MODE_PSK, MODE_AUTH_PSK):
        raise ValueError("Missing required PSK input")
    psk_id_hash = labeled_extract(hname, suite, b"", b"psk_id_hash", psk_id)
    info_hash = labeled_extract(hname, suite, b"", b"info_hash", info)
    ksc = bytes([mode]) + psk_id_hash + info_hash
    secret = labeled_extract(hname, suite, shared_secret, b"secret", psk)
    nk = AEADS[aead_id][1]
    nh = hashlib.new(hname).digest_size
    return {"key": labeled_expand(hname, suite, secret, b"key", ksc, nk),
            "base_nonce": labeled_expand(hname, suite, secret, b"base_nonce", ksc, NN),
            "exporter_secret": labeled_expand(hname, suite, secret, b"exp", ksc, nh), "aead": aead_id, "seq": 0}


def compute_nonce(ctx):
    s = ctx["seq"].to_bytes(NN, "big")
    return bytes(a ^ b for a, b in zip(ctx["base_nonce"], s))


def _aead_seal(aead_id, key, nonce, aad, pt):
    if aead_id in (1, 2):
        ct, tag = modes.gcm_encrypt(modes.aes_bc(key), nonce, aad, pt)
        return ct + tag
    ct, tag = stream.chacha20_poly1305_encrypt(key, nonce, aad, pt)
    return ct + tag


def _aead_open(aead_id, key, nonce, aad, ct):
    if len(ct) < NT:
        return None
    body, tag = ct[:-NT], ct[-NT:]
    if aead_id in (1, 2):
        return modes.gcm_decrypt(modes.aes_bc(key), nonce, aad, body, tag)
    return stream.chacha20_poly1305_decrypt(key, nonce, aad, body, tag)


def seal(ctx, aad, pt):
    if ctx["seq"] >= (1 << (8 * NN)) - 1:
        raise OverflowError("MessageLimitReachedError")
    ct = _aead_seal(ctx["aead"], ctx["key"], compute_nonce(ctx), aad, pt)
    ctx["seq"] += 1
    return ct


def open_(ctx, aad, ct):
    """Returns plaintext or None; the sequence number is incremented only on success (RFC 9180 5.2)."""
    if ctx["seq"] >= (1 << (8 * NN)) - 1:
        raise OverflowError("MessageLimitReachedError")
    pt = _aead_open(ctx["aead"], ctx["key"], compute_nonce(ctx), aad, ct)
    if pt is None:
        return None
    ctx["seq"] += 1
    return pt


def selftest():
    """RFC 9180 Appendix A.1.1 (DHKEM(X25519, HKDF-SHA256), HKDF-SHA256, AES-128-GCM, base mode)."""
    h = bytes.fromhex
    info = h("4f6465206f6e2061204772656369616e2055726e")
    skEm = h("52c4a758a802cd8b936eceea314432798d5baf2d7e9235dc084ab1b9cfa2f736")
    pkEm = h("37fda3567bdbd628e88668c3c8d7e97d1d1253b6d4ea6d44c150f741f1bf4431")
    skRm = h("4612c550263fc8ad58375df3f557aac531d26850903e55a9f23f21d8534e8ac8")
    pkRm = h("3948cfe0ad1ddb695d780e59077195da6c56506b027329794ab02bca80815c4d")
    assert pub_of("curve25519", skEm) == pkEm and pub_of("curve25519", skRm) == pkRm
    ss, enc = encap("curve25519", pkRm, skEm)
    assert enc == pkEm
    assert ss == h("fe0e18c9f024ce43799ae393c7e8fe8fce9d218875e8227b0187c04e7d2ea1fc"), ss.hex()
    assert decap("curve25519", enc, skRm) == ss
    ctx = key_schedule("curve25519", 0x0001, MODE_BASE, ss, info)
    assert ctx["key"] == h("4531685d41d65f03dc48f6b8302c05b0"), ctx["key"].hex()
    assert ctx["base_nonce"] == h("56d890e5accaaf011cff4b7d")
    assert ctx["exporter_secret"] == h("45ff1c2e220db587171952c0592d5f5ebe103f1561a2614e38f2ffd47e99e3f8")
    pt = h("4265617574792069732074727574682c20747275746820626561757479")
    ct = seal(ctx, h("436f756e742d30"), pt)
    assert ct == h("f938558b5d72f1a23810b4be2ab4f84331acc02fc97babc53a52ae8218a355a96d8770ac83d07bea87e13c512a"), ct.hex()
    ct1 = seal(ctx, h("436f756e742d31"), pt)
    assert ct1 == h("af2d7e9ac9ae7e270f46ba1f975be53c09f8d875bdc8535458c2494e8a6eab251c03d0c22a56b8ca42c2063b84"), ct1.hex()
    r = key_schedule("curve25519", 0x0001, MODE_BASE, ss, info)
    assert open_(r, h("436f756e742d30"), ct) == pt
    assert open_(r, h("436f756e742d31"), ct) is None and r["seq"] == 1
    assert open_(r, h("436f756e742d31"), ct1) == pt
    # A.3.1 DHKEM(P-256, HKDF-SHA256), HKDF-SHA256, AES-128-GCM base: shared secret
    skEm = int("4995788ef4b9d6132b249ce59a77281493eb39af373d236a1fe415cb0c2d7beb", 16)
    pkRm = h("04fe8c19ce0905191ebc298a9245792531f26f0cece2460639e8bc39cb7f706a826a779b4cf969b8a0e539c7f62fb3d30ad6aa8f80e30f1d128aafd68a2ce72ea0")
    ss, enc = encap("p256", deserialize_pub("p256", pkRm), skEm)
    assert enc == h("04a92719c6195d5085104f469a8b9814d5838ff72b60501e2c4466e5e67b325ac98536d7b61a1af4b78e5b7f951c0900be863c403ce65c9bfcb9382657222d18c4")
    assert ss == h("c0d26aeab536609a572b07695d933b589dcf363ff9d93c93adea537aeabb8cb8"), ss.hex()
    return {"rfc9180_vectors": 12}


if __name__ == "__main__":
    print(selftest())
