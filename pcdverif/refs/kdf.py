"""Independent reference implementations (test oracles) of key-derivation functions.

Written from the specification texts only:

* RFC 8018 (PKCS #5 v2.1)  - PBKDF1, PBKDF2
* RFC 2104                 - HMAC (textbook formula over an arbitrary hash)
* RFC 5869                 - HKDF
* NIST SP 800-108r1        - KDF in counter mode
* RFC 7914                 - scrypt (Salsa20/8 core, BlockMix, ROMix)
* B. Schneier, "Description of a New Variable-Length Key, 64-Bit Block Cipher
  (Blowfish)", FSE 1993    - Blowfish (tables derived here from the hex digits of pi)
* N. Provos, D. Mazieres, "A Future-Adaptable Password Scheme", USENIX 1999 and the
  OpenBSD ``$2a$`` / ``$2b$`` string format - Eksblowfish / bcrypt
* RFC 4493 / FIPS 197      - AES-CMAC (private helper, only used as a PRF for SP 800-108)

Only the Python standard library is used.  This module never imports ``Crypto``.
All functions are plain, slow and obvious on purpose.
"""

import hashlib
import re
import struct

__all__ = [
    "hmac_generic", "hmac_prf",
    "pbkdf1", "pbkdf2",
    "hkdf_extract", "hkdf_expand", "hkdf",
    "sp800_108_counter",
    "salsa20_8_core", "scrypt_blockmix", "scrypt_romix", "scrypt",
    "blowfish_initial_state", "blowfish_key_schedule",
    "blowfish_encrypt_block", "blowfish_decrypt_block",
    "eks_blowfish_setup", "bcrypt_raw",
    "bcrypt_b64encode", "bcrypt_b64decode", "bcrypt_hash", "bcrypt_parse", "bcrypt_check",
    "aes_encrypt_block", "cmac_aes",
    "selftest",
]

_M32 = 0xFFFFFFFF


def _b(x, name="argument"):
    if isinstance(x, (bytes, bytearray, memoryview)):
        return bytes(x)
    raise TypeError("%s must be bytes-like" % name)


# ----------------------------------------------------------------------------
# HMAC (RFC 2104), generic over any hash function
# ----------------------------------------------------------------------------

def hmac_generic(hash_fn, block_size, key, msg):
    """HMAC = H((K0 ^ opad) || H((K0 ^ ipad) || msg)) with ``hash_fn: bytes -> bytes``."""
    key = _b(key, "key")
    msg = _b(msg, "msg")
    if block_size <= 0:
        raise ValueError("block_size must be positive")
    if len(key) > block_size:
        key = hash_fn(key)
    k0 = key + b"\x00" * (block_size - len(key))
    ipad = bytes(c ^ 0x36 for c in k0)
    opad = bytes(c ^ 0x5C for c in k0)
    return hash_fn(opad + hash_fn(ipad + msg))


def hmac_prf(hash_fn, block_size):
    """Return ``prf(key, msg) -> bytes`` computing HMAC over ``hash_fn``."""
    def prf(key, msg):
        return hmac_generic(hash_fn, block_size, key, msg)
    prf.digest_size = len(hash_fn(b""))
    return prf


# ----------------------------------------------------------------------------
# PBKDF1 / PBKDF2 (RFC 8018 sections 5.1 and 5.2)
# ----------------------------------------------------------------------------

def pbkdf1(password, salt, dklen, count, hash_fn):
    """RFC 8018 5.1: T_1 = Hash(P || S), T_i = Hash(T_{i-1}), DK = T_c<0..dkLen-1>.

    The RFC fixes the salt at eight octets; that is *not* enforced here so that the
    caller can decide what to do with other lengths.
    """
    password = _b(password, "password")
    salt = _b(salt, "salt")
    if count < 1:
        raise ValueError("iteration count must be a positive integer")
    if dklen < 0:
        raise ValueError("negative dklen")
    t = hash_fn(password + salt)
    if dklen > len(t):
        raise ValueError("derived key too long")
    for _ in range(count - 1):
        t = hash_fn(t)
    return t[:dklen]


def pbkdf2(password, salt, dklen, count, prf):
    """RFC 8018 5.2 with a generic ``prf(key, msg) -> bytes``.

    T_i = U_1 ^ U_2 ^ ... ^ U_c,  U_1 = PRF(P, S || INT(i)),  U_j = PRF(P, U_{j-1}).
    """
    password = _b(password, "password")
    salt = _b(salt, "salt")
    if count < 1:
        raise ValueError("iteration count must be a positive integer")
    if dklen < 0:
        raise ValueError("negative dklen")
    out = b""
    i = 1
    hlen = None
    while len(out) < dklen:
        if i > _M32:
            raise ValueError("derived key too long")
        u = prf(password, salt + struct.pack(">I", i))
        if hlen is None:
            hlen = len(u)
            if dklen > _M32 * hlen:
                raise ValueError("derived key too long")
        t = int.from_bytes(u, "big")
        for _ in range(count - 1):
            u = prf(password, u)
            t ^= int.from_bytes(u, "big")
        out += t.to_bytes(hlen, "big")
        i += 1
    return out[:dklen]


# ----------------------------------------------------------------------------
# HKDF (RFC 5869)
# ----------------------------------------------------------------------------

def hkdf_extract(salt, ikm, hash_fn, block_size):
    """PRK = HMAC-Hash(salt, IKM); salt None/empty -> HashLen zero octets."""
    hlen = len(hash_fn(b""))
    if salt is None or len(salt) == 0:
        salt = b"\x00" * hlen
    return hmac_generic(hash_fn, block_size, salt, ikm)


def hkdf_expand(prk, info, length, hash_fn, block_size):
    """T(0) = "", T(i) = HMAC(PRK, T(i-1) || info || i), OKM = first L octets of T(1)||T(2)||..."""
    hlen = len(hash_fn(b""))
    if info is None:
        info = b""
    info = _b(info, "info")
    if length < 0:
        raise ValueError("negative length")
    if length > 255 * hlen:
        raise ValueError("length exceeds 255*HashLen")
    okm = b""
    t = b""
    i = 0
    while len(okm) < length:
        i += 1
        t = hmac_generic(hash_fn, block_size, prk, t + info + bytes([i]))
        okm += t
    return okm[:length]


def hkdf(ikm, length, salt, info, hash_fn, block_size):
    """Extract-then-expand."""
    hlen = len(hash_fn(b""))
    if length < 0:
        raise ValueError("negative length")
    if length > 255 * hlen:
        raise ValueError("length exceeds 255*HashLen")
    prk = hkdf_extract(salt, ikm, hash_fn, block_size)
    return hkdf_expand(prk, info, length, hash_fn, block_size)


# ----------------------------------------------------------------------------
# NIST SP 800-108r1 section 4.1: KDF in counter mode
# ----------------------------------------------------------------------------

def sp800_108_counter(prf, key_in, label, context, out_len, r_bits=32):
    """K(i) = PRF(K_in, [i]_r || Label || 0x00 || Context || [L]_32), i = 1..n.

    L = out_len*8 (bits), encoded on 32 bits big-endian; the counter is encoded on
    ``r_bits`` bits big-endian.  ValueError if n > 2^r - 1 or L does not fit 32 bits.
    """
    key_in = _b(key_in, "key_in")
    label = _b(label, "label")
    context = _b(context, "context")
    if r_bits not in (8, 16, 24, 32):
        raise ValueError("r must be 8, 16, 24 or 32")
    if out_len < 0:
        raise ValueError("negative output length")
    l_bits = out_len * 8
    if l_bits > _M32:
        raise ValueError("L does not fit in 32 bits")
    fixed = label + b"\x00" + context + struct.pack(">I", l_bits)
    out = b""
    i = 0
    while len(out) < out_len:
        i += 1
        if i > (1 << r_bits) - 1:
            raise ValueError("output too long for the counter width")
        out += prf(key_in, i.to_bytes(r_bits // 8, "big") + fixed)
    return out[:out_len]


# ----------------------------------------------------------------------------
# scrypt (RFC 7914)
# ----------------------------------------------------------------------------

def _salsa20_8_words(w):
    """Salsa20/8 core on a sequence of 16 32-bit words; returns a list of 16 words."""
    M = 0xFFFFFFFF
    x0, x1, x2, x3, x4, x5, x6, x7, x8, x9, x10, x11, x12, x13, x14, x15 = w
    for _ in range(4):
        # column round
        t = (x0 + x12) & M; x4 ^= ((t << 7) & M) | (t >> 25)
        t = (x4 + x0) & M; x8 ^= ((t << 9) & M) | (t >> 23)
        t = (x8 + x4) & M; x12 ^= ((t << 13) & M) | (t >> 19)
        t = (x12 + x8) & M; x0 ^= ((t << 18) & M) | (t >> 14)
        t = (x5 + x1) & M; x9 ^= ((t << 7) & M) | (t >> 25)
        t = (x9 + x5) & M; x13 ^= ((t << 9) & M) | (t >> 23)
        t = (x13 + x9) & M; x1 ^= ((t << 13) & M) | (t >> 19)
        t = (x1 + x13) & M; x5 ^= ((t << 18) & M) | (t >> 14)
        t = (x10 + x6) & M; x14 ^= ((t << 7) & M) | (t >> 25)
        t = (x14 + x10) & M; x2 ^= ((t << 9) & M) | (t >> 23)
        t = (x2 + x14) & M; x6 ^= ((t << 13) & M) | (t >> 19)
        t = (x6 + x2) & M; x10 ^= ((t << 18) & M) | (t >> 14)
        t = (x15 + x11) & M; x3 ^= ((t << 7) & M) | (t >> 25)
        t = (x3 + x15) & M; x7 ^= ((t << 9) & M) | (t >> 23)
        t = (x7 + x3) & M; x11 ^= ((t << 13) & M) | (t >> 19)
        t = (x11 + x7) & M; x15 ^= ((t << 18) & M) | (t >> 14)
        # row round
        t = (x0 + x3) & M; x1 ^= ((t << 7) & M) | (t >> 25)
        t = (x1 + x0) & M; x2 ^= ((t << 9) & M) | (t >> 23)
        t = (x2 + x1) & M; x3 ^= ((t << 13) & M) | (t >> 19)
        t = (x3 + x2) & M; x0 ^= ((t << 18) & M) | (t >> 14)
        t = (x5 + x4) & M; x6 ^= ((t << 7) & M) | (t >> 25)
        t = (x6 + x5) & M; x7 ^= ((t << 9) & M) | (t >> 23)
        t = (x7 + x6) & M; x4 ^= ((t << 13) & M) | (t >> 19)
        t = (x4 + x7) & M; x5 ^= ((t << 18) & M) | (t >> 14)
        t = (x10 + x9) & M; x11 ^= ((t << 7) & M) | (t >> 25)
        t = (x11 + x10) & M; x8 ^= ((t << 9) & M) | (t >> 23)
        t = (x8 + x11) & M; x9 ^= ((t << 13) & M) | (t >> 19)
        t = (x9 + x8) & M; x10 ^= ((t << 18) & M) | (t >> 14)
        t = (x15 + x14) & M; x12 ^= ((t << 7) & M) | (t >> 25)
        t = (x12 + x15) & M; x13 ^= ((t << 9) & M) | (t >> 23)
        t = (x13 + x12) & M; x14 ^= ((t << 13) & M) | (t >> 19)
        t = (x14 + x13) & M; x15 ^= ((t << 18) & M) | (t >> 14)
    return [
        (x0 + w[0]) & M, (x1 + w[1]) & M, (x2 + w[2]) & M, (x3 + w[3]) & M,
        (x4 + w[4]) & M, (x5 + w[5]) & M, (x6 + w[6]) & M, (x7 + w[7]) & M,
        (x8 + w[8]) & M, (x9 + w[9]) & M, (x10 + w[10]) & M, (x11 + w[11]) & M,
        (x12 + w[12]) & M, (x13 + w[13]) & M, (x14 + w[14]) & M, (x15 + w[15]) & M,
    ]


def salsa20_8_core(block64):
    """RFC 7914 section 3: Salsa20/8 core, 64 octets in, 64 octets out (little-endian words)."""
    block64 = _b(block64, "block")
    if len(block64) != 64:
        raise ValueError("Salsa20/8 core operates on 64-octet blocks")
    return struct.pack("<16I", *_salsa20_8_words(struct.unpack("<16I", block64)))


def _blockmix_words(b, r):
    """scryptBlockMix on a list of 32*r words (2r 64-octet blocks)."""
    x = b[(2 * r - 1) * 16:]
    even = []
    odd = []
    for i in range(2 * r):
        blk = b[16 * i:16 * i + 16]
        x = _salsa20_8_words([p ^ q for p, q in zip(x, blk)])
        if i & 1:
            odd += x
        else:
            even += x
    # B' = Y[0] || Y[2] || ... || Y[2r-2] || Y[1] || Y[3] || ... || Y[2r-1]
    return even + odd


def scrypt_blockmix(B, r):
    """RFC 7914 section 4: scryptBlockMix; ``B`` is 128*r octets."""
    B = _b(B, "B")
    if r < 1 or len(B) != 128 * r:
        raise ValueError("B must be 128*r octets")
    n = 32 * r
    return struct.pack("<%dI" % n, *_blockmix_words(list(struct.unpack("<%dI" % n, B)), r))


def _check_n(N):
    if not isinstance(N, int) or N < 2 or (N & (N - 1)) != 0:
        raise ValueError("N must be a power of two greater than 1")


def scrypt_romix(B, N, r):
    """RFC 7914 section 5: scryptROMix; ``B`` is 128*r octets."""
    B = _b(B, "B")
    _check_n(N)
    if r < 1 or len(B) != 128 * r:
        raise ValueError("B must be 128*r octets")
    n = 32 * r
    x = list(struct.unpack("<%dI" % n, B))
    v = []
    for _ in range(N):
        v.append(x)
        x = _blockmix_words(x, r)
    last = (2 * r - 1) * 16
    for _ in range(N):
        # Integerify: the last 64-octet block read as a little-endian integer, mod N
        j = 0
        for k in range(15, -1, -1):
            j = (j << 32) | x[last + k]
        j %= N
        vj = v[j]
        x = _blockmix_words([p ^ q for p, q in zip(x, vj)], r)
    return struct.pack("<%dI" % n, *x)


def scrypt(password, salt, N, r, p, dklen):
    """RFC 7914 section 6.

    B = PBKDF2-HMAC-SHA256(P, S, 1, p*128*r); B_i = ROMix(B_i); DK = PBKDF2(P, B, 1, dkLen).
    """
    password = _b(password, "password")
    salt = _b(salt, "salt")
    _check_n(N)
    if r < 1 or p < 1:
        raise ValueError("r and p must be positive")
    if N >= 1 << (128 * r // 8):
        raise ValueError("N must be less than 2^(128*r/8)")
    if p > (_M32 * 32) // (128 * r):
        raise ValueError("p too large")
    if dklen < 1 or dklen > _M32 * 32:
        raise ValueError("dklen out of range")
    sha256 = lambda m: hashlib.sha256(m).digest()
    prf = hmac_prf(sha256, 64)
    blen = 128 * r
    b = pbkdf2(password, salt, p * blen, 1, prf)
    mixed = b"".join(scrypt_romix(b[i * blen:(i + 1) * blen], N, r) for i in range(p))
    return pbkdf2(password, mixed, dklen, 1, prf)


# ----------------------------------------------------------------------------
# Blowfish (Schneier 1993); the constant tables are the hex digits of pi
# ----------------------------------------------------------------------------

_BF_INIT = None


def _pi_fraction_words(nwords):
    """Return the first ``nwords`` 32-bit words of the fractional part of pi.

    pi = 16*atan(1/5) - 4*atan(1/239) (Machin), evaluated in fixed point with Python
    integers and 96 guard bits.
    """
    bits = 32 * nwords
    guard = 96
    one = 1 << (bits + guard)

    def atan_inv(x):
        # atan(1/x) = sum_{k>=0} (-1)^k / ((2k+1) x^(2k+1))
        total = 0
        power = one // x
        x2 = x * x
        k = 0
        while power:
            term = power // (2 * k + 1)
            total += -term if k & 1 else term
            power //= x2
            k += 1
        return total

    pi_fixed = 16 * atan_inv(5) - 4 * atan_inv(239)
    frac = (pi_fixed - 3 * one) >> guard
    if not 0 <= frac < (1 << bits):
        raise AssertionError("pi computation failed")
    return [(frac >> (32 * (nwords - 1 - i))) & _M32 for i in range(nwords)]


def blowfish_initial_state():
    """Return fresh copies ``(P, S)`` of the initial P-array (18 words) and S-boxes (4x256)."""
    global _BF_INIT
    if _BF_INIT is None:
        w = _pi_fraction_words(18 + 4 * 256)
        if (w[0], w[1], w[18], w[-1]) != (0x243F6A88, 0x85A308D3, 0xD1310BA6, 0x3AC372E6):
            raise AssertionError("pi-derived Blowfish tables are wrong")
        _BF_INIT = (tuple(w[:18]),
                    tuple(tuple(w[18 + 256 * i:18 + 256 * (i + 1)]) for i in range(4)))
    p, s = _BF_INIT
    return list(p), [list(box) for box in s]


def _bf_encipher(P, S, L, R):
    """16-round Feistel network on two 32-bit halves.

    Round i (Schneier): xL ^= P[i]; xR ^= F(xL); swap.  After round 16 the last swap is
    undone and xR ^= P[17], xL ^= P[18] (1-based).  Two rounds are written per loop
    iteration so that the swaps become a change of roles instead of data movement.
    F(x) = ((S1[a] + S2[b] mod 2^32) XOR S3[c]) + S4[d] mod 2^32, x = a|b|c|d.
    """
    s0, s1, s2, s3 = S
    M = 0xFFFFFFFF
    for i in range(0, 16, 2):
        L ^= P[i]
        R ^= ((((s0[L >> 24] + s1[(L >> 16) & 0xFF]) & M) ^ s2[(L >> 8) & 0xFF])
              + s3[L & 0xFF]) & M
        R ^= P[i + 1]
        L ^= ((((s0[R >> 24] + s1[(R >> 16) & 0xFF]) & M) ^ s2[(R >> 8) & 0xFF])
              + s3[R & 0xFF]) & M
    # undo the 16th swap, then the output whitening
    return R ^ P[17], L ^ P[16]


def _bf_decipher(P, S, L, R):
    """Same network with the sub-keys in reverse order."""
    s0, s1, s2, s3 = S
    M = 0xFFFFFFFF
    for i in range(17, 1, -2):
        L ^= P[i]
        R ^= ((((s0[L >> 24] + s1[(L >> 16) & 0xFF]) & M) ^ s2[(L >> 8) & 0xFF])
              + s3[L & 0xFF]) & M
        R ^= P[i - 1]
        L ^= ((((s0[R >> 24] + s1[(R >> 16) & 0xFF]) & M) ^ s2[(R >> 8) & 0xFF])
              + s3[R & 0xFF]) & M
    return R ^ P[0], L ^ P[1]


def _bf_stream_words(data, n, start=0):
    """``n`` big-endian 32-bit words read cyclically from ``data`` starting at word ``start``."""
    ln = len(data)
    out = []
    pos = (4 * start) % ln
    for _ in range(n):
        wd = 0
        for _ in range(4):
            wd = (wd << 8) | data[pos]
            pos += 1
            if pos == ln:
                pos = 0
        out.append(wd)
    return out


def _bf_expand_state(P, S, key, salt=None):
    """ExpandKey(state, salt, key) of the bcrypt paper, in place.

    With ``salt`` None (all-zero salt) this is exactly the ordinary Blowfish key
    schedule applied to the current state.
    """
    kw = _bf_stream_words(key, 18)
    for i in range(18):
        P[i] ^= kw[i]
    sw = None
    if salt is not None:
        # the salt is consumed 64 bits at a time, cyclically, across P and then S
        sw = _bf_stream_words(salt, (18 + 4 * 256))
    L = R = 0
    n = 0
    for i in range(0, 18, 2):
        if sw is not None:
            L ^= sw[n]
            R ^= sw[n + 1]
            n += 2
        L, R = _bf_encipher(P, S, L, R)
        P[i] = L
        P[i + 1] = R
    for box in S:
        for i in range(0, 256, 2):
            if sw is not None:
                L ^= sw[n]
                R ^= sw[n + 1]
                n += 2
            L, R = _bf_encipher(P, S, L, R)
            box[i] = L
            box[i + 1] = R


def blowfish_key_schedule(key, strict=True):
    """Standard Blowfish key schedule -> ``(P, S)``.

    ``strict`` enforces Schneier's 32..448-bit key range; with ``strict=False`` any
    key of 1..72 octets (everything the P-array can absorb) is accepted.
    """
    key = _b(key, "key")
    lo, hi = (4, 56) if strict else (1, 72)
    if not lo <= len(key) <= hi:
        raise ValueError("Blowfish key must be %d..%d octets" % (lo, hi))
    P, S = blowfish_initial_state()
    _bf_expand_state(P, S, key)
    return P, S


def blowfish_encrypt_block(P, S, block8):
    block8 = _b(block8, "block")
    if len(block8) != 8:
        raise ValueError("Blowfish block is 8 octets")
    L, R = struct.unpack(">II", block8)
    return struct.pack(">II", *_bf_encipher(P, S, L, R))


def blowfish_decrypt_block(P, S, block8):
    block8 = _b(block8, "block")
    if len(block8) != 8:
        raise ValueError("Blowfish block is 8 octets")
    L, R = struct.unpack(">II", block8)
    return struct.pack(">II", *_bf_decipher(P, S, L, R))


# ----------------------------------------------------------------------------
# Eksblowfish / bcrypt (Provos & Mazieres; OpenBSD $2a$/$2b$)
# ----------------------------------------------------------------------------

_BCRYPT_ALPHABET = b"./ABCDEFGHIJKLMNOPQRSTUVWXYZabcdefghijklmnopqrstuvwxyz0123456789"
_BCRYPT_INDEX = {c: i for i, c in enumerate(_BCRYPT_ALPHABET)}
_BCRYPT_MAGIC = b"OrpheanBeholderScryDoubt"
_BCRYPT_PREFIXES = (b"2a", b"2b", b"2x", b"2y")
_BCRYPT_RE = re.compile(rb"\$(2[abxy])\$([0-9]{2})\$([./A-Za-z0-9]{22})([./A-Za-z0-9]{31})")


def eks_blowfish_setup(cost, salt16, key):
    """EksBlowfishSetup(cost, salt, key) -> ``(P, S)``.

    state = InitState(); ExpandKey(state, salt, key);
    repeat 2^cost: ExpandKey(state, 0, key); ExpandKey(state, 0, salt)
    """
    salt16 = _b(salt16, "salt")
    key = _b(key, "key")
    if len(salt16) != 16:
        raise ValueError("bcrypt salt must be 16 octets")
    if not 1 <= len(key) <= 72:
        raise ValueError("Eksblowfish key must be 1..72 octets")
    if not 0 <= cost <= 31:
        raise ValueError("cost out of range")
    P, S = blowfish_initial_state()
    _bf_expand_state(P, S, key, salt16)
    for _ in range(1 << cost):
        _bf_expand_state(P, S, key)
        _bf_expand_state(P, S, salt16)
    return P, S


def bcrypt_raw(password, salt16, cost):
    """The 23-octet bcrypt digest (OpenBSD semantics, no sign-extension / wrap-around bugs).

    key = (password || 0x00) truncated to 72 octets, used cyclically.
    """
    password = _b(password, "password")
    if not 4 <= cost <= 31:
        raise ValueError("bcrypt cost must be 4..31")
    key = (password + b"\x00")[:72]
    P, S = eks_blowfish_setup(cost, salt16, key)
    words = list(struct.unpack(">6I", _BCRYPT_MAGIC))
    for _ in range(64):
        for i in range(0, 6, 2):
            words[i], words[i + 1] = _bf_encipher(P, S, words[i], words[i + 1])
    return struct.pack(">6I", *words)[:23]


def bcrypt_b64encode(data):
    """Unpadded base64 with the ``./A-Za-z0-9`` alphabet (MSB-first 6-bit groups)."""
    data = _b(data, "data")
    out = bytearray()
    for i in range(0, len(data), 3):
        chunk = data[i:i + 3]
        n = int.from_bytes(chunk + b"\x00" * (3 - len(chunk)), "big")
        chars = [(n >> 18) & 63, (n >> 12) & 63, (n >> 6) & 63, n & 63][:len(chunk) + 1]
        out += bytes(_BCRYPT_ALPHABET[c] for c in chars)
    return bytes(out)


def bcrypt_b64decode(text, strict=False):
    """Inverse of :func:`bcrypt_b64encode`.

    ValueError on characters outside the alphabet or an impossible length (1 mod 4).
    Left-over low bits of the final character are dropped; with ``strict`` they must be 0.
    """
    if isinstance(text, str):
        text = text.encode("ascii", "strict")
    text = _b(text, "text")
    if len(text) % 4 == 1:
        raise ValueError("invalid bcrypt-base64 length")
    acc = 0
    for c in text:
        if c not in _BCRYPT_INDEX:
            raise ValueError("invalid bcrypt-base64 character")
        acc = (acc << 6) | _BCRYPT_INDEX[c]
    nbits = 6 * len(text)
    spare = nbits % 8
    if strict and acc & ((1 << spare) - 1):
        raise ValueError("non-canonical bcrypt-base64 (unused bits set)")
    return (acc >> spare).to_bytes(nbits // 8, "big")


def bcrypt_hash(password, cost, salt16, prefix=b"2a"):
    """``$<prefix>$CC$<22 chars salt><31 chars digest>`` (60 octets)."""
    if isinstance(prefix, str):
        prefix = prefix.encode("ascii")
    if prefix not in (b"2a", b"2b", b"2y"):
        # $2x$ designates the buggy sign-extending crypt_blowfish variant: not provided
        raise ValueError("unsupported bcrypt prefix")
    salt16 = _b(salt16, "salt")
    if len(salt16) != 16:
        raise ValueError("bcrypt salt must be 16 octets")
    digest = bcrypt_raw(password, salt16, cost)
    out = b"$" + prefix + b"$" + (b"%02d" % cost) + b"$" \
        + bcrypt_b64encode(salt16) + bcrypt_b64encode(digest)
    assert len(out) == 60
    return out


def bcrypt_parse(hash_str, strict=False):
    """Split a bcrypt string -> ``(prefix, cost, salt16, digest23)``; ValueError if malformed."""
    if isinstance(hash_str, str):
        try:
            hash_str = hash_str.encode("ascii")
        except UnicodeEncodeError:
            raise ValueError("bcrypt string is not ASCII")
    hash_str = _b(hash_str, "hash_str")
    if len(hash_str) != 60:
        raise ValueError("bcrypt string must be 60 characters")
    m = _BCRYPT_RE.fullmatch(hash_str)
    if m is None:
        raise ValueError("malformed bcrypt string")
    prefix, cost, salt_t, digest_t = m.groups()
    cost = int(cost)
    if not 4 <= cost <= 31:
        raise ValueError("bcrypt cost must be 4..31")
    return (prefix, cost, bcrypt_b64decode(salt_t, strict), bcrypt_b64decode(digest_t, strict))


def bcrypt_check(password, hash_str):
    """True iff ``hash_str`` ($2a$/$2b$/$2y$) is the bcrypt hash of ``password``."""
    prefix, cost, salt16, digest = bcrypt_parse(hash_str)
    if prefix == b"2x":
        raise ValueError("$2x$ hashes are not supported")
    return bcrypt_raw(password, salt16, cost) == digest


# ----------------------------------------------------------------------------
# AES (FIPS 197, encryption only) and CMAC (RFC 4493 / SP 800-38B).
# Only here so that SP 800-108 can be exercised with a CMAC PRF.
# ----------------------------------------------------------------------------

_AES_SBOX = None


def _gf_mul(a, b):
    r = 0
    while b:
        if b & 1:
            r ^= a
        a <<= 1
        if a & 0x100:
            a ^= 0x11B
        b >>= 1
    return r


def _aes_sbox():
    global _AES_SBOX
    if _AES_SBOX is None:
        box = []
        for x in range(256):
            inv = 0
            if x:
                # x^254 is the multiplicative inverse in GF(2^8)
                inv = 1
                for _ in range(254):
                    inv = _gf_mul(inv, x)
            y = inv
            for sh in (1, 2, 3, 4):
                y ^= ((inv << sh) | (inv >> (8 - sh))) & 0xFF
            box.append(y ^ 0x63)
        _AES_SBOX = box
    return _AES_SBOX


def aes_encrypt_block(key, block16):
    """FIPS 197 Cipher() for 128/192/256-bit keys."""
    key = _b(key, "key")
    block16 = _b(block16, "block")
    if len(key) not in (16, 24, 32) or len(block16) != 16:
        raise ValueError("bad AES key or block length")
    sbox = _aes_sbox()
    nk = len(key) // 4
    nr = nk + 6
    w = [list(key[4 * i:4 * i + 4]) for i in range(nk)]
    rcon = 1
    for i in range(nk, 4 * (nr + 1)):
        t = list(w[i - 1])
        if i % nk == 0:
            t = [sbox[t[1]] ^ rcon, sbox[t[2]], sbox[t[3]], sbox[t[0]]]
            rcon = _gf_mul(rcon, 2)
        elif nk > 6 and i % nk == 4:
            t = [sbox[c] for c in t]
        w.append([a ^ c for a, c in zip(w[i - nk], t)])

    def add_round_key(st, rnd):
        return [st[i] ^ w[4 * rnd + i // 4][i % 4] for i in range(16)]

    # state kept column-major: st[4*c + r]
    st = add_round_key(list(block16), 0)
    for rnd in range(1, nr + 1):
        st = [sbox[c] for c in st]
        st = [st[4 * ((c + r) % 4) + r] for c in range(4) for r in range(4)]   # ShiftRows
        if rnd != nr:
            mixed = []
            for c in range(4):
                a = st[4 * c:4 * c + 4]
                for r in range(4):
                    mixed.append(_gf_mul(a[r], 2) ^ _gf_mul(a[(r + 1) % 4], 3)
                                 ^ a[(r + 2) % 4] ^ a[(r + 3) % 4])
            st = mixed
        st = add_round_key(st, rnd)
    return bytes(st)


def cmac_aes(key, msg):
    """AES-CMAC (RFC 4493), full 16-octet tag.  Usable as ``prf(key, msg)``."""
    msg = _b(msg, "msg")

    def dbl(v):
        n = int.from_bytes(v, "big") << 1
        if n >> 128:
            n = (n & ((1 << 128) - 1)) ^ 0x87
        return n.to_bytes(16, "big")

    k1 = dbl(aes_encrypt_block(key, b"\x00" * 16))
    k2 = dbl(k1)
    nblocks = max(1, (len(msg) + 15) // 16)
    last = msg[16 * (nblocks - 1):]
    if len(last) == 16:
        last = bytes(a ^ c for a, c in zip(last, k1))
    else:
        last = last + b"\x80" + b"\x00" * (15 - len(last))
        last = bytes(a ^ c for a, c in zip(last, k2))
    x = b"\x00" * 16
    for i in range(nblocks - 1):
        x = aes_encrypt_block(key, bytes(a ^ c for a, c in zip(x, msg[16 * i:16 * i + 16])))
    return aes_encrypt_block(key, bytes(a ^ c for a, c in zip(x, last)))


# ----------------------------------------------------------------------------
# Self-test
# ----------------------------------------------------------------------------

def _openssl_cli(args, stdin=b""):
    """Run the ``openssl`` CLI; returns stdout bytes, or None if the tool is unavailable."""
    import subprocess
    try:
        res = subprocess.run(["openssl"] + list(args), input=stdin,
                             capture_output=True, timeout=60)
    except (OSError, subprocess.SubprocessError):
        return None
    if res.returncode != 0:
        return None
    return res.stdout


class _LibCryptoBlowfish:
    """Blowfish-ECB with arbitrary key length through the system libcrypto (ctypes)."""

    def __init__(self):
        import ctypes
        import ctypes.util
        name = ctypes.util.find_library("crypto") or "libcrypto.so.3"
        lib = ctypes.CDLL(name)
        vp, ci, cp = ctypes.c_void_p, ctypes.c_int, ctypes.c_char_p
        lib.OSSL_PROVIDER_load.restype = vp
        lib.OSSL_PROVIDER_load.argtypes = [vp, cp]
        lib.EVP_CIPHER_fetch.restype = vp
        lib.EVP_CIPHER_fetch.argtypes = [vp, cp, cp]
        lib.EVP_CIPHER_CTX_new.restype = vp
        lib.EVP_CIPHER_CTX_free.argtypes = [vp]
        lib.EVP_CipherInit_ex.argtypes = [vp, vp, vp, cp, cp, ci]
        lib.EVP_CIPHER_CTX_set_key_length.argtypes = [vp, ci]
        lib.EVP_CIPHER_CTX_set_padding.argtypes = [vp, ci]
        lib.EVP_CipherUpdate.argtypes = [vp, cp, ctypes.POINTER(ci), cp, ci]
        self._ct = ctypes
        self._lib = lib
        self._prov = [lib.OSSL_PROVIDER_load(None, b"legacy"),
                      lib.OSSL_PROVIDER_load(None, b"default")]
        self._cipher = lib.EVP_CIPHER_fetch(None, b"BF-ECB", None)
        if not self._prov[0] or not self._cipher:
            raise OSError("libcrypto legacy provider / BF-ECB not available")

    def crypt(self, key, data, enc):
        ct, lib = self._ct, self._lib
        ctx = lib.EVP_CIPHER_CTX_new()
        try:
            ok = lib.EVP_CipherInit_ex(ctx, self._cipher, None, None, None, enc)
            ok = ok and lib.EVP_CIPHER_CTX_set_key_length(ctx, len(key)) > 0
            ok = ok and lib.EVP_CipherInit_ex(ctx, None, None, key, None, enc)
            ok = ok and lib.EVP_CIPHER_CTX_set_padding(ctx, 0)
            out = ct.create_string_buffer(len(data) + 16)
            outl = ct.c_int(0)
            ok = ok and lib.EVP_CipherUpdate(ctx, out, ct.byref(outl), data, len(data))
            if not ok:
                raise OSError("libcrypto Blowfish call failed")
            return out.raw[:outl.value]
        finally:
            lib.EVP_CIPHER_CTX_free(ctx)


def selftest(full=True, seed=0x5EED):
    """Run all known-answer tests and cross-checks.

    Returns a dict ``{check name: number of comparisons}`` (a value of 0 together with a
    ``skipped:<name>`` entry means an external oracle was not available).  Raises
    AssertionError with a message on the first mismatch.  ``full=False`` skips the slow
    RFC 7914 N=1024 vector and thins out the bcrypt-vs-crypt(3) sweep.
    """
    import random
    import warnings

    rnd = random.Random(seed)
    counts = {}

    def hit(name, n=1):
        counts[name] = counts.get(name, 0) + n

    def skip(name):
        counts.setdefault(name, 0)
        counts["skipped:" + name] = 1

    def eq(name, got, want, what=""):
        if got != want:
            raise AssertionError("%s mismatch %s: got %r, want %r" % (name, what, got, want))
        hit(name)

    def raises(name, fn, *args, **kw):
        try:
            fn(*args, **kw)
        except ValueError:
            hit(name)
        else:
            raise AssertionError("%s: ValueError not raised for %r %r" % (name, args, kw))

    def hf(name):
        return lambda m: hashlib.new(name, m).digest()

    sha1, sha256, sha512, md5 = hf("sha1"), hf("sha256"), hf("sha512"), hf("md5")
    H = bytes.fromhex

    # ---- HMAC: RFC 2202 / RFC 4231 known answers and stdlib cross-check ----
    import hmac as _hmac
    eq("hmac_kat", hmac_generic(md5, 64, b"Jefe", b"what do ya want for nothing?"),
       H("750c783e6ab0b503eaa86e310a5db738"))
    eq("hmac_kat", hmac_generic(sha1, 64, b"\x0b" * 20, b"Hi There"),
       H("b617318655057264e28bc0b6fb378c8ef146be00"))
    eq("hmac_kat", hmac_generic(sha256, 64, b"\xaa" * 131,
                                b"Test Using Larger Than Block-Size Key - Hash Key First"),
       H("60e431591ee0b67f0d8a26aacbf5b77f8e0bc6213728c5140546040f0ee37f54"))
    for _ in range(60):
        hname, bs = rnd.choice([("md5", 64), ("sha1", 64), ("sha256", 64), ("sha384", 128),
                                ("sha512", 128), ("sha3_256", 136), ("blake2s", 64)])
        k = rnd.randbytes(rnd.choice([0, 1, bs - 1, bs, bs + 1, rnd.randrange(0, 300)]))
        m = rnd.randbytes(rnd.randrange(0, 200))
        eq("hmac_vs_stdlib", hmac_generic(hf(hname), bs, k, m),
           _hmac.new(k, m, hname).digest(), hname)

    # ---- PBKDF1 ----
    # hand-unrolled definition + the widely used PKCS#5 v1.5 SHA-1 example
    eq("pbkdf1_kat", pbkdf1(b"password", H("78578E5A5D63CB06"), 16, 1000, sha1),
       H("DC19847E05C64D2FAF10EBFB4A3D2A20"))
    for _ in range(20):
        pw, st = rnd.randbytes(rnd.randrange(0, 40)), rnd.randbytes(8)
        c = rnd.randrange(1, 50)
        hname = rnd.choice(["md5", "sha1"])
        t = pw + st
        for _i in range(c):
            t = hashlib.new(hname, t).digest()
        n = rnd.randrange(0, len(t) + 1)
        eq("pbkdf1_unrolled", pbkdf1(pw, st, n, c, hf(hname)), t[:n])
    raises("pbkdf1_errors", pbkdf1, b"p", b"s" * 8, 21, 1, sha1)
    raises("pbkdf1_errors", pbkdf1, b"p", b"s" * 8, 17, 1, md5)
    raises("pbkdf1_errors", pbkdf1, b"p", b"s" * 8, 16, 0, md5)

    # ---- PBKDF2: RFC 6070 ----
    prf_sha1 = hmac_prf(sha1, 64)
    rfc6070 = [
        (b"password", b"salt", 1, 20, "0c60c80f961f0e71f3a9b524af6012062fe037a6"),
        (b"password", b"salt", 2, 20, "ea6c014dc72d6f8ccd1ed92ace1d41f0d8de8957"),
        (b"password", b"salt", 4096, 20, "4b007901b765489abead49d926f721d065a429c1"),
        (b"passwordPASSWORDpassword", b"saltSALTsaltSALTsaltSALTsaltSALTsalt", 4096, 25,
         "3d2eec4fe41c849b80c8d83662c0e44a8b291a964cf2f07038"),
        (b"pass\0word", b"sa\0lt", 4096, 16, "56fa6aa75548099dcc37d7f03425e0c3"),
    ]
    for pw, st, c, n, want in rfc6070:
        eq("pbkdf2_rfc6070", pbkdf2(pw, st, n, c, prf_sha1), H(want), "c=%d" % c)
    for _ in range(40):
        hname, bs = rnd.choice([("sha1", 64), ("sha256", 64), ("sha512", 128), ("md5", 64)])
        pw = rnd.randbytes(rnd.choice([0, 1, bs, bs + 1, rnd.randrange(0, 200)]))
        st = rnd.randbytes(rnd.randrange(0, 40))
        c, n = rnd.randrange(1, 30), rnd.randrange(1, 200)
        eq("pbkdf2_vs_hashlib", pbkdf2(pw, st, n, c, hmac_prf(hf(hname), bs)),
           hashlib.pbkdf2_hmac(hname, pw, st, c, n), hname)
    eq("pbkdf2_edge", pbkdf2(b"p", b"s", 0, 1, prf_sha1), b"")
    raises("pbkdf2_errors", pbkdf2, b"p", b"s", 20, 0, prf_sha1)

    # ---- HKDF: RFC 5869 A.1 - A.3 ----
    ikm = b"\x0b" * 22
    salt = bytes(range(0x0d))
    info = bytes(range(0xf0, 0xfa))
    eq("hkdf_rfc5869", hkdf_extract(salt, ikm, sha256, 64),
       H("077709362c2e32df0ddc3f0dc47bba6390b6c73bb50f9c3122ec844ad7c2b3e5"), "A.1 PRK")
    eq("hkdf_rfc5869", hkdf(ikm, 42, salt, info, sha256, 64),
       H("3cb25f25faacd57a90434f64d0362f2a2d2d0a90cf1a5a4c5db02d56ecc4c5bf"
         "34007208d5b887185865"), "A.1 OKM")
    ikm2, salt2, info2 = bytes(range(0x50)), bytes(range(0x60, 0xb0)), bytes(range(0xb0, 0x100))
    eq("hkdf_rfc5869", hkdf_extract(salt2, ikm2, sha256, 64),
       H("06a6b88c5853361a06104c9ceb35b45cef760014904671014a193f40c15fc244"), "A.2 PRK")
    eq("hkdf_rfc5869", hkdf(ikm2, 82, salt2, info2, sha256, 64),
       H("b11e398dc80327a1c8e7f78c596a49344f012eda2d4efad8a050cc4c19afa97c"
         "59045a99cac7827271cb41c65e590e09da3275600c2f09b8367793a9aca3db71"
         "cc30c58179ec3e87c14c01d5c1f3434f1d87"), "A.2 OKM")
    eq("hkdf_rfc5869", hkdf_extract(b"", ikm, sha256, 64),
       H("19ef24a32c717b167f33a91d6f648bdf96596776afdb6377ac434c1c293ccb04"), "A.3 PRK")
    for s0 in (b"", None):
        eq("hkdf_rfc5869", hkdf(ikm, 42, s0, b"", sha256, 64),
           H("8da4e775a563c18f715f802a063c5a31b8a11f5c5ee1879ec3454e5f3c738d2d"
             "9d201395faa4b61a96c8"), "A.3 OKM")
    # A.4 (SHA-1) as a bonus
    eq("hkdf_rfc5869", hkdf(b"\x0b" * 11, 42, salt, info, sha1, 64),
       H("085a01ea1b10f36933068b56efa5ad81a4f14b822f5b091568a9cdd4f155fda2"
         "c22e422478d305f3f896"), "A.4 OKM")
    eq("hkdf_edge", len(hkdf(b"k", 255 * 32, None, b"", sha256, 64)), 255 * 32)
    raises("hkdf_errors", hkdf, b"k", 255 * 32 + 1, None, b"", sha256, 64)
    raises("hkdf_errors", hkdf_expand, b"k" * 20, b"", 255 * 20 + 1, sha1, 64)

    # ---- scrypt: RFC 7914 ----
    eq("salsa20_8_rfc7914", salsa20_8_core(H(
        "7e879a214f3ec9867ca940e641718f26baee555b8c61c1b50df846116dcd3b1d"
        "ee24f319df9b3d8514121e4b5ac5aa3276021d2909c74829edebc68db8b8c25e")), H(
        "a41f859c6608cc993b81cacb020cef05044b2181a2fd337dfd7b1c6396682f29"
        "b4393168e3c9e6bcfe6bc5b7a06d96bae424cc102c91745c24ad673dc7618f81"))
    bm_in = H("f7ce0b653d2d72a4108cf5abe912ffdd777616dbbb27a70e8204f3ae2d0f6fad"
              "89f68f4811d1e87bcc3bd7400a9ffd29094f0184639574f39ae5a1315217bcd7"
              "894991447213bb226c25b54da86370fbcd984380374666bb8ffcb5bf40c254b0"
              "67d27c51ce4ad5fed829c90b505a571b7f4d1cad6a523cda770e67bceaaf7e89")
    eq("blockmix_rfc7914", scrypt_blockmix(bm_in, 1), H(
        "a41f859c6608cc993b81cacb020cef05044b2181a2fd337dfd7b1c6396682f29"
        "b4393168e3c9e6bcfe6bc5b7a06d96bae424cc102c91745c24ad673dc7618f81"
        "20edc975323881a80540f64c162dcd3c21077cfe5f8d5fe2b1a4168f953678b7"
        "7d3b3d803b60e4ab920996e59b4d53b65d2a225877d5edf5842cb9f14eefe425"))
    eq("romix_rfc7914", scrypt_romix(bm_in, 16, 1), H(
        "79ccc193629debca047f0b70604bf6b62ce3dd4a9626e355fafc6198e6ea2b46"
        "d58413673b99b029d665c357601fb426a0b2f4bba200ee9f0a43d19b571a9c71"
        "ef1142e65d5a266fddca832ce59faa7cac0b9cf1be2bffca300d01ee387619c4"
        "ae12fd4438f203a0e4e1c47ec314861f4e9087cb33396a6873e8f9d2539a4b8e"))
    eq("scrypt_rfc7914", scrypt(b"", b"", 16, 1, 1, 64), H(
        "77d6576238657b203b19ca42c18a0497f16b4844e3074ae8dfdffa3fede21442"
        "fcd0069ded0948f8326a753a0fc81f17e8d3e0fb2e0d3628cf35e20c38d18906"), "N=16")
    if full:
        eq("scrypt_rfc7914", scrypt(b"password", b"NaCl", 1024, 8, 16, 64), H(
            "fdbabe1c9d3472007856e7190d01e9fe7c6ad7cbc8237830e77376634b373162"
            "2eaf30d92e22a3886ff109279d9830dac727afb94a83ee6d8360cbdfa2cc0640"), "N=1024")
    for _ in range(12):
        N = 1 << rnd.randrange(1, 7)
        r, p = rnd.randrange(1, 4), rnd.randrange(1, 3)
        pw, st = rnd.randbytes(rnd.randrange(0, 70)), rnd.randbytes(rnd.randrange(0, 40))
        n = rnd.randrange(1, 100)
        if N >= 1 << (16 * r):
            continue
        eq("scrypt_vs_hashlib", scrypt(pw, st, N, r, p, n),
           hashlib.scrypt(pw, salt=st, n=N, r=r, p=p, dklen=n), "N=%d r=%d p=%d" % (N, r, p))
    for bad in (0, 1, 3, 6, 1000, -4):
        raises("scrypt_errors", scrypt, b"p", b"s", bad, 1, 1, 16)
    raises("scrypt_errors", scrypt_romix, b"\0" * 128, 12, 1)

    # ---- AES / CMAC helpers (FIPS 197 C.1-C.3, RFC 4493 section 4) ----
    pt = H("00112233445566778899aabbccddeeff")
    eq("aes_fips197", aes_encrypt_block(bytes(range(16)), pt),
       H("69c4e0d86a7b0430d8cdb78070b4c55a"))
    eq("aes_fips197", aes_encrypt_block(bytes(range(24)), pt),
       H("dda97ca4864cdfe06eaf70a0ec0d7191"))
    eq("aes_fips197", aes_encrypt_block(bytes(range(32)), pt),
       H("8ea2b7ca516745bfeafc49904b496089"))
    ck = H("2b7e151628aed2a6abf7158809cf4f3c")
    cm = H("6bc1bee22e409f96e93d7e117393172aae2d8a571e03ac9c9eb76fac45af8e51"
           "30c81c46a35ce411e5fbc1191a0a52eff69f2445df4f9b17ad2b417be66c3710")
    for n, want in [(0, "bb1d6929e95937287fa37d129b756746"),
                    (16, "070a16b46b4d4144f79bdd9dd04a287c"),
                    (40, "dfa66747de9ae63030ca32611497c827"),
                    (64, "51f0bebf7e3b9d92fc49741779363cfe")]:
        eq("cmac_rfc4493", cmac_aes(ck, cm[:n]), H(want), "len=%d" % n)

    # ---- SP 800-108 counter mode ----
    prf256 = hmac_prf(sha256, 64)
    # definition unrolled by hand with the stdlib hmac
    kin, lab, ctxt = rnd.randbytes(32), b"label", b"context"
    want = b"".join(_hmac.new(kin, struct.pack(">I", i) + lab + b"\0" + ctxt
                              + struct.pack(">I", 70 * 8), "sha256").digest()
                    for i in (1, 2, 3))[:70]
    eq("sp800_108_unrolled", sp800_108_counter(prf256, kin, lab, ctxt, 70), want)
    want8 = b"".join(_hmac.new(kin, bytes([i]) + lab + b"\0" + ctxt
                               + struct.pack(">I", 33 * 8), "sha256").digest()
                     for i in (1, 2))[:33]
    eq("sp800_108_unrolled", sp800_108_counter(prf256, kin, lab, ctxt, 33, r_bits=8), want8)
    raises("sp800_108_errors", sp800_108_counter, prf256, kin, lab, ctxt, 32 * 255 + 1, 8)
    raises("sp800_108_errors", sp800_108_counter, prf256, kin, lab, ctxt, 32, 12)

    def kbkdf_cli(mac_opts, key, label, context, keylen):
        args = ["kdf", "-keylen", str(keylen), "-kdfopt", "mode:counter"]
        for o in mac_opts:
            args += ["-kdfopt", o]
        args += ["-kdfopt", "hexkey:" + key.hex()]
        if label:
            args += ["-kdfopt", "hexsalt:" + label.hex()]
        if context:
            args += ["-kdfopt", "hexinfo:" + context.hex()]
        out = _openssl_cli(args + ["KBKDF"])
        if out is None:
            return None
        return bytes.fromhex(out.decode("ascii").strip().replace(":", ""))

    probe = kbkdf_cli(["mac:HMAC", "digest:SHA256"], b"k" * 16, b"l", b"c", 40)
    if probe is None:
        skip("sp800_108_vs_openssl_hmac")
        skip("sp800_108_vs_openssl_cmac")
    else:
        for t in range(16):
            hname, bs = rnd.choice([("SHA256", 64), ("SHA1", 64), ("SHA512", 128)])
            kin = rnd.randbytes(rnd.randrange(1, 80))
            lab = rnd.randbytes(rnd.randrange(0 if t % 4 == 0 else 1, 30))
            ctxt = rnd.randbytes(rnd.randrange(0 if t % 5 == 0 else 1, 30))
            n = 40 if t == 0 else rnd.randrange(1, 200)
            ref = kbkdf_cli(["mac:HMAC", "digest:" + hname], kin, lab, ctxt, n)
            if ref is None:
                raise AssertionError("openssl KBKDF/HMAC invocation failed")
            eq("sp800_108_vs_openssl_hmac",
               sp800_108_counter(hmac_prf(hf(hname.lower()), bs), kin, lab, ctxt, n), ref,
               "%s n=%d" % (hname, n))
        for t in range(10):
            klen = rnd.choice([16, 24, 32])
            kin = rnd.randbytes(klen)
            lab = rnd.randbytes(rnd.randrange(1, 30))
            ctxt = rnd.randbytes(rnd.randrange(1, 30))
            n = 40 if t == 0 else rnd.randrange(1, 100)
            ref = kbkdf_cli(["mac:CMAC", "cipher:AES-%d-CBC" % (8 * klen)], kin, lab, ctxt, n)
            if ref is None:
                raise AssertionError("openssl KBKDF/CMAC invocation failed")
            eq("sp800_108_vs_openssl_cmac",
               sp800_108_counter(cmac_aes, kin, lab, ctxt, n), ref, "AES-%d n=%d" % (8 * klen, n))

    # ---- Blowfish ----
    P0, S0 = blowfish_initial_state()
    eq("blowfish_pi_tables", (P0[0], P0[1], P0[17], S0[0][0], S0[3][255]),
       (0x243F6A88, 0x85A308D3, 0x8979FB1B, 0xD1310BA6, 0x3AC372E6))
    schneier = [
        ("0000000000000000", "0000000000000000", "4EF997456198DD78"),
        ("FFFFFFFFFFFFFFFF", "FFFFFFFFFFFFFFFF", "51866FD5B85ECB8A"),
        ("3000000000000000", "1000000000000001", "7D856F9A613063F2"),
        ("1111111111111111", "1111111111111111", "2466DD878B963C9D"),
        ("0123456789ABCDEF", "1111111111111111", "61F9C3802281B096"),
        ("FEDCBA9876543210", "0123456789ABCDEF", "0ACEAB0FC6A0A28D"),
    ]
    for k, p_, c_ in schneier:
        P, S = blowfish_key_schedule(H(k))
        eq("blowfish_schneier", blowfish_encrypt_block(P, S, H(p_)), H(c_), "key " + k)
        eq("blowfish_schneier", blowfish_decrypt_block(P, S, H(c_)), H(p_), "key " + k)
    for bad in (b"", b"abc", b"k" * 57):
        raises("blowfish_errors", blowfish_key_schedule, bad)
    raises("blowfish_errors", blowfish_key_schedule, b"k" * 73, strict=False)

    try:
        lc = _LibCryptoBlowfish()
    except (OSError, AttributeError):
        lc = None
    if lc is None:
        skip("blowfish_vs_libcrypto")
    else:
        for klen in range(4, 57):
            key = rnd.randbytes(klen)
            blk = rnd.randbytes(8)
            P, S = blowfish_key_schedule(key)
            ct = blowfish_encrypt_block(P, S, blk)
            eq("blowfish_vs_libcrypto", ct, lc.crypt(key, blk, 1), "klen=%d" % klen)
            eq("blowfish_vs_libcrypto", blowfish_decrypt_block(P, S, blk),
               lc.crypt(key, blk, 0), "dec klen=%d" % klen)
    cli_ok = _openssl_cli(["enc", "-bf-ecb", "-nopad", "-provider", "legacy", "-provider",
                           "default", "-K", "00" * 16], b"\0" * 8)
    if cli_ok is None:
        skip("blowfish_vs_openssl_cli")
    else:
        # the CLI always uses a 128-bit key (shorter -K values are zero-padded)
        for klen in (4, 8, 11, 16):
            key = rnd.randbytes(klen)
            data = rnd.randbytes(24)
            ref = _openssl_cli(["enc", "-bf-ecb", "-nopad", "-provider", "legacy", "-provider",
                                "default", "-K", key.hex()], data)
            P, S = blowfish_key_schedule(key.ljust(16, b"\0"))
            got = b"".join(blowfish_encrypt_block(P, S, data[i:i + 8]) for i in (0, 8, 16))
            eq("blowfish_vs_openssl_cli", got, ref, "klen=%d" % klen)

    # ---- bcrypt ----
    eq("bcrypt_b64", bcrypt_b64encode(b""), b"")
    eq("bcrypt_b64", bcrypt_b64encode(b"\x00"), b"..")
    eq("bcrypt_b64", bcrypt_b64encode(b"\xff\xff\xff"), b"9999")
    eq("bcrypt_b64", bcrypt_b64decode(b"DCq7YPn5Rq63x1Lad4cll."),
       H("144b3d691a7b4ecf39cf735c7fa7a79c"))
    import base64
    std = b"ABCDEFGHIJKLMNOPQRSTUVWXYZabcdefghijklmnopqrstuvwxyz0123456789+/"
    to_bcrypt = bytes.maketrans(std, _BCRYPT_ALPHABET)
    for _ in range(50):
        d = rnd.randbytes(rnd.randrange(0, 40))
        e = bcrypt_b64encode(d)
        eq("bcrypt_b64", len(e), (len(d) * 4 + 2) // 3)
        eq("bcrypt_b64", e, base64.b64encode(d).rstrip(b"=").translate(to_bcrypt))
        eq("bcrypt_b64", bcrypt_b64decode(e, strict=True), d)
    raises("bcrypt_b64_errors", bcrypt_b64decode, b"abc=")
    raises("bcrypt_b64_errors", bcrypt_b64decode, b"a")
    raises("bcrypt_b64_errors", bcrypt_b64decode, b"ab+d")
    raises("bcrypt_b64_errors", bcrypt_b64decode, b"DCq7YPn5Rq63x1Lad4cll/", strict=True)

    # OpenBSD / John-the-Ripper / crypt_blowfish published vectors
    kat = [
        (b"", b"$2a$06$DCq7YPn5Rq63x1Lad4cll.TV4S6ytwfsfvkgY8jIucDrjc8deX1s."),
        (b"a", b"$2a$06$m0CrhHm10qJ3lXRY.5zDGO3rS2KdeeWLuGmsfGlMfOxih58VYVfxe"),
        (b"abc", b"$2a$06$If6bvum7DFjUnE9p2uDeDu0YHzrHM6tf.iqN8.yx.jNN1ILEf7h0i"),
        (b"abcdefghijklmnopqrstuvwxyz",
         b"$2a$06$.rCVZVOThsIa97pEDOxvGuRRgzG64bvtJ0938xuqzv18d3ZpQhstC"),
        (b"~!@#$%^&*()      ~!@#$%^&*()PNBFRD",
         b"$2a$06$fPIsBO8qRqkjj273rfaOI.HtSV9jLDpTbZn782DC6/t7qT67P6FfO"),
        (b"U*U", b"$2a$05$CCCCCCCCCCCCCCCCCCCCC.E5YPO9kmyuRGyh0XouQYb4YMJKvyOeW"),
        (b"U*U*", b"$2a$05$CCCCCCCCCCCCCCCCCCCCC.VGOzA784oUp/Z0DY336zx7pLYAy0lwK"),
        (b"U*U*U", b"$2a$05$XXXXXXXXXXXXXXXXXXXXXOAcXxm9kjPGEMsLznoKqmqw7tc8WCx4a"),
        (b"0123456789abcdefghijklmnopqrstuvwxyzABCDEFGHIJKLMNOPQRSTUVWXYZ0123456789chars after 72 are ignored",
         b"$2a$05$abcdefghijklmnopqrstuu5s2v8.iXieOjg/.AySBTTZIIVFJeBui"),
        (b"\xa3", b"$2y$05$/OK.fbVrR/bpIqNJ5ianF.Sa7shbm4.OzKpvFnX1pQLmQW96oUlCq"),
        (b"\xff\xff\xa3", b"$2y$05$/OK.fbVrR/bpIqNJ5ianF.CE5elHaaO4EbggVDjb8P19RukzXSM3e"),
        (b"\xaa" * 72, b"$2a$05$/OK.fbVrR/bpIqNJ5ianF.swQOIzjOiJ9GHEPuhEkvqrUyvWhEMx6"),
    ]
    for pw, hs in kat:
        prefix, cost, salt16, digest = bcrypt_parse(hs)
        eq("bcrypt_kat", bcrypt_hash(pw, cost, salt16, prefix), hs, repr(pw[:12]))
    eq("bcrypt_check", bcrypt_check(b"a", kat[1][1]), True)
    eq("bcrypt_check", bcrypt_check(b"b", kat[1][1]), False)
    good = kat[0][1]
    malformed = [
        b"", good[:-1], good + b".", good + b"\n", good[1:], b"#" + good[1:],
        good.replace(b"$2a$", b"$2c$"), good.replace(b"$2a$", b"$3a$"),
        good.replace(b"$06$", b"$6$") + b".", good.replace(b"$06$", b"$03$"),
        good.replace(b"$06$", b"$32$"), good.replace(b"$06$", b"$0a$"),
        good.replace(b"$06$", b"$06."), good[:20] + b"=" + good[21:], good[:40] + b"+" + good[41:],
        good[:59] + b"\xff", b"$2$06$" + good[7:] + b".",
    ]
    for bad in malformed:
        raises("bcrypt_parse_errors", bcrypt_parse, bad)
    raises("bcrypt_errors", bcrypt_hash, b"a", 3, b"s" * 16)
    raises("bcrypt_errors", bcrypt_hash, b"a", 32, b"s" * 16)
    raises("bcrypt_errors", bcrypt_hash, b"a", 4, b"s" * 15)
    raises("bcrypt_errors", bcrypt_hash, b"a", 4, b"s" * 16, b"2x")

    try:
        with warnings.catch_warnings():
            warnings.simplefilter("ignore")
            import crypt as _crypt
        probe = _crypt.crypt("a", "$2b$04$abcdefghijklmnopqrstuu")
        if not probe or not probe.startswith("$2b$04$"):
            _crypt = None
    except Exception:
        _crypt = None
    if _crypt is None:
        skip("bcrypt_vs_crypt3")
    else:
        lengths = list(range(0, 81)) if full else \
            [0, 1, 2, 3, 4, 5, 17, 18, 19, 35, 36, 37, 55, 56, 57, 70, 71, 72, 73, 74, 80]
        nonascii = "éÿ€中\U0001f600£\u0080"
        for idx, ln in enumerate(lengths):
            # a text whose UTF-8 encoding is exactly ``ln`` octets; every other one non-ASCII
            text = ""
            while len(text.encode("utf-8")) < ln:
                room = ln - len(text.encode("utf-8"))
                ch = chr(rnd.randrange(0x20, 0x7F))
                if idx % 2 and rnd.random() < 0.4:
                    cand = rnd.choice(nonascii)
                    if len(cand.encode("utf-8")) <= room:
                        ch = cand
                text += ch
            pw = text.encode("utf-8")
            assert len(pw) == ln and b"\0" not in pw
            salt16 = rnd.randbytes(16)
            # crypt_blowfish/libxcrypt deliberately perturb some 8-bit $2a$ hashes (the
            # "safety" countermeasure for the old sign-extension bug), so $2a$ is only
            # compared for pure-ASCII passwords; $2b$/$2y$ are bug-free everywhere.
            prefix = rnd.choice(["2b", "2a", "2y"] if pw.isascii() else ["2b", "2y"])
            setting = "$%s$04$%s" % (prefix, bcrypt_b64encode(salt16).decode())
            ref = _crypt.crypt(text, setting)
            if ref is None:
                raise AssertionError("crypt(3) rejected setting %r" % setting)
            eq("bcrypt_vs_crypt3", bcrypt_hash(pw, 4, salt16, prefix.encode()),
               ref.encode("ascii"), "len=%d" % ln)
        # one higher cost to exercise the 2^cost loop count
        salt16 = rnd.randbytes(16)
        setting = "$2b$07$" + bcrypt_b64encode(salt16).decode()
        eq("bcrypt_vs_crypt3", bcrypt_hash(b"correct horse", 7, salt16, b"2b"),
           _crypt.crypt("correct horse", setting).encode("ascii"), "cost=7")

    return counts


if __name__ == "__main__":
    import sys
    import time
    import warnings
    warnings.simplefilter("ignore", DeprecationWarning)
    _t0 = time.time()
    _res = selftest(full="--quick" not in sys.argv[1:])
    print(_res)
    print("refs.kdf selftest OK: %d comparisons in %.1f s"
          % (sum(v for k, v in _res.items() if not k.startswith("skipped:")), time.time() - _t0))
