"""Independent reference implementations (test oracles) for elliptic-curve and
DSA functionality, written from the specification texts on plain Python ints:

  FIPS 186-4 / 186-5, SP 800-186   NIST prime curves, ECDSA, DSA
  SEC 1 v2                         point encoding / decoding
  RFC 6979                         deterministic nonces
  RFC 7748                         X25519 / X448
  RFC 8032                         Ed25519(ctx/ph) / Ed448(ph)

Nothing here imports the library under test.  Only the stdlib is used.
All constants are verified mathematically at import time (see _verify_params).

Conventions
-----------
* A curve argument ``c`` is either a key of CURVES or the dict itself.
* Weierstrass points are affine tuples (x, y); ``None`` is the point at infinity.
* Edwards points are affine tuples (x, y); the neutral element is (0, 1).
* Montgomery arithmetic is x-only; u-coordinate 0 also stands for infinity.
"""

import hashlib
import hmac

__all__ = [
    'CURVES', 'is_probable_prime', 'sqrt_mod',
    'ws_on_curve', 'ws_add', 'ws_neg', 'ws_double', 'ws_mul', 'ws_mul2',
    'ws_mul_affine', 'ws_decompress', 'sec1_encode', 'sec1_decode',
    'ed_on_curve', 'ed_add', 'ed_neg', 'ed_mul', 'ed_mul_affine',
    'ed_encode', 'ed_decode', 'ed_small_order_points',
    'x25519', 'x448', 'x25519_clamp', 'x448_clamp', 'mont_ladder',
    'mont_on_curve', 'mont_twist_order', 'mont_low_order_us',
    'bits2int', 'int2octets', 'bits2octets', 'ecdsa_sign', 'ecdsa_verify',
    'dsa_sign', 'dsa_verify', 'rfc6979_k', 'rfc6979_k_iter',
    'eddsa_prehash', 'eddsa_expand_seed', 'eddsa_pubkey', 'eddsa_sign',
    'eddsa_verify', 'selftest',
]

# ---------------------------------------------------------------------------
# number theory helpers
# ---------------------------------------------------------------------------

_MR_BASES = (2, 3, 5, 7, 11, 13, 17, 19, 23, 29, 31, 37,
             41, 43, 47, 53, 59, 61, 67, 71, 73, 79, 83, 89)


def is_probable_prime(n):
    """Miller-Rabin with a fixed set of 24 prime bases."""
    if n < 2:
        return False
    for q in _MR_BASES:
        if n % q == 0:
            return n == q
    d, s = n - 1, 0
    while d % 2 == 0:
        d //= 2
        s += 1
    for a in _MR_BASES:
        x = pow(a, d, n)
        if x == 1 or x == n - 1:
            continue
        for _ in range(s - 1):
            x = x * x % n
            if x == n - 1:
                break
        else:
            return False
    return True


def _is_square(a, p):
    a %= p
    return a == 0 or pow(a, (p - 1) // 2, p) == 1


def sqrt_mod(a, p):
    """A square root of a modulo the odd prime p, or None."""
    a %= p
    if a == 0:
        return 0
    if pow(a, (p - 1) // 2, p) != 1:
        return None
    if p % 4 == 3:
        r = pow(a, (p + 1) // 4, p)
    elif p % 8 == 5:
        r = pow(a, (p + 3) // 8, p)
        if r * r % p != a:
            r = r * pow(2, (p - 1) // 4, p) % p
    else:
        # Tonelli-Shanks
        q, s = p - 1, 0
        while q % 2 == 0:
            q //= 2
            s += 1
        z = 2
        while pow(z, (p - 1) // 2, p) != p - 1:
            z += 1
        m = s
        cc = pow(z, q, p)
        t = pow(a, q, p)
        r = pow(a, (q + 1) // 2, p)
        while t != 1:
            i, t2 = 0, t
            while t2 != 1:
                t2 = t2 * t2 % p
                i += 1
            b = pow(cc, 1 << (m - i - 1), p)
            m = i
            cc = b * b % p
            t = t * cc % p
            r = r * b % p
    if r * r % p != a:          # cannot happen for prime p
        raise ArithmeticError("sqrt_mod failed")
    return r


def _inv(a, p):
    return pow(a, -1, p)


# ---------------------------------------------------------------------------
# A. curve parameters
# ---------------------------------------------------------------------------

def _nist(name, p, b, gx, gy, n):
    return dict(name=name, kind='weierstrass', p=p, a=p - 3, b=b,
                Gx=gx, Gy=gy, G=(gx, gy), n=n, h=1,
                bits=p.bit_length(), size=(p.bit_length() + 7) // 8)


CURVES = {}

CURVES['P-192'] = _nist(
    'P-192', 2**192 - 2**64 - 1,
    0x64210519e59c80e70fa7e9ab72243049feb8deecc146b9b1,
    0x188da80eb03090f67cbf20eb43a18800f4ff0afd82ff1012,
    0x07192b95ffc8da78631011ed6b24cdd573f977a11e794811,
    0xffffffffffffffffffffffff99def836146bc9b1b4d22831)

CURVES['P-224'] = _nist(
    'P-224', 2**224 - 2**96 + 1,
    0xb4050a850c04b3abf54132565044b0b7d7bfd8ba270b39432355ffb4,
    0xb70e0cbd6bb4bf7f321390b94a03c1d356c21122343280d6115c1d21,
    0xbd376388b5f723fb4c22dfe6cd4375a05a07476444d5819985007e34,
    0xffffffffffffffffffffffffffff16a2e0b8f03e13dd29455c5c2a3d)

CURVES['P-256'] = _nist(
    'P-256', 2**256 - 2**224 + 2**192 + 2**96 - 1,
    0x5ac635d8aa3a93e7b3ebbd55769886bc651d06b0cc53b0f63bce3c3e27d2604b,
    0x6b17d1f2e12c4247f8bce6e563a440f277037d812deb33a0f4a13945d898c296,
    0x4fe342e2fe1a7f9b8ee7eb4a7c0f9e162bce33576b315ececbb6406837bf51f5,
    0xffffffff00000000ffffffffffffffffbce6faada7179e84f3b9cac2fc632551)

CURVES['P-384'] = _nist(
    'P-384', 2**384 - 2**128 - 2**96 + 2**32 - 1,
    0xb3312fa7e23ee7e4988e056be3f82d19181d9c6efe8141120314088f5013875ac656398d8a2ed19d2a85c8edd3ec2aef,
    0xaa87ca22be8b05378eb1c71ef320ad746e1d3b628ba79b9859f741e082542a385502f25dbf55296c3a545e3872760ab7,
    0x3617de4a96262c6f5d9e98bf9292dc29f8f41dbd289a147ce9da3113b5f0b8c00a60b1ce1d7e819d7a431d7c90ea0e5f,
    0xffffffffffffffffffffffffffffffffffffffffffffffffc7634d81f4372ddf581a0db248b0a77aecec196accc52973)

CURVES['P-521'] = _nist(
    'P-521', 2**521 - 1,
    0x0051953eb9618e1c9a1f929a21a0b68540eea2da725b99b315f3b8b489918ef109e156193951ec7e937b1652c0bd3bb1bf073573df883d2c34f1ef451fd46b503f00,
    0x00c6858e06b70404e9cd9e3ecb662395b4429c648139053fb521f828af606b4d3dbaa14b5e77efe75928fe1dc127a2ffa8de3348b3c1856a429bf97e7e31c2e5bd66,
    0x011839296a789a3bc0045c8a5fb42c7d1bd998f54449579b446817afbd17273e662c97ee72995ef42640c550b9013fad0761353c7086a272c24088be94769fd16650,
    int("01ff" + "ffffffff" * 7 + "fffffffa"
        "51868783bf2f966b7fcc0148f709a5d03bb5c9b8899c47aebb6fb71e91386409", 16))

# --- edwards25519 (RFC 8032 5.1) -------------------------------------------
_p25519 = 2**255 - 19
_L25519 = 2**252 + 27742317777372353535851937790883648493
_d25519 = (-121665 * pow(121666, -1, _p25519)) % _p25519
_Gx25519 = 15112221349535400772501151409588531511454012693041857206046113283949847762202
_Gy25519 = 46316835694926478169428394003475163141307993866256225615783033603165251855960
CURVES['Ed25519'] = dict(
    name='Ed25519', kind='edwards', p=_p25519, a=_p25519 - 1, d=_d25519,
    Gx=_Gx25519, Gy=_Gy25519, G=(_Gx25519, _Gy25519),
    L=_L25519, n=_L25519, h=8, b=256, size=32, bits=255)

# --- edwards448 (RFC 8032 5.2) ---------------------------------------------
_p448 = 2**448 - 2**224 - 1
_L448 = 2**446 - 13818066809895115352007386748515426880336692474882178609894547503885
_Gx448 = 224580040295924300187604334099896036246789641632564134246125461686950415467406032909029192869357953282578032075146446173674602635247710
_Gy448 = 298819210078481492676017930443930673437544040154080242095928241372331506189835876003536878655418784733982303233503462500531545062832660
CURVES['Ed448'] = dict(
    name='Ed448', kind='edwards', p=_p448, a=1, d=_p448 - 39081,
    Gx=_Gx448, Gy=_Gy448, G=(_Gx448, _Gy448),
    L=_L448, n=_L448, h=4, b=456, size=57, bits=448)

# --- Montgomery curves (RFC 7748 4.1 / 4.2) --------------------------------
CURVES['Curve25519'] = dict(
    name='Curve25519', kind='montgomery', p=_p25519, A=486662, a24=121665,
    Gu=9, L=_L25519, n=_L25519, h=8, bits=255, size=32)
CURVES['Curve448'] = dict(
    name='Curve448', kind='montgomery', p=_p448, A=156326, a24=39081,
    Gu=5, L=_L448, n=_L448, h=4, bits=448, size=56)


def _curve(c):
    if isinstance(c, str):
        return CURVES[c]
    return c


# ---------------------------------------------------------------------------
# B. short Weierstrass  y^2 = x^3 + a x + b
# ---------------------------------------------------------------------------

def ws_on_curve(c, P):
    """True for the point at infinity (None) and for affine points satisfying
    the curve equation with both coordinates in [0, p)."""
    c = _curve(c)
    if P is None:
        return True
    x, y = P
    p = c['p']
    if not (0 <= x < p and 0 <= y < p):
        return False
    return (y * y - (x * x * x + c['a'] * x + c['b'])) % p == 0


def ws_neg(c, P):
    c = _curve(c)
    if P is None:
        return None
    return (P[0], (-P[1]) % c['p'])


def ws_double(c, P):
    c = _curve(c)
    if P is None:
        return None
    p = c['p']
    x, y = P
    if y == 0:
        return None
    lam = (3 * x * x + c['a']) * _inv(2 * y, p) % p
    x3 = (lam * lam - 2 * x) % p
    return (x3, (lam * (x - x3) - y) % p)


def ws_add(c, P, Q):
    """Affine chord-and-tangent addition handling every special case."""
    c = _curve(c)
    if P is None:
        return Q
    if Q is None:
        return P
    p = c['p']
    x1, y1 = P
    x2, y2 = Q
    if x1 == x2:
        if (y1 + y2) % p == 0:
            return None
        return ws_double(c, P)
    lam = (y2 - y1) * _inv(x2 - x1, p) % p
    x3 = (lam * lam - x1 - x2) % p
    return (x3, (lam * (x1 - x3) - y1) % p)


def ws_mul_affine(c, k, P):
    """Textbook affine double-and-add (slow; used to cross-check ws_mul)."""
    c = _curve(c)
    if k < 0:
        return ws_mul_affine(c, -k, ws_neg(c, P))
    R = None
    for i in reversed(range(k.bit_length())):
        R = ws_double(c, R)
        if (k >> i) & 1:
            R = ws_add(c, R, P)
    return R


# Jacobian coordinates (X, Y, Z): x = X/Z^2, y = Y/Z^3; Z == 0 is infinity.

def _jac_double(p, a, X, Y, Z):
    if Z == 0 or Y == 0:
        return (1, 1, 0)
    YY = Y * Y % p
    S = 4 * X * YY % p
    ZZ = Z * Z % p
    if a > p >> 1:
        a -= p                  # small negative representative (a = -3)
    M = (3 * X * X + a * (ZZ * ZZ % p)) % p
    X3 = (M * M - 2 * S) % p
    Y3 = (M * (S - X3) - 8 * YY * YY) % p
    Z3 = 2 * Y * Z % p
    return (X3, Y3, Z3)


def _jac_add_affine(p, a, X1, Y1, Z1, x2, y2):
    """(X1:Y1:Z1) + (x2, y2) with (x2, y2) a finite affine point."""
    if Z1 == 0:
        return (x2, y2, 1)
    ZZ = Z1 * Z1 % p
    U2 = x2 * ZZ % p
    S2 = y2 * ZZ * Z1 % p
    H = (U2 - X1) % p
    R = (S2 - Y1) % p
    if H == 0:
        if R == 0:
            return _jac_double(p, a, X1, Y1, Z1)
        return (1, 1, 0)
    HH = H * H % p
    HHH = HH * H % p
    V = X1 * HH % p
    X3 = (R * R - HHH - 2 * V) % p
    Y3 = (R * (V - X3) - Y1 * HHH) % p
    Z3 = Z1 * H % p
    return (X3, Y3, Z3)


def _jac_to_affine(p, X, Y, Z):
    if Z == 0:
        return None
    zi = _inv(Z, p)
    zi2 = zi * zi % p
    return (X * zi2 % p, Y * zi2 * zi % p)


def ws_mul(c, k, P):
    """k*P for any integer k (k >= n, k == 0 and k < 0 are all fine)."""
    c = _curve(c)
    if P is None or k == 0:
        return None
    if k < 0:
        return ws_mul(c, -k, ws_neg(c, P))
    p, a = c['p'], c['a']
    x2, y2 = P
    ny2 = (-y2) % p
    # non-adjacent form, least significant digit first
    naf = []
    while k:
        if k & 1:
            dgt = 2 - (k & 3)
            k -= dgt
        else:
            dgt = 0
        naf.append(dgt)
        k >>= 1
    X, Y, Z = 1, 1, 0
    for dgt in reversed(naf):
        X, Y, Z = _jac_double(p, a, X, Y, Z)
        if dgt == 1:
            X, Y, Z = _jac_add_affine(p, a, X, Y, Z, x2, y2)
        elif dgt == -1:
            X, Y, Z = _jac_add_affine(p, a, X, Y, Z, x2, ny2)
    return _jac_to_affine(p, X, Y, Z)


def ws_mul2(c, k1, P1, k2, P2):
    """k1*P1 + k2*P2 (Shamir's trick), k1, k2 >= 0."""
    c = _curve(c)
    if P1 is None or k1 == 0:
        return ws_mul(c, k2, P2)
    if P2 is None or k2 == 0:
        return ws_mul(c, k1, P1)
    p, a = c['p'], c['a']
    P12 = ws_add(c, P1, P2)
    table = {1: P1, 2: P2, 3: P12}
    X, Y, Z = 1, 1, 0
    for i in reversed(range(max(k1.bit_length(), k2.bit_length()))):
        X, Y, Z = _jac_double(p, a, X, Y, Z)
        sel = ((k1 >> i) & 1) | (((k2 >> i) & 1) << 1)
        if sel:
            T = table[sel]
            if T is not None:
                X, Y, Z = _jac_add_affine(p, a, X, Y, Z, T[0], T[1])
    return _jac_to_affine(p, X, Y, Z)


def ws_decompress(c, x, y_parity):
    """The point with abscissa x whose y has the given parity (0/1), or None."""
    c = _curve(c)
    p = c['p']
    if not 0 <= x < p or y_parity not in (0, 1):
        return None
    y = sqrt_mod(x * x * x + c['a'] * x + c['b'], p)
    if y is None:
        return None
    if y & 1 != y_parity:
        y = (p - y) % p
        if y & 1 != y_parity:       # y == 0 and parity 1 requested
            return None
    return (x, y)


def sec1_encode(c, P, compressed=False):
    """SEC 1 v2 section 2.3.3."""
    c = _curve(c)
    if P is None:
        return b'\x00'
    n = c['size']
    x, y = P
    if compressed:
        return bytes([2 + (y & 1)]) + x.to_bytes(n, 'big')
    return b'\x04' + x.to_bytes(n, 'big') + y.to_bytes(n, 'big')


def sec1_decode(c, data, allow_infinity=True):
    """SEC 1 v2 section 2.3.4.  Returns an affine point (or None for the
    single octet 00 when allow_infinity).  Raises ValueError for anything
    malformed: bad length, unknown prefix (hybrid 06/07 is not SEC 1),
    coordinate >= p, x without a square root, point off the curve."""
    c = _curve(c)
    data = bytes(data)
    n = c['size']
    p = c['p']
    if data == b'\x00':
        if allow_infinity:
            return None
        raise ValueError("point at infinity")
    if len(data) == n + 1 and data[0] in (2, 3):
        x = int.from_bytes(data[1:], 'big')
        if x >= p:
            raise ValueError("x out of range")
        P = ws_decompress(c, x, data[0] & 1)
        if P is None:
            raise ValueError("x is not the abscissa of a curve point")
        return P
    if len(data) == 2 * n + 1 and data[0] == 4:
        x = int.from_bytes(data[1:1 + n], 'big')
        y = int.from_bytes(data[1 + n:], 'big')
        if x >= p or y >= p:
            raise ValueError("coordinate out of range")
        if not ws_on_curve(c, (x, y)):
            raise ValueError("point not on curve")
        return (x, y)
    raise ValueError("malformed SEC1 point")


# ---------------------------------------------------------------------------
# C. twisted Edwards  a x^2 + y^2 = 1 + d x^2 y^2
# ---------------------------------------------------------------------------

def ed_on_curve(c, P):
    c = _curve(c)
    p = c['p']
    x, y = P
    if not (0 <= x < p and 0 <= y < p):
        return False
    xx, yy = x * x % p, y * y % p
    return (c['a'] * xx + yy - 1 - c['d'] * xx * yy) % p == 0


def ed_neg(c, P):
    c = _curve(c)
    return ((-P[0]) % c['p'], P[1])


def ed_add(c, P, Q):
    """Complete affine addition law (a square, d non-square)."""
    c = _curve(c)
    p, a, d = c['p'], c['a'], c['d']
    x1, y1 = P
    x2, y2 = Q
    t = d * x1 * x2 * y1 * y2 % p
    x3 = (x1 * y2 + x2 * y1) * _inv(1 + t, p) % p
    y3 = (y1 * y2 - a * x1 * x2) * _inv(1 - t, p) % p
    return (x3, y3)


def _ed_padd(p, a, d, P, Q):
    """Projective unified addition (Bernstein-Birkner-Joye-Lange-Peters 2008)."""
    X1, Y1, Z1 = P
    X2, Y2, Z2 = Q
    A = Z1 * Z2 % p
    B = A * A % p
    C = X1 * X2 % p
    D = Y1 * Y2 % p
    E = d * C * D % p
    F = (B - E) % p
    G = (B + E) % p
    X3 = A * F * ((X1 + Y1) * (X2 + Y2) - C - D) % p
    Y3 = A * G * (D - a * C) % p
    Z3 = F * G % p
    return (X3, Y3, Z3)


def ed_mul(c, k, P):
    """k*P for any integer k."""
    c = _curve(c)
    p, a, d = c['p'], c['a'], c['d']
    if k < 0:
        return ed_mul(c, -k, ed_neg(c, P))
    Q = (P[0] % p, P[1] % p, 1)
    R = (0, 1, 1)
    for i in reversed(range(k.bit_length())):
        R = _ed_padd(p, a, d, R, R)
        if (k >> i) & 1:
            R = _ed_padd(p, a, d, R, Q)
    zi = _inv(R[2], p)
    return (R[0] * zi % p, R[1] * zi % p)


def ed_mul_affine(c, k, P):
    """Slow affine double-and-add, used to cross-check ed_mul."""
    c = _curve(c)
    R = (0, 1)
    for i in reversed(range(k.bit_length())):
        R = ed_add(c, R, R)
        if (k >> i) & 1:
            R = ed_add(c, R, P)
    return R


def ed_encode(c, P):
    """RFC 8032 5.1.2 / 5.2.2: y little-endian, lsb of x in the top bit."""
    c = _curve(c)
    x, y = P
    n = c['size']
    return (y | ((x & 1) << (8 * n - 1))).to_bytes(n, 'little')


def ed_decode(c, data):
    """RFC 8032 5.1.3 / 5.2.3, strict.  None on: wrong length, y >= p,
    x^2 not a square, x == 0 with sign bit 1."""
    c = _curve(c)
    data = bytes(data)
    n = c['size']
    if len(data) != n:
        return None
    p, a, d = c['p'], c['a'], c['d']
    v = int.from_bytes(data, 'little')
    sign = v >> (8 * n - 1)
    y = v & ((1 << (8 * n - 1)) - 1)
    if y >= p:
        return None
    yy = y * y % p
    # a x^2 + y^2 = 1 + d x^2 y^2   =>   x^2 = (y^2 - 1) / (d y^2 - a)
    den = (d * yy - a) % p
    if den == 0:
        return None
    x = sqrt_mod((yy - 1) * _inv(den, p), p)
    if x is None:
        return None
    if x == 0 and sign == 1:
        return None
    if x & 1 != sign:
        x = p - x
    return (x, y)


_ED_SMALL = {}


def ed_small_order_points(c):
    """All points whose order divides the cofactor h (h of them), computed by
    multiplying curve points by L until a generator of the h-torsion is hit."""
    c = _curve(c)
    name = c['name']
    if name in _ED_SMALL:
        return list(_ED_SMALL[name])
    p, L, h = c['p'], c['L'], c['h']
    y = 1
    pts = None
    while pts is None:
        y += 1
        if y > 2000:
            raise ArithmeticError("no generator of the small subgroup found")
        P = ed_decode(c, y.to_bytes(c['size'], 'little'))
        if P is None:
            continue
        T = ed_mul(c, L, P)
        if ed_mul(c, h // 2, T) == (0, 1):
            continue                      # order of T is a proper divisor of h
        pts = []
        R = (0, 1)
        for _ in range(h):
            pts.append(R)
            R = ed_add(c, R, T)
        if R != (0, 1) or len(set(pts)) != h:
            raise ArithmeticError("small subgroup enumeration failed")
    pts.sort()
    _ED_SMALL[name] = pts
    return list(pts)


# ---------------------------------------------------------------------------
# D. Montgomery  v^2 = u^3 + A u^2 + u   (x-only)
# ---------------------------------------------------------------------------

def _ladder_xz(c, k, u):
    """Montgomery ladder, returns projective (X, Z) of k*P, P = (u, .)."""
    p, a24 = c['p'], c['a24']
    x1 = u % p
    x2, z2, x3, z3 = 1, 0, x1, 1
    for t in reversed(range(k.bit_length())):
        bit = (k >> t) & 1
        if bit:
            x2, x3, z2, z3 = x3, x2, z3, z2
        A = (x2 + z2) % p
        AA = A * A % p
        B = (x2 - z2) % p
        BB = B * B % p
        E = (AA - BB) % p
        C = (x3 + z3) % p
        D = (x3 - z3) % p
        DA = D * A % p
        CB = C * B % p
        x3 = pow(DA + CB, 2, p)
        z3 = x1 * pow(DA - CB, 2, p) % p
        x2 = AA * BB % p
        z2 = E * (AA + a24 * E) % p
        if bit:
            x2, x3, z2, z3 = x3, x2, z3, z2
    return x2, z2


def mont_ladder(c, k, u):
    """u-coordinate of k*P (no clamping, k >= 0); 0 for the point at infinity."""
    c = _curve(c)
    if k < 0:
        k = -k
    p = c['p']
    x, z = _ladder_xz(c, k, u)
    return x * pow(z, p - 2, p) % p


def _rfc7748(c, k, u):
    """RFC 7748 section 5, literal transcription; k already clamped int."""
    p, a24, bits = c['p'], c['a24'], c['bits']
    x_1 = u
    x_2, z_2, x_3, z_3 = 1, 0, u, 1
    swap = 0
    for t in range(bits - 1, -1, -1):
        k_t = (k >> t) & 1
        swap ^= k_t
        if swap:
            x_2, x_3 = x_3, x_2
            z_2, z_3 = z_3, z_2
        swap = k_t
        A = (x_2 + z_2) % p
        AA = A * A % p
        B = (x_2 - z_2) % p
        BB = B * B % p
        E = (AA - BB) % p
        C = (x_3 + z_3) % p
        D = (x_3 - z_3) % p
        DA = D * A % p
        CB = C * B % p
        x_3 = (DA + CB) ** 2 % p
        z_3 = x_1 * (DA - CB) ** 2 % p
        x_2 = AA * BB % p
        z_2 = E * (AA + a24 * E) % p
    if swap:
        x_2, x_3 = x_3, x_2
        z_2, z_3 = z_3, z_2
    return x_2 * pow(z_2, p - 2, p) % p


def x25519_clamp(k):
    k = bytearray(k)
    k[0] &= 248
    k[31] &= 127
    k[31] |= 64
    return int.from_bytes(k, 'little')


def x448_clamp(k):
    k = bytearray(k)
    k[0] &= 252
    k[55] |= 128
    return int.from_bytes(k, 'little')


def x25519(k, u):
    k, u = bytes(k), bytes(u)
    if len(k) != 32 or len(u) != 32:
        raise ValueError("x25519 needs 32-byte inputs")
    c = CURVES['Curve25519']
    ui = int.from_bytes(u, 'little') & ((1 << 255) - 1)      # mask bit 255
    return _rfc7748(c, x25519_clamp(k), ui % c['p']).to_bytes(32, 'little')


def x448(k, u):
    k, u = bytes(k), bytes(u)
    if len(k) != 56 or len(u) != 56:
        raise ValueError("x448 needs 56-byte inputs")
    c = CURVES['Curve448']
    ui = int.from_bytes(u, 'little')
    return _rfc7748(c, x448_clamp(k), ui % c['p']).to_bytes(56, 'little')


def mont_on_curve(c, u):
    """True when u is the abscissa of an F_p-point of the curve itself,
    False when it belongs to the quadratic twist (u = 0 lies on both)."""
    c = _curve(c)
    p = c['p']
    u %= p
    return _is_square(u * u * u + c['A'] * u * u + u, p)


def mont_twist_order(c):
    """(cofactor, prime) with cofactor*prime = #twist = 2(p+1) - h*L."""
    c = _curve(c)
    t = 2 * (c['p'] + 1) - c['h'] * c['L']
    h2 = 1
    while t % 2 == 0:
        t //= 2
        h2 *= 2
    return h2, t


def _mont_xdbl_affine(c, u):
    """u(2P) from u(P); None for infinity."""
    p, A = c['p'], c['A']
    if u is None:
        return None
    den = 4 * u * (u * u + A * u + 1) % p
    if den == 0:
        return None
    return pow(u * u - 1, 2, p) * _inv(den, p) % p


_MONT_LOW = {}


def mont_low_order_us(c):
    """Canonical u-coordinates of all points of small order (order dividing
    the cofactor) on the curve and on its quadratic twist, sorted."""
    c = _curve(c)
    name = c['name']
    if name in _MONT_LOW:
        return list(_MONT_LOW[name])
    p = c['p']
    th, tL = mont_twist_order(c)
    found = set()
    for on_curve, h, L in ((True, c['h'], c['L']), (False, th, tL)):
        u = 1
        done = False
        while not done:
            u += 1
            if u > 2000:
                raise ArithmeticError("no small-subgroup generator found")
            if mont_on_curve(c, u) != on_curve:
                continue
            X, Z = _ladder_xz(c, L, u)
            if Z == 0:
                continue
            t = X * _inv(Z, p) % p
            X2, Z2 = _ladder_xz(c, h // 2, t)
            if Z2 == 0:
                continue                 # order of T properly divides h
            # t has exact order h in a cyclic group of order h: enumerate
            X2, Z2 = _ladder_xz(c, h, t)
            if Z2 != 0 and t != 0:
                raise ArithmeticError("h*T is not the neutral element")
            for i in range(1, h):
                Xi, Zi = _ladder_xz(c, i, t)
                if Zi == 0:
                    raise ArithmeticError("unexpected neutral element")
                found.add(Xi * _inv(Zi, p) % p)
            done = True
    res = sorted(found)
    # independent check: repeated affine doubling reaches infinity
    for u in res:
        v = u
        steps = 0
        while v is not None:
            v = _mont_xdbl_affine(c, v)
            steps += 1
            if steps > 4:
                raise ArithmeticError("u=%d is not of small order" % u)
    _MONT_LOW[name] = res
    return list(res)


# ---------------------------------------------------------------------------
# E. ECDSA / DSA (FIPS 186-4 sections 4 and 6), RFC 6979
# ---------------------------------------------------------------------------

def bits2int(b, qlen):
    """RFC 6979 2.3.2 == FIPS 186-4 'leftmost min(N, outlen) bits'."""
    b = bytes(b)
    v = int.from_bytes(b, 'big')
    blen = 8 * len(b)
    if blen > qlen:
        v >>= blen - qlen
    return v


def int2octets(x, q):
    """RFC 6979 2.3.3."""
    return x.to_bytes((q.bit_length() + 7) // 8, 'big')


def bits2octets(b, q):
    """RFC 6979 2.3.4."""
    z1 = bits2int(b, q.bit_length())
    z2 = z1 - q if z1 >= q else z1
    return int2octets(z2, q)


def ecdsa_sign(c, d, k, h):
    """(r, s) for private key d, per-message secret k and digest h;
    None when r == 0 or s == 0.  ValueError if d or k is outside [1, n-1]."""
    c = _curve(c)
    n = c['n']
    if not (1 <= d < n and 1 <= k < n):
        raise ValueError("d and k must be in [1, n-1]")
    R = ws_mul(c, k, c['G'])
    r = R[0] % n
    if r == 0:
        return None
    z = bits2int(h, n.bit_length())
    s = pow(k, -1, n) * (z + r * d) % n
    if s == 0:
        return None
    return (r, s)


def ecdsa_verify(c, Q, h, r, s):
    """FIPS 186-4 6.4.2 / SEC 1 4.1.4.  An invalid public key (infinity, off
    curve, out of range) yields False."""
    c = _curve(c)
    n = c['n']
    if Q is None or not ws_on_curve(c, Q):
        return False
    if not (isinstance(r, int) and isinstance(s, int)):
        return False
    if not (1 <= r < n and 1 <= s < n):
        return False
    z = bits2int(h, n.bit_length())
    w = pow(s, -1, n)
    u1 = z * w % n
    u2 = r * w % n
    R = ws_mul2(c, u1, c['G'], u2, Q)
    if R is None:
        return False
    return R[0] % n == r


def dsa_sign(p, q, g, x, k, h):
    """(r, s) or None when r == 0 or s == 0."""
    if not (1 <= x < q and 1 <= k < q):
        raise ValueError("x and k must be in [1, q-1]")
    r = pow(g, k, p) % q
    if r == 0:
        return None
    z = bits2int(h, q.bit_length())
    s = pow(k, -1, q) * (z + x * r) % q
    if s == 0:
        return None
    return (r, s)


def dsa_verify(p, q, g, y, h, r, s):
    """FIPS 186-4 4.7."""
    if not (isinstance(r, int) and isinstance(s, int)):
        return False
    if not (0 < r < q and 0 < s < q):
        return False
    w = pow(s, -1, q)
    z = bits2int(h, q.bit_length())
    u1 = z * w % q
    u2 = r * w % q
    v = pow(g, u1, p) * pow(y, u2, p) % p % q
    return v == r


def _hash_name(name):
    """Map 'SHA-256', 'SHA3-256', 'SHA-512/256', 'SHA-512256' ... to hashlib."""
    s = name.lower().replace('/', '_').replace(' ', '')
    if s.startswith('sha3-') or s.startswith('sha3_'):
        return 'sha3_' + s[5:]
    if s.startswith('sha-'):
        s = 'sha' + s[4:]
    s = s.replace('-', '_')
    if s in ('sha512224', 'sha512256'):
        s = 'sha512_' + s[6:]
    return s


def rfc6979_k_iter(q, x, h1, hashname, include_rejected=False):
    """RFC 6979 3.2: generator of successive nonce candidates.  By default
    only candidates in [1, q-1] are yielded (steps h.3 loops over the rest);
    with include_rejected every bits2int(T) value is yielded."""
    name = _hash_name(hashname)
    hlen = hashlib.new(name).digest_size
    qlen = q.bit_length()
    rlen = (qlen + 7) // 8

    def mac(key, data):
        return hmac.new(key, data, name).digest()

    bx = int2octets(x, q) + bits2octets(h1, q)
    V = b'\x01' * hlen
    K = b'\x00' * hlen
    K = mac(K, V + b'\x00' + bx)
    V = mac(K, V)
    K = mac(K, V + b'\x01' + bx)
    V = mac(K, V)
    while True:
        T = b''
        while len(T) < rlen:
            V = mac(K, V)
            T += V
        k = bits2int(T, qlen)
        if include_rejected or 1 <= k < q:
            yield k
        K = mac(K, V + b'\x00')
        V = mac(K, V)


def rfc6979_k(q, x, h1, hashname):
    """First suitable k in [1, q-1]."""
    return next(rfc6979_k_iter(q, x, h1, hashname))


# ---------------------------------------------------------------------------
# F. EdDSA (RFC 8032)
# ---------------------------------------------------------------------------

def _ed_hash(curve, data):
    if curve == 'Ed25519':
        return hashlib.sha512(data).digest()
    if curve == 'Ed448':
        return hashlib.shake_256(data).digest(114)
    raise ValueError("unknown EdDSA curve %r" % (curve,))


def eddsa_prehash(curve, m):
    """PH(M): SHA-512 for Ed25519ph, SHAKE256(M, 64) for Ed448ph."""
    if curve == 'Ed25519':
        return hashlib.sha512(bytes(m)).digest()
    if curve == 'Ed448':
        return hashlib.shake_256(bytes(m)).digest(64)
    raise ValueError("unknown EdDSA curve %r" % (curve,))


def _ed_dom(curve, ctx, ph):
    if ctx is not None:
        ctx = bytes(ctx)
        if len(ctx) > 255:
            raise ValueError("context longer than 255 octets")
    if curve == 'Ed25519':
        if ctx is None and not ph:
            return b''
        ctx = ctx or b''
        return (b'SigEd25519 no Ed25519 collisions'
                + bytes([1 if ph else 0, len(ctx)]) + ctx)
    if curve == 'Ed448':
        ctx = ctx or b''
        return b'SigEd448' + bytes([1 if ph else 0, len(ctx)]) + ctx
    raise ValueError("unknown EdDSA curve %r" % (curve,))


def eddsa_expand_seed(curve, seed):
    """(secret scalar s, prefix) per RFC 8032 5.1.5 / 5.2.5."""
    c = CURVES[curve]
    seed = bytes(seed)
    n = c['size']
    if len(seed) != n:
        raise ValueError("seed must be %d bytes" % n)
    h = _ed_hash(curve, seed)
    sb = bytearray(h[:n])
    if curve == 'Ed25519':
        sb[0] &= 248
        sb[31] &= 127
        sb[31] |= 64
    else:
        sb[0] &= 252
        sb[56] = 0
        sb[55] |= 128
    return int.from_bytes(sb, 'little'), h[n:2 * n]


def eddsa_pubkey(curve, seed):
    c = CURVES[curve]
    s, _ = eddsa_expand_seed(curve, seed)
    return ed_encode(c, ed_mul(c, s, c['G']))


def eddsa_sign(curve, seed, msg, ctx=None, ph=False):
    """RFC 8032 5.1.6 / 5.2.6.  With ph=True, msg is PH(M) (eddsa_prehash)."""
    c = CURVES[curve]
    L = c['L']
    n = c['size']
    msg = bytes(msg)
    dom = _ed_dom(curve, ctx, ph)
    s, prefix = eddsa_expand_seed(curve, seed)
    A = ed_encode(c, ed_mul(c, s, c['G']))
    r = int.from_bytes(_ed_hash(curve, dom + prefix + msg), 'little') % L
    R = ed_encode(c, ed_mul(c, r, c['G']))
    k = int.from_bytes(_ed_hash(curve, dom + R + A + msg), 'little') % L
    S = (r + k * s) % L
    return R + S.to_bytes(n, 'little')


def eddsa_verify(curve, pk, msg, sig, ctx=None, ph=False):
    """RFC 8032 5.1.7 / 5.2.7 with strict decoding, S < L and the cofactored
    group equation [h][S]B == [h]R + [h][k]A."""
    c = CURVES[curve]
    L, h, n = c['L'], c['h'], c['size']
    try:
        pk, sig, msg = bytes(pk), bytes(sig), bytes(msg)
    except TypeError:
        return False
    if len(pk) != n or len(sig) != 2 * n:
        return False
    A = ed_decode(c, pk)
    if A is None:
        return False
    R = ed_decode(c, sig[:n])
    if R is None:
        return False
    S = int.from_bytes(sig[n:], 'little')
    if S >= L:
        return False
    dom = _ed_dom(curve, ctx, ph)
    k = int.from_bytes(_ed_hash(curve, dom + sig[:n] + pk + msg), 'little')
    lhs = ed_mul(c, h, ed_mul(c, S, c['G']))
    # the order of A divides h*L, so k may be reduced modulo h*L exactly
    rhs = ed_mul(c, h, ed_add(c, R, ed_mul(c, k % (h * L), A)))
    return lhs == rhs


# ---------------------------------------------------------------------------
# A (cont.). mathematical verification of every constant
# ---------------------------------------------------------------------------

def _check(cond, msg):
    if not cond:
        raise AssertionError("refs.ec parameter check failed: " + msg)


def _verify_params():
    """Verifies primes, generators, orders, Hasse bound, completeness
    preconditions and the RFC 7748 maps between the 25519/448 curve pairs.
    Returns the number of individual checks performed."""
    cnt = 0
    for name in ('P-192', 'P-224', 'P-256', 'P-384', 'P-521'):
        c = CURVES[name]
        p, n = c['p'], c['n']
        _check(is_probable_prime(p), name + ": p not prime")
        _check(is_probable_prime(n), name + ": n not prime")
        _check(c['a'] == p - 3, name + ": a != -3")
        _check(p.bit_length() == int(name[2:]), name + ": bit length")
        _check((4 * c['a']**3 + 27 * c['b']**2) % p != 0, name + ": singular")
        _check(ws_on_curve(c, c['G']), name + ": G not on curve")
        _check(ws_mul(c, n, c['G']) is None, name + ": n*G != O")
        _check(ws_mul(c, n - 1, c['G']) == ws_neg(c, c['G']),
               name + ": (n-1)*G != -G")
        _check((n * c['h'] - p - 1)**2 <= 4 * p, name + ": Hasse bound")
        cnt += 9
    for name, mname in (('Ed25519', 'Curve25519'), ('Ed448', 'Curve448')):
        c = CURVES[name]
        m = CURVES[mname]
        p, L, h = c['p'], c['L'], c['h']
        _check(is_probable_prime(p), name + ": p not prime")
        _check(is_probable_prime(L), name + ": L not prime")
        _check(_is_square(c['a'], p), name + ": a not a square")
        _check(not _is_square(c['d'], p), name + ": d is a square")
        _check(ed_on_curve(c, c['G']), name + ": G not on curve")
        _check(ed_mul(c, L, c['G']) == (0, 1), name + ": L*G != neutral")
        _check(c['G'] != (0, 1), name + ": G is neutral")
        _check((h * L - p - 1)**2 <= 4 * p, name + ": Hasse bound")
        _check(m['p'] == p and m['L'] == L and m['h'] == h,
               mname + ": p/L/h differ from " + name)
        _check(4 * m['a24'] + 2 == m['A'], mname + ": a24 != (A-2)/4")
        _check((m['A']**2 - 4) % p != 0, mname + ": singular")
        X, Z = _ladder_xz(m, L, m['Gu'])
        _check(Z == 0, mname + ": L*G != O")
        _check(mont_on_curve(m, m['Gu']), mname + ": Gu not on curve")
        th, tL = mont_twist_order(m)
        _check(is_probable_prime(tL), mname + ": twist order/%d not prime" % th)
        cnt += 14
    # Ed25519: d = -121665/121666, B = (x, 4/5) with x even (RFC 8032 5.1)
    c = CURVES['Ed25519']
    p = c['p']
    _check(c['d'] * 121666 % p == p - 121665, "Ed25519: d")
    _check(c['Gy'] * 5 % p == 4, "Ed25519: Gy != 4/5")
    _check(c['Gx'] % 2 == 0, "Ed25519: Gx not even")
    _check(c['d'] == 37095705934669439343138083508754565189542113879843219016388785533085940283555,
           "Ed25519: d decimal")
    # birational map (RFC 7748 4.1): u = (1+y)/(1-y)
    _check((1 + c['Gy']) * _inv(1 - c['Gy'], p) % p == 9, "Ed25519 G -> u=9")
    # edwards448 -> curve448 4-isogeny (RFC 7748 4.2): u = y^2/x^2
    c = CURVES['Ed448']
    p = c['p']
    _check(pow(c['Gy'], 2, p) * _inv(pow(c['Gx'], 2, p), p) % p == 5,
           "Ed448 G -> u=5")
    _check(c['d'] == p - 39081 and c['a'] == 1, "Ed448: a, d")
    cnt += 7
    return cnt


_PARAM_CHECKS = _verify_params()


# ---------------------------------------------------------------------------
# G. self test
# ---------------------------------------------------------------------------

_VEC_DIR = '/repo/test_vectors/pycryptodome_test_vectors'
_ST_DIR = '/repo/lib/Crypto/SelfTest'      # parsed as text only, never imported

_WY_CURVES = {'secp224r1': 'P-224', 'secp256r1': 'P-256',
              'secp384r1': 'P-384', 'secp521r1': 'P-521',
              'secp192r1': 'P-192', 'prime192v1': 'P-192'}


def _eq(got, exp, what):
    if got != exp:
        raise AssertionError("refs.ec selftest: %s: got %r expected %r"
                             % (what, got, exp))


def _ok(cond, what):
    if not cond:
        raise AssertionError("refs.ec selftest: " + what)


def _H(s):
    return bytes.fromhex(''.join(s.split()))


def _I(s):
    return int(''.join(s.split()), 16)


# RFC 6979 A.2.5 (P-256), A.2.1 (DSA 1024) and the A.1 worked example.
_RFC6979_P256_X = 0xC9AFA9D845BA75166B5C215767B1D6934E50C3DB36E89B127B8A622B120F6721
_RFC6979_P256 = (
    ('sha256', b'sample',
     'A6E3C57DD01ABE90086538398355DD4C3B17AA873382B0F24D6129493D8AAD60',
     'EFD48B2AACB6A8FD1140DD9CD45E81D69D2C877B56AAF991C34D0EA84EAF3716',
     'F7CB1C942D657C41D436C7A1B6E29F65F3E900DBB9AFF4064DC4AB2F843ACDA8'),
    ('sha256', b'test',
     'D16B6AE827F17175E040871A1C7EC3500192C4C92677336EC2537ACAEE0008E0',
     'F1ABB023518351CD71D881567B1EA663ED3EFCF6C5132B354F28D3B0B7D38367',
     '019F4113742A2B14BD25926B49C649155F267E60D3814B4C0CC84250E46F0083'),
)
_RFC6979_DSA1024 = dict(
    p=_I("""86F5CA03DCFEB225063FF830A0C769B9DD9D6153AD91D7CE27F787C43278B447
            E6533B86B18BED6E8A48B784A14C252C5BE0DBF60B86D6385BD2F12FB763ED88
            73ABFD3F5BA2E0A8C0A59082EAC056935E529DAF7C610467899C77ADEDFC846C
            881870B7B19B2B58F9BE0521A17002E3BDD6B86685EE90B3D9A1B02B782B1779"""),
    q=_I("996F967F6C8E388D9E28D01E205FBA957A5698B1"),
    g=_I("""07B0F92546150B62514BB771E2A0C0CE387F03BDA6C56B505209FF25FD3C133D
            89BBCD97E904E09114D9A7DEFDEADFC9078EA544D2E401AEECC40BB9FBBF78FD
            87995A10A1C27CB7789B594BA7EFB5C4326A9FE59A070E136DB77175464ADCA4
            17BE5DCE2F40D10A46A3A3943F26AB7FD9C0398FF8C76EE0A56826A8A88F1DBD"""),
    x=_I("411602CB19A6CCC34494D79D98EF1E7ED5AF25F7"),
    y=_I("""5DF5E01DED31D0297E274E1691C192FE5868FEF9E19A84776454B100CF16F653
            92195A38B90523E2542EE61871C0440CB87C322FC4B4D2EC5E1E7EC766E1BE8D
            4CE935437DC11C3C8FD426338933EBFE739CB3465F4D3668C5E473508253B1E6
            82F65CBDC4FAE93C2EA212390E54905A86E2223170B44EAA7DA5DD9FFCFB7F3B"""),
    sigs=(
        ('sha1', b'sample', '7BDB6B0FF756E1BB5D53583EF979082F9AD5BD5B',
         '2E1A0C2562B2912CAAF89186FB0F42001585DA55',
         '29EFB6B0AFF2D7A68EB70CA313022253B9A88DF5'),
        ('sha256', b'sample', '519BA0546D0C39202A7D34D7DFA5E760B318BCFB',
         '81F2F5850BE5BC123C43F71A3033E9384611C545',
         '4CDD914B65EB6C66A8AAAD27299BEE6B035F5E89'),
        ('sha1', b'test', '5C842DF4F9E344EE09F056838B42C7A17F4A6433',
         '42AB2052FD43E123F0607F115052A67DCD9C5C77',
         '183916B0230D45B9931491D4C6B0BD2FB4AAF088'),
    ))

# RFC 8032 section 7 (short messages only; the long ones are read from the
# SelfTest data file when it is available).
# (curve, seed, pk, msg, ph, ctx-or-None, sig)
_RFC8032 = (
    ('Ed25519',
     '9d61b19deffd5a60ba844af492ec2cc44449c5697b326919703bac031cae7f60',
     'd75a980182b10ab7d54bfed3c964073a0ee172f3daa62325af021a68f707511a',
     '', False, None,
     'e5564300c360ac729086e2cc806e828a84877f1eb8e5d974d873e06522490155'
     '5fb8821590a33bacc61e39701cf9b46bd25bf5f0595bbe24655141438e7a100b'),
    ('Ed25519',
     '4ccd089b28ff96da9db6c346ec114e0f5b8a319f35aba624da8cf6ed4fb8a6fb',
     '3d4017c3e843895a92b70aa74d1b7ebc9c982ccf2ec4968cc0cd55f12af4660c',
     '72', False, None,
     '92a009a9f0d4cab8720e820b5f642540a2b27b5416503f8fb3762223ebdb69da'
     '085ac1e43e15996e458f3613d0f11d8c387b2eaeb4302aeeb00d291612bb0c00'),
    ('Ed25519',
     'c5aa8df43f9f837bedb7442f31dcb7b166d38535076f094b85ce3a2e0b4458f7',
     'fc51cd8e6218a1a38da47ed00230f0580816ed13ba3303ac5deb911548908025',
     'af82', False, None,
     '6291d657deec24024827e69c3abe01a30ce548a284743a445e3680d7db5ac3ac'
     '18ff9b538d16f290ae67f760984dc6594a7c15e9716ed28dc027beceea1ec40a'),
    ('Ed25519',
     '0305334e381af78f141cb666f6199f57bc3495335a256a95bd2a55bf546663f6',
     'dfc9425e4f968f7f0c29f0259cf5f9aed6851c2bb4ad8bfb860cfee0ab248292',
     'f726936d19c800494e3fdaff20b276a8', False, '666f6f',
     '55a4cc2f70a54e04288c5f4cd1e45a7bb520b36292911876cada7323198dd87a'
     '8b36950b95130022907a7fb7c4e9b2d5f6cca685a587b4b21f4b888e4e7edb0d'),
    ('Ed25519',
     '0305334e381af78f141cb666f6199f57bc3495335a256a95bd2a55bf546663f6',
     'dfc9425e4f968f7f0c29f0259cf5f9aed6851c2bb4ad8bfb860cfee0ab248292',
     'f726936d19c800494e3fdaff20b276a8', False, '626172',
     'fc60d5872fc46b3aa69f8b5b4351d5808f92bcc044606db097abab6dbcb1aee3'
     '216c48e8b3b66431b5b186d1d28f8ee15a5ca2df6668346291c2043d4eb3e90d'),
    ('Ed25519',
     '833fe62409237b9d62ec77587520911e9a759cec1d19755b7da901b96dca3d42',
     'ec172b93ad5e563bf4932c70e1245034c35467ef2efd4d64ebf819683467e2bf',
     '616263', True, None,
     '98a70222f0b8121aa9d30f813d683f809e462b469c7ff87639499bb94e6dae41'
     '31f85042463c2a355a2003d062adf5aaa10b8c61e636062aaad11c2a26083406'),
    ('Ed448',
     '6c82a562cb808d10d632be89c8513ebf6c929f34ddfa8c9f63c9960ef6e348a3'
     '528c8a3fcc2f044e39a3fc5b94492f8f032e7549a20098f95b',
     '5fd7449b59b461fd2ce787ec616ad46a1da1342485a70e1f8a0ea75d80e96778'
     'edf124769b46c7061bd6783df1e50f6cd1fa1abeafe8256180',
     '', False, None,
     '533a37f6bbe457251f023c0d88f976ae2dfb504a843e34d2074fd823d41a591f'
     '2b233f034f628281f2fd7a22ddd47d7828c59bd0a21bfd3980ff0d2028d4b18a'
     '9df63e006c5d1c2d345b925d8dc00b4104852db99ac5c7cdda8530a113a0f4db'
     'b61149f05a7363268c71d95808ff2e652600'),
    ('Ed448',
     'c4eab05d357007c632f3dbb48489924d552b08fe0c353a0d4a1f00acda2c463a'
     'fbea67c5e8d2877c5e3bc397a659949ef8021e954e0a12274e',
     '43ba28f430cdff456ae531545f7ecd0ac834a55d9358c0372bfa0c6c6798c086'
     '6aea01eb00742802b8438ea4cb82169c235160627b4c3a9480',
     '03', False, None,
     '26b8f91727bd62897af15e41eb43c377efb9c610d48f2335cb0bd0087810f435'
     '2541b143c4b981b7e18f62de8ccdf633fc1bf037ab7cd779805e0dbcc0aae1cb'
     'cee1afb2e027df36bc04dcecbf154336c19f0af7e0a6472905e799f1953d2a0f'
     'f3348ab21aa4adafd1d234441cf807c03a00'),
    ('Ed448',
     'c4eab05d357007c632f3dbb48489924d552b08fe0c353a0d4a1f00acda2c463a'
     'fbea67c5e8d2877c5e3bc397a659949ef8021e954e0a12274e',
     '43ba28f430cdff456ae531545f7ecd0ac834a55d9358c0372bfa0c6c6798c086'
     '6aea01eb00742802b8438ea4cb82169c235160627b4c3a9480',
     '03', False, '666f6f',
     'd4f8f6131770dd46f40867d6fd5d5055de43541f8c5e35abbcd001b32a89f7d2'
     '151f7647f11d8ca2ae279fb842d607217fce6e042f6815ea000c85741de5c8da'
     '1144a6a1aba7f96de42505d7a7298524fda538fccbbb754f578c1cad10d54d0d'
     '5428407e85dcbc98a49155c13764e66c3c00'),
    ('Ed448',
     '833fe62409237b9d62ec77587520911e9a759cec1d19755b7da901b96dca3d42'
     'ef7822e0d5104127dc05d6dbefde69e3ab2cec7c867c6e2c49',
     '259b71c19f83ef77a7abd26524cbdb3161b590a48f7d17de3ee0ba9c52beb743'
     'c09428a131d6b1b57303d90d8132c276d5ed3d5d01c0f53880',
     '616263', True, None,
     '822f6901f7480f3d5f562c592994d9693602875614483256505600bbc281ae38'
     '1f54d6bce2ea911574932f52a4e6cadd78769375ec3ffd1b801a0d9b3f4030cd'
     '433964b6457ea39476511214f97469b57dd32dbc560a9a94d00bff07620464a3'
     'ad203df7dc7ce360c3cd3696d9d9fab90f00'),
    ('Ed448',
     '833fe62409237b9d62ec77587520911e9a759cec1d19755b7da901b96dca3d42'
     'ef7822e0d5104127dc05d6dbefde69e3ab2cec7c867c6e2c49',
     '259b71c19f83ef77a7abd26524cbdb3161b590a48f7d17de3ee0ba9c52beb743'
     'c09428a131d6b1b57303d90d8132c276d5ed3d5d01c0f53880',
     '616263', True, '666f6f',
     'c32299d46ec8ff02b54540982814dce9a05812f81962b649d528095916a2aa48'
     '1065b1580423ef927ecf0af5888f90da0f6a9a85ad5dc3f280d91224ba9911a3'
     '653d00e484e2ce232521481c8658df304bb7745a73514cdb9bf3e15784ab7128'
     '4f8d0704a608c54a6b62d97beb511d132100'),
)

# RFC 7748 5.2 (scalar, u, result), iteration values, and section 6 DH.
_RFC7748_X25519 = (
    ('a546e36bf0527c9d3b16154b82465edd62144c0ac1fc5a18506a2244ba449ac4',
     'e6db6867583030db3594c1a424b15f7c726624ec26b3353b10a903a6d0ab1c4c',
     'c3da55379de9c6908e94ea4df28d084f32eccf03491c71f754b4075577a28552'),
    ('4b66e9d4d1b4673c5ad22691957d6af5c11b6421e0ea01d42ca4169e7918ba0d',
     'e5210f12786811d3f4b7959d0538ae2c31dbe7106fc03c3efc4cd549c715a493',
     '95cbde9476e8907d7aade45cb4b873f88b595a68799fa152e6f8f7647aac7957'),
)
_RFC7748_X25519_ITER = (
    '422c8e7a6227d7bca1350b3e2bb7279f7897b87bb6854b783c60e80311ae3079',
    '684cf59ba83309552800ef566f2f4d3c1c3887c49360e3875f2eb94d99532c51')
_RFC7748_X25519_DH = (
    '77076d0a7318a57d3c16c17251b26645df4c2f87ebc0992ab177fba51db92c2a',
    '8520f0098930a754748b7ddcb43ef75a0dbf3a0d26381af4eba4a98eaa9b4e6a',
    '5dab087e624a8a4b79e17f8b83800ee66f3bb1292618b6fd1c2f8b27ff88e0eb',
    'de9edb7d7b7dc1b4d35b61c2ece435373f8343c85b78674dadfc7e146f882b4f',
    '4a5d9d5ba4ce2de1728e3bf480350f25e07e21c947d19e3376f09b3c1e161742')
_RFC7748_X448 = (
    ('3d262fddf9ec8e88495266fea19a34d28882acef045104d0d1aae121700a779c984c24f8cdd78fbff44943eba368f54b29259a4f1c600ad3',
     '06fce640fa3487bfda5f6cf2d5263f8aad88334cbd07437f020f08f9814dc031ddbdc38c19c6da2583fa5429db94ada18aa7a7fb4ef8a086',
     'ce3e4ff95a60dc6697da1db1d85e6afbdf79b50a2412d7546d5f239fe14fbaadeb445fc66a01b0779d98223961111e21766282f73dd96b6f'),
    ('203d494428b8399352665ddca42f9de8fef600908e0d461cb021f8c538345dd77c3e4806e25f46d3315c44e0a5b4371282dd2c8d5be3095f',
     '0fbcc2f993cd56d3305b0b7d9e55d4c1a8fb5dbb52f8e9a1e9b6201b165d015894e56c4d3570bee52fe205e28a78b91cdfbde71ce8d157db',
     '884a02576239ff7a2f2f63b2db6a9ff37047ac13568e1e30fe63c4a7ad1b3ee3a5700df34321d62077e63633c575c1c954514e99da7c179d'),
)
_RFC7748_X448_ITER = (
    '3f482c8a9f19b01e6c46ee9711d9dc14fd4bf67af30765c2ae2b846a4d23a8cd0db897086239492caf350b51f833868b9bc2b3bca9cf4113',
    'aa3b4749d55b9daf1e5b00288826c467274ce3ebbdd5c17b975e09d4af6c67cf10d087202db88286e2b79fceea3ec353ef54faa26e219f38')
_RFC7748_X448_DH = (
    '9a8f4925d1519f5775cf46b04b5800d4ee9ee8bae8bc5565d498c28dd9c9baf574a9419744897391006382a6f127ab1d9ac2d8c0a598726b',
    '9b08f7cc31b7e3e67d22d5aea121074a273bd2b83de09c63faa73d2c22c5d9bbc836647241d953d40c5b12da88120d53177f80e532c41fa0',
    '1c306a7ac2a0e2e0990b294470cba339e6453772b075811d8fad0d1d6927c120bb5ee8972b0d3e21374c9c921b09d1b0366f10b65173992d',
    '3eb7a829b0cd20f5bcfc0b599b6feccf6da4627107bdb0d4f345b43027d8b972fc3e34fb4232a13ca706dcb57aec3dae07bdc1c67bf33609',
    '07fff4181ac6cc95ec1c16a94a0f74d12da232ce40a77552281d282bb60c0b56fd2464c335543936521c24403085d59a449a5037514a879d')


def _der_two_ints(data):
    """Strict DER 'SEQUENCE { INTEGER, INTEGER }' -> (r, s), or None when the
    encoding is not the canonical one."""
    def rd_len(buf, i):
        if i >= len(buf):
            return None
        b = buf[i]
        i += 1
        if b < 0x80:
            return b, i
        nb = b & 0x7f
        if nb == 0 or nb > 4 or i + nb > len(buf):
            return None
        ln = int.from_bytes(buf[i:i + nb], 'big')
        if buf[i] == 0 or ln < 0x80:
            return None
        return ln, i + nb

    def rd_int(buf, i):
        if i >= len(buf) or buf[i] != 0x02:
            return None
        r = rd_len(buf, i + 1)
        if r is None:
            return None
        ln, i = r
        if ln == 0 or i + ln > len(buf):
            return None
        body = buf[i:i + ln]
        if ln > 1 and ((body[0] == 0 and body[1] < 0x80) or
                       (body[0] == 0xff and body[1] >= 0x80)):
            return None
        return int.from_bytes(body, 'big', signed=True), i + ln

    if len(data) < 2 or data[0] != 0x30:
        return None
    r = rd_len(data, 1)
    if r is None:
        return None
    ln, i = r
    if i + ln != len(data):
        return None
    a = rd_int(data, i)
    if a is None:
        return None
    b = rd_int(data, a[1])
    if b is None or b[1] != len(data):
        return None
    return a[0], b[0]


def _parse_rsp(path):
    """NIST CAVS .rsp/.txt: yields (section_header, {field: str}) records."""
    section = None
    rec = {}
    common = {}
    with open(path) as f:
        for line in f:
            line = line.strip()
            if not line or line.startswith('#'):
                if rec and ('Msg' in rec or 'COUNT' in rec) and len(rec) > 1:
                    yield section, dict(common, **rec)
                    rec = {}
                continue
            if line.startswith('['):
                if rec and len(rec) > 1:
                    yield section, dict(common, **rec)
                section = line.strip('[]')
                rec = {}
                common = {}
                continue
            if '=' in line:
                k, v = line.split('=', 1)
                k, v = k.strip(), v.strip()
                if k in ('P', 'Q', 'G') and 'Msg' not in rec:
                    common[k] = v
                else:
                    rec[k] = v
    if rec and len(rec) > 1:
        yield section, dict(common, **rec)


def _hexint(s):
    return int(s, 16)


def _hexbytes(s):
    if len(s) % 2:
        s = '0' + s
    return bytes.fromhex(s)


def _st_arith(counts):
    """Internal consistency of the three arithmetics (deterministic PRNG)."""
    import random
    rnd = random.Random(0xEC)
    n_ws = 0
    for name in ('P-192', 'P-224', 'P-256', 'P-384', 'P-521'):
        c = CURVES[name]
        n, G = c['n'], c['G']
        for k in list(range(0, 6)) + [n - 2, n - 1, n, n + 1, 2 * n + 3] + \
                [rnd.randrange(1, n) for _ in range(4)]:
            _eq(ws_mul(c, k, G), ws_mul_affine(c, k, G), name + " ws_mul k=%d" % k)
            n_ws += 1
        for _ in range(6):
            a, b = rnd.randrange(n), rnd.randrange(n)
            A, B = ws_mul(c, a, G), ws_mul(c, b, G)
            _ok(ws_on_curve(c, A), name + " aG off curve")
            _eq(ws_add(c, A, B), ws_mul(c, a + b, G), name + " aG+bG")
            _eq(ws_add(c, A, ws_neg(c, A)), None, name + " A-A")
            _eq(ws_add(c, A, A), ws_double(c, A), name + " A+A")
            _eq(ws_mul(c, b, A), ws_mul(c, a, B), name + " DH")
            k2 = rnd.randrange(n)
            _eq(ws_mul2(c, a, G, k2, B),
                ws_add(c, ws_mul(c, a, G), ws_mul(c, k2, B)), name + " ws_mul2")
            for comp in (False, True):
                _eq(sec1_decode(c, sec1_encode(c, A, comp)), A, name + " sec1")
            _eq(ws_decompress(c, A[0], A[1] & 1), A, name + " decompress")
            bad = (A[0], (A[1] + 1) % c['p'])
            try:
                sec1_decode(c, sec1_encode(c, bad))
            except ValueError:
                pass
            else:
                raise AssertionError(name + ": off-curve point accepted")
            n_ws += 8
        _eq(ws_mul2(c, 5, G, n - 5, G), None, name + " ws_mul2 cancel")
        _eq(sec1_decode(c, b'\x00'), None, name + " sec1 infinity")
        for bad in (b'', b'\x04', b'\x02' + b'\xff' * c['size'],
                    b'\x06' + sec1_encode(c, G)[1:],
                    sec1_encode(c, G) + b'\x00'):
            try:
                sec1_decode(c, bad)
            except ValueError:
                n_ws += 1
            else:
                raise AssertionError(name + ": malformed SEC1 accepted")
    counts['ws_arith'] = n_ws

    n_ed = 0
    for name in ('Ed25519', 'Ed448'):
        c = CURVES[name]
        L, G, p, h = c['L'], c['G'], c['p'], c['h']
        small = ed_small_order_points(c)
        _eq(len(small), h, name + " small-order count")
        for T in small:
            _ok(ed_on_curve(c, T), name + " small point off curve")
            _eq(ed_mul(c, h, T), (0, 1), name + " h*T")
            _eq(ed_decode(c, ed_encode(c, T)), T, name + " small enc/dec")
        for k in list(range(0, 5)) + [L - 1, L, L + 1] + \
                [rnd.randrange(1, L) for _ in range(3)]:
            _eq(ed_mul(c, k, G), ed_mul_affine(c, k, G), name + " ed_mul")
            n_ed += 1
        for _ in range(6):
            a, b = rnd.randrange(L), rnd.randrange(L)
            A, B = ed_mul(c, a, G), ed_mul(c, b, G)
            T = small[rnd.randrange(h)]
            AT = ed_add(c, A, T)
            _ok(ed_on_curve(c, AT), name + " A+T off curve")
            _eq(ed_add(c, A, B), ed_mul(c, a + b, G), name + " aG+bG")
            _eq(ed_add(c, A, ed_neg(c, A)), (0, 1), name + " A-A")
            _eq(ed_mul(c, h * L, AT), (0, 1), name + " hL(A+T)")
            _eq(ed_mul(c, L, AT), ed_mul(c, L, T), name + " L(A+T)")
            _eq(ed_decode(c, ed_encode(c, AT)), AT, name + " enc/dec")
            n_ed += 5
        # strict decoding failures
        n = c['size']
        top = 1 << (8 * n - 1)
        _eq(ed_decode(c, (1 | top).to_bytes(n, 'little')), None, name + " x=0 sign=1")
        _eq(ed_decode(c, (p - 1 | top).to_bytes(n, 'little')), None, name + " x=0,y=-1 sign=1")
        _eq(ed_decode(c, (p + 1).to_bytes(n, 'little')), None, name + " y=p+1")
        _eq(ed_decode(c, p.to_bytes(n, 'little')), None, name + " y=p")
        _eq(ed_decode(c, b'\x00' * (n - 1)), None, name + " short")
        nonsq = next(y for y in range(2, 50)
                     if ed_decode(c, y.to_bytes(n, 'little')) is None)
        _ok(nonsq is not None, name + " no non-decodable y found")
        n_ed += 6
    counts['ed_arith'] = n_ed

    n_m = 0
    for name, fn, clamp in (('Curve25519', x25519, x25519_clamp),
                            ('Curve448', x448, x448_clamp)):
        c = CURVES[name]
        p, L, h, sz = c['p'], c['L'], c['h'], c['size']
        lows = mont_low_order_us(c)
        _eq(len(lows), 5 if h == 8 else 3, name + " low-order count")
        _ok(0 in lows and 1 in lows and p - 1 in lows, name + " 0,1,-1 low order")
        for u in lows:
            for _ in range(3):
                k = rnd.randbytes(sz)
                _eq(fn(k, u.to_bytes(sz, 'little')), bytes(sz), name + " low-order u")
                if u + p < 1 << c['bits']:
                    _eq(fn(k, (u + p).to_bytes(sz, 'little')), bytes(sz),
                        name + " low-order u+p")
                n_m += 1
        for _ in range(6):
            k = rnd.randbytes(sz)
            u = rnd.randbytes(sz)
            ui = int.from_bytes(u, 'little')
            if name == 'Curve25519':
                ui &= (1 << 255) - 1
            _eq(int.from_bytes(fn(k, u), 'little'), mont_ladder(c, clamp(k), ui),
                name + " RFC ladder vs generic ladder")
            a, b = rnd.randrange(1, L), rnd.randrange(1, L)
            _eq(mont_ladder(c, a, mont_ladder(c, b, c['Gu'])),
                mont_ladder(c, a * b % L, c['Gu']), name + " ladder composition")
            n_m += 2
        _eq(mont_ladder(c, L, c['Gu']), 0, name + " L*G")
        _eq(mont_ladder(c, 0, c['Gu']), 0, name + " 0*G")
        _eq(mont_ladder(c, 1, c['Gu']), c['Gu'], name + " 1*G")
        _eq(mont_ladder(c, L + 1, c['Gu']), c['Gu'], name + " (L+1)*G")
        n_m += 4
    # Edwards <-> Montgomery consistency (RFC 7748 4.1 / 4.2 maps)
    for _ in range(4):
        k = rnd.randrange(1, _L25519)
        x, y = ed_mul('Ed25519', k, CURVES['Ed25519']['G'])
        _eq((1 + y) * _inv(1 - y, _p25519) % _p25519,
            mont_ladder('Curve25519', k, 9), "Ed25519/Curve25519 map")
        k = rnd.randrange(1, _L448)
        x, y = ed_mul('Ed448', k, CURVES['Ed448']['G'])
        _eq(y * y * _inv(x * x, _p448) % _p448,
            mont_ladder('Curve448', k, 5), "Ed448/Curve448 isogeny")
        n_m += 2
    counts['mont_arith'] = n_m


def _st_rfc_vectors(counts):
    """Embedded RFC 6979 / 8032 / 7748 vectors."""
    n = 0
    # RFC 6979 A.1.2 / A.1.3 worked example (q of sect163k1, k only)
    q = 0x4000000000000000000020108A2E0CC0D99F8A5EF
    x = 0x09A4D6792295A7F730FC3F2B49CBC0F62E862272F
    h1 = hashlib.sha256(b'sample').digest()
    _eq(int2octets(x, q).hex(), '009a4d6792295a7f730fc3f2b49cbc0f62e862272f', "int2octets")
    _eq(bits2octets(h1, q).hex(), '01795edf0d54db760f156d0dac04c0322b3a204224', "bits2octets")
    _eq(rfc6979_k(q, x, h1, 'SHA-256'), 0x23AF4074C90A02B3FE61D286D5C87F425E6BDD81B, "RFC6979 A.1 k")
    n += 3
    c = CURVES['P-256']
    d = _RFC6979_P256_X
    Q = ws_mul(c, d, c['G'])
    _eq(Q, (0x60FED4BA255A9D31C961EB74C6356D68C049B8923B61FA6CE669622E60F29FB6,
            0x7903FE1008B8BC99A41AE9E95628BC64F2F1B20C2D7E9F5177A3C294D4462299),
        "RFC6979 A.2.5 public key")
    for hn, msg, k, r, s in _RFC6979_P256:
        h = hashlib.new(hn, msg).digest()
        kk = rfc6979_k(c['n'], d, h, hn)
        _eq(kk, _I(k), "RFC6979 P-256 k")
        _eq(ecdsa_sign(c, d, kk, h), (_I(r), _I(s)), "RFC6979 P-256 sig")
        _ok(ecdsa_verify(c, Q, h, _I(r), _I(s)), "RFC6979 P-256 verify")
        _ok(not ecdsa_verify(c, Q, h, _I(r), _I(s) ^ 1), "RFC6979 P-256 neg")
        n += 4
    D = _RFC6979_DSA1024
    _eq(pow(D['g'], D['x'], D['p']), D['y'], "RFC6979 DSA y")
    for hn, msg, k, r, s in D['sigs']:
        h = hashlib.new(hn, msg).digest()
        kk = rfc6979_k(D['q'], D['x'], h, hn)
        _eq(kk, _I(k), "RFC6979 DSA k")
        _eq(dsa_sign(D['p'], D['q'], D['g'], D['x'], kk, h), (_I(r), _I(s)), "RFC6979 DSA sig")
        _ok(dsa_verify(D['p'], D['q'], D['g'], D['y'], h, _I(r), _I(s)), "RFC6979 DSA verify")
        _ok(not dsa_verify(D['p'], D['q'], D['g'], D['y'], h, _I(r) ^ 1, _I(s)), "RFC6979 DSA neg")
        n += 4
    counts['rfc6979_embedded'] = n

    n = 0
    for curve, seed, pk, msg, ph, ctx, sig in _RFC8032:
        seed, pk, msg, sig = _H(seed), _H(pk), _H(msg), _H(sig)
        ctx = None if ctx is None else _H(ctx)
        m = eddsa_prehash(curve, msg) if ph else msg
        _eq(eddsa_pubkey(curve, seed), pk, "RFC8032 pubkey")
        _eq(eddsa_sign(curve, seed, m, ctx, ph), sig, "RFC8032 sign")
        _ok(eddsa_verify(curve, pk, m, sig, ctx, ph), "RFC8032 verify")
        _ok(not eddsa_verify(curve, pk, m + b'x', sig, ctx, ph), "RFC8032 neg msg")
        _ok(not eddsa_verify(curve, pk, m, sig, b'other', ph), "RFC8032 neg ctx")
        _ok(not eddsa_verify(curve, pk, m, sig, ctx, not ph), "RFC8032 neg ph")
        # S + L must be rejected, S itself accepted
        L, sz = CURVES[curve]['L'], CURVES[curve]['size']
        S = int.from_bytes(sig[sz:], 'little')
        if S + L < 1 << (8 * sz):
            bad = sig[:sz] + (S + L).to_bytes(sz, 'little')
            _ok(not eddsa_verify(curve, pk, m, bad, ctx, ph), "RFC8032 S+L accepted")
        n += 7
    # S == L with identity key and R (the non-canonical-S corner)
    for curve in ('Ed25519', 'Ed448'):
        c = CURVES[curve]
        ident = ed_encode(c, (0, 1))
        _ok(eddsa_verify(curve, ident, b'm', ident + bytes(c['size'])), curve + " identity S=0")
        _ok(not eddsa_verify(curve, ident, b'm', ident + c['L'].to_bytes(c['size'], 'little')),
            curve + " identity S=L accepted")
        _ok(not eddsa_verify(curve, ident[:-1], b'm', ident + bytes(c['size'])), curve + " short pk")
        _ok(not eddsa_verify(curve, ident, b'm', ident + bytes(c['size'] - 1)), curve + " short sig")
        n += 4
    counts['rfc8032_embedded'] = n

    n = 0
    for fn, vecs, it, dh, sz, gu in (
            (x25519, _RFC7748_X25519, _RFC7748_X25519_ITER, _RFC7748_X25519_DH, 32, 9),
            (x448, _RFC7748_X448, _RFC7748_X448_ITER, _RFC7748_X448_DH, 56, 5)):
        for k, u, r in vecs:
            _eq(fn(_H(k), _H(u)).hex(), r, "RFC7748 5.2 vector")
            n += 1
        k = u = gu.to_bytes(sz, 'little')
        for i in range(1000):
            k, u = fn(k, u), k
            if i == 0:
                _eq(k.hex(), it[0], "RFC7748 1 iteration")
        _eq(k.hex(), it[1], "RFC7748 1000 iterations")
        n += 2
        a, A, b, B, K = map(_H, dh)
        g = gu.to_bytes(sz, 'little')
        _eq(fn(a, g), A, "RFC7748 6 Alice pub")
        _eq(fn(b, g), B, "RFC7748 6 Bob pub")
        _eq(fn(a, B), K, "RFC7748 6 shared a")
        _eq(fn(b, A), K, "RFC7748 6 shared b")
        n += 4
    counts['rfc7748_embedded'] = n


def _ast_literal(node):
    """Tuple/List/Constant/Name tree -> Python data; Names become '@name'."""
    import ast
    if isinstance(node, (ast.Tuple, ast.List)):
        return [_ast_literal(e) for e in node.elts]
    if isinstance(node, ast.Constant):
        return node.value
    if isinstance(node, ast.Name):
        return '@' + node.id
    raise ValueError("unsupported literal node %r" % (node,))


def _ast_assigns(body):
    import ast
    out = {}
    for st in body:
        if isinstance(st, ast.Assign) and len(st.targets) == 1 and \
                isinstance(st.targets[0], ast.Name):
            out[st.targets[0].id] = st.value
    return out


_ST_HASH = {'@SHA1': 'sha1', '@SHA224': 'sha224', '@SHA256': 'sha256',
            '@SHA384': 'sha384', '@SHA512': 'sha512'}


def _st_selftest_files(counts, st_dir):
    """RFC vectors stored in the library's SelfTest sources, read as text
    (ast.parse never executes or imports anything)."""
    import ast
    import os
    path = os.path.join(st_dir, 'Signature', 'test_eddsa.py')
    n = 0
    if os.path.exists(path):
        with open(path) as f:
            tree = ast.parse(f.read())
        tvs = _ast_literal(_ast_assigns(tree.body)['rfc8032_tv_str'])
        for sk, pk, msg, hashmod, ctx, sig in tvs:
            sk, pk, msg, ctx, sig = map(_H, (sk, pk, msg, ctx, sig))
            curve = 'Ed25519' if len(sk) == 32 else 'Ed448'
            ph = hashmod is not None
            cx = ctx if ctx else None
            m = eddsa_prehash(curve, msg) if ph else msg
            _eq(eddsa_pubkey(curve, sk), pk, "RFC8032(file) pubkey")
            _eq(eddsa_sign(curve, sk, m, cx, ph), sig, "RFC8032(file) sign")
            _ok(eddsa_verify(curve, pk, m, sig, cx, ph), "RFC8032(file) verify")
            n += 1
        _ok(n >= 20, "expected >= 20 RFC 8032 vectors in test_eddsa.py, got %d" % n)
    counts['rfc8032_file'] = n

    path = os.path.join(st_dir, 'Signature', 'test_dss.py')
    n_ec = n_dsa = 0
    if os.path.exists(path):
        with open(path) as f:
            tree = ast.parse(f.read())
        classes = {st.name: st for st in tree.body if isinstance(st, ast.ClassDef)}
        asg = _ast_assigns(classes['Det_ECDSA_Tests'].body)
        for bits in ('192', '224', '256', '384', '521'):
            call = asg['key_priv_p' + bits]
            kw = {k.arg: _ast_literal(k.value) for k in call.keywords}
            c = CURVES[kw['curve']]
            d = kw['d']
            Q = ws_mul(c, d, c['G'])
            for msg, k, r, s, hm in _ast_literal(asg['signatures_p%s_' % bits]):
                hn = _ST_HASH[hm]
                h = hashlib.new(hn, msg.encode()).digest()
                kk = rfc6979_k(c['n'], d, h, hn)
                _eq(kk, _I(k), "RFC6979(file) P-%s %s k" % (bits, hn))
                _eq(ecdsa_sign(c, d, kk, h), (_I(r), _I(s)), "RFC6979(file) sig")
                _ok(ecdsa_verify(c, Q, h, _I(r), _I(s)), "RFC6979(file) verify")
                n_ec += 1
        asg = _ast_assigns(classes['Det_DSA_Tests'].body)
        keys = {}
        for p, q, g, x, y, desc in _ast_literal(asg['keys']):
            keys[desc] = tuple(map(_I, (p, q, g, x, y)))
        for msg, k, r, s, hm, desc in _ast_literal(asg['signatures']):
            p, q, g, x, y = keys[desc]
            hn = _ST_HASH[hm]
            h = hashlib.new(hn, msg.encode()).digest()
            kk = rfc6979_k(q, x, h, hn)
            _eq(kk, _I(k), "RFC6979(file) %s %s k" % (desc, hn))
            _eq(dsa_sign(p, q, g, x, kk, h), (_I(r), _I(s)), "RFC6979(file) DSA sig")
            _ok(dsa_verify(p, q, g, y, h, _I(r), _I(s)), "RFC6979(file) DSA verify")
            n_dsa += 1
        _ok(n_ec >= 50 and n_dsa >= 20, "too few RFC 6979 vectors parsed")
    counts['rfc6979_file_ecdsa'] = n_ec
    counts['rfc6979_file_dsa'] = n_dsa


def _st_nist(counts, vec_dir):
    """NIST CAVS ECDSA / DSA / ECC-CDH response files."""
    import os
    sig_dir = os.path.join(vec_dir, 'Signature')

    n = 0
    path = os.path.join(sig_dir, 'ECDSA', 'SigGen.txt')
    if os.path.exists(path):
        for sec, r in _parse_rsp(path):
            cname, hname = sec.split(',')
            c = CURVES[cname]
            h = hashlib.new(_hash_name(hname), _hexbytes(r['Msg'])).digest()
            d, k = _hexint(r['d']), _hexint(r['k'])
            Q = (_hexint(r['Qx']), _hexint(r['Qy']))
            _eq(ws_mul(c, d, c['G']), Q, "ECDSA SigGen %s public key" % sec)
            _eq(ecdsa_sign(c, d, k, h), (_hexint(r['R']), _hexint(r['S'])),
                "ECDSA SigGen %s signature" % sec)
            _ok(ecdsa_verify(c, Q, h, _hexint(r['R']), _hexint(r['S'])),
                "ECDSA SigGen %s verify" % sec)
            n += 1
    counts['nist_ecdsa_siggen'] = n

    n = 0
    for fn in ('SigVer.rsp', 'SigVer_TruncatedSHAs.rsp'):
        path = os.path.join(sig_dir, 'ECDSA', fn)
        if not os.path.exists(path):
            continue
        for sec, r in _parse_rsp(path):
            cname, hname = sec.split(',')
            c = CURVES[cname]
            try:
                h = hashlib.new(_hash_name(hname), _hexbytes(r['Msg'])).digest()
            except ValueError:
                continue                      # hash not offered by this hashlib
            Q = (_hexint(r['Qx']), _hexint(r['Qy']))
            exp = r['Result'].startswith('P')
            _eq(ecdsa_verify(c, Q, h, _hexint(r['R']), _hexint(r['S'])), exp,
                "ECDSA SigVer %s Msg=%s..." % (sec, r['Msg'][:16]))
            n += 1
    counts['nist_ecdsa_sigver'] = n

    n = 0
    path = os.path.join(sig_dir, 'DSA', 'FIPS_186_3_SigGen.txt')
    if os.path.exists(path):
        for sec, r in _parse_rsp(path):
            hname = sec.split(',')[-1].strip()
            h = hashlib.new(_hash_name(hname), _hexbytes(r['Msg'])).digest()
            p, q, g = _hexint(r['P']), _hexint(r['Q']), _hexint(r['G'])
            x, y, k = _hexint(r['X']), _hexint(r['Y']), _hexint(r['K'])
            _eq(pow(g, x, p), y, "DSA SigGen %s public key" % sec)
            _eq(dsa_sign(p, q, g, x, k, h), (_hexint(r['R']), _hexint(r['S'])),
                "DSA SigGen %s signature" % sec)
            _ok(dsa_verify(p, q, g, y, h, _hexint(r['R']), _hexint(r['S'])),
                "DSA SigGen %s verify" % sec)
            n += 1
    counts['nist_dsa_siggen'] = n

    n = 0
    path = os.path.join(sig_dir, 'DSA', 'FIPS_186_3_SigVer.rsp')
    if os.path.exists(path):
        for sec, r in _parse_rsp(path):
            hname = sec.split(',')[-1].strip()
            h = hashlib.new(_hash_name(hname), _hexbytes(r['Msg'])).digest()
            p, q, g = _hexint(r['P']), _hexint(r['Q']), _hexint(r['G'])
            exp = r['Result'].startswith('P')
            _eq(dsa_verify(p, q, g, _hexint(r['Y']), h, _hexint(r['R']), _hexint(r['S'])),
                exp, "DSA SigVer %s Msg=%s..." % (sec, r['Msg'][:16]))
            n += 1
    counts['nist_dsa_sigver'] = n

    n = 0
    path = os.path.join(vec_dir, 'Protocol', 'KAS_ECC_CDH_PrimitiveTest.txt')
    if os.path.exists(path):
        for sec, r in _parse_rsp(path):
            if sec not in CURVES:
                continue
            c = CURVES[sec]
            Qc = (_hexint(r['QCAVSx']), _hexint(r['QCAVSy']))
            d = _hexint(r['dIUT'])
            _ok(ws_on_curve(c, Qc), "CDH peer key off curve")
            _eq(ws_mul(c, d, c['G']), (_hexint(r['QIUTx']), _hexint(r['QIUTy'])),
                "CDH %s own public key" % sec)
            _eq(ws_mul(c, d, Qc)[0], _hexint(r['ZIUT']), "CDH %s shared secret" % sec)
            n += 1
    counts['nist_ecc_cdh'] = n


def _wy_load(path):
    import json
    with open(path) as f:
        return json.load(f)


def _st_wycheproof(counts, vec_dir):
    """Wycheproof ECDSA (DER + P1363), DSA, EdDSA, XDH, ECDH-ecpoint."""
    import glob
    import os
    wsig = os.path.join(vec_dir, 'Signature', 'wycheproof')
    wpro = os.path.join(vec_dir, 'Protocol', 'wycheproof')

    n_used = n_skip = n_acc = 0
    files = sorted(glob.glob(os.path.join(wsig, 'ecdsa_*_test.json')) +
                   glob.glob(os.path.join(wsig, 'ecdsa_test.json')))
    for path in files:
        for g in _wy_load(path)['testGroups']:
            cname = _WY_CURVES.get(g['key']['curve'])
            if cname is None:
                continue
            c = CURVES[cname]
            try:
                hn = _hash_name(g['sha'])
                hashlib.new(hn)
            except ValueError:
                continue
            Q = sec1_decode(c, _H(g['key']['uncompressed']))
            _eq(Q, (_I(g['key']['wx']), _I(g['key']['wy'])), "wycheproof key")
            p1363 = g['type'] == 'EcdsaP1363Verify'
            for t in g['tests']:
                sig = _H(t['sig'])
                h = hashlib.new(hn, _H(t['msg'])).digest()
                if p1363:
                    sz = (c['n'].bit_length() + 7) // 8
                    if len(sig) != 2 * sz:
                        _ok(t['result'] != 'valid', "wycheproof P1363 odd length marked valid")
                        n_skip += 1
                        continue
                    rs = (int.from_bytes(sig[:sz], 'big'), int.from_bytes(sig[sz:], 'big'))
                else:
                    rs = _der_two_ints(sig)
                    if rs is None:
                        _ok(t['result'] != 'valid', "wycheproof: non-canonical DER marked valid")
                        n_skip += 1
                        continue
                got = ecdsa_verify(c, Q, h, rs[0], rs[1])
                if t['result'] == 'acceptable':
                    n_acc += 1
                    continue
                _eq(got, t['result'] == 'valid', "wycheproof ECDSA %s tcId %d (%s)"
                    % (os.path.basename(path), t['tcId'], t['comment']))
                n_used += 1
    counts['wycheproof_ecdsa'] = n_used
    counts['wycheproof_ecdsa_skipped_encoding'] = n_skip
    counts['wycheproof_ecdsa_acceptable'] = n_acc

    n = n_skip = 0
    path = os.path.join(wsig, 'dsa_test.json')
    if os.path.exists(path):
        for g in _wy_load(path)['testGroups']:
            k = g['key']
            p, q, gg, y = _I(k['p']), _I(k['q']), _I(k['g']), _I(k['y'])
            hn = _hash_name(g['sha'])
            for t in g['tests']:
                rs = _der_two_ints(_H(t['sig']))
                if rs is None:
                    _ok(t['result'] != 'valid', "wycheproof DSA: non-canonical DER marked valid")
                    n_skip += 1
                    continue
                h = hashlib.new(hn, _H(t['msg'])).digest()
                got = dsa_verify(p, q, gg, y, h, rs[0], rs[1])
                if t['result'] == 'acceptable':
                    continue
                _eq(got, t['result'] == 'valid', "wycheproof DSA tcId %d (%s)"
                    % (t['tcId'], t['comment']))
                n += 1
    counts['wycheproof_dsa'] = n
    counts['wycheproof_dsa_skipped_encoding'] = n_skip

    n = 0
    for fn, curve in (('eddsa_test.json', 'Ed25519'), ('ed448_test.json', 'Ed448')):
        path = os.path.join(wsig, fn)
        if not os.path.exists(path):
            continue
        for g in _wy_load(path)['testGroups']:
            pk = _H(g['key']['pk'])
            _eq(eddsa_pubkey(curve, _H(g['key']['sk'])), pk, "wycheproof EdDSA pubkey")
            for t in g['tests']:
                got = eddsa_verify(curve, pk, _H(t['msg']), _H(t['sig']))
                _ok(t['result'] in ('valid', 'invalid'), "unexpected wycheproof result class")
                _eq(got, t['result'] == 'valid', "wycheproof %s tcId %d (%s)"
                    % (fn, t['tcId'], t['comment']))
                if got:
                    _eq(eddsa_sign(curve, _H(g['key']['sk']), _H(t['msg'])), _H(t['sig']),
                        "wycheproof %s tcId %d re-sign" % (fn, t['tcId']))
                n += 1
    counts['wycheproof_eddsa'] = n

    n = 0
    for fn, f in (('x25519_test.json', x25519), ('x448_test.json', x448)):
        path = os.path.join(wpro, fn)
        if not os.path.exists(path):
            continue
        for g in _wy_load(path)['testGroups']:
            for t in g['tests']:
                try:
                    got = f(_H(t['private']), _H(t['public']))
                except ValueError:
                    _ok(t['result'] != 'valid', "wycheproof XDH valid case raised")
                    continue
                _eq(got.hex(), t['shared'], "wycheproof %s tcId %d (%s)"
                    % (fn, t['tcId'], t['comment']))
                n += 1
    counts['wycheproof_xdh'] = n

    n = n_rej = 0
    for path in sorted(glob.glob(os.path.join(wpro, 'ecdh_*_ecpoint_test.json'))):
        for g in _wy_load(path)['testGroups']:
            cname = _WY_CURVES.get(g['curve'])
            if cname is None:
                continue
            c = CURVES[cname]
            for t in g['tests']:
                d = _I(t['private'])
                try:
                    Q = sec1_decode(c, _H(t['public']), allow_infinity=False)
                except ValueError:
                    _ok(t['result'] != 'valid', "wycheproof ECDH valid point rejected tcId %d" % t['tcId'])
                    n_rej += 1
                    continue
                _ok(t['result'] != 'invalid', "wycheproof ECDH invalid point accepted tcId %d (%s)"
                    % (t['tcId'], t['comment']))
                S = ws_mul(c, d, Q)
                _eq(S[0].to_bytes(c['size'], 'big').hex(), t['shared'],
                    "wycheproof ECDH %s tcId %d" % (os.path.basename(path), t['tcId']))
                n += 1
    counts['wycheproof_ecdh_ecpoint'] = n
    counts['wycheproof_ecdh_ecpoint_rejected'] = n_rej


class _OpenSSL:
    """Tiny ctypes binding to the system libcrypto (optional cross-check)."""
    NID = {'P-192': 409, 'P-224': 713, 'P-256': 415, 'P-384': 715, 'P-521': 716}
    PKEY = {'X25519': 1034, 'X448': 1035, 'Ed25519': 1087, 'Ed448': 1088}

    def __init__(self):
        import ctypes
        import ctypes.util
        self.ct = ctypes
        name = ctypes.util.find_library('crypto')
        if not name:
            raise OSError("libcrypto not found")
        lib = self.lib = ctypes.CDLL(name)
        vp, ci, cz = ctypes.c_void_p, ctypes.c_int, ctypes.c_size_t
        cp = ctypes.c_char_p
        sigs = {
            'BN_bin2bn': (vp, cp, ci, vp), 'BN_bn2binpad': (ci, vp, cp, ci),
            'BN_new': (vp,), 'BN_free': (None, vp),
            'EC_KEY_new_by_curve_name': (vp, ci), 'EC_KEY_free': (None, vp),
            'EC_KEY_set_private_key': (ci, vp, vp),
            'EC_KEY_set_public_key_affine_coordinates': (ci, vp, vp, vp),
            'EC_KEY_get0_group': (vp, vp),
            'EC_POINT_new': (vp, vp), 'EC_POINT_free': (None, vp),
            'EC_POINT_mul': (ci, vp, vp, vp, vp, vp, vp),
            'EC_POINT_set_affine_coordinates': (ci, vp, vp, vp, vp, vp),
            'EC_POINT_get_affine_coordinates': (ci, vp, vp, vp, vp, vp),
            'EC_POINT_is_at_infinity': (ci, vp, vp),
            'ECDSA_do_sign': (vp, cp, ci, vp),
            'ECDSA_do_verify': (ci, cp, ci, vp, vp),
            'ECDSA_SIG_new': (vp,), 'ECDSA_SIG_free': (None, vp),
            'ECDSA_SIG_set0': (ci, vp, vp, vp),
            'ECDSA_SIG_get0_r': (vp, vp), 'ECDSA_SIG_get0_s': (vp, vp),
            'EVP_PKEY_new_raw_private_key': (vp, ci, vp, cp, cz),
            'EVP_PKEY_new_raw_public_key': (vp, ci, vp, cp, cz),
            'EVP_PKEY_get_raw_public_key': (ci, vp, cp, ctypes.POINTER(cz)),
            'EVP_PKEY_free': (None, vp),
            'EVP_PKEY_CTX_new': (vp, vp, vp), 'EVP_PKEY_CTX_free': (None, vp),
            'EVP_PKEY_derive_init': (ci, vp),
            'EVP_PKEY_derive_set_peer': (ci, vp, vp),
            'EVP_PKEY_derive': (ci, vp, cp, ctypes.POINTER(cz)),
            'EVP_MD_CTX_new': (vp,), 'EVP_MD_CTX_free': (None, vp),
            'EVP_DigestSignInit': (ci, vp, vp, vp, vp, vp),
            'EVP_DigestSign': (ci, vp, cp, ctypes.POINTER(cz), cp, cz),
            'EVP_DigestVerifyInit': (ci, vp, vp, vp, vp, vp),
            'EVP_DigestVerify': (ci, vp, cp, cz, cp, cz),
        }
        for fname, sig in sigs.items():
            f = getattr(lib, fname)
            f.restype = sig[0]
            f.argtypes = list(sig[1:])

    # -- bignum helpers
    def bn(self, v):
        b = v.to_bytes(max(1, (v.bit_length() + 7) // 8), 'big')
        return self.lib.BN_bin2bn(b, len(b), None)

    def bn_int(self, bn, size=80):
        buf = self.ct.create_string_buffer(size)
        if self.lib.BN_bn2binpad(bn, buf, size) != size:
            raise OSError("BN_bn2binpad failed")
        return int.from_bytes(buf.raw, 'big')

    # -- prime curves
    def ec_mul(self, cname, k, P=None):
        """k*G (P None) or k*P; returns affine point or None."""
        lib = self.lib
        key = lib.EC_KEY_new_by_curve_name(self.NID[cname])
        grp = lib.EC_KEY_get0_group(key)
        res = lib.EC_POINT_new(grp)
        kb = self.bn(k)
        if P is None:
            ok = lib.EC_POINT_mul(grp, res, kb, None, None, None)
        else:
            pt = lib.EC_POINT_new(grp)
            if lib.EC_POINT_set_affine_coordinates(grp, pt, self.bn(P[0]), self.bn(P[1]), None) != 1:
                raise OSError("EC_POINT_set_affine_coordinates failed")
            ok = lib.EC_POINT_mul(grp, res, None, pt, kb, None)
        if ok != 1:
            raise OSError("EC_POINT_mul failed")
        if lib.EC_POINT_is_at_infinity(grp, res):
            out = None
        else:
            x, y = lib.BN_new(), lib.BN_new()
            lib.EC_POINT_get_affine_coordinates(grp, res, x, y, None)
            out = (self.bn_int(x), self.bn_int(y))
        lib.EC_KEY_free(key)
        return out

    def ecdsa_sign(self, cname, d, h):
        lib = self.lib
        key = lib.EC_KEY_new_by_curve_name(self.NID[cname])
        lib.EC_KEY_set_private_key(key, self.bn(d))
        sig = lib.ECDSA_do_sign(h, len(h), key)
        if not sig:
            raise OSError("ECDSA_do_sign failed")
        r = self.bn_int(lib.ECDSA_SIG_get0_r(sig))
        s = self.bn_int(lib.ECDSA_SIG_get0_s(sig))
        lib.ECDSA_SIG_free(sig)
        lib.EC_KEY_free(key)
        return r, s

    def ecdsa_verify(self, cname, Q, h, r, s):
        lib = self.lib
        key = lib.EC_KEY_new_by_curve_name(self.NID[cname])
        if lib.EC_KEY_set_public_key_affine_coordinates(key, self.bn(Q[0]), self.bn(Q[1])) != 1:
            raise OSError("bad public key")
        sig = lib.ECDSA_SIG_new()
        lib.ECDSA_SIG_set0(sig, self.bn(r), self.bn(s))
        rc = lib.ECDSA_do_verify(h, len(h), sig, key)
        lib.ECDSA_SIG_free(sig)
        lib.EC_KEY_free(key)
        return rc == 1

    # -- raw-key algorithms
    def raw_pub(self, alg, priv):
        lib, ct = self.lib, self.ct
        pk = lib.EVP_PKEY_new_raw_private_key(self.PKEY[alg], None, priv, len(priv))
        if not pk:
            raise OSError("EVP_PKEY_new_raw_private_key failed")
        ln = ct.c_size_t(64)
        buf = ct.create_string_buffer(64)
        lib.EVP_PKEY_get_raw_public_key(pk, buf, ct.byref(ln))
        lib.EVP_PKEY_free(pk)
        return buf.raw[:ln.value]

    def xdh(self, alg, priv, pub):
        """Shared secret or None when OpenSSL refuses (all-zero output)."""
        lib, ct = self.lib, self.ct
        sk = lib.EVP_PKEY_new_raw_private_key(self.PKEY[alg], None, priv, len(priv))
        pk = lib.EVP_PKEY_new_raw_public_key(self.PKEY[alg], None, pub, len(pub))
        ctx = lib.EVP_PKEY_CTX_new(sk, None)
        lib.EVP_PKEY_derive_init(ctx)
        lib.EVP_PKEY_derive_set_peer(ctx, pk)
        ln = ct.c_size_t(64)
        buf = ct.create_string_buffer(64)
        rc = lib.EVP_PKEY_derive(ctx, buf, ct.byref(ln))
        lib.EVP_PKEY_CTX_free(ctx)
        lib.EVP_PKEY_free(sk)
        lib.EVP_PKEY_free(pk)
        return buf.raw[:ln.value] if rc == 1 else None

    def ed_sign(self, alg, seed, msg):
        lib, ct = self.lib, self.ct
        sk = lib.EVP_PKEY_new_raw_private_key(self.PKEY[alg], None, seed, len(seed))
        md = lib.EVP_MD_CTX_new()
        if lib.EVP_DigestSignInit(md, None, None, None, sk) != 1:
            raise OSError("EVP_DigestSignInit failed")
        ln = ct.c_size_t(128)
        buf = ct.create_string_buffer(128)
        if lib.EVP_DigestSign(md, buf, ct.byref(ln), msg, len(msg)) != 1:
            raise OSError("EVP_DigestSign failed")
        lib.EVP_MD_CTX_free(md)
        lib.EVP_PKEY_free(sk)
        return buf.raw[:ln.value]

    def ed_verify(self, alg, pub, msg, sig):
        lib = self.lib
        pk = lib.EVP_PKEY_new_raw_public_key(self.PKEY[alg], None, pub, len(pub))
        if not pk:
            return False
        md = lib.EVP_MD_CTX_new()
        lib.EVP_DigestVerifyInit(md, None, None, None, pk)
        rc = lib.EVP_DigestVerify(md, sig, len(sig), msg, len(msg))
        lib.EVP_MD_CTX_free(md)
        lib.EVP_PKEY_free(pk)
        return rc == 1


def _st_openssl(counts, rounds=12):
    """Optional: compare with the system OpenSSL on pseudo-random inputs."""
    import random
    try:
        o = _OpenSSL()
    except (OSError, AttributeError) as e:
        counts['openssl'] = 'unavailable: %s' % (e,)
        return
    rnd = random.Random(0x0551)
    n = 0
    for cname in ('P-192', 'P-224', 'P-256', 'P-384', 'P-521'):
        c = CURVES[cname]
        try:
            o.ec_mul(cname, 1)
        except OSError:
            continue
        for _ in range(rounds):
            d = rnd.randrange(1, c['n'])
            k = rnd.randrange(1, c['n'])
            Q = ws_mul(c, d, c['G'])
            _eq(Q, o.ec_mul(cname, d), "openssl %s d*G" % cname)
            _eq(ws_mul(c, k, Q), o.ec_mul(cname, k, Q), "openssl %s k*Q" % cname)
            h = hashlib.sha512(rnd.randbytes(8)).digest()[:rnd.choice((20, 28, 32, 48, 64))]
            r, s = ecdsa_sign(c, d, k, h)
            _ok(o.ecdsa_verify(cname, Q, h, r, s), "openssl rejects our %s signature" % cname)
            _ok(not o.ecdsa_verify(cname, Q, h, r, (s + 1) % c['n'] or 1), "openssl accepts bad sig")
            r2, s2 = o.ecdsa_sign(cname, d, h)
            _ok(ecdsa_verify(c, Q, h, r2, s2), "we reject openssl's %s signature" % cname)
            _ok(ecdsa_verify(c, Q, h, r2, c['n'] - s2), "malleated signature rejected")
            _ok(not ecdsa_verify(c, Q, h + b'\x00', r2, s2) or len(h) * 8 >= c['n'].bit_length(),
                "%s: modified short hash accepted" % cname)
            n += 7
    for alg, f, sz, gu in (('X25519', x25519, 32, 9), ('X448', x448, 56, 5)):
        for _ in range(rounds):
            a, b = rnd.randbytes(sz), rnd.randbytes(sz)
            A = f(a, gu.to_bytes(sz, 'little'))
            _eq(A, o.raw_pub(alg, a), "openssl %s public" % alg)
            u = rnd.randbytes(sz)                   # arbitrary (maybe twist / non-canonical)
            _eq(f(b, u), o.xdh(alg, b, u), "openssl %s derive" % alg)
            n += 2
        for u in mont_low_order_us('Curve' + alg[1:]):
            _eq(o.xdh(alg, rnd.randbytes(sz), u.to_bytes(sz, 'little')), None,
                "openssl %s accepts low-order u" % alg)
            n += 1
    for alg in ('Ed25519', 'Ed448'):
        sz = CURVES[alg]['size']
        for _ in range(rounds):
            seed = rnd.randbytes(sz)
            msg = rnd.randbytes(rnd.randrange(0, 200))
            pk = eddsa_pubkey(alg, seed)
            _eq(pk, o.raw_pub(alg, seed), "openssl %s public" % alg)
            sig = eddsa_sign(alg, seed, msg)
            _eq(sig, o.ed_sign(alg, seed, msg), "openssl %s sign" % alg)
            _ok(eddsa_verify(alg, pk, msg, sig), alg + " own verify")
            _ok(o.ed_verify(alg, pk, msg, sig), "openssl %s verify" % alg)
            bad = bytearray(sig)
            bad[rnd.randrange(len(bad))] ^= 1 << rnd.randrange(8)
            _eq(eddsa_verify(alg, pk, msg, bytes(bad)), o.ed_verify(alg, pk, msg, bytes(bad)),
                "openssl %s verify of corrupted signature" % alg)
            n += 5
    counts['openssl'] = n


def selftest(full=True, openssl=True, vec_dir=_VEC_DIR, st_dir=_ST_DIR):
    """Runs every check; raises AssertionError with a message on mismatch and
    returns a dict of counts.  full=False skips the data files under /repo
    (parameters, arithmetic and embedded RFC vectors only)."""
    counts = {}
    counts['param_checks'] = _verify_params()
    _st_arith(counts)
    _st_rfc_vectors(counts)
    if full:
        _st_selftest_files(counts, st_dir)
        _st_nist(counts, vec_dir)
        _st_wycheproof(counts, vec_dir)
    if openssl:
        _st_openssl(counts)
    return counts


if __name__ == '__main__':
    import sys
    import time
    _t0 = time.time()
    _res = selftest(full='--quick' not in sys.argv)
    for _k, _v in _res.items():
        print("%-36s %s" % (_k, _v))
    print("selftest OK in %.1f s" % (time.time() - _t0))
