"""Reference GF(2^128) with the polynomial x^128 + x^7 + x^2 + x + 1 on Python ints
(bit i = coefficient of x^i), plus polynomial evaluation / Lagrange interpolation."""
POLY = (1 << 128) | 0x87
MASK = (1 << 128) - 1


def clmul(a, b):
    z = 0
    while b:
        if b & 1:
            z ^= a
        a <<= 1
        b >>= 1
    return z


def reduce(v):
    # reduce a polynomial of degree < 256 modulo POLY
    for i in range(v.bit_length() - 1, 127, -1):
        if (v >> i) & 1:
            v ^= POLY << (i - 128)
    return v


def mul(a, b):
    return reduce(clmul(a, b))


def add(a, b):
    return a ^ b


def power(a, e):
    r = 1
    while e:
        if e & 1:
            r = mul(r, a)
        a = mul(a, a)
        e >>= 1
    return r


def inv(a):
    if a == 0:
        raise ZeroDivisionError
    return power(a, (1 << 128) - 2)


def horner(coeffs_high_first, x):
    r = 0
    for c in coeffs_high_first:
        r = mul(r, x) ^ c
    return r


def interpolate_at_zero(points):
    """points: list of (x, y) with distinct x; value at 0 of the unique polynomial of degree < len."""
    res = 0
    for j, (xj, yj) in enumerate(points):
        num, den = 1, 1
        for m, (xm, _) in enumerate(points):
            if m != j:
                num = mul(num, xm)
                den = mul(den, xj ^ xm)
        res ^= mul(yj, mul(num, inv(den)))
    return res


def interpolate_coeffs(points):
    """Coefficients (low first) of the unique polynomial of degree < len(points) through points."""
    n = len(points)
    coeffs = [0] * n
    for j, (xj, yj) in enumerate(points):
        # basis polynomial prod_{m != j} (x - xm)/(xj - xm)
        basis = [1]
        den = 1
        for m, (xm, _) in enumerate(points):
            if m == j:
                continue
            # multiply basis by (x + xm)
            nb = [0] * (len(basis) + 1)
            for i, c in enumerate(basis):
                nb[i] ^= mul(c, xm)
                nb[i + 1] ^= c
            basis = nb
            den = mul(den, xj ^ xm)
        scale = mul(yj, inv(den))
        for i, c in enumerate(basis):
            coeffs[i] ^= mul(c, scale)
    return coeffs


def selftest():
    import random
    r = random.Random(7)
    for _ in range(200):
        a, b, c = (r.getrandbits(128) for _ in range(3))
        assert mul(a, b) == mul(b, a)
        assert mul(a, mul(b, c)) == mul(mul(a, b), c)
        assert mul(a, b ^ c) == mul(a, b) ^ mul(a, c)
        if a:
            assert mul(a, inv(a)) == 1
    # x * x^127 = x^128 = x^7+x^2+x+1
    assert mul(2, 1 << 127) == 0x87
    # irreducibility sanity: x^(2^128) == x, and x^(2^k) != x for proper divisors' exponents k|128
    t = 2
    for k in range(1, 129):
        t = mul(t, t)
        if k < 128 and 128 % k == 0:
            assert t != 2, "polynomial would be reducible"
    assert t == 2
    pts = [(i + 1, r.getrandbits(128)) for i in range(5)]
    cs = interpolate_coeffs(pts)
    for x, y in pts:
        assert horner(list(reversed(cs)), x) == y
    assert interpolate_at_zero(pts) == cs[0]
    return {"gf128": 200}


if __name__ == "__main__":
    print(selftest())
