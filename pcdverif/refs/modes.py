"""Reference implementations of block-cipher modes of operation (test oracles).

Everything in this file is written from the specification texts:

* ECB/CBC/CFB/OFB/CTR ..... NIST SP 800-38A
* OpenPGP CFB ............. RFC 4880 section 13.9 (with resynchronisation)
* CMAC / OMAC1 ............ NIST SP 800-38B
* GCM / GHASH ............. NIST SP 800-38D
* CCM ..................... NIST SP 800-38C / RFC 3610
* EAX ..................... Bellare, Rogaway, Wagner, "The EAX mode of operation"
* SIV ..................... RFC 5297
* OCB3 .................... RFC 7253
* KW / KWP ................ RFC 3394 / RFC 5649 (NIST SP 800-38F)

The modes are generic over a keyed block primitive `BC(bs, enc, dec)`.  Only
the Python standard library and the sibling module `aes` are imported; the
library under test is never imported.

Conventions
-----------
* all inputs/outputs are `bytes`;
* `*_decrypt` / `*_unwrap` of authenticated modes return ``None`` when the
  authentication check fails (they never raise for that);
* malformed *parameters* (bad nonce length, bad tag length, ...) raise
  ``ValueError``.
"""

from __future__ import annotations

import functools

try:                                    # imported as pcdverif.refs.modes
    from . import aes as _aes
except ImportError:                     # executed as a script: python modes.py
    import os as _os
    import sys as _sys
    _sys.path.insert(0, _os.path.dirname(_os.path.abspath(__file__)))
    import aes as _aes                  # type: ignore

__all__ = [
    "BC", "aes_bc",
    "ecb_encrypt", "ecb_decrypt", "cbc_encrypt", "cbc_decrypt",
    "cfb_encrypt", "cfb_decrypt", "ofb", "ctr", "ctr_layout",
    "openpgp_encrypt", "openpgp_decrypt",
    "cmac", "ghash", "gcm_encrypt", "gcm_decrypt",
    "ccm_encrypt", "ccm_decrypt", "eax_encrypt", "eax_decrypt",
    "s2v", "siv_encrypt", "siv_decrypt",
    "ocb_encrypt", "ocb_decrypt",
    "kw_W", "kw_W_inv", "kw_wrap", "kw_unwrap", "kwp_wrap", "kwp_unwrap",
    "selftest",
]


# ==========================================================================
# Block primitive
# ==========================================================================

class BC:
    """A keyed block cipher: block size in bytes + forward/inverse permutation.

    `enc` and `dec` are callables mapping one block (bytes of length bs) to one
    block.  `dec` may be None for uses that only need the forward direction.
    """

    def __init__(self, bs: int, enc, dec=None):
        self.bs = bs
        self._enc = enc
        self._dec = dec

    def enc(self, block: bytes) -> bytes:
        if len(block) != self.bs:
            raise ValueError("block of wrong length")
        out = bytes(self._enc(bytes(block)))
        assert len(out) == self.bs
        return out

    def dec(self, block: bytes) -> bytes:
        if len(block) != self.bs:
            raise ValueError("block of wrong length")
        if self._dec is None:
            raise ValueError("inverse direction not available")
        out = bytes(self._dec(bytes(block)))
        assert len(out) == self.bs
        return out


def aes_bc(key: bytes) -> BC:
    """AES (pure Python, refs.aes) under `key` as a BC."""
    key = bytes(key)
    _aes.expand_key(key)            # validates the key length
    return BC(16,
              lambda b: _aes.encrypt_block(key, b),
              lambda b: _aes.decrypt_block(key, b))


# ==========================================================================
# Small helpers
# ==========================================================================

def _xor(a: bytes, b: bytes) -> bytes:
    """XOR of two strings of the same length."""
    assert len(a) == len(b)
    return (int.from_bytes(a, "big") ^ int.from_bytes(b, "big")).to_bytes(len(a), "big")


def _xor_prefix(data: bytes, pad: bytes) -> bytes:
    """data XOR the leading len(data) bytes of pad."""
    return _xor(data, pad[:len(data)])


def _blocks(data: bytes, n: int):
    """Split into consecutive chunks of n bytes (the last one may be short)."""
    return [data[i:i + n] for i in range(0, len(data), n)]


def _ct_eq(a: bytes, b: bytes) -> bool:
    return len(a) == len(b) and a == b


# ==========================================================================
# SP 800-38A: ECB, CBC, CFB, OFB, CTR
# ==========================================================================

def ecb_encrypt(c: BC, pt: bytes) -> bytes:
    if len(pt) % c.bs:
        raise ValueError("ECB: data length not a multiple of the block size")
    return b"".join(c.enc(b) for b in _blocks(pt, c.bs))


def ecb_decrypt(c: BC, ct: bytes) -> bytes:
    if len(ct) % c.bs:
        raise ValueError("ECB: data length not a multiple of the block size")
    return b"".join(c.dec(b) for b in _blocks(ct, c.bs))


def cbc_encrypt(c: BC, iv: bytes, pt: bytes) -> bytes:
    if len(iv) != c.bs:
        raise ValueError("CBC: IV must be one block")
    if len(pt) % c.bs:
        raise ValueError("CBC: data length not a multiple of the block size")
    out = []
    prev = iv
    for p in _blocks(pt, c.bs):
        prev = c.enc(_xor(p, prev))             # C_j = CIPH(P_j xor C_{j-1})
        out.append(prev)
    return b"".join(out)


def cbc_decrypt(c: BC, iv: bytes, ct: bytes) -> bytes:
    if len(iv) != c.bs:
        raise ValueError("CBC: IV must be one block")
    if len(ct) % c.bs:
        raise ValueError("CBC: data length not a multiple of the block size")
    out = []
    prev = iv
    for x in _blocks(ct, c.bs):
        out.append(_xor(c.dec(x), prev))        # P_j = CIPH^-1(C_j) xor C_{j-1}
        prev = x
    return b"".join(out)


def _cfb(c: BC, iv: bytes, data: bytes, seg_bytes: int, decrypt: bool) -> bytes:
    if len(iv) != c.bs:
        raise ValueError("CFB: IV must be one block")
    if not 1 <= seg_bytes <= c.bs:
        raise ValueError("CFB: segment size out of range")
    sr = iv                                      # I_1 = IV
    out = []
    for seg in _blocks(data, seg_bytes):
        o = c.enc(sr)                            # O_j = CIPH(I_j)
        res = _xor_prefix(seg, o)                # C#_j = P#_j xor MSB_s(O_j)
        out.append(res)
        fed = seg if decrypt else res            # ciphertext segment
        sr = (sr + fed)[-c.bs:]                  # I_j = LSB_{b-s}(I_{j-1}) | C#_{j-1}
        # (a short final segment is the last one: sr is not used afterwards)
    return b"".join(out)


def cfb_encrypt(c: BC, iv: bytes, pt: bytes, seg_bytes: int) -> bytes:
    """CFB with s = 8*seg_bytes bit segments; a final partial segment is
    XORed with the leading bytes of the encrypted shift register."""
    return _cfb(c, iv, pt, seg_bytes, False)


def cfb_decrypt(c: BC, iv: bytes, ct: bytes, seg_bytes: int) -> bytes:
    return _cfb(c, iv, ct, seg_bytes, True)


def ofb(c: BC, iv: bytes, data: bytes) -> bytes:
    if len(iv) != c.bs:
        raise ValueError("OFB: IV must be one block")
    out = []
    o = iv
    for blk in _blocks(data, c.bs):
        o = c.enc(o)                             # O_j = CIPH(O_{j-1}), O_0 = IV
        out.append(_xor_prefix(blk, o))
    return b"".join(out)


def ctr(c: BC, counter_blocks, data: bytes) -> bytes:
    """CTR mode.  `counter_blocks(i)` returns the i-th counter block T_{i+1}."""
    out = []
    for i, blk in enumerate(_blocks(data, c.bs)):
        t = counter_blocks(i)
        if len(t) != c.bs:
            raise ValueError("CTR: counter block of wrong length")
        out.append(_xor_prefix(blk, c.enc(t)))
    return b"".join(out)


def ctr_layout(prefix: bytes, suffix: bytes, width: int, initial: int,
               little_endian: bool = False):
    """Counter block generator: block_i = prefix | enc((initial+i) mod 2^(8*width)) | suffix,
    the counter being encoded on `width` bytes, big endian unless little_endian."""
    if width < 1:
        raise ValueError("counter width must be positive")
    if not 0 <= initial < (1 << (8 * width)):
        raise ValueError("initial counter value out of range")
    prefix, suffix = bytes(prefix), bytes(suffix)
    order = "little" if little_endian else "big"
    mod = 1 << (8 * width)

    def gen(i: int) -> bytes:
        return prefix + ((initial + i) % mod).to_bytes(width, order) + suffix
    return gen


# ==========================================================================
# RFC 4880 section 13.9: OpenPGP CFB mode (with the resynchronisation step)
# ==========================================================================

def openpgp_encrypt(c: BC, iv: bytes, pt: bytes) -> bytes:
    """`iv` is the BS random octets of step 3.  Returns C[1..BS+2] | ciphertext."""
    bs = c.bs
    if len(iv) != bs:
        raise ValueError("OpenPGP: the random prefix must be one block")
    fr = bytes(bs)                               # 1. FR = 0
    fre = c.enc(fr)                              # 2.
    c1 = _xor(fre, iv)                           # 3. C[1..BS]
    fr = c1                                      # 4.
    fre = c.enc(fr)                              # 5.
    c2 = _xor(fre[:2], iv[-2:])                  # 6. C[BS+1], C[BS+2]
    head = c1 + c2
    fr = head[2:bs + 2]                          # 7. resync: FR = C[3..BS+2]
    out = [head]
    for blk in _blocks(pt, bs):
        fre = c.enc(fr)                          # 8. / 11.
        cb = _xor_prefix(blk, fre)               # 9. / 12.
        out.append(cb)
        fr = cb                                  # 10. (only full blocks are fed back)
    return b"".join(out)


def openpgp_decrypt(c: BC, eiv_and_ct: bytes):
    """Inverse of openpgp_encrypt.  Returns (iv, pt, check_ok) where check_ok
    tells whether the two repeated octets matched octets BS-1, BS of the prefix."""
    bs = c.bs
    if len(eiv_and_ct) < bs + 2:
        raise ValueError("OpenPGP: input shorter than the encrypted prefix")
    head, ct = eiv_and_ct[:bs + 2], eiv_and_ct[bs + 2:]
    iv = _xor(c.enc(bytes(bs)), head[:bs])
    rep = _xor(c.enc(head[:bs])[:2], head[bs:])
    check_ok = rep == iv[-2:]
    fr = head[2:]
    out = []
    for blk in _blocks(ct, bs):
        out.append(_xor_prefix(blk, c.enc(fr)))
        fr = blk
    return iv, b"".join(out), check_ok


# ==========================================================================
# SP 800-38B: CMAC (= OMAC1)
# ==========================================================================

_RB = {16: 0x87, 8: 0x1B}


def _dbl(block: bytes) -> bytes:
    """Multiplication by x in GF(2^n), n = 64 or 128 (msb first), as used for
    CMAC subkeys, S2V and OCB."""
    n = len(block)
    v = int.from_bytes(block, "big") << 1
    if v >> (8 * n):
        v = (v & ((1 << (8 * n)) - 1)) ^ _RB[n]
    return v.to_bytes(n, "big")


def _cmac_subkeys(c: BC):
    if c.bs not in _RB:
        raise ValueError("CMAC: unsupported block size")
    l = c.enc(bytes(c.bs))
    k1 = _dbl(l)
    k2 = _dbl(k1)
    return k1, k2


def cmac(c: BC, msg: bytes) -> bytes:
    bs = c.bs
    k1, k2 = _cmac_subkeys(c)
    if msg and len(msg) % bs == 0:
        body, last = msg[:-bs], _xor(msg[-bs:], k1)          # complete final block
    else:
        r = len(msg) % bs
        body = msg[:len(msg) - r]
        last = msg[len(msg) - r:] + b"\x80" + bytes(bs - r - 1)  # 10...0 padding
        last = _xor(last, k2)
    x = bytes(bs)
    for blk in _blocks(body, bs):
        x = c.enc(_xor(x, blk))
    return c.enc(_xor(x, last))


# ==========================================================================
# SP 800-38D: GHASH, GCM
# ==========================================================================
# A block is handled as the integer int.from_bytes(block, "big"): the most
# significant bit of the integer is the coefficient of x^0, the least
# significant bit is the coefficient of x^127.

_GCM_R = 0xE1 << 120


def _gf128_mulx(v: int) -> int:
    return (v >> 1) ^ _GCM_R if v & 1 else v >> 1


def _gf128_mul_bitwise(x: int, y: int) -> int:
    """Algorithm 1 of SP 800-38D, literally."""
    z = 0
    v = y
    for i in range(127, -1, -1):        # x_0 is integer bit 127
        if (x >> i) & 1:
            z ^= v
        v = _gf128_mulx(v)
    return z


# multiplication by x^4 of the 4 lowest integer bits (coefficients x^124..x^127)
_GF128_RED4 = []
for _r in range(16):
    _v = _r
    for _ in range(4):
        _v = _gf128_mulx(_v)
    _GF128_RED4.append(_v)
del _r, _v


@functools.lru_cache(maxsize=256)
def _ghash_table(h: int):
    """M[n] = (the 4-bit polynomial n placed in the top nibble) * H."""
    m = [0] * 16
    m[8] = h
    m[4] = _gf128_mulx(m[8])
    m[2] = _gf128_mulx(m[4])
    m[1] = _gf128_mulx(m[2])
    for n in range(16):
        if n not in (0, 1, 2, 4, 8):
            m[n] = (m[n & 8] ^ m[n & 4] ^ m[n & 2] ^ m[n & 1])
    return tuple(m)


def _gf128_mul_h(x: int, table) -> int:
    """x * H by Horner's rule on the 32 nibbles of x, highest degree first."""
    z = 0
    red = _GF128_RED4
    for _ in range(32):
        z = (z >> 4) ^ red[z & 15] ^ table[x & 15]
        x >>= 4
    return z


def _pad_to(data: bytes, n: int) -> bytes:
    return data + bytes(-len(data) % n)


def ghash(h: bytes, aad: bytes, ct: bytes) -> bytes:
    """GHASH_H(A | 0^v | C | 0^u | [len(A)]_64 | [len(C)]_64)."""
    if len(h) != 16:
        raise ValueError("GHASH: subkey must be 16 bytes")
    table = _ghash_table(int.from_bytes(h, "big"))
    data = (_pad_to(aad, 16) + _pad_to(ct, 16) +
            (8 * len(aad)).to_bytes(8, "big") + (8 * len(ct)).to_bytes(8, "big"))
    y = 0
    for blk in _blocks(data, 16):
        y = _gf128_mul_h(y ^ int.from_bytes(blk, "big"), table)
    return y.to_bytes(16, "big")


def _gcm_j0(c: BC, h: bytes, nonce: bytes) -> bytes:
    if c.bs != 16:
        raise ValueError("GCM: 128-bit block cipher required")
    if len(nonce) < 1:
        raise ValueError("GCM: empty nonce")
    if len(nonce) == 12:
        return nonce + b"\x00\x00\x00\x01"
    # J0 = GHASH_H(IV | 0^(s+64) | [len(IV)]_64)
    return ghash(h, b"", nonce)


def _inc32(block: bytes, by: int = 1) -> bytes:
    low = (int.from_bytes(block[12:], "big") + by) & 0xFFFFFFFF
    return block[:12] + low.to_bytes(4, "big")


def _gctr(c: BC, icb: bytes, data: bytes) -> bytes:
    return ctr(c, lambda i: _inc32(icb, i), data)


def _gcm_tag(c: BC, h: bytes, j0: bytes, aad: bytes, ct: bytes) -> bytes:
    return _xor(ghash(h, aad, ct), c.enc(j0))


def gcm_encrypt(c: BC, nonce: bytes, aad: bytes, pt: bytes):
    """Returns (ciphertext, 16-byte tag)."""
    h = c.enc(bytes(16)) if c.bs == 16 else b""
    j0 = _gcm_j0(c, h, nonce)
    ct = _gctr(c, _inc32(j0), pt)
    return ct, _gcm_tag(c, h, j0, aad, ct)


def gcm_decrypt(c: BC, nonce: bytes, aad: bytes, ct: bytes, tag: bytes):
    """`tag` (4..16 bytes) is compared with the leading bytes of the full tag."""
    h = c.enc(bytes(16)) if c.bs == 16 else b""
    j0 = _gcm_j0(c, h, nonce)
    if not 4 <= len(tag) <= 16:
        return None
    if not _ct_eq(_gcm_tag(c, h, j0, aad, ct)[:len(tag)], tag):
        return None
    return _gctr(c, _inc32(j0), ct)


# ==========================================================================
# SP 800-38C / RFC 3610: CCM
# ==========================================================================

def _ccm_check(c: BC, nonce: bytes, mac_len: int) -> int:
    if c.bs != 16:
        raise ValueError("CCM: 128-bit block cipher required")
    if not 7 <= len(nonce) <= 13:
        raise ValueError("CCM: nonce must be 7..13 bytes")
    if mac_len not in (4, 6, 8, 10, 12, 14, 16):
        raise ValueError("CCM: invalid tag length")
    return 15 - len(nonce)                      # q


def _ccm_mac(c: BC, nonce: bytes, aad: bytes, pt: bytes, mac_len: int, q: int) -> bytes:
    """T = MSB_Tlen(CBC-MAC(B_0 .. B_r)), formatting function of appendix A.2."""
    flags = (0x40 if aad else 0) | (((mac_len - 2) // 2) << 3) | (q - 1)
    b = bytes([flags]) + nonce + len(pt).to_bytes(q, "big")
    if aad:
        a = len(aad)
        if a < 0xFF00:
            enc_a = a.to_bytes(2, "big")
        elif a < (1 << 32):
            enc_a = b"\xff\xfe" + a.to_bytes(4, "big")
        else:
            enc_a = b"\xff\xff" + a.to_bytes(8, "big")
        b += _pad_to(enc_a + aad, 16)
    b += _pad_to(pt, 16)
    y = bytes(16)
    for blk in _blocks(b, 16):
        y = c.enc(_xor(y, blk))
    return y[:mac_len]


def _ccm_ctr(nonce: bytes, q: int):
    # Ctr_i = [flags = q-1] | N | [i]_q
    return ctr_layout(bytes([q - 1]) + nonce, b"", q, 0)


def ccm_encrypt(c: BC, nonce: bytes, aad: bytes, pt: bytes, mac_len: int):
    """Returns (ciphertext, tag of mac_len bytes)."""
    q = _ccm_check(c, nonce, mac_len)
    if len(pt) >= (1 << (8 * q)):
        raise ValueError("CCM: message too long for this nonce length")
    t = _ccm_mac(c, nonce, aad, pt, mac_len, q)
    blocks = _ccm_ctr(nonce, q)
    s0 = c.enc(blocks(0))
    ct = ctr(c, lambda i: blocks(i + 1), pt)
    return ct, _xor_prefix(t, s0)


def ccm_decrypt(c: BC, nonce: bytes, aad: bytes, ct: bytes, tag: bytes, mac_len: int = None):
    if mac_len is None:
        mac_len = len(tag)
    q = _ccm_check(c, nonce, mac_len)
    if len(ct) >= (1 << (8 * q)):
        raise ValueError("CCM: message too long for this nonce length")
    if len(tag) != mac_len:
        return None
    blocks = _ccm_ctr(nonce, q)
    pt = ctr(c, lambda i: blocks(i + 1), ct)
    t = _xor_prefix(tag, c.enc(blocks(0)))
    if not _ct_eq(t, _ccm_mac(c, nonce, aad, pt, mac_len, q)):
        return None
    return pt


# ==========================================================================
# EAX (Bellare, Rogaway, Wagner)
# ==========================================================================

def _omac_t(c: BC, t: int, msg: bytes) -> bytes:
    """OMAC^t_K(M) = OMAC_K([t]_n | M)."""
    return cmac(c, t.to_bytes(c.bs, "big") + msg)


def _eax_core(c: BC, nonce: bytes, aad: bytes, ct: bytes) -> bytes:
    n = _omac_t(c, 0, nonce)
    h = _omac_t(c, 1, aad)
    x = _omac_t(c, 2, ct)
    return _xor(_xor(n, h), x)


def _eax_ctr(c: BC, nonce: bytes, data: bytes) -> bytes:
    n = _omac_t(c, 0, nonce)
    return ctr(c, ctr_layout(b"", b"", c.bs, int.from_bytes(n, "big")), data)


def eax_encrypt(c: BC, nonce: bytes, aad: bytes, pt: bytes, mac_len: int = None):
    """Returns (ciphertext, tag of mac_len bytes); mac_len defaults to the block size."""
    if mac_len is None:
        mac_len = c.bs
    if not 1 <= mac_len <= c.bs:
        raise ValueError("EAX: invalid tag length")
    ct = _eax_ctr(c, nonce, pt)
    return ct, _eax_core(c, nonce, aad, ct)[:mac_len]


def eax_decrypt(c: BC, nonce: bytes, aad: bytes, ct: bytes, tag: bytes, mac_len: int = None):
    if mac_len is None:
        mac_len = len(tag)
    if not 1 <= mac_len <= c.bs:
        raise ValueError("EAX: invalid tag length")
    if len(tag) != mac_len:
        return None
    if not _ct_eq(_eax_core(c, nonce, aad, ct)[:mac_len], tag):
        return None
    return _eax_ctr(c, nonce, ct)


# ==========================================================================
# RFC 5297: S2V, SIV
# ==========================================================================

def s2v(c: BC, strings) -> bytes:
    """S2V(K, S1, ..., Sn) with CMAC over the block cipher `c` (bs must be 16)."""
    if c.bs != 16:
        raise ValueError("S2V: 128-bit block cipher required")
    strings = [bytes(s) for s in strings]
    if not strings:
        return cmac(c, bytes(15) + b"\x01")                 # V = AES-CMAC(K, <one>)
    d = cmac(c, bytes(16))                                   # D = AES-CMAC(K, <zero>)
    for s in strings[:-1]:
        d = _xor(_dbl(d), cmac(c, s))
    last = strings[-1]
    if len(last) >= 16:
        t = last[:-16] + _xor(last[-16:], d)                 # Sn xorend D
    else:
        t = _xor(_dbl(d), last + b"\x80" + bytes(15 - len(last)))  # dbl(D) xor pad(Sn)
    return cmac(c, t)


def _siv_split(key: bytes):
    if len(key) not in (32, 48, 64):
        raise ValueError("SIV: key must be 32, 48 or 64 bytes")
    half = len(key) // 2
    return aes_bc(key[:half]), aes_bc(key[half:])


def _siv_ctr(c2: BC, v: bytes, data: bytes) -> bytes:
    # Q = V bitand (1^64 | 0 | 1^31 | 0 | 1^31)
    q = int.from_bytes(v, "big") & ~((1 << 63) | (1 << 31))
    return ctr(c2, ctr_layout(b"", b"", 16, q), data)


def siv_encrypt(key: bytes, aad_list, pt: bytes):
    """Returns (ciphertext, 16-byte synthetic IV).  RFC 5297 output is V | C.
    A nonce, if any, is by convention the last element of aad_list."""
    c1, c2 = _siv_split(key)
    v = s2v(c1, list(aad_list) + [pt])
    return _siv_ctr(c2, v, pt), v


def siv_decrypt(key: bytes, aad_list, ct: bytes, tag: bytes):
    c1, c2 = _siv_split(key)
    if len(tag) != 16:
        return None
    pt = _siv_ctr(c2, tag, ct)
    if not _ct_eq(s2v(c1, list(aad_list) + [pt]), tag):
        return None
    return pt


# ==========================================================================
# RFC 7253: OCB3
# ==========================================================================

def _ntz(i: int) -> int:
    return (i & -i).bit_length() - 1


class _OcbL:
    """L_*, L_$, L_0, L_1, ... of RFC 7253 section 4.1 (computed lazily)."""

    def __init__(self, c: BC):
        self.star = c.enc(bytes(16))
        self.dollar = _dbl(self.star)
        self._l = [_dbl(self.dollar)]

    def __getitem__(self, i: int) -> bytes:
        while len(self._l) <= i:
            self._l.append(_dbl(self._l[-1]))
        return self._l[i]


def _ocb_hash(c: BC, l: _OcbL, aad: bytes) -> bytes:
    full = len(aad) // 16
    s = bytes(16)
    offset = bytes(16)
    for i in range(1, full + 1):
        offset = _xor(offset, l[_ntz(i)])
        s = _xor(s, c.enc(_xor(aad[16 * (i - 1):16 * i], offset)))
    rest = aad[16 * full:]
    if rest:
        offset = _xor(offset, l.star)
        cipher_input = _xor(rest + b"\x80" + bytes(15 - len(rest)), offset)
        s = _xor(s, c.enc(cipher_input))
    return s


def _ocb_offset0(c: BC, nonce: bytes, mac_len: int) -> bytes:
    if c.bs != 16:
        raise ValueError("OCB: 128-bit block cipher required")
    if len(nonce) > 15:
        raise ValueError("OCB: nonce must be at most 15 bytes")
    if not 1 <= mac_len <= 16:
        raise ValueError("OCB: invalid tag length")
    # Nonce = num2str(TAGLEN mod 128, 7) | zeros(120 - bitlen(N)) | 1 | N
    n = (((8 * mac_len) % 128) << 121) | (1 << (8 * len(nonce))) | int.from_bytes(nonce, "big")
    bottom = n & 0x3F
    ktop = int.from_bytes(c.enc((n & ~0x3F).to_bytes(16, "big")), "big")
    # Stretch = Ktop | (Ktop[1..64] xor Ktop[9..72])    (192 bits)
    stretch = (ktop << 64) | ((ktop >> 64) ^ ((ktop >> 56) & ((1 << 64) - 1)))
    # Offset_0 = Stretch[1+bottom .. 128+bottom]
    return ((stretch >> (64 - bottom)) & ((1 << 128) - 1)).to_bytes(16, "big")


def _ocb_crypt(c: BC, nonce: bytes, aad: bytes, data: bytes, mac_len: int, decrypt: bool):
    offset = _ocb_offset0(c, nonce, mac_len)
    l = _OcbL(c)
    checksum = bytes(16)
    out = []
    full = len(data) // 16
    for i in range(1, full + 1):
        blk = data[16 * (i - 1):16 * i]
        offset = _xor(offset, l[_ntz(i)])
        if decrypt:
            res = _xor(offset, c.dec(_xor(blk, offset)))
            checksum = _xor(checksum, res)
        else:
            res = _xor(offset, c.enc(_xor(blk, offset)))
            checksum = _xor(checksum, blk)
        out.append(res)
    rest = data[16 * full:]
    if rest:
        offset = _xor(offset, l.star)
        pad = c.enc(offset)
        res = _xor_prefix(rest, pad)
        out.append(res)
        p_star = res if decrypt else rest
        checksum = _xor(checksum, p_star + b"\x80" + bytes(15 - len(p_star)))
    tag = _xor(c.enc(_xor(_xor(checksum, offset), l.dollar)), _ocb_hash(c, l, aad))
    return b"".join(out), tag[:mac_len]


def ocb_encrypt(c: BC, nonce: bytes, aad: bytes, pt: bytes, mac_len: int = 16):
    """Returns (ciphertext, tag of mac_len bytes).  RFC 7253 allows nonces of
    0..15 bytes and any TAGLEN up to 128 bits; both are accepted here."""
    return _ocb_crypt(c, nonce, aad, pt, mac_len, False)


def ocb_decrypt(c: BC, nonce: bytes, aad: bytes, ct: bytes, tag: bytes, mac_len: int = None):
    if mac_len is None:
        mac_len = len(tag)
    pt, t = _ocb_crypt(c, nonce, aad, ct, mac_len, True)
    if len(tag) != mac_len or not _ct_eq(t, tag):
        return None
    return pt


# ==========================================================================
# RFC 3394 / RFC 5649: AES key wrap (KW) and key wrap with padding (KWP)
# ==========================================================================

_KW_IV = bytes.fromhex("A6A6A6A6A6A6A6A6")
_KWP_IV = bytes.fromhex("A65959A6")


def kw_W(c: BC, A: bytes, blocks) -> bytes:
    """The wrapping function of RFC 3394 section 2.2.1 (index based variant)
    applied to the initial value A and the 64-bit blocks R[1..n].  Defined here
    for any n >= 1; kw_wrap/kwp_wrap only call it with n >= 2."""
    if c.bs != 16:
        raise ValueError("KW: 128-bit block cipher required")
    r = [bytes(b) for b in blocks]
    if len(A) != 8 or not r or any(len(b) != 8 for b in r):
        raise ValueError("KW: A and every block must be 8 bytes")
    n = len(r)
    a = bytes(A)
    for j in range(6):
        for i in range(1, n + 1):
            b = c.enc(a + r[i - 1])
            t = n * j + i
            a = _xor(b[:8], t.to_bytes(8, "big"))
            r[i - 1] = b[8:]
    return a + b"".join(r)


def kw_W_inv(c: BC, ct: bytes):
    """Inverse of kw_W (RFC 3394 section 2.2.2 steps 1-2).  Returns (A, [R1..Rn]).
    No integrity check is made."""
    if c.bs != 16:
        raise ValueError("KW: 128-bit block cipher required")
    if len(ct) % 8 or len(ct) < 16:
        raise ValueError("KW: ciphertext must be a multiple of 8 bytes, at least 16")
    a = ct[:8]
    r = _blocks(ct[8:], 8)
    n = len(r)
    for j in range(5, -1, -1):
        for i in range(n, 0, -1):
            t = n * j + i
            b = c.dec(_xor(a, t.to_bytes(8, "big")) + r[i - 1])
            a = b[:8]
            r[i - 1] = b[8:]
    return a, r


def kw_wrap(c: BC, pt: bytes) -> bytes:
    if len(pt) % 8 or len(pt) < 16:
        raise ValueError("KW: plaintext must be a multiple of 8 bytes, at least 16")
    return kw_W(c, _KW_IV, _blocks(pt, 8))


def kw_unwrap(c: BC, ct: bytes):
    """Returns the key data, or None if the ICV check fails or the length is
    malformed (not a multiple of 8, or fewer than 3 semiblocks)."""
    if len(ct) % 8 or len(ct) < 24:
        return None
    a, r = kw_W_inv(c, ct)
    if not _ct_eq(a, _KW_IV):
        return None
    return b"".join(r)


def kwp_wrap(c: BC, pt: bytes) -> bytes:
    if not 1 <= len(pt) < (1 << 32):
        raise ValueError("KWP: plaintext must be 1 .. 2^32-1 bytes")
    aiv = _KWP_IV + len(pt).to_bytes(4, "big")
    padded = _pad_to(pt, 8)
    if len(padded) == 8:
        return c.enc(aiv + padded)               # single block: plain ECB
    return kw_W(c, aiv, _blocks(padded, 8))


def kwp_unwrap(c: BC, ct: bytes):
    if len(ct) % 8 or len(ct) < 16:
        return None
    if len(ct) == 16:
        b = c.dec(ct)
        a, padded = b[:8], b[8:]
    else:
        a, r = kw_W_inv(c, ct)
        padded = b"".join(r)
    if not _ct_eq(a[:4], _KWP_IV):
        return None
    mli = int.from_bytes(a[4:], "big")
    n = len(padded) // 8
    if not 8 * (n - 1) < mli <= 8 * n:
        return None
    if any(padded[mli:]):
        return None
    return padded[:mli]


# ==========================================================================
# Self test
# ==========================================================================

_VEC_DIR = "/repo/test_vectors/pycryptodome_test_vectors/Cipher"


def _check(cond, msg, *args):
    if not cond:
        raise AssertionError(msg % args if args else msg)


def _openssl(args, data: bytes = b"") -> bytes:
    import subprocess
    p = subprocess.run(["openssl"] + args, input=data, stdout=subprocess.PIPE,
                       stderr=subprocess.PIPE)
    if p.returncode != 0:
        raise RuntimeError("openssl %s failed: %s" % (" ".join(args), p.stderr.decode(errors="replace")))
    return p.stdout


def _openssl_3des_bc(key: bytes) -> BC:
    """Three-key triple DES as a BC, every block operation being one call of
    `openssl enc -des-ede3-ecb` (slow; only for a handful of 64-bit block checks)."""
    @functools.lru_cache(maxsize=None)
    def enc(b):
        return _openssl(["enc", "-des-ede3-ecb", "-nopad", "-K", key.hex()], b)

    @functools.lru_cache(maxsize=None)
    def dec(b):
        return _openssl(["enc", "-d", "-des-ede3-ecb", "-nopad", "-K", key.hex()], b)
    return BC(8, enc, dec)


def _selftest_internal(counts):
    """Known answers typed in from the specifications + internal consistency."""
    import random
    rnd = random.Random(2)
    n = 0
    H = bytes.fromhex

    # --- SP 800-38A appendix F (AES-128 examples, first blocks) ---------------
    key = H("2b7e151628aed2a6abf7158809cf4f3c")
    c = aes_bc(key)
    pt = H("6bc1bee22e409f96e93d7e117393172aae2d8a571e03ac9c9eb76fac45af8e51"
           "30c81c46a35ce411e5fbc1191a0a52eff69f2445df4f9b17ad2b417be66c3710")
    iv = bytes(range(16))
    _check(ecb_encrypt(c, pt)[:16].hex() == "3ad77bb40d7a3660a89ecaf32466ef97", "38A F.1.1")
    _check(cbc_encrypt(c, iv, pt)[:32].hex() ==
           "7649abac8119b246cee98e9b12e9197d5086cb9b507219ee95db113a917678b2", "38A F.2.1")
    _check(cfb_encrypt(c, iv, pt[:18], 1).hex() == "3b79424c9c0dd436bace9e0ed4586a4f32b9", "38A F.3.7")
    _check(cfb_encrypt(c, iv, pt, 16)[:32].hex() ==
           "3b3fd92eb72dad20333449f8e83cfb4ac8a64537a0b3a93fcde3cdad9f1ce58b", "38A F.3.13")
    _check(ofb(c, iv, pt)[:32].hex() ==
           "3b3fd92eb72dad20333449f8e83cfb4a7789508d16918f03f53c52dac54ed825", "38A F.4.1")
    ctr0 = H("f0f1f2f3f4f5f6f7f8f9fafbfcfdfeff")
    _check(ctr(c, ctr_layout(b"", b"", 16, int.from_bytes(ctr0, "big")), pt).hex() ==
           "874d6191b620e3261bef6864990db6ce9806f66b7970fdff8617187bb9fffdff"
           "5ae4df3edbd5d35e5b4f09020db03eab1e031dda2fbe03d1792170a0f3009cee", "38A F.5.1")
    n += 6

    # --- SP 800-38B appendix D.1 / RFC 4493 ------------------------------------
    _check(cmac(c, b"").hex() == "bb1d6929e95937287fa37d129b756746", "CMAC empty")
    _check(cmac(c, pt[:16]).hex() == "070a16b46b4d4144f79bdd9dd04a287c", "CMAC 16")
    _check(cmac(c, pt[:40]).hex() == "dfa66747de9ae63030ca32611497c827", "CMAC 40")
    _check(cmac(c, pt).hex() == "51f0bebf7e3b9d92fc49741779363cfe", "CMAC 64")
    n += 4

    # --- GCM: test cases 1-4 and 6 of the GCM specification ---------------------
    z = aes_bc(bytes(16))
    _check(gcm_encrypt(z, bytes(12), b"", b"") == (b"", H("58e2fccefa7e3061367f1d57a4e7455a")), "GCM TC1")
    _check(gcm_encrypt(z, bytes(12), b"", bytes(16)) ==
           (H("0388dace60b6a392f328c2b971b2fe78"), H("ab6e47d42cec13bdf53a67b21257bddf")), "GCM TC2")
    g = aes_bc(H("feffe9928665731c6d6a8f9467308308"))
    gp = H("d9313225f88406e5a55909c5aff5269a86a7a9531534f7da2e4c303d8a318a72"
           "1c3c0c95956809532fcf0e2449a6b525b16aedf5aa0de657ba637b39")
    ga = H("feedfacedeadbeeffeedfacedeadbeefabaddad2")
    ct, tag = gcm_encrypt(g, H("cafebabefacedbaddecaf888"), ga, gp)
    _check(tag.hex() == "5bc94fbc3221a5db94fae95ae7121a47", "GCM TC4 tag")
    giv = H("9313225df88406e555909c5aff5269aa6a7a9538534f7da1e4c303d2a318a728"
            "c3c0c95156809539fcf0e2429a6b525416aedbf5a0de6a57a637b39b")
    ct, tag = gcm_encrypt(g, giv, ga, gp)
    _check(tag.hex() == "619cc5aefffe0bfa462af43c1699d050", "GCM TC6 tag (60-byte IV)")
    _check(ct[:16].hex() == "8ce24998625615b603a033aca13fb894", "GCM TC6 ct")
    n += 5
    for _ in range(40):                 # table driven multiply vs. algorithm 1
        x, y = rnd.getrandbits(128), rnd.getrandbits(128)
        _check(_gf128_mul_h(x, _ghash_table(y)) == _gf128_mul_bitwise(x, y), "GF(2^128) multiply")
        _check(_gf128_mul_bitwise(x, y) == _gf128_mul_bitwise(y, x), "GF(2^128) commutativity")
        n += 1
    _check(_gf128_mul_bitwise(1 << 127, 0x1234) == 0x1234, "GF(2^128) identity")

    # --- CCM: SP 800-38C examples 1-3, RFC 3610 packet vector #1 ---------------
    k = aes_bc(H("404142434445464748494a4b4c4d4e4f"))
    _check(ccm_encrypt(k, H("10111213141516"), H("0001020304050607"), H("20212223"), 4) ==
           (H("7162015b"), H("4dac255d")), "38C example 1")
    _check(ccm_encrypt(k, H("1011121314151617"), bytes(range(16)), bytes(range(0x20, 0x30)), 6) ==
           (H("d2a1f0e051ea5f62081a7792073d593d"), H("1fc64fbfaccd")), "38C example 2")
    _check(ccm_encrypt(k, H("101112131415161718191a1b"), bytes(range(20)), bytes(range(0x20, 0x38)), 8) ==
           (H("e3b201a9f5b71a7a9b1ceaeccd97e70b6176aad9a4428aa5"), H("484392fbc1b09951")), "38C example 3")
    # example 4: 65536 bytes of associated data (6-byte length encoding)
    a4 = bytes(range(256)) * 256
    _check(ccm_encrypt(k, H("101112131415161718191a1b1c"), a4, bytes(range(0x20, 0x40)), 14) ==
           (H("69915dad1e84c6376a68c2967e4dab615ae0fd1faec44cc484828529463ccf72"),
            H("b4ac6bec93e8598e7f0dadbcea5b")), "38C example 4")
    r = aes_bc(H("c0c1c2c3c4c5c6c7c8c9cacbcccdcecf"))
    _check(ccm_encrypt(r, H("00000003020100a0a1a2a3a4a5"), bytes(range(8)), bytes(range(8, 0x1f)), 8) ==
           (H("588c979a61c663d2f066d0c2c0f989806d5f6b61dac384"), H("17e8d12cfdf926e0")), "RFC 3610 #1")
    n += 5

    # --- EAX paper, appendix test vectors ---------------------------------------
    e = aes_bc(H("233952dee4d5ed5f9b9c6d6ff80ff478"))
    _check(eax_encrypt(e, H("62ec67f9c3a4a407fcb2a8c49031a8b3"), H("6bfb914fd07eae6b"), b"", 16) ==
           (b"", H("e037830e8389f27b025a2d6527e79d01")), "EAX vector 1")
    e = aes_bc(H("91945d3f4dcbee0bf45ef52255f095a4"))
    _check(eax_encrypt(e, H("becaf043b0a23d843194ba972c66debd"), H("fa3bfd4806eb53fa"), H("f7fb"), 16) ==
           (H("19dd"), H("5c4c9331049d0bdab0277408f67967e5")), "EAX vector 2")
    n += 2

    # --- RFC 5297 appendix A.1 and A.2 --------------------------------------------
    sk = H("fffefdfcfbfaf9f8f7f6f5f4f3f2f1f0f0f1f2f3f4f5f6f7f8f9fafbfcfdfeff")
    ct, v = siv_encrypt(sk, [H("101112131415161718191a1b1c1d1e1f2021222324252627")],
                        H("112233445566778899aabbccddee"))
    _check((v + ct).hex() == "85632d07c6e8f37f950acd320a2ecc9340c02b9690c4dc04daef7f6afe5c", "RFC 5297 A.1")
    sk = H("7f7e7d7c7b7a79787776757473727170404142434445464748494a4b4c4d4e4f")
    ads = [H("00112233445566778899aabbccddeeffdeaddadadeaddadaffeeddccbbaa99887766554433221100"),
           H("102030405060708090a0"), H("09f911029d74e35bd84156c5635688c0")]
    sp = H("7468697320697320736f6d6520706c61696e7465787420746f20656e6372797074207573696e67205349562d414553")
    ct, v = siv_encrypt(sk, ads, sp)
    _check(v.hex() == "7bdb6e3b432667eb06f4d14bff2fbd0f", "RFC 5297 A.2 V")
    _check(ct.hex() == "cb900f2fddbe404326601965c889bf17dba77ceb094fa663b7a3f748ba8af829ea64ad544a272e9c485b62a3fd5c0d",
           "RFC 5297 A.2 C")
    _check(siv_decrypt(sk, ads, ct, v) == sp, "RFC 5297 A.2 decrypt")
    n += 4

    # --- RFC 7253 appendix A: sample results + iterated test ------------------------
    o = aes_bc(bytes(range(16)))
    _check(ocb_encrypt(o, H("BBAA99887766554433221100"), b"", b"", 16) ==
           (b"", H("785407BFFFC8AD9EDCC5520AC9111EE6")), "RFC 7253 sample 1")
    ct, tag = ocb_encrypt(o, H("BBAA99887766554433221101"), bytes(range(8)), bytes(range(8)), 16)
    _check((ct + tag).hex().upper() == "6820B3657B6F615A5725BDA0D3B4EB3A257C9AF1F8F03009", "RFC 7253 sample 2")
    o96 = aes_bc(H("0F0E0D0C0B0A09080706050403020100"))
    ct, tag = ocb_encrypt(o96, H("BBAA9988776655443322110D"), bytes(range(40)), bytes(range(40)), 12)
    _check((ct + tag).hex().upper() ==
           "1792A4E31E0755FB03E31B22116E6C2DDF9EFD6E33D536F1A0124B0A55BAE884ED93481529C76B6A"
           "D0C515F4D1CDD4FDAC4F02AA", "RFC 7253 sample with TAGLEN 96")
    n += 3
    want = {(16, 16): "67E944D23256C5E0B6C61FA22FDF1EA2", (24, 16): "F673F2C3E7174AAE7BAE986CA9F29E17",
            (32, 16): "D90EB8E9C977C88B79DD793D7FFA161C", (16, 12): "77A3D8E73589158D25D01209",
            (24, 12): "05D56EAD2752C86BE6932C5E", (32, 12): "5458359AC23B0CBA9E6330DD",
            (16, 8): "192C9B7BD90BA06A", (24, 8): "0066BC6E0EF34E24", (32, 8): "7D4EA5D445501CBE"}
    for (klen, tlen), expected in want.items():
        kk = aes_bc(bytes(klen - 1) + bytes([8 * tlen]))     # K = zeros(KEYLEN-8) | num2str(TAGLEN,8)
        acc = b""
        for i in range(128):
            s = bytes(i)
            for ctrv, (aa, pp) in ((3 * i + 1, (s, s)), (3 * i + 2, (b"", s)), (3 * i + 3, (s, b""))):
                nn = ctrv.to_bytes(12, "big")                # N = num2str(.., 96)
                ct, tag = ocb_encrypt(kk, nn, aa, pp, tlen)
                acc += ct + tag
        ct, tag = ocb_encrypt(kk, (385).to_bytes(12, "big"), acc, b"", tlen)
        _check(tag.hex().upper() == expected, "RFC 7253 iterated test KEYLEN=%d TAGLEN=%d: %s",
               8 * klen, 8 * tlen, tag.hex())
        n += 1

    # --- RFC 3394 section 4, RFC 5649 section 6 ---------------------------------------
    kek = aes_bc(bytes(range(16)))
    kd = H("00112233445566778899AABBCCDDEEFF")
    _check(kw_wrap(kek, kd).hex().upper() == "1FA68B0A8112B447AEF34BD8FB5A7B829D3E862371D2CFE5", "RFC 3394 4.1")
    kek = aes_bc(bytes(range(32)))
    kd = H("00112233445566778899AABBCCDDEEFF000102030405060708090A0B0C0D0E0F")
    w = kw_wrap(kek, kd)
    _check(w.hex().upper() == "28C9F404C4B810F4CBCCB35CFB87F8263F5786E2D80ED326CBC7F0E71A99F43BFB988B9B7A02DD21",
           "RFC 3394 4.6")
    _check(kw_unwrap(kek, w) == kd, "RFC 3394 4.6 unwrap")
    kek = aes_bc(H("5840df6e29b02af1ab493b705bf16ea1ae8338f4dcc176a8"))
    kd = H("c37b7e6492584340bed12207808941155068f738")
    w = kwp_wrap(kek, kd)
    _check(w.hex() == "138bdeaa9b8fa7fc61f97742e72248ee5ae6ae5360d1ae6a5f54f373fa543b6a", "RFC 5649 (20 octets)")
    _check(kwp_unwrap(kek, w) == kd, "RFC 5649 unwrap")
    kd = H("466f7250617369")
    w = kwp_wrap(kek, kd)
    _check(w.hex() == "afbeb0f07dfbf5419200f2ccb50bb24f", "RFC 5649 (7 octets)")
    _check(kwp_unwrap(kek, w) == kd, "RFC 5649 unwrap (7 octets)")
    n += 7

    # --- round trips / tamper detection, 16 and 8 byte blocks ------------------------------
    def toy8(k):
        # 4-round Feistel network on 64-bit blocks: only used for consistency checks
        import hashlib

        def f(i, half):
            return hashlib.sha256(k + bytes([i]) + half).digest()[:4]

        def enc(b):
            l_, r_ = b[:4], b[4:]
            for i in range(4):
                l_, r_ = r_, _xor(l_, f(i, r_))
            return l_ + r_

        def dec(b):
            l_, r_ = b[:4], b[4:]
            for i in range(3, -1, -1):
                l_, r_ = _xor(r_, f(i, l_)), l_
            return l_ + r_
        return BC(8, enc, dec)

    for it in range(60):
        big = it % 2 == 0
        c = aes_bc(rnd.randbytes(rnd.choice((16, 24, 32)))) if big else toy8(rnd.randbytes(8))
        bs = c.bs
        blk = rnd.randbytes(bs)
        _check(c.dec(c.enc(blk)) == blk, "block primitive round trip")
        ln = rnd.choice((0, 1, bs - 1, bs, bs + 1, 3 * bs, rnd.randrange(0, 100)))
        m = rnd.randbytes(ln)
        m_al = rnd.randbytes(bs * rnd.randrange(0, 5))
        iv = rnd.randbytes(bs)
        aad = rnd.randbytes(rnd.choice((0, 1, bs, rnd.randrange(0, 50))))
        _check(ecb_decrypt(c, ecb_encrypt(c, m_al)) == m_al, "ECB round trip")
        _check(cbc_decrypt(c, iv, cbc_encrypt(c, iv, m_al)) == m_al, "CBC round trip")
        seg = rnd.randrange(1, bs + 1)
        _check(cfb_decrypt(c, iv, cfb_encrypt(c, iv, m, seg), seg) == m, "CFB round trip")
        _check(ofb(c, iv, ofb(c, iv, m)) == m, "OFB round trip")
        if ln > bs:                     # CFB with s = b is OFB on the first block only
            _check(cfb_encrypt(c, iv, m, bs)[:bs] == ofb(c, iv, m)[:bs], "CFB/OFB first block")
        lay = ctr_layout(rnd.randbytes(bs - 3), b"", 3, (1 << 24) - 2, it % 4 == 1)
        _check(ctr(c, lay, ctr(c, lay, m)) == m, "CTR round trip")
        _check(lay(2)[-3:] == bytes(3), "CTR counter wrap-around")
        e = openpgp_encrypt(c, iv, m)
        _check(len(e) == len(m) + bs + 2 and openpgp_decrypt(c, e) == (iv, m, True), "OpenPGP round trip")
        bad = bytearray(e)
        bad[bs] ^= 1
        _check(openpgp_decrypt(c, bytes(bad))[2] is False, "OpenPGP quick check")
        nonce = rnd.randbytes(rnd.randrange(1, 2 * bs))
        tl = rnd.randrange(1, bs + 1)
        ct, tag = eax_encrypt(c, nonce, aad, m, tl)
        _check(len(tag) == tl and eax_decrypt(c, nonce, aad, ct, tag, tl) == m, "EAX round trip")
        _check(eax_decrypt(c, nonce, aad + b"x", ct, tag, tl) is None, "EAX tamper")
        n += 10
        if not big:
            continue
        ct, tag = gcm_encrypt(c, nonce, aad, m)
        tl = rnd.randrange(4, 17)
        _check(gcm_decrypt(c, nonce, aad, ct, tag[:tl]) == m, "GCM round trip")
        _check(gcm_decrypt(c, nonce, aad, ct, _xor(tag, bytes(15) + b"\x01")) is None, "GCM tamper")
        _check(gcm_decrypt(c, nonce, aad, ct, tag[:3]) is None, "GCM short tag")
        n13 = rnd.randbytes(rnd.randrange(7, 14))
        tl = rnd.choice((4, 6, 8, 10, 12, 14, 16))
        ct, tag = ccm_encrypt(c, n13, aad, m, tl)
        _check(ccm_decrypt(c, n13, aad, ct, tag, tl) == m, "CCM round trip")
        _check(ccm_decrypt(c, n13, aad, ct + b"\0", tag, tl) is None, "CCM tamper")
        n15 = rnd.randbytes(rnd.randrange(0, 16))
        tl = rnd.randrange(1, 17)
        ct, tag = ocb_encrypt(c, n15, aad, m, tl)
        _check(ocb_decrypt(c, n15, aad, ct, tag, tl) == m, "OCB round trip")
        _check(ocb_decrypt(c, n15, aad + b"\0", ct, tag, tl) is None, "OCB tamper")
        sk = rnd.randbytes(rnd.choice((32, 48, 64)))
        ads = [rnd.randbytes(rnd.randrange(0, 40)) for _ in range(rnd.randrange(0, 4))]
        ct, tag = siv_encrypt(sk, ads, m)
        _check(siv_decrypt(sk, ads, ct, tag) == m, "SIV round trip")
        _check(siv_decrypt(sk, ads + [b""], ct, tag) is None, "SIV tamper")
        kd = rnd.randbytes(8 * rnd.randrange(2, 9))
        w = kw_wrap(c, kd)
        _check(kw_unwrap(c, w) == kd and kw_W_inv(c, w) == (_KW_IV, _blocks(kd, 8)), "KW round trip")
        _check(kw_unwrap(c, w[:-1] + bytes([w[-1] ^ 1])) is None, "KW tamper")
        kd = rnd.randbytes(rnd.randrange(1, 50))
        w = kwp_wrap(c, kd)
        _check(len(w) == 8 + len(kd) + (-len(kd) % 8) and kwp_unwrap(c, w) == kd, "KWP round trip")
        n += 13
    # KWP unwrap checks on crafted inputs
    c = aes_bc(bytes(16))
    good = kw_W(c, _KWP_IV + (13).to_bytes(4, "big"), [bytes(8), b"\x01" * 5 + bytes(3)])
    _check(kwp_unwrap(c, good) == bytes(8) + b"\x01" * 5, "KWP crafted valid")
    for a, blks in ((_KWP_IV + (8).to_bytes(4, "big"), [bytes(8), bytes(8)]),        # MLI too small
                    (_KWP_IV + (17).to_bytes(4, "big"), [bytes(8), bytes(8)]),       # MLI too large
                    (_KWP_IV + (13).to_bytes(4, "big"), [bytes(8), bytes(7) + b"\x01"]),  # non-zero padding
                    (b"\xa6\x59\x59\xa7" + (13).to_bytes(4, "big"), [bytes(8), bytes(8)]),
                    (_KW_IV, [bytes(8), bytes(8)])):
        _check(kwp_unwrap(c, kw_W(c, a, blks)) is None, "KWP crafted invalid accepted")
        n += 1
    _check(kwp_unwrap(c, c.enc(_KWP_IV + (0).to_bytes(4, "big") + bytes(8))) is None, "KWP MLI=0 accepted")
    _check(kwp_unwrap(c, c.enc(_KWP_IV + (9).to_bytes(4, "big") + bytes(8))) is None, "KWP MLI=9 in one block")
    for bad_len in (0, 8, 15, 23, 25):
        _check(kw_unwrap(c, bytes(bad_len)) is None and kwp_unwrap(c, bytes(bad_len)) is None,
               "malformed length accepted")
    _check(kw_unwrap(c, bytes(16)) is None, "KW 16-byte input accepted")
    counts["internal_kat_and_roundtrip"] = n


def _selftest_openssl(counts):
    """Cross-check against the system libcrypto through the `openssl` CLI."""
    import random
    import shutil
    if shutil.which("openssl") is None:
        counts["openssl_cli_aes"] = counts["openssl_cli_3des"] = 0
        return
    rnd = random.Random(1)
    n = 0
    lengths = [0, 1, 2, 15, 16, 17, 31, 32, 33, 47, 63, 64, 65, 100, 255, 257]

    def pick_len(i):
        return lengths[i % len(lengths)] if i < 2 * len(lengths) else rnd.randrange(0, 400)

    for i in range(36):
        klen = (16, 24, 32)[i % 3]
        bits = 8 * klen
        key = rnd.randbytes(klen)
        iv = rnd.randbytes(16)
        c = aes_bc(key)
        kargs = ["-K", key.hex(), "-iv", iv.hex()]
        m = rnd.randbytes(pick_len(i))
        m_al = rnd.randbytes(16 * rnd.randrange(0, 9))

        got = _openssl(["enc", "-aes-%d-cbc" % bits, "-nopad"] + kargs, m_al)
        _check(got == cbc_encrypt(c, iv, m_al), "openssl CBC mismatch key=%s iv=%s pt=%s", key.hex(), iv.hex(), m_al.hex())
        _check(cbc_decrypt(c, iv, got) == m_al, "CBC decrypt")
        got = _openssl(["enc", "-aes-%d-ecb" % bits, "-nopad", "-K", key.hex()], m_al)
        _check(got == ecb_encrypt(c, m_al) and ecb_decrypt(c, got) == m_al, "openssl ECB mismatch")
        got = _openssl(["enc", "-aes-%d-cfb" % bits] + kargs, m)
        _check(got == cfb_encrypt(c, iv, m, 16), "openssl CFB128 mismatch key=%s iv=%s pt=%s", key.hex(), iv.hex(), m.hex())
        _check(cfb_decrypt(c, iv, got, 16) == m, "CFB128 decrypt")
        got = _openssl(["enc", "-aes-%d-cfb8" % bits] + kargs, m)
        _check(got == cfb_encrypt(c, iv, m, 1), "openssl CFB8 mismatch key=%s iv=%s pt=%s", key.hex(), iv.hex(), m.hex())
        _check(cfb_decrypt(c, iv, got, 1) == m, "CFB8 decrypt")
        got = _openssl(["enc", "-aes-%d-ofb" % bits] + kargs, m)
        _check(got == ofb(c, iv, m), "openssl OFB mismatch key=%s iv=%s pt=%s", key.hex(), iv.hex(), m.hex())
        # force a carry across the low 32/64 bits of the counter now and then
        civ = iv if i % 3 else iv[:rnd.choice((8, 12, 15))].ljust(16, b"\xff")
        got = _openssl(["enc", "-aes-%d-ctr" % bits, "-K", key.hex(), "-iv", civ.hex()], m)
        _check(got == ctr(c, ctr_layout(b"", b"", 16, int.from_bytes(civ, "big")), m),
               "openssl CTR mismatch key=%s iv=%s pt=%s", key.hex(), civ.hex(), m.hex())
        n += 6

        # CMAC
        got = _openssl(["mac", "-cipher", "aes-%d-cbc" % bits, "-macopt", "hexkey:" + key.hex(),
                        "CMAC"], m).decode().strip()
        _check(bytes.fromhex(got) == cmac(c, m), "openssl CMAC mismatch key=%s msg=%s", key.hex(), m.hex())
        n += 1
        if i < 3:       # RFC 5297: S2V of an empty vector is AES-CMAC(K, <one>), <one> = 0^127 | 1
            got = _openssl(["mac", "-cipher", "aes-%d-cbc" % bits, "-macopt", "hexkey:" + key.hex(),
                            "CMAC"], bytes(15) + b"\x01").decode().strip()
            _check(bytes.fromhex(got) == s2v(c, []), "S2V with no strings")
            n += 1

        # key wrap
        kd = rnd.randbytes(8 * rnd.randrange(2, 12))
        try:
            got = _openssl(["enc", "-id-aes%d-wrap" % bits, "-K", key.hex(), "-iv", "a6a6a6a6a6a6a6a6"], kd)
        except RuntimeError:
            got = None
        if got is not None:
            _check(got == kw_wrap(c, kd), "openssl KW mismatch key=%s pt=%s", key.hex(), kd.hex())
            _check(kw_unwrap(c, got) == kd, "KW unwrap")
            n += 1
        kd = rnd.randbytes(rnd.choice((1, 7, 8, 9, 15, 16, 17, rnd.randrange(1, 90))))
        try:
            got = _openssl(["enc", "-id-aes%d-wrap-pad" % bits, "-K", key.hex(), "-iv", "a65959a6"], kd)
        except RuntimeError:
            got = None
        if got is not None:
            _check(got == kwp_wrap(c, kd), "openssl KWP mismatch key=%s pt=%s", key.hex(), kd.hex())
            _check(kwp_unwrap(c, got) == kd, "KWP unwrap")
            n += 1
    counts["openssl_cli_aes"] = n

    # 64-bit block size: use `openssl enc -des-ede3-ecb` itself as the block primitive
    n = 0
    for i in range(6):
        key = rnd.randbytes(24)
        iv = rnd.randbytes(8)

        c = _openssl_3des_bc(key)
        try:
            c.enc(bytes(8))
        except RuntimeError:
            break
        kargs = ["-K", key.hex(), "-iv", iv.hex()]
        m = rnd.randbytes((0, 7, 8, 9, 21, 40)[i])
        m_al = rnd.randbytes(8 * (i + 1))
        got = _openssl(["enc", "-des-ede3-cbc", "-nopad"] + kargs, m_al)
        _check(got == cbc_encrypt(c, iv, m_al) and cbc_decrypt(c, iv, got) == m_al, "openssl 3DES CBC mismatch")
        _check(_openssl(["enc", "-des-ede3-cfb"] + kargs, m) == cfb_encrypt(c, iv, m, 8), "openssl 3DES CFB64 mismatch")
        _check(_openssl(["enc", "-des-ede3-cfb8"] + kargs, m) == cfb_encrypt(c, iv, m, 1), "openssl 3DES CFB8 mismatch")
        _check(_openssl(["enc", "-des-ede3-ofb"] + kargs, m) == ofb(c, iv, m), "openssl 3DES OFB mismatch")
        n += 4
        got = _openssl(["mac", "-cipher", "des-ede3-cbc", "-macopt", "hexkey:" + key.hex(),
                        "CMAC"], m).decode().strip()
        _check(bytes.fromhex(got) == cmac(c, m), "openssl 3DES CMAC mismatch key=%s msg=%s", key.hex(), m.hex())
        n += 1
    counts["openssl_cli_3des"] = n


def _selftest_libcrypto(counts):
    """AEAD modes against the system libcrypto (OpenSSL 3 EVP interface) loaded
    with ctypes: GCM, CCM, OCB and SIV on random inputs of awkward sizes."""
    import ctypes
    import ctypes.util
    import random
    for _m in ("gcm", "ccm", "ocb", "siv"):
        counts["libcrypto_" + _m] = 0
    name = ctypes.util.find_library("crypto")
    if name is None:
        return
    try:
        lib = ctypes.CDLL(name)
        lib.EVP_CIPHER_fetch
    except (OSError, AttributeError):
        return
    vp, ci = ctypes.c_void_p, ctypes.c_int
    lib.EVP_CIPHER_fetch.restype = vp
    lib.EVP_CIPHER_fetch.argtypes = [vp, ctypes.c_char_p, ctypes.c_char_p]
    lib.EVP_CIPHER_free.argtypes = [vp]
    lib.EVP_CIPHER_CTX_new.restype = vp
    lib.EVP_CIPHER_CTX_free.argtypes = [vp]
    lib.EVP_EncryptInit_ex.argtypes = [vp, vp, vp, ctypes.c_char_p, ctypes.c_char_p]
    lib.EVP_EncryptUpdate.argtypes = [vp, ctypes.c_char_p, ctypes.POINTER(ci), ctypes.c_char_p, ci]
    lib.EVP_EncryptFinal_ex.argtypes = [vp, ctypes.c_char_p, ctypes.POINTER(ci)]
    lib.EVP_CIPHER_CTX_ctrl.argtypes = [vp, ci, ci, ctypes.c_char_p]
    SET_IVLEN, GET_TAG, SET_TAG = 0x9, 0x10, 0x11

    def evp_aead(alg, key, iv, aads, pt, taglen, ccm=False, set_taglen=False):
        """One-shot encryption; returns (ct, tag) or None if libcrypto refuses."""
        cipher = lib.EVP_CIPHER_fetch(None, alg.encode(), None)
        if not cipher:
            return None
        ctx = lib.EVP_CIPHER_CTX_new()
        try:
            outl = ci(0)
            ok = lib.EVP_EncryptInit_ex(ctx, cipher, None, None, None)
            if iv is not None:
                ok = ok and lib.EVP_CIPHER_CTX_ctrl(ctx, SET_IVLEN, len(iv), None)
            if ccm or set_taglen:
                ok = ok and lib.EVP_CIPHER_CTX_ctrl(ctx, SET_TAG, taglen, None)
            ok = ok and lib.EVP_EncryptInit_ex(ctx, None, None, key, iv)
            if ccm:     # total plaintext length must be announced first
                ok = ok and lib.EVP_EncryptUpdate(ctx, None, ctypes.byref(outl), None, len(pt))
            for a in aads:
                ok = ok and lib.EVP_EncryptUpdate(ctx, None, ctypes.byref(outl), a, len(a))
            buf = ctypes.create_string_buffer(len(pt) + 32)
            ok = ok and lib.EVP_EncryptUpdate(ctx, buf, ctypes.byref(outl), pt, len(pt))
            n1 = outl.value
            fin = ctypes.create_string_buffer(32)
            ok = ok and lib.EVP_EncryptFinal_ex(ctx, fin, ctypes.byref(outl))
            tag = ctypes.create_string_buffer(16)
            ok = ok and lib.EVP_CIPHER_CTX_ctrl(ctx, GET_TAG, taglen, tag)
            if not ok:
                return None
            return buf.raw[:n1] + fin.raw[:outl.value], tag.raw[:taglen]
        finally:
            lib.EVP_CIPHER_CTX_free(ctx)
            lib.EVP_CIPHER_free(cipher)

    rnd = random.Random(3)
    sizes = (0, 1, 15, 16, 17, 31, 32, 33, 64, 100)
    for i in range(120):
        klen = (16, 24, 32)[i % 3]
        key = rnd.randbytes(klen)
        c = aes_bc(key)
        pt = rnd.randbytes(rnd.choice(sizes + (rnd.randrange(1, 300),)))
        aad = rnd.randbytes(rnd.choice(sizes + (rnd.randrange(0, 300),)))

        nonce = rnd.randbytes(rnd.choice((1, 7, 8, 11, 12, 13, 16, 17, 60, rnd.randrange(1, 128))))
        ref = evp_aead("AES-%d-GCM" % (8 * klen), key, nonce, [aad] if aad else [], pt, 16)
        if ref is not None:
            _check(gcm_encrypt(c, nonce, aad, pt) == ref,
                   "libcrypto GCM mismatch key=%s nonce=%s aad=%s pt=%s", key.hex(), nonce.hex(), aad.hex(), pt.hex())
            counts["libcrypto_gcm"] += 1

        nonce = rnd.randbytes(rnd.randrange(7, 14))
        tl = rnd.choice((4, 6, 8, 10, 12, 14, 16))
        a2 = aad if i % 12 else rnd.randbytes((0xFEFF, 0xFF00, 0xFF01, 0xFFFF, 0x10000)[(i // 12) % 5])
        if pt:      # (libcrypto's CCM wants a non-empty payload update to produce a tag)
            ref = evp_aead("AES-%d-CCM" % (8 * klen), key, nonce, [a2] if a2 else [], pt, tl, ccm=True)
            if ref is not None:
                _check(ccm_encrypt(c, nonce, a2, pt, tl) == ref,
                       "libcrypto CCM mismatch key=%s nonce=%s aadlen=%d pt=%s tl=%d", key.hex(), nonce.hex(), len(a2), pt.hex(), tl)
                counts["libcrypto_ccm"] += 1

        nonce = rnd.randbytes(rnd.randrange(1, 16))
        tl = rnd.randrange(1, 17)
        ref = evp_aead("AES-%d-OCB" % (8 * klen), key, nonce, [aad] if aad else [], pt, tl, set_taglen=True)
        if ref is not None:
            _check(ocb_encrypt(c, nonce, aad, pt, tl) == ref,
                   "libcrypto OCB mismatch key=%s nonce=%s aad=%s pt=%s tl=%d", key.hex(), nonce.hex(), aad.hex(), pt.hex(), tl)
            counts["libcrypto_ocb"] += 1

        sk = rnd.randbytes(2 * klen)
        comps = [rnd.randbytes(rnd.choice((1, 15, 16, 17, 40))) for _ in range(rnd.randrange(0, 4))]
        if pt:
            ref = evp_aead("AES-%d-SIV" % (8 * klen), sk, None, comps, pt, 16)
            if ref is not None:
                _check(siv_encrypt(sk, comps, pt) == ref,
                       "libcrypto SIV mismatch key=%s comps=%s pt=%s", sk.hex(), [x.hex() for x in comps], pt.hex())
                counts["libcrypto_siv"] += 1


def _selftest_gpg(counts):
    """OpenPGP CFB with resynchronisation against GnuPG: build a message made of
    a Symmetric-Key Encrypted Session Key packet (simple S2K, so that the key is
    just a hash of the passphrase) and a Symmetrically Encrypted Data packet
    (tag 9, the one that uses the resync variant) and let gpg decrypt it."""
    import hashlib
    import random
    import shutil
    import subprocess
    import tempfile
    counts["gpg_openpgp_cfb"] = 0
    if shutil.which("gpg") is None:
        return
    rnd = random.Random(4880)

    def pkt(tag, body):                         # old format packet header
        if len(body) < 256:
            return bytes([0x80 | (tag << 2), len(body)]) + body
        return bytes([0x80 | (tag << 2) | 1]) + len(body).to_bytes(2, "big") + body

    home = tempfile.mkdtemp(prefix="pcdverif-gpg-")
    try:
        cases = [(7, 16, n) for n in (0, 1, 5, 13, 14, 15, 16, 17, 30, 45, 300)]
        cases += [(8, 24, 21), (9, 32, 100)]
        if shutil.which("openssl") is not None:
            cases += [(2, 24, 3), (2, 24, 22)]              # 3DES: 64-bit blocks
        for algo, klen, dlen in cases:
            pw = "pw%d" % rnd.randrange(10 ** 6)
            key = hashlib.sha256(pw.encode()).digest()[:klen]      # simple S2K, SHA-256
            c = _openssl_3des_bc(key) if algo == 2 else aes_bc(key)
            data = rnd.randbytes(dlen)
            lit = pkt(11, b"b" + b"\x00" + bytes(4) + data)        # literal data packet
            prefix = rnd.randbytes(c.bs)
            sed = pkt(9, openpgp_encrypt(c, prefix, lit))
            skesk = pkt(3, bytes([4, algo, 0, 8]))                 # v4, cipher, S2K simple, SHA-256
            path = home + "/m.gpg"
            with open(path, "wb") as f:
                f.write(skesk + sed)
            p = subprocess.run(["gpg", "--homedir", home, "--batch", "--quiet", "--pinentry-mode", "loopback",
                                "--passphrase", pw, "--ignore-mdc-error", "--decrypt", path],
                               stdout=subprocess.PIPE, stderr=subprocess.PIPE)
            _check(p.returncode == 0 and p.stdout == data,
                   "gpg did not recover the plaintext (algo %d, %d bytes): rc=%d %s",
                   algo, dlen, p.returncode, p.stderr.decode(errors="replace")[-300:])
            _check(openpgp_decrypt(c, sed[len(sed) - len(lit) - c.bs - 2:]) == (prefix, lit, True),
                   "OpenPGP decrypt mismatch")
            counts["gpg_openpgp_cfb"] += 1
    finally:
        if shutil.which("gpgconf") is not None:
            subprocess.run(["gpgconf", "--homedir", home, "--kill", "all"],
                           stdout=subprocess.DEVNULL, stderr=subprocess.DEVNULL)
        shutil.rmtree(home, ignore_errors=True)


def _parse_rsp(path):
    """NIST CAVS .rsp files: yields (section, dict) for each record."""
    section = None
    rec = {}
    with open(path) as f:
        for line in f:
            line = line.strip()
            if not line or line.startswith("#"):
                if rec:
                    yield section, rec
                    rec = {}
                continue
            if line.startswith("["):
                if rec:
                    yield section, rec
                    rec = {}
                body = line.strip("[]")
                if "=" in body:
                    if not isinstance(section, dict):
                        section = {}
                    else:
                        section = dict(section)
                    k, v = body.split("=")
                    section[k.strip()] = v.strip()
                else:
                    section = body
                continue
            if "=" in line:
                k, v = line.split("=", 1)
                rec[k.strip().upper()] = v.strip()
            else:
                rec[line.upper()] = True
    if rec:
        yield section, rec


def _selftest_nist_rsp(counts, full):
    import glob
    import os
    d = os.path.join(_VEC_DIR, "AES")
    H = bytes.fromhex
    n = 0
    for path in sorted(glob.glob(os.path.join(d, "*.rsp"))):
        name = os.path.basename(path)
        if name.startswith("gcm") or "MCT" in name:
            continue        # GCM: below.  Monte Carlo files: not used.
        if name.startswith("CBC"):
            def f_enc(c, iv, x): return cbc_encrypt(c, iv, x)
            def f_dec(c, iv, x): return cbc_decrypt(c, iv, x)
        elif name.startswith("CFB128"):
            def f_enc(c, iv, x): return cfb_encrypt(c, iv, x, 16)
            def f_dec(c, iv, x): return cfb_decrypt(c, iv, x, 16)
        elif name.startswith("CFB8"):
            def f_enc(c, iv, x): return cfb_encrypt(c, iv, x, 1)
            def f_dec(c, iv, x): return cfb_decrypt(c, iv, x, 1)
        elif name.startswith("OFB"):
            def f_enc(c, iv, x): return ofb(c, iv, x)
            f_dec = f_enc
        else:
            continue
        for section, rec in _parse_rsp(path):
            if "KEY" not in rec:
                continue
            c = aes_bc(H(rec["KEY"]))
            iv, p, x = H(rec["IV"]), H(rec["PLAINTEXT"]), H(rec["CIPHERTEXT"])
            if section == "ENCRYPT":
                _check(f_enc(c, iv, p) == x, "%s COUNT=%s encrypt mismatch", name, rec.get("COUNT"))
            else:
                _check(section == "DECRYPT", "unexpected section %r in %s", section, name)
                _check(f_dec(c, iv, x) == p, "%s COUNT=%s decrypt mismatch", name, rec.get("COUNT"))
            n += 1
    counts["nist_rsp_cbc_cfb_ofb"] = n

    # GCM
    n = 0
    stride = 1 if full else 7
    for name in ("gcmEncryptExtIV128.rsp", "gcmDecrypt128.rsp"):
        path = os.path.join(d, name)
        if not os.path.exists(path):
            continue
        idx = 0
        for section, rec in _parse_rsp(path):
            if "KEY" not in rec:
                continue
            idx += 1
            if idx % stride:
                continue
            c = aes_bc(H(rec["KEY"]))
            iv, aad, ct, tag = H(rec["IV"]), H(rec["AAD"]), H(rec["CT"]), H(rec["TAG"])
            _check(8 * len(tag) == int(section["Taglen"]) and 8 * len(iv) == int(section["IVlen"]), "rsp parsing")
            if "FAIL" in rec:
                _check(gcm_decrypt(c, iv, aad, ct, tag) is None, "%s #%d: forgery accepted", name, idx)
            else:
                p = H(rec["PT"])
                _check(gcm_decrypt(c, iv, aad, ct, tag) == p, "%s #%d: decrypt mismatch", name, idx)
                ct2, tag2 = gcm_encrypt(c, iv, aad, p)
                _check(ct2 == ct and tag2[:len(tag)] == tag, "%s #%d: encrypt mismatch", name, idx)
            n += 1
    counts["nist_rsp_gcm"] = n


def _selftest_ocb_files(counts):
    import glob
    import os
    n = 0
    for path in sorted(glob.glob(os.path.join(_VEC_DIR, "AES", "test-vector-*.txt"))):
        key = None
        rec = {}
        with open(path) as f:
            lines = [ln.strip() for ln in f] + [""]
        for line in lines:
            if "=" in line:
                k, v = line.split("=", 1)
                k, v = k.strip(), bytes.fromhex(v.strip())
                if k == "K":
                    key = v
                else:
                    rec[k] = v
            elif rec:
                c = aes_bc(key)
                tl = len(rec["C"]) - len(rec["P"])
                ct, tag = ocb_encrypt(c, rec["N"], rec["A"], rec["P"], tl)
                _check(ct + tag == rec["C"], "%s N=%s: OCB encrypt mismatch", os.path.basename(path), rec["N"].hex())
                _check(ocb_decrypt(c, rec["N"], rec["A"], ct, tag, tl) == rec["P"], "OCB decrypt mismatch")
                n += 1
                rec = {}
    counts["ocb_vector_files"] = n


def _selftest_wycheproof(counts):
    import json
    import os
    H = bytes.fromhex
    d = os.path.join(_VEC_DIR, "wycheproof")

    def load(name):
        path = os.path.join(d, name)
        if not os.path.exists(path):
            return []
        with open(path) as f:
            data = json.load(f)
        out = []
        for g in data["testGroups"]:
            for t in g["tests"]:
                out.append((g, t))
        return out

    def run_aead(name, enc, dec):
        """enc(c, g, t) -> (ct, tag) or raises ValueError for unsupported params."""
        n = 0
        for g, t in load(name):
            tid = t["tcId"]
            c = aes_bc(H(t["key"]))
            iv, aad, msg, ct, tag = (H(t[k]) for k in ("iv", "aad", "msg", "ct", "tag"))
            try:
                got = enc(c, g, iv, aad, msg)
                params_ok = True
            except ValueError:
                params_ok = False
            if t["result"] == "valid":
                _check(params_ok, "%s tcId %d: valid parameters rejected", name, tid)
                _check(got == (ct, tag), "%s tcId %d: encrypt mismatch", name, tid)
                _check(dec(c, g, iv, aad, ct, tag) == msg, "%s tcId %d: decrypt mismatch", name, tid)
            elif t["result"] == "invalid":
                if params_ok:
                    _check(dec(c, g, iv, aad, ct, tag) is None, "%s tcId %d: invalid vector accepted", name, tid)
            else:   # "acceptable": if we support the parameters the result must agree
                if params_ok and got == (ct, tag):
                    _check(dec(c, g, iv, aad, ct, tag) == msg, "%s tcId %d: decrypt mismatch", name, tid)
            n += 1
        counts["wycheproof_" + name.replace("_test.json", "")] = n

    def gcm_enc(c, g, iv, aad, msg):
        ct, tag = gcm_encrypt(c, iv, aad, msg)
        return ct, tag[:g["tagSize"] // 8]
    run_aead("aes_gcm_test.json", gcm_enc,
             lambda c, g, iv, aad, ct, tag: gcm_decrypt(c, iv, aad, ct, tag))
    run_aead("aes_ccm_test.json",
             lambda c, g, iv, aad, msg: ccm_encrypt(c, iv, aad, msg, g["tagSize"] // 8),
             lambda c, g, iv, aad, ct, tag: ccm_decrypt(c, iv, aad, ct, tag, g["tagSize"] // 8))
    run_aead("aes_eax_test.json",
             lambda c, g, iv, aad, msg: eax_encrypt(c, iv, aad, msg, g["tagSize"] // 8),
             lambda c, g, iv, aad, ct, tag: eax_decrypt(c, iv, aad, ct, tag, g["tagSize"] // 8))

    # AEAD-AES-SIV-CMAC (RFC 5297 section 6.1): S2V(K1, AD, N, P); "tag" is V
    n = 0
    for g, t in load("aead_aes_siv_cmac_test.json"):
        key, iv, aad, msg, ct, tag = (H(t[k]) for k in ("key", "iv", "aad", "msg", "ct", "tag"))
        if t["result"] == "valid":
            _check(siv_encrypt(key, [aad, iv], msg) == (ct, tag), "aead_aes_siv_cmac tcId %d: encrypt", t["tcId"])
            _check(siv_decrypt(key, [aad, iv], ct, tag) == msg, "aead_aes_siv_cmac tcId %d: decrypt", t["tcId"])
        else:
            _check(siv_decrypt(key, [aad, iv], ct, tag) is None, "aead_aes_siv_cmac tcId %d: accepted", t["tcId"])
        n += 1
    counts["wycheproof_aead_aes_siv_cmac"] = n

    # AES-SIV-CMAC (deterministic AEAD): one AD component, ct = V | C
    n = 0
    for g, t in load("aes_siv_cmac_test.json"):
        key, aad, msg, ct = (H(t[k]) for k in ("key", "aad", "msg", "ct"))
        if t["result"] == "valid":
            c2, v = siv_encrypt(key, [aad], msg)
            _check(v + c2 == ct, "aes_siv_cmac tcId %d: encrypt", t["tcId"])
            _check(siv_decrypt(key, [aad], ct[16:], ct[:16]) == msg, "aes_siv_cmac tcId %d: decrypt", t["tcId"])
        else:
            _check(siv_decrypt(key, [aad], ct[16:], ct[:16]) is None, "aes_siv_cmac tcId %d: accepted", t["tcId"])
        n += 1
    counts["wycheproof_aes_siv_cmac"] = n

    # KW / KWP
    for name, wrap, unwrap in (("kw_test.json", kw_wrap, kw_unwrap), ("kwp_test.json", kwp_wrap, kwp_unwrap)):
        n = 0
        for g, t in load(name):
            c = aes_bc(H(t["key"]))
            msg, ct = H(t["msg"]), H(t["ct"])
            tid = t["tcId"]
            if t["result"] == "valid":
                _check(wrap(c, msg) == ct, "%s tcId %d: wrap mismatch", name, tid)
                _check(unwrap(c, ct) == msg, "%s tcId %d: unwrap mismatch", name, tid)
            elif t["result"] == "acceptable":
                # e.g. KWP of very short keys: discouraged, but well defined
                got = unwrap(c, ct)
                _check(got is None or got == msg, "%s tcId %d: unwrap mismatch", name, tid)
                if got is not None:
                    _check(wrap(c, msg) == ct, "%s tcId %d: wrap mismatch", name, tid)
            else:
                _check(unwrap(c, ct) is None, "%s tcId %d: invalid wrapping accepted (%s)", name, tid, t["comment"])
            n += 1
        counts["wycheproof_" + name.replace("_test.json", "")] = n


def selftest(full: bool = False) -> dict:
    """Validate every function against independent sources.

    Raises AssertionError (with a message) on the first mismatch; returns a
    dict with the number of checks per source on success.  With full=False
    only every 7th NIST GCM vector is used (the two files hold 15750 vectors).
    """
    counts = {}
    counts.update(_aes.selftest())
    _selftest_internal(counts)
    _selftest_openssl(counts)
    _selftest_libcrypto(counts)
    _selftest_gpg(counts)
    _selftest_nist_rsp(counts, full)
    _selftest_ocb_files(counts)
    _selftest_wycheproof(counts)
    return counts


if __name__ == "__main__":
    import sys
    import time
    _t0 = time.time()
    _res = selftest(full="--full" in sys.argv)
    for _k, _v in _res.items():
        print("%-36s %6d" % (_k, _v))
    print("selftest OK: %d checks in %.1f s" % (sum(_res.values()), time.time() - _t0))
