"""Parent process of a check: deps, build, overlay, fan-out over (check, shard),
merge evidence, print VIOLATION / KNOWN-FINDING lines, exit code."""
import concurrent.futures as cf
import hashlib
import importlib
import json
import os
import shutil
import subprocess
import sys
import time

from . import build
from .core import VERIF, load_known, known_match

PYTHON = "/venv/bin/python"
DEPS = os.path.join(VERIF, ".deps")
WHEELS = "/opt/veriftools/wheels"
NEEDED = ["hypothesis", "jsonschema", "sympy", "atheris"]
NCPU = int(os.environ.get("PCDVERIF_JOBS", "16"))


def log(msg):
    print("[vf] " + msg, flush=True)


def ensure_deps(extra=()):
    os.makedirs(DEPS, exist_ok=True)
    want = list(NEEDED) + list(extra)
    missing = []
    for pkg in want:
        modname = {"jsonschema": "jsonschema"}.get(pkg, pkg)
        if not (os.path.isdir(os.path.join(DEPS, modname)) or os.path.exists(os.path.join(DEPS, modname + ".py"))):
            missing.append(pkg)
    if missing:
        env = dict(os.environ)
        env["PIP_NO_INDEX"] = "1"
        p = subprocess.run([PYTHON, "-m", "pip", "install", "-q", "--no-index", "--find-links", WHEELS,
                            "--target", DEPS, "--upgrade"] + missing,
                           env=env, stdout=subprocess.PIPE, stderr=subprocess.STDOUT)
        if p.returncode != 0:
            log("pip install of %s failed:\n%s" % (missing, p.stdout.decode(errors="replace")[-2000:]))
            return False
    return True


def child_env(overlay, variant="plain"):
    env = dict(os.environ)
    env["PYTHONPATH"] = os.pathsep.join([overlay, VERIF, DEPS])
    env["PYTHONHASHSEED"] = "0"
    env["PCDVERIF_OVERLAY"] = overlay
    env["PYTHONDONTWRITEBYTECODE"] = "1"
    env["PYTHONWARNINGS"] = "ignore"
    env.pop("PYCRYPTODOME_DISABLE_GMP", None)
    if variant == "asan":
        libasan = subprocess.run(["gcc", "-print-file-name=libasan.so"], stdout=subprocess.PIPE).stdout.decode().strip()
        env["LD_PRELOAD"] = libasan
        env["ASAN_OPTIONS"] = "detect_leaks=0:exitcode=99:abort_on_error=0:allocator_may_return_null=1"
        env["PYTHONMALLOC"] = "malloc"
    return env


def list_checks(pid, env):
    """Ask a child (with overlay on the path) for the check table of a property."""
    code = ("import json,importlib;m=importlib.import_module('pcdverif.props.%s');"
            "print(json.dumps({'checks':[dict(name=c.name,kind=c.kind,examples=c.examples,shards=c.shards,"
            "rule=c.rule,exhaustive=bool(c.exhaustive),variant=c.variant,env=c.env) for c in m.CHECKS],"
            "'meta':getattr(m,'META',{})}))" % pid.lower())
    p = subprocess.run([PYTHON, "-c", code], env=env, stdout=subprocess.PIPE, stderr=subprocess.PIPE)
    if p.returncode != 0:
        raise RuntimeError("cannot load property module %s:\n%s" % (pid, p.stderr.decode(errors="replace")[-4000:]))
    return json.loads(p.stdout.decode().strip().splitlines()[-1])


def run_worker(args, env, out, timeout):
    cmd = [PYTHON, "-m", "pcdverif.worker"] + args + ["--out", out]
    try:
        p = subprocess.run(cmd, env=env, stdout=subprocess.PIPE, stderr=subprocess.STDOUT, timeout=timeout, cwd=VERIF)
        rc, outp = p.returncode, p.stdout.decode(errors="replace")
    except subprocess.TimeoutExpired as e:
        rc, outp = -999, (e.stdout or b"").decode(errors="replace")
    if os.path.exists(out):
        with open(out) as f:
            res = json.load(f)
    else:
        res = {"status": "died", "rc": rc}
    res["rc"] = rc
    res["output"] = outp[-6000:]
    return res


def write_replay(pid, check, viol):
    d = os.path.join(VERIF, "replays", pid, "found")
    if os.environ.get("PCDVERIF_NOEVIDENCE"):
        d = os.path.join("/var/tmp/pcdverif-build", "found-replays", pid)
    os.makedirs(d, exist_ok=True)
    blob = json.dumps(viol["case"], sort_keys=True)
    h = hashlib.sha256((check + blob).encode()).hexdigest()[:10]
    safe = "".join(ch if ch.isalnum() or ch in "-_." else "_" for ch in viol["bucket"])[:60]
    p = os.path.join(d, "%s-%s-%s.json" % (check, safe, h))
    with open(p, "w") as f:
        json.dump({"property": pid, "check": check, "bucket": viol["bucket"], "message": viol["message"],
                   "details": viol.get("details", {}), "case": viol["case"]}, f, indent=1, sort_keys=True)
    return p


def committed_replays(pid):
    d = os.path.join(VERIF, "replays", pid)
    out = []
    if os.path.isdir(d):
        for n in sorted(os.listdir(d)):
            if n.endswith(".json"):
                out.append(os.path.join(d, n))
    return out


def check_property(pid, tier, seed, only=None):
    t0 = time.time()
    ok = ensure_deps()
    if not ok:
        return 2
    build.cleanup_stale()
    known = load_known()
    violations = []     # (check, viol, replay path)
    harness_errors = []
    known_seen = {}
    overlays = {}
    per_check = {}
    merged = {"evaluations": 0, "events": {}, "nontrivial": set(), "samples": [], "excluded_known": {},
              "skipped": 0, "nontrivial_cases": 0, "notes": {}}
    rules = []
    exhaustive_all = True
    meta = {}
    try:
        try:
            so = build.native("plain", log=log)
        except build.BuildError as e:
            log("BUILD FAILED: %s" % e)
            return 2
        overlays["plain"] = build.overlay(so, tag="%s-%d" % (pid, os.getpid()))
        env = child_env(overlays["plain"])
        info = list_checks(pid, env)
        checks, meta = info["checks"], info.get("meta", {})
        if only:
            checks = [c for c in checks if c["name"] in only]
        tmpdir = os.path.join(overlays["plain"], "_out")
        os.makedirs(tmpdir, exist_ok=True)
        # variants
        for c in checks:
            v = c.get("variant", "plain")
            if v not in overlays:
                try:
                    so_v = build.native(v, log=log)
                except build.BuildError as e:
                    log("BUILD (%s) FAILED: %s" % (v, e))
                    return 2
                overlays[v] = build.overlay(so_v, tag="%s-%s-%d" % (pid, v, os.getpid()))
        jobs = []
        # replay tier first
        for rp in committed_replays(pid):
            with open(rp) as f:
                r = json.load(f)
            if only and r.get("check") not in only:
                continue
            c = next((c for c in checks if c["name"] == r.get("check")), None)
            if c is None:
                continue
            jobs.append(("replay", c, 0, 1, rp))
        for c in checks:
            ns = max(1, min(c["shards"][tier], NCPU))
            for s in range(ns):
                jobs.append(("gen", c, s, ns, None))
        timeout = 3600 if tier == "quick" else 6 * 3600
        results = []
        with cf.ThreadPoolExecutor(max_workers=NCPU) as ex:
            futs = {}
            for i, (kind, c, s, ns, rp) in enumerate(jobs):
                args = ["--prop", pid, "--check", c["name"], "--tier", tier, "--seed", str(seed),
                        "--shard", str(s), "--nshards", str(ns)]
                if rp:
                    args += ["--replay", rp]
                v = c.get("variant", "plain")
                e = child_env(overlays[v], v)
                e.update(c.get("env") or {})
                out = os.path.join(tmpdir, "r%d.json" % i)
                if v == "asan":
                    e["PCDVERIF_JOURNAL"] = out + ".journal"
                futs[ex.submit(run_worker, args, e, out, timeout)] = (kind, c, s, rp, out)
            for fu in cf.as_completed(futs):
                kind, c, s, rp, out_path = futs[fu]
                res = fu.result()
                res["_out_path"] = out_path
                results.append((kind, c, s, rp, res))
        results.sort(key=lambda x: (x[0] != "replay", x[1]["name"], x[2]))
        for kind, c, s, rp, res in results:
            name = c["name"]
            pc = per_check.setdefault(name, {"evaluations": 0, "distinct_nontrivial": set(), "wall_s": 0.0,
                                             "replayed": 0, "shards": 0})
            if res["status"] == "died" and c.get("variant") == "asan" and res.get("rc") not in (0, 2, -999, None):
                # sanitizer report (exit code 99) or a fatal signal: the journalled case is the reproducer
                jpath = res.get("_out_path", "") + ".journal"
                case_j = {"note": "no journal"}
                if jpath and os.path.exists(jpath):
                    with open(jpath) as jf:
                        case_j = json.load(jf).get("case")
                outp = res.get("output", "")
                import re as _re
                m_ = _re.search(r"ERROR: AddressSanitizer: ([a-z0-9-]+)", outp)
                m2_ = _re.search(r"#\d+ 0x[0-9a-f]+ in ([A-Za-z0-9_]+) .*?/src/([A-Za-z0-9_]+\.c)", outp)
                bucket = "asan/%s%s" % (m_.group(1) if m_ else ("signal%d" % -res["rc"] if res["rc"] < 0 else "exit%d" % res["rc"]),
                                        ("@%s:%s" % (m2_.group(2), m2_.group(1))) if m2_ else "")
                kk = known_match(known, pid, name, bucket)
                if kk:
                    known_seen[(name, bucket)] = kk
                    merged["excluded_known"][bucket] = merged["excluded_known"].get(bucket, 0) + 1
                    continue
                v_ = {"bucket": bucket, "message": "native code fault while executing the journalled case: " + (outp[outp.find("ERROR: AddressSanitizer"):][:600] if m_ else outp[-400:]),
                      "case": case_j, "confirmed": True}
                violations.append((name, v_, rp if rp else write_replay(pid, name, v_)))
                continue
            if res["status"] in ("died",) or (res["status"] == "harness_error"):
                harness_errors.append((name, s, res.get("error") or ("worker died rc=%s\n%s" % (res.get("rc"), res.get("output", "")))))
                continue
            rec = res.get("rec", {})
            pc["evaluations"] += rec.get("evaluations", 0)
            pc["distinct_nontrivial"].update(rec.get("nontrivial", []))
            pc["wall_s"] = max(pc["wall_s"], res.get("wall_s", 0.0))
            if kind == "replay":
                pc["replayed"] += 1
            else:
                pc["shards"] += 1
            merged["evaluations"] += rec.get("evaluations", 0)
            merged["skipped"] += rec.get("skipped", 0)
            merged["nontrivial_cases"] += rec.get("nontrivial_cases", 0)
            for k, v in rec.get("events", {}).items():
                merged["events"][k] = merged["events"].get(k, 0) + v
            merged["nontrivial"].update(name + ":" + h for h in rec.get("nontrivial", []))
            for k, v in rec.get("excluded_known", {}).items():
                merged["excluded_known"][k] = merged["excluded_known"].get(k, 0) + v
                kk = known_match(known, pid, name, k)
                if kk:
                    known_seen[(name, k)] = kk
            for k, v in rec.get("notes", {}).items():
                merged["notes"].setdefault(name + "." + k, v)
            if len(merged["samples"]) < 12 and kind != "replay":
                for smp in rec.get("samples", [])[:2]:
                    merged["samples"].append({"check": name, "case": smp})
            if kind != "replay":
                if res.get("rule") and res["rule"] not in rules:
                    rules.append(res["rule"])
                if not res.get("exhaustive"):
                    exhaustive_all = False
            if res["status"] == "violation":
                v = res["violation"]
                if rp:
                    path = rp
                else:
                    path = write_replay(pid, name, v)
                violations.append((name, v, path))
    finally:
        for ov in overlays.values():
            shutil.rmtree(ov, ignore_errors=True)

    # ---- report
    wall = time.time() - t0
    seen_buckets = set()
    uniq = []
    for name, v, path in violations:
        key = (name, v["bucket"])
        if key in seen_buckets:
            continue
        seen_buckets.add(key)
        uniq.append((name, v, path))
    for (name, b), kk in sorted(known_seen.items()):
        print("KNOWN-FINDING: property=%s %s" % (pid, kk.get("what", b)), flush=True)
    ev = {
        "property_id": pid, "tier": tier, "seed": seed, "level": "exploration",
        "coverage": {
            "evaluations": merged["evaluations"],
            "distinct_nontrivial": len(merged["nontrivial"]),
            "nontrivial_cases": merged["nontrivial_cases"],
            "rule": meta.get("rule", "") + (" || per check: " + " | ".join(rules) if rules else ""),
            "samples": merged["samples"][:12],
            "events": dict(sorted(merged["events"].items())),
            "per_check": {k: {"evaluations": v["evaluations"], "distinct_nontrivial": len(v["distinct_nontrivial"]),
                              "max_shard_wall_s": round(v["wall_s"], 2), "replayed": v["replayed"], "shards": v["shards"]}
                          for k, v in sorted(per_check.items())},
            "excluded_known": merged["excluded_known"],
            "skipped_out_of_domain": merged["skipped"],
            "unexplored": meta.get("unexplored", []),
            "notes": merged["notes"],
            "exhaustive": bool(exhaustive_all and per_check),
            "harness_errors": len(harness_errors),
        },
        "assumptions": meta.get("assumptions", []),
        "wall_s": round(wall, 2),
        "violations": len(uniq),
    }
    if not only and not os.environ.get("PCDVERIF_NOEVIDENCE"):
        write_evidence(pid, ev)
    elif os.environ.get("PCDVERIF_DUMP_EVIDENCE"):
        with open(os.environ["PCDVERIF_DUMP_EVIDENCE"], "w") as f:
            json.dump(ev, f, indent=1)
    for name, s, err in harness_errors[:5]:
        log("HARNESS ERROR in %s shard %s:\n%s" % (name, s, err))
    for name, v, path in uniq:
        log("violation in check %s bucket %s: %s%s" % (name, v["bucket"], v["message"][:500],
                                                        "" if v.get("confirmed", True) else " (NOT confirmed on direct re-run)"))
        print("VIOLATION property=%s replay=%s" % (pid, os.path.relpath(path, VERIF)), flush=True)
    log("%s tier=%s seed=%d: %d evaluations, %d distinct non-trivial, %d violation bucket(s), %d harness error(s), %.1fs" % (
        pid, tier, seed, merged["evaluations"], len(merged["nontrivial"]), len(uniq), len(harness_errors), wall))
    if uniq:
        return 1
    if harness_errors:
        return 2
    return 0


def write_evidence(pid, ev):
    d = os.path.join(VERIF, "evidence")
    os.makedirs(d, exist_ok=True)
    # schema needs >=1 evaluation, >=2 distinct non-trivial and >=1 sample; if the run did not get
    # there the file is still written (it will then not validate, which is the honest outcome).
    p = os.path.join(d, pid + ".json")
    with open(p, "w") as f:
        json.dump(ev, f, indent=1, sort_keys=True)
    try:
        sys.path.insert(0, DEPS)
        import jsonschema
        with open("/root/.vp/EVIDENCE.schema.json") as f:
            schema = json.load(f)
        jsonschema.validate(ev, schema)
    except ImportError:
        pass
    except FileNotFoundError:
        pass
    except Exception as e:
        log("evidence for %s does not validate: %s" % (pid, str(e)[:300]))


def replay(path, seed=1):
    with open(path) as f:
        r = json.load(f)
    pid, chk = r["property"], r["check"]
    ensure_deps()
    so = build.native("plain", log=log)
    ov = build.overlay(so, tag="replay-%d" % os.getpid())
    ovs = [ov]
    try:
        env = child_env(ov)
        variant = "plain"
        try:
            info = list_checks(pid, env)
            c = next((c for c in info["checks"] if c["name"] == chk), None)
            if c is not None:
                variant = c.get("variant", "plain")
                extra_env = c.get("env") or {}
            else:
                extra_env = {}
        except Exception:
            extra_env = {}
        if variant != "plain":
            so_v = build.native(variant, log=log)
            ov_v = build.overlay(so_v, tag="replay-%s-%d" % (variant, os.getpid()))
            ovs.append(ov_v)
            env = child_env(ov_v, variant)
        env.update(extra_env)
        out = os.path.join(ov, "_replay.json")
        if variant == "asan":
            env["PCDVERIF_JOURNAL"] = out + ".journal"
        res = run_worker(["--prop", pid, "--check", chk, "--tier", "quick", "--seed", str(seed),
                          "--replay", os.path.abspath(path)], env, out, 3600)
    finally:
        for o in ovs:
            shutil.rmtree(o, ignore_errors=True)
    if res["status"] == "died" and variant == "asan" and res.get("rc") not in (0, 2, -999, None):
        log("replay reproduces: the process died (rc=%s): %s" % (res.get("rc"), res.get("output", "")[-600:]))
        print("VIOLATION property=%s replay=%s" % (pid, path))
        return 1
    if res["status"] == "violation":
        log("replay reproduces: bucket %s: %s" % (res["violation"]["bucket"], res["violation"]["message"][:500]))
        print("VIOLATION property=%s replay=%s" % (pid, path))
        return 1
    if res["status"] != "ok":
        log("replay harness error: %s" % (res.get("error") or res.get("output")))
        return 2
    rec = res.get("rec", {})
    if rec.get("excluded_known"):
        known = load_known()
        for b in rec["excluded_known"]:
            kk = known_match(known, pid, chk, b)
            print("KNOWN-FINDING: property=%s %s" % (pid, (kk or {}).get("what", b)))
    log("replay does not violate the property")
    return 0


def main(argv):
    import argparse
    ap = argparse.ArgumentParser(prog="vf")
    sub = ap.add_subparsers(dest="cmd", required=True)
    c = sub.add_parser("check")
    c.add_argument("prop")
    c.add_argument("--tier", default=os.environ.get("VERIF_TIER", "quick"), choices=["quick", "thorough"])
    c.add_argument("--only", action="append")
    r = sub.add_parser("replay")
    r.add_argument("path")
    sub.add_parser("setup")
    sub.add_parser("selftest")
    a = ap.parse_args(argv)
    seed = int(os.environ.get("VERIF_SEED", "1") or "1")
    if a.cmd == "setup":
        ok = ensure_deps(extra=["atheris"])
        try:
            build.native("plain", log=log)
        except Exception as e:
            log("warm-up build failed (checks will retry): %s" % e)
        return 0 if ok else 2
    if a.cmd == "check":
        try:
            return check_property(a.prop.upper(), a.tier, seed, only=a.only)
        except Exception as e:
            import traceback
            log("harness failure: %s\n%s" % (e, traceback.format_exc()))
            return 2
    if a.cmd == "replay":
        return replay(a.path, seed)
    if a.cmd == "selftest":
        ensure_deps()
        so = build.native("plain", log=log)
        ov = build.overlay(so, tag="selftest-%d" % os.getpid())
        try:
            p = subprocess.run([PYTHON, "-m", "pcdverif.selftest"], env=child_env(ov), cwd=VERIF)
            return p.returncode
        finally:
            shutil.rmtree(ov, ignore_errors=True)
    return 2
