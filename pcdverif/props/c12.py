"""C12 — key-derivation functions return exactly the bytes their specifications define."""
import hashlib
import importlib

from hypothesis import strategies as st

from ..core import Check, Violation, HarnessError, Skip, libcall
from .. import gen, oracles
from ..refs import kdf as rkdf, modes, libcrypto as lc

META = {
    "rule": "PBKDF1 (MD2/MD5/SHA-1), PBKDF2 (every hash with and without the C assist, custom PRF), HKDF (every hash, lengths up to "
            "255*HashLen and +1), scrypt grid, bcrypt (cost 4-6, passwords 0..72 bytes incl. 71/72/73, high-bit bytes, str), "
            "SP 800-108 counter mode (HMAC/CMAC PRFs), S2V vectors; oracles: hashlib.pbkdf2_hmac, hashlib.scrypt, libcrypto "
            "HKDF/KBKDF/PBKDF1, crypt(3) bcrypt, and pure formula implementations in pcdverif/refs/kdf.py. Non-trivial = dkLen not a "
            "multiple of the PRF size, or > 1 block, or num_keys > 1, or boundary password/salt length, or a refusal case; distinct by "
            "(KDF, hash/PRF, parameter tuple class)",
    "assumptions": ["hashlib / libcrypto / libxcrypt KDFs and the self-tested formula references are correct; two oracles are compared where both exist",
                    "bcrypt hash-string mutations change decoded bits only (non-canonical base64 padding bits are outside the statement)",
                    "a refusal is any exception (the statement fixes no type); SP 800-108 context without NUL bytes (library restriction)"],
    "unexplored": ["scrypt with N > 2^14", "bcrypt cost above 6 (quick) / 10 (thorough)"],
}

PB1 = {"MD2": 16, "MD5": 16, "SHA1": 20}
ASSIST = ["MD5", "SHA1", "SHA224", "SHA256", "SHA384", "SHA512", "SHA512-224", "SHA512-256"]
NOASSIST = ["SHA3_224", "SHA3_256", "SHA3_384", "SHA3_512", "RIPEMD160", "MD4", "MD2"]


def pw_strategy():
    return st.one_of(st.binary(max_size=40), gen.data_of(st.sampled_from([0, 1, 63, 64, 65, 127, 128, 129, 200])),
                     st.text(alphabet=st.characters(min_codepoint=32, max_codepoint=126), max_size=12))   # str passwords: ASCII only (encoding of other characters is an undocumented API convention)


def as_bytes(p, encoding="utf-8"):
    # text arguments: UTF-8 where a function documents that (bcrypt), ISO 8859-1 for PBKDF2 (its docstring); identical for ASCII-only text
    return p.encode(encoding) if isinstance(p, str) else bytes(p)


def hashmod(name):
    return oracles.lib_hash_module(name)


# ------------------------------------------------------------------ PBKDF1 / PBKDF2
@st.composite
def strat_pbkdf(draw, tier):
    which = draw(st.sampled_from(["pbkdf1", "pbkdf2", "pbkdf2", "pbkdf2-prf"]))
    c = {"which": which, "password": draw(pw_strategy())}
    if which == "pbkdf1":
        c["hash"] = draw(st.sampled_from(sorted(PB1)))
        c["salt"] = draw(st.one_of(st.binary(min_size=8, max_size=8), st.binary(min_size=8, max_size=8), st.binary(max_size=12)))
        c["dklen"] = draw(st.integers(1, PB1[c["hash"]] + 2))
        c["count"] = draw(st.one_of(st.integers(1, 50), st.sampled_from([0, 1, 2, 1000])))
    else:
        c["hash"] = draw(st.sampled_from(ASSIST + NOASSIST))
        hl = oracles.HASHES[c["hash"]][1]
        if draw(st.integers(0, 3)) == 0:
            # PBKDF2 documents text passwords and salts as ISO 8859-1: any code point up to U+00FF
            c["password"] = draw(st.text(alphabet=st.characters(min_codepoint=32, max_codepoint=255), min_size=1, max_size=12))
        c["salt"] = draw(st.one_of(st.binary(max_size=20), st.just(b""), gen.data_of(st.sampled_from([0, 8, 64, 128, 129]))))
        c["dklen"] = draw(st.one_of(st.integers(1, 5 * hl + 3), st.sampled_from([1, hl - 1, hl, hl + 1, 2 * hl, 2 * hl + 1, 16, 32])))
        if draw(st.integers(0, 5)) == 0:
            c["salt"] = draw(st.text(alphabet=st.characters(min_codepoint=32, max_codepoint=255), max_size=12))
        c["count"] = draw(st.one_of(st.integers(1, 40), st.sampled_from([1, 2, 3, 300] + ([10000] if tier == "thorough" else [])), st.sampled_from([0, -1])))
        if c["hash"] in ("MD2", "MD4") and c["count"] > 60:
            c["count"] = 60
    return c


def run_pbkdf(case, rec):
    from Crypto.Protocol import KDF
    which, pw, salt, dklen, count = case["which"], case["password"], case["salt"], case["dklen"], case["count"]
    pwb = as_bytes(pw, "latin-1")
    salt_arg = salt
    salt = as_bytes(salt, "latin-1")    # references work on bytes; the library call gets the original (possibly text) argument
    h = case["hash"]
    fn, hl, bs, hln = oracles.HASHES[h]
    info = {"which": which, "hash": h, "pwlen": len(pwb), "saltlen": len(salt), "dklen": dklen, "count": count}
    if which == "pbkdf1":
        call = lambda: KDF.PBKDF1(pw, salt, dklen, count, hashmod(h))
        bad = dklen > hl or len(salt) != 8 or count < 1
        if not bad:
            exp = rkdf.pbkdf1(pwb, salt, dklen, count, fn)
            if h in ("MD5", "SHA1"):
                try:
                    second = lc.kdf("PBKDF1", dklen, {"pass": pwb, "salt": salt, "iter": count, "digest": {"MD5": "MD5", "SHA1": "SHA1"}[h]})
                    if second != exp and len(pwb) > 0:
                        raise HarnessError("libcrypto PBKDF1 and reference disagree")
                except lc.LibCryptoError:
                    pass
    else:
        if which == "pbkdf2":
            call = lambda: KDF.PBKDF2(pw, salt_arg, dklen, count, hmac_hash_module=hashmod(h))
        else:
            prf = lambda p, s: oracles.ref_hmac(h, p, s)[::-1]        # a custom PRF that is *not* HMAC
            call = lambda: KDF.PBKDF2(pw, salt_arg, dklen, count, prf=prf)
        bad = count < 1
        if not bad:
            if which == "pbkdf2":
                exp = rkdf.pbkdf2(pwb, salt, dklen, count, lambda k, m: oracles.ref_hmac(h, k, m))
                if hln is not None and count <= 300:
                    if hashlib.pbkdf2_hmac(hln, pwb, salt, count, dklen) != exp:
                        raise HarnessError("hashlib.pbkdf2_hmac and reference disagree")
            else:
                exp = rkdf.pbkdf2(pwb, salt, dklen, count, lambda k, m: oracles.ref_hmac(h, k, m)[::-1])
    kind, r = libcall(call, allowed=(Exception,), bucket="kdf/%s" % which)
    if bad:
        if kind == "ok":
            raise Violation("kdf/%s/out-of-domain-accepted/%s" % (which, "dklen" if which == "pbkdf1" and dklen > hl else "salt" if which == "pbkdf1" and len(salt) != 8 else "count"),
                            "parameters outside the specified domain returned %d bytes" % len(r), **info)
        rec.nt(which, h, "refused", dklen > hl, count < 1)
        rec.event("kdf-refused:" + which)
        return
    if kind == "exc":
        raise Violation("kdf/%s/valid-parameters-refused" % which, "%s: %s" % (type(r).__name__, r), **info)
    if bytes(r) != exp:
        raise Violation("kdf/%s/wrong-output" % which, "output %s..., specification %s..." % (bytes(r).hex()[:40], exp.hex()[:40]), **info)
    if dklen % hl or dklen > hl or len(pwb) >= bs:
        rec.nt(which, h, dklen % hl == 0, min(dklen // hl, 4), len(pwb) > bs, count == 1)
    rec.event("kdf:%s:%s" % (which, h))
    rec.sample(info)


# ------------------------------------------------------------------ HKDF
@st.composite
def strat_hkdf(draw, tier):
    h = draw(st.sampled_from([x for x in oracles.HASHES if x not in ("MD2",)]))
    hl = oracles.HASHES[h][1]
    nk = draw(st.sampled_from([1, 1, 2, 3, 5]))
    kl = draw(st.one_of(st.integers(1, 3 * hl + 1), st.sampled_from([1, hl - 1, hl, hl + 1, 255 * hl // nk, 255 * hl // nk + 1, 255 * hl])))
    return {"hash": h, "master": draw(st.binary(min_size=0, max_size=80)), "key_len": kl, "num_keys": nk,
            "salt": draw(st.one_of(st.none(), st.just(b""), st.binary(max_size=20), gen.data_of(st.sampled_from([63, 64, 65, 128, 200])))),
            "context": draw(st.one_of(st.none(), st.just(b""), st.binary(max_size=40)))}


def run_hkdf(case, rec):
    from Crypto.Protocol import KDF
    h, master, kl, nk, salt, ctx = case["hash"], case["master"], case["key_len"], case["num_keys"], case["salt"], case["context"]
    fn, hl, bs, hln = oracles.HASHES[h]
    total = kl * nk
    info = {"hash": h, "key_len": kl, "num_keys": nk, "saltlen": None if salt is None else len(salt), "ctx": None if ctx is None else len(ctx)}
    kind, r = libcall(lambda: KDF.HKDF(master, kl, salt, hashmod(h), nk, ctx), allowed=(Exception,), bucket="kdf/hkdf")
    if total > 255 * hl:
        if kind == "ok":
            raise Violation("kdf/hkdf/too-long-accepted", "%d bytes requested (> 255*HashLen) and returned" % total, **info)
        rec.nt("hkdf", h, "refused")
        rec.event("kdf-refused:hkdf")
        return
    if kind == "exc":
        raise Violation("kdf/hkdf/valid-parameters-refused", "%s: %s" % (type(r).__name__, r), **info)
    exp = rkdf.hkdf(master, total, salt, ctx or b"", fn, bs)
    if hln in ("sha1", "sha256", "sha512", "sha384", "sha224") and len(master) > 0:
        try:
            second = lc.kdf("HKDF", total, {"digest": hln.upper(), "key": master, "salt": salt or b"", "info": ctx or b""})
            if second != exp:
                raise HarnessError("libcrypto HKDF and reference disagree")
        except lc.LibCryptoError:
            pass
    if nk == 1:
        got = bytes(r)
        if not isinstance(r, (bytes, bytearray)):
            raise Violation("kdf/hkdf/return-type", "single key not returned as a byte string", **info)
    else:
        keys_ = [bytes(x) for x in r]
        if len(keys_) != nk or any(len(x) != kl for x in keys_):
            raise Violation("kdf/hkdf/num-keys-shape", "expected %d keys of %d bytes" % (nk, kl), **info)
        got = b"".join(keys_)
    if got != exp:
        raise Violation("kdf/hkdf/wrong-output", "output differs from RFC 5869 (multi-key output must be consecutive slices)", **info)
    rec.nt("hkdf", h, nk > 1, kl % hl == 0, min(total // hl, 4), total >= 254 * hl, salt is None, ctx is None)
    rec.event("kdf:hkdf:" + h)
    rec.sample(info)


# ------------------------------------------------------------------ scrypt
@st.composite
def strat_scrypt(draw, tier):
    bad = draw(st.sampled_from([None, None, None, None, "N-not-pow2", "N=1", "N=0", "N-too-big-for-r", "N>=2^32", "p*r-overflow"]))
    r = draw(st.integers(1, 8))
    p = draw(st.integers(1, 4))
    N = 1 << draw(st.integers(1, 10 if tier == "quick" else 12))
    if bad == "N-not-pow2":
        N = draw(st.sampled_from([3, 5, 6, 7, 12, 100, 1023, 1025]))
    elif bad == "N=1":
        N = 1
    elif bad == "N=0":
        N = 0
    elif bad == "N-too-big-for-r":
        r, N = 1, 1 << 16
    elif bad == "N>=2^32":
        N = 1 << draw(st.sampled_from([32, 33, 40]))
    elif bad == "p*r-overflow":
        r = draw(st.sampled_from([1 << 20, 1 << 25, 1 << 30]))
        p = ((2 ** 32 - 1) * 32) // (128 * r) + 1
        N = 2
    return {"password": draw(st.binary(max_size=30)), "salt": draw(st.binary(max_size=30)), "N": N, "r": r, "p": p,
            "key_len": draw(st.one_of(st.integers(1, 100), st.sampled_from([32, 64]))), "num_keys": draw(st.sampled_from([1, 1, 2, 3, 4])), "bad": bad}


def run_scrypt(case, rec):
    from Crypto.Protocol import KDF
    pw, salt, N, r, p, kl, nk, bad = (case[k] for k in ("password", "salt", "N", "r", "p", "key_len", "num_keys", "bad"))
    info = {k: case[k] for k in ("N", "r", "p", "key_len", "num_keys", "bad")}
    if bad in ("p*r-overflow",) or (bad == "N>=2^32"):
        pass
    kind, res = libcall(lambda: KDF.scrypt(pw, salt, kl, N, r, p, nk), allowed=(Exception,), bucket="kdf/scrypt")
    if bad:
        if kind == "ok":
            raise Violation("kdf/scrypt/out-of-domain-accepted/%s" % bad, "scrypt accepted N=%d r=%d p=%d (RFC 7914: N power of two, 1 < N < 2^(128r/8), p <= (2^32-1)*32/(128r))" % (N, r, p), **info)
        rec.nt("scrypt", bad)
        rec.event("kdf-refused:scrypt:" + bad)
        return
    if kind == "exc":
        raise Violation("kdf/scrypt/valid-parameters-refused", "%s: %s" % (type(res).__name__, res), **info)
    total = kl * nk
    exp = hashlib.scrypt(pw, salt=salt, n=N, r=r, p=p, dklen=total, maxmem=2 ** 30)
    if N <= 64 and r <= 2:
        if rkdf.scrypt(pw, salt, N, r, p, total) != exp:
            raise HarnessError("hashlib.scrypt and the pure reference disagree")
    got = bytes(res) if nk == 1 else b"".join(bytes(x) for x in res)
    if nk > 1 and (len(res) != nk or any(len(x) != kl for x in res)):
        raise Violation("kdf/scrypt/num-keys-shape", "expected %d keys of %d bytes" % (nk, kl), **info)
    if got != exp:
        raise Violation("kdf/scrypt/wrong-output", "output differs from RFC 7914", **info)
    rec.nt("scrypt", N.bit_length(), r, p, nk > 1, kl % 32 == 0)
    rec.event("kdf:scrypt")
    rec.sample(info)


# ------------------------------------------------------------------ bcrypt
B64 = b"./ABCDEFGHIJKLMNOPQRSTUVWXYZabcdefghijklmnopqrstuvwxyz0123456789"


@st.composite
def strat_bcrypt(draw, tier):
    cost = draw(st.sampled_from([4, 4, 4, 5] if tier == "quick" else [4, 4, 5, 6, 7, 10]))
    kind = draw(st.sampled_from(["bytes", "bytes", "boundary", "highbit", "str", "bad-long", "bad-nul", "bad-salt", "bad-cost"]))
    if kind == "bytes":
        pw = draw(st.binary(max_size=40)).replace(b"\0", b"\1")
    elif kind == "boundary":
        pw = draw(gen.data_of(st.sampled_from([0, 1, 55, 56, 70, 71, 72]))).replace(b"\0", b"\2")
    elif kind == "highbit":
        pw = bytes((b | 0x80) for b in draw(st.binary(min_size=1, max_size=30)))
    elif kind == "str":
        pw = draw(st.text(max_size=18).filter(lambda s: "\0" not in s))
    elif kind == "bad-long":
        pw = draw(gen.data_of(st.sampled_from([73, 74, 100]))).replace(b"\0", b"\3")
    elif kind == "bad-nul":
        x = bytearray(draw(st.binary(min_size=1, max_size=30)))
        x[draw(st.integers(0, len(x) - 1))] = 0
        pw = bytes(x)
    else:
        pw = draw(st.binary(max_size=10)).replace(b"\0", b"\1")
    salt = draw(st.binary(min_size=16, max_size=16))
    if kind == "bad-salt":
        salt = draw(st.binary(max_size=20).filter(lambda s: len(s) != 16))
    if kind == "bad-cost":
        cost = draw(st.sampled_from([0, 1, 3, 32, 33, 99, -1]))
    return {"kind": kind, "password": pw, "cost": cost, "salt": salt, "check": draw(st.sampled_from(["right", "right", "wrong-pw", "mut-hash", "mut-salt", "mut-cost", "mut-prefix", "mut-len"])),
            "pos": draw(st.integers(0, 10 ** 6))}


def run_bcrypt(case, rec):
    from Crypto.Protocol import KDF
    kind, pw, cost, salt = case["kind"], case["password"], case["cost"], case["salt"]
    pwb = as_bytes(pw)
    info = {"kind": kind, "pwlen": len(pwb), "cost": cost, "saltlen": len(salt)}
    k, h = libcall(lambda: KDF.bcrypt(pw, cost, salt), allowed=(Exception,), bucket="kdf/bcrypt")
    if kind.startswith("bad") or len(pwb) > 72:
        if k == "ok":
            raise Violation("kdf/bcrypt/out-of-domain-accepted/%s" % kind, "bcrypt accepted %s" % kind, **info)
        rec.nt("bcrypt", kind)
        rec.event("kdf-refused:bcrypt:" + kind)
        return
    if k == "exc":
        raise Violation("kdf/bcrypt/valid-parameters-refused", "%s: %s" % (type(h).__name__, h), **info)
    h = bytes(h)
    exp = rkdf.bcrypt_hash(pwb, cost, salt, prefix=b"2a")
    if h != exp:
        raise Violation("kdf/bcrypt/wrong-hash", "hash %r, reference %r" % (h, exp), **info)
    # second oracle: libxcrypt for UTF-8 decodable passwords ($2b$ has the same algorithm as OpenBSD $2a$)
    try:
        import warnings
        with warnings.catch_warnings():
            warnings.simplefilter("ignore")
            import crypt
        s = pwb.decode("utf-8")
        if "\0" not in s and cost <= 5:
            c2 = crypt.crypt(s, "$2b$%02d$%s" % (cost, exp[7:29].decode()))
            if c2 is not None and c2[4:].encode() != exp[4:]:
                raise HarnessError("libxcrypt and the bcrypt reference disagree")
    except (UnicodeDecodeError, ImportError):
        pass
    # bcrypt_check
    chk = case["check"]
    given, cpw = h, pw
    should = True
    pos = case["pos"]
    if chk == "wrong-pw":
        cpw = pwb + b"x" if len(pwb) < 72 else pwb[:-1] + bytes([pwb[-1] ^ 1 or 1])
        should = False
    elif chk == "mut-hash":
        # change one of the 31 hash characters so that decoded bits change (last char carries 2 padding bits: use canonical alphabet step of 4)
        i = 29 + pos % 31
        b = bytearray(h)
        idx = B64.index(b[i])
        if i == 59:
            b[i] = B64[(idx + 4 * (1 + pos % 15)) % 64]
        else:
            b[i] = B64[(idx + 1 + pos % 63) % 64]
        given = bytes(b)
        should = False
    elif chk == "mut-salt":
        i = 7 + pos % 21          # not the last salt character (4 padding bits)
        b = bytearray(h)
        b[i] = B64[(B64.index(b[i]) + 1 + pos % 63) % 64]
        given = bytes(b)
        should = False
    elif chk == "mut-cost":
        newc = 4 + (cost - 4 + 1) % 2
        if newc == cost:
            newc = 5
        given = h[:4] + b"%02d" % newc + h[6:]
        should = False
    elif chk == "mut-prefix":
        given = b"$2" + [b"b", b"y", b"x", b"c"][pos % 4] + h[3:]
        should = None       # other prefixes: refusing is fine, accepting only if the algorithm is the same (2b/2y)
    elif chk == "mut-len":
        given = h[:-1] if pos % 2 else h + b"."
        should = False
    k, r = libcall(lambda: KDF.bcrypt_check(cpw, given), allowed=(ValueError,), bucket="kdf/bcrypt_check")
    if should is True and k == "exc":
        raise Violation("kdf/bcrypt_check/matching-pair-rejected", "bcrypt_check rejected the matching password/hash: %s" % r, **info)
    if should is False and k == "ok":
        raise Violation("kdf/bcrypt_check/non-matching-pair-accepted/%s" % chk, "bcrypt_check accepted a %s pair" % chk, **info)
    if should is None and k == "ok" and given[:4] not in (b"$2b$", b"$2y$"):
        raise Violation("kdf/bcrypt_check/unknown-prefix-accepted", "prefix %r accepted" % given[:4], **info)
    rec.nt("bcrypt", kind, cost, len(pwb) in (0, 71, 72), chk)
    rec.event("kdf:bcrypt:%s:%s" % (kind, chk))
    rec.sample(info)


# ------------------------------------------------------------------ SP 800-108 counter mode
@st.composite
def strat_sp800(draw, tier):
    prf = draw(st.sampled_from(["HMAC-SHA1", "HMAC-SHA256", "HMAC-SHA512", "HMAC-SHA3_256", "CMAC-AES128", "CMAC-AES256"]))
    kl = draw(st.one_of(st.integers(1, 80), st.sampled_from([16, 20, 32, 64])))
    return {"prf": prf, "master": draw(st.binary(min_size=(16 if "CMAC-AES128" in prf else 32) if "CMAC" in prf else 1, max_size=(16 if "CMAC-AES128" in prf else 32) if "CMAC" in prf else 70)),
            "key_len": kl, "num_keys": draw(st.sampled_from([None, None, 1, 2, 3])),
            "label": draw(st.one_of(st.just(b""), st.binary(max_size=40), st.just(b"a\0b"))),
            "context": draw(st.one_of(st.just(b""), st.binary(max_size=40))).replace(b"\0", b"\1")}


def run_sp800(case, rec):
    from Crypto.Protocol import KDF
    from Crypto.Hash import HMAC, CMAC
    from Crypto.Cipher import AES
    prf, master, kl, nk, label, ctx = (case[k] for k in ("prf", "master", "key_len", "num_keys", "label", "context"))
    if prf.startswith("HMAC"):
        hn = prf.split("-")[1]
        lib_prf = lambda k, m: HMAC.new(k, m, hashmod(hn)).digest()
        ref_prf = lambda k, m: oracles.ref_hmac(hn, k, m)
    else:
        lib_prf = lambda k, m: CMAC.new(k, m, ciphermod=AES).digest()
        ref_prf = lambda k, m: modes.cmac(modes.aes_bc(bytes(k)), bytes(m))
    n = nk or 1
    kind, r = libcall(lambda: KDF.SP800_108_Counter(master, kl, lib_prf, nk, label, ctx), allowed=(), bucket="kdf/sp800-108")
    exp = rkdf.sp800_108_counter(ref_prf, master, label, ctx, kl * n)
    info = {"prf": prf, "key_len": kl, "num_keys": nk, "label": len(label), "context": len(ctx)}
    if prf in ("HMAC-SHA256", "HMAC-SHA1", "HMAC-SHA512") and label and len(master) >= 1:
        try:
            second = lc.kdf("KBKDF", kl * n, {"mode": "counter", "mac": "HMAC", "digest": prf.split("-")[1], "key": master, "salt": label, "info": ctx})
            if second != exp:
                raise HarnessError("libcrypto KBKDF and reference disagree")
        except lc.LibCryptoError:
            pass
    if nk in (None, 1):
        if nk is None and not isinstance(r, (bytes, bytearray)):
            raise Violation("kdf/sp800-108/return-type", "single key not returned as byte string", **info)
        got = bytes(r) if isinstance(r, (bytes, bytearray)) else b"".join(bytes(x) for x in r)
    else:
        if len(r) != nk or any(len(x) != kl for x in r):
            raise Violation("kdf/sp800-108/num-keys-shape", "expected %d keys of %d bytes" % (nk, kl), **info)
        got = b"".join(bytes(x) for x in r)
    if got != exp:
        raise Violation("kdf/sp800-108/wrong-output", "output differs from SP 800-108r1 counter mode", **info)
    rec.nt("sp800", prf, (nk or 0) > 1, kl > 32, len(label) > 0, len(ctx) > 0)
    rec.event("kdf:sp800-108:" + prf)
    rec.sample(info)


# ------------------------------------------------------------------ S2V
@st.composite
def strat_s2v(draw, tier):
    kl = draw(st.sampled_from([16, 24, 32]))
    n = draw(st.one_of(st.integers(0, 6), st.sampled_from([0, 1, 126, 127, 128])))
    if n > 10:
        items = [bytes([i & 0xFF]) for i in range(n)]
    else:
        items = [draw(gen.data_of(st.one_of(st.integers(0, 40), st.sampled_from([0, 15, 16, 17, 31, 32, 33])))) for _ in range(n)]
    return {"key": draw(st.binary(min_size=kl, max_size=kl)), "items": items}


def run_s2v(case, rec):
    from Crypto.Protocol.KDF import _S2V
    from Crypto.Cipher import AES
    key, items = case["key"], case["items"]
    s = _S2V.new(key, AES)
    refused = False
    for it in items:
        k, r = libcall(s.update, it, allowed=(TypeError,), bucket="kdf/s2v/update")
        if k == "exc":
            refused = True
            break
    if len(items) > 127:
        if not refused:
            raise Violation("kdf/s2v/too-many-components-accepted", "more than 127 components accepted", n=len(items))
        rec.nt("s2v", "refused")
        return
    if refused:
        raise Violation("kdf/s2v/valid-vector-refused", "S2V refused %d components" % len(items))
    got = bytes(s.derive())
    exp = modes.s2v(modes.aes_bc(key), [bytes(i) for i in items])
    if got != exp:
        raise Violation("kdf/s2v/wrong-output", "S2V over %d components differs from RFC 5297" % len(items), n=len(items), lens=[len(i) for i in items][:8])
    rec.nt("s2v", min(len(items), 8), len(key), tuple(len(i) >= 16 for i in items[-1:]))
    rec.event("kdf:s2v:%d" % min(len(items), 8))
    rec.sample({"n": len(items), "lens": [len(i) for i in items][:8]})


CHECKS = [
    Check("pbkdf", run=run_pbkdf, strategy=strat_pbkdf, examples=(4000, 80000), shards=(16, 16),
          rule="PBKDF1/PBKDF2 output == RFC 8018 (hashlib.pbkdf2_hmac, libcrypto PBKDF1, formula reference); out-of-domain refused"),
    Check("hkdf", run=run_hkdf, strategy=strat_hkdf, examples=(4000, 80000), shards=(8, 16),
          rule="HKDF == RFC 5869 (formula + libcrypto); num_keys slices; 255*HashLen limit"),
    Check("scrypt", run=run_scrypt, strategy=strat_scrypt, examples=(600, 10000), shards=(8, 16),
          rule="scrypt == hashlib.scrypt (+ pure reference for tiny N); parameter domain refused"),
    Check("bcrypt", run=run_bcrypt, strategy=strat_bcrypt, examples=(400, 8000), shards=(16, 16),
          rule="bcrypt == pure reference (+ libxcrypt); bcrypt_check accepts exactly matching pairs; domain refused"),
    Check("sp800_108", run=run_sp800, strategy=strat_sp800, examples=(3000, 50000), shards=(4, 8),
          rule="SP 800-108r1 counter mode with HMAC/CMAC PRFs == formula (+ libcrypto KBKDF)"),
    Check("s2v", run=run_s2v, strategy=strat_s2v, examples=(3000, 50000), shards=(4, 8),
          rule="S2V over vectors of 0..127 strings == RFC 5297 reference; >127 components refused"),
]
