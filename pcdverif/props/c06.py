"""C06 — EC arithmetic follows the group law; ECDH/X25519/X448 secrets are correct."""
import hashlib

from hypothesis import strategies as st

from ..core import Check, Violation, HarnessError, Skip, libcall
from .. import gen, keys
from ..refs import ec, libcrypto as lc

META = {
    "rule": "nine curves; points: generator, k*G for generated k (built from reference coordinates), neutral element, -P, operands equal / "
            "opposite to each other, small-order points of Ed25519/Ed448, arbitrary valid and low-order u for Curve25519/Curve448; scalars "
            "0, 1, 2, n-1, n, n+1, 2n, 2^bits-1, 2^k, random up to twice the field size, 1000-bit values; operations +, +=, P+=P, -P, "
            "double, *, *=, k*P, ==, !=, xy, copy; key agreement in every admitted static/ephemeral role combination. Oracle: affine "
            "short-Weierstrass / twisted-Edwards arithmetic and the RFC 7748 ladder on Python ints (refs/ec.py), algebraic relations, "
            "libcrypto ECDH/XDH as second opinion. Non-trivial = exceptional operand combination (neutral, equal, opposite, low order) or "
            "scalar >= n-1 or <= 2 or a non-generator base point; distinct by (curve, operation, operand class pair, scalar class)",
    "assumptions": ["curve constants of refs/ec.py are verified mathematically at import (primality, generator on curve, n*G = O)",
                    "a genuine curve point that the library refuses to construct is counted (completeness_gap), not flagged"],
    "unexplored": [],
}

WS = keys.NIST
ED = ["ed25519", "ed448"]
MONT = ["curve25519", "curve448"]


def C(curve):
    return ec.CURVES[keys.REFNAME[curve]]


@st.composite
def scalar(draw, n, bits):
    k = draw(st.integers(0, 11))
    if k == 0:
        return draw(st.sampled_from([0, 1, 2, 3, 4, 8, n - 2, n - 1, n, n + 1, 2 * n, 2 * n - 1, 4 * n, 8 * n, 8 * n + 1, 16 * n, (1 << bits) - 1, 1 << bits, (1 << bits) + 1,
                                     n // 2, n // 2 + 1]))
    if k == 1:
        return 1 << draw(st.integers(0, 2 * bits))
    if k == 2:
        return draw(st.integers(0, (1 << (2 * bits)) - 1))
    if k == 3:
        return draw(st.integers(1 << 990, (1 << 1000) - 1))
    if k == 4:
        return draw(st.integers(0, 1 << 64))
    return draw(st.integers(0, n - 1))


def sclass(k, n, bits):
    if k <= 2:
        return str(k)
    if k in (n - 1, n, n + 1):
        return "n%+d" % (k - n)
    if k > (1 << bits):
        return ">field" if k < (1 << (2 * bits + 2)) else "huge"
    if k >= n:
        return ">=n"
    return "mid"


# ------------------------------------------------------------------ Weierstrass / Edwards: complete operation set
@st.composite
def strat_ops(draw, tier):
    curve = draw(st.sampled_from(WS + ED + ED))
    c = C(curve)
    n, bits = c["n"] if curve in WS else c["L"], c["bits"]
    pts = []
    for _ in range(2):
        kind = draw(st.sampled_from(["G", "kG", "kG", "O", "neg-other", "same-other", "small-order", "n-1 G"]))
        pts.append([kind, draw(st.integers(1, n - 1)), draw(st.integers(0, 7))])
    nops = draw(st.integers(1, 5))
    ops = [[draw(st.sampled_from(["add", "iadd", "iadd-self", "neg", "double", "mul", "imul", "rmul", "eq", "copy", "add-copy", "sub-self"])),
            draw(scalar(n, bits))] for _ in range(nops)]
    return {"curve": curve, "pts": pts, "ops": ops}


def ref_point(curve, kind, k, idx, other):
    c = C(curve)
    ws = curve in WS
    G = (c["Gx"], c["Gy"])
    neutral = None if ws else (0, 1)
    mul = ec.ws_mul if ws else ec.ed_mul
    neg = ec.ws_neg if ws else ec.ed_neg
    if kind == "G":
        return G
    if kind == "kG":
        return mul(c, k, G)
    if kind == "O":
        return neutral
    if kind == "n-1 G":
        return neg(c, G)
    if kind == "neg-other":
        return neg(c, other) if other is not None else None
    if kind == "same-other":
        return other
    if kind == "small-order":
        if ws:
            return neutral
        so = ec.ed_small_order_points(c)
        return so[idx % len(so)]
    raise HarnessError(kind)


def lib_point(curve, P):
    from Crypto.PublicKey.ECC import EccPoint
    ws = curve in WS
    if ws and P is None:
        return EccPoint(0, 0, curve).point_at_infinity() if False else _inf(curve)
    return EccPoint(P[0], P[1], curve)


def _inf(curve):
    from Crypto.PublicKey import ECC
    return ECC._curves[curve].G.point_at_infinity()


def as_ref(curve, lp):
    """Library point -> reference representation."""
    ws = curve in WS
    x, y = lp.xy
    x, y = int(x), int(y)
    inf = lp.is_point_at_infinity()
    if ws:
        if inf != ((x, y) == (0, 0)):
            raise Violation("ec/%s/is_point_at_infinity" % curve, "is_point_at_infinity() is %r for coordinates (%d, %d)" % (inf, x, y))
        return None if inf else (x, y)
    if inf != ((x, y) == (0, 1)):
        raise Violation("ec/%s/is_point_at_infinity" % curve, "is_point_at_infinity() is %r for the point (%d, %d); the neutral element is (0, 1)" % (inf, x, y))
    return (x, y)


def run_ops(case, rec):
    curve = case["curve"]
    c = C(curve)
    ws = curve in WS
    n, bits = (c["n"] if ws else c["L"]), c["bits"]
    add = ec.ws_add if ws else ec.ed_add
    neg = ec.ws_neg if ws else ec.ed_neg
    mul = ec.ws_mul if ws else ec.ed_mul
    neutral = None if ws else (0, 1)
    refs, libs = [], []
    other = (c["Gx"], c["Gy"])
    for kind, k, idx in case["pts"]:
        P = ref_point(curve, kind, k, idx, other)
        kk, lp = libcall(lib_point, curve, P, allowed=(ValueError,), bucket="ec/%s/new_point" % curve)
        if kk == "exc":
            on = (ec.ws_on_curve(c, P) if ws else ec.ed_on_curve(c, P)) if P is not None else True
            if on:
                rec.event("completeness_gap:valid-point-refused:%s:%s" % (curve, kind))
                raise Skip()
            raise HarnessError("reference produced an off-curve point")
        refs.append(P)
        libs.append(lp)
        other = P
    P, Q = refs
    LP, LQ = libs
    info = {"curve": curve, "pts": [p[0] for p in case["pts"]]}
    classes = tuple(p[0] for p in case["pts"])
    for op, k in case["ops"]:
        before_P, before_Q = as_ref(curve, LP), as_ref(curve, LQ)
        tag = "ec/%s/%s" % (curve, op)
        if op == "add":
            kk, R = libcall(lambda: LP + LQ, allowed=(), bucket=tag)
            exp = add(c, P, Q)
            got = as_ref(curve, R)
        elif op == "add-copy":
            kk, R = libcall(lambda: LP + LP.copy(), allowed=(), bucket=tag)
            exp = add(c, P, P)
            got = as_ref(curve, R)
        elif op == "sub-self":
            kk, R = libcall(lambda: LP + (-LP), allowed=(), bucket=tag)
            exp = neutral
            got = as_ref(curve, R)
        elif op == "iadd":
            kk, R = libcall(LP.__iadd__, LQ, allowed=(), bucket=tag)
            P = add(c, P, Q)
            exp, got = P, as_ref(curve, LP)
            if R is not LP:
                raise Violation(tag + "/not-in-place", "+= returned another object", **info)
        elif op == "iadd-self":
            kk, R = libcall(LP.__iadd__, LP, allowed=(), bucket=tag)
            P = add(c, P, P)
            exp, got = P, as_ref(curve, LP)
        elif op == "neg":
            kk, R = libcall(lambda: -LP, allowed=(), bucket=tag)
            exp, got = neg(c, P) if P is not None else None, as_ref(curve, R)
        elif op == "double":
            kk, R = libcall(LP.double, allowed=(), bucket=tag)
            P = add(c, P, P)
            exp, got = P, as_ref(curve, LP)
        elif op in ("mul", "rmul"):
            kk, R = libcall((lambda: LP * k) if op == "mul" else (lambda: k * LP), allowed=(ValueError,), bucket=tag)
            if kk == "exc":
                raise Violation("ec/%s/scalar-refused" % curve, "scalar multiplication by a %d-bit non-negative scalar raised: %s" % (k.bit_length(), R),
                                scalar_bits=k.bit_length(), **info)
            exp, got = mul(c, k, P) if P is not None else None, as_ref(curve, R)
            if ws and P is not None and mul(c, k % n, P) != exp:
                raise HarnessError("reference scalar multiplication inconsistent")
        elif op == "imul":
            kk, R = libcall(LP.__imul__, k, allowed=(ValueError,), bucket=tag)
            if kk == "exc":
                raise Violation("ec/%s/scalar-refused" % curve, "scalar multiplication by a %d-bit non-negative scalar raised: %s" % (k.bit_length(), R),
                                scalar_bits=k.bit_length(), **info)
            P = mul(c, k, P) if P is not None else None
            exp, got = P, as_ref(curve, LP)
        elif op == "eq":
            e1 = LP == LQ
            e2 = LP != LQ
            same = (P == Q) if not (P is None or Q is None) else (P is None and Q is None)
            if not ws:
                same = (P[0] % c["p"], P[1] % c["p"]) == (Q[0] % c["p"], Q[1] % c["p"])
            if bool(e1) != same or bool(e2) == same:
                raise Violation(tag + "/wrong", "== gives %r, != gives %r, points are %s" % (e1, e2, "equal" if same else "different"), **info)
            exp = got = None
        elif op == "copy":
            cp = LP.copy()
            cp += LQ
            exp, got = P, as_ref(curve, LP)           # the copy is independent: LP unchanged
        if not ws and exp is None:
            exp = (0, 1)
        if op != "eq" and got != exp:
            raise Violation(tag + "/wrong-result", "%s on (%s, %s) gives %s, group law gives %s" % (op, classes[0], classes[1], str(got)[:80], str(exp)[:80]),
                            scalar=k if "mul" in op else None, **info)
        # operands of out-of-place operators are not modified
        if op in ("add", "neg", "mul", "rmul", "eq", "add-copy", "sub-self", "copy") and (as_ref(curve, LP) != before_P or as_ref(curve, LQ) != before_Q):
            raise Violation(tag + "/operand-modified", "an out-of-place operator changed an operand", **info)
        if op in ("iadd", "double", "imul", "iadd-self") and as_ref(curve, LQ) != before_Q and LP is not LQ:
            raise Violation(tag + "/other-operand-modified", "in-place operator changed the other operand", **info)
        exceptional = any(x in ("O", "neg-other", "same-other", "small-order", "n-1 G") for x in classes) or ("mul" in op and (k <= 2 or k >= n - 1)) or classes[0] != "G"
        if exceptional:
            rec.nt(curve, op, classes, sclass(k, n, bits) if "mul" in op else "")
        rec.event("ec:%s:%s" % (curve, op))
    rec.sample({"curve": curve, "pts": case["pts"], "ops": [[o, k.bit_length()] for o, k in case["ops"]]})


# ------------------------------------------------------------------ algebraic relations (library only)
@st.composite
def strat_rel(draw, tier):
    curve = draw(st.sampled_from(WS + ED))
    c = C(curve)
    n, bits = (c["n"] if curve in WS else c["L"]), c["bits"]
    return {"curve": curve, "k1": draw(scalar(n, bits)), "k2": draw(scalar(n, bits)), "base": draw(st.integers(1, n - 1))}


def run_rel(case, rec):
    from Crypto.PublicKey import ECC
    from Crypto.PublicKey.ECC import EccPoint
    curve = case["curve"]
    c = C(curve)
    ws = curve in WS
    n = c["n"] if ws else c["L"]
    k1, k2 = case["k1"], case["k2"]
    G = ECC._curves[curve].G
    # an independently constructed copy of the generator (the C code selects the fixed-base path by comparing with G)
    G2 = EccPoint(c["Gx"], c["Gy"], curve)
    mul = ec.ws_mul if ws else ec.ed_mul
    B = mul(c, case["base"], (c["Gx"], c["Gy"]))
    Pb = EccPoint(B[0], B[1], curve)
    info = {"curve": curve, "k1": k1, "k2": k2}
    for name, P in (("G", G), ("G-copy", G2), ("base", Pb)):
        kk, a = libcall(lambda: P * k1, allowed=(ValueError,), bucket="ec/%s/mul" % curve)
        if kk == "exc":
            raise Violation("ec/%s/scalar-refused" % curve, "scalar multiplication by a %d-bit scalar raised: %s" % (k1.bit_length(), a), scalar_bits=k1.bit_length(), curve=curve)
        kk, b = libcall(lambda: P * k2, allowed=(ValueError,), bucket="ec/%s/mul" % curve)
        if kk == "exc":
            raise Violation("ec/%s/scalar-refused" % curve, "scalar multiplication by a %d-bit scalar raised: %s" % (k2.bit_length(), b), scalar_bits=k2.bit_length(), curve=curve)
        s = P * (k1 + k2)
        if (a + b) != s:
            raise Violation("ec/%s/distributive" % curve, "k1*P + k2*P != (k1+k2)*P for P=%s" % name, **info)
        if (P * (k1 % n)) != a:
            raise Violation("ec/%s/mod-order" % curve, "(k mod n)*P != k*P for P=%s" % name, **info)
        if not (P * n).is_point_at_infinity():
            raise Violation("ec/%s/order" % curve, "n*P is not the neutral element for P=%s" % name, **info)
    if (G * k1) != (G2 * k1):
        raise Violation("ec/%s/generator-fast-path" % curve, "k*G through the generator object differs from k*G' for an equal, separately built point", **info)
    rec.nt(curve, sclass(k1, n, c["bits"]), sclass(k2, n, c["bits"]))
    rec.event("rel:" + curve)


# ------------------------------------------------------------------ Montgomery x-only points
@st.composite
def strat_mont(draw, tier):
    curve = draw(st.sampled_from(MONT))
    c = C(curve)
    p = c["p"]
    ukind = draw(st.sampled_from(["G", "rand", "rand", "low-order", "twist"]))
    return {"curve": curve, "ukind": ukind, "u": draw(st.integers(0, p - 1)), "idx": draw(st.integers(0, 20)), "k": draw(scalar(c["L"], c["bits"])),
            "seed": draw(st.binary(min_size=8, max_size=8))}


def run_mont(case, rec):
    from Crypto.PublicKey.ECC import EccXPoint
    curve = case["curve"]
    c = C(curve)
    p = c["p"]
    uk = case["ukind"]
    if uk == "G":
        u = c["Gu"]
    elif uk == "low-order":
        lo = ec.mont_low_order_us(c)
        u = lo[case["idx"] % len(lo)]
    else:
        u = case["u"]
        if uk == "rand":
            for t in range(200):
                if ec.mont_on_curve(c, (u + t) % p):
                    u = (u + t) % p
                    break
        else:
            for t in range(200):
                if not ec.mont_on_curve(c, (u + t) % p):
                    u = (u + t) % p
                    break
    on_curve = ec.mont_on_curve(c, u)
    kk, P = libcall(EccXPoint, u, curve, allowed=(ValueError,), bucket="mont/%s/new" % curve)
    info = {"curve": curve, "ukind": uk, "u": u, "k": case["k"]}
    if kk == "exc":
        if on_curve and uk != "low-order":
            rec.event("completeness_gap:mont-valid-u-refused:" + curve)
        rec.event("mont:%s:%s:refused" % (curve, uk))
        rec.nt(curve, uk, "refused")
        return
    if not on_curve:
        # x-only arithmetic is defined on the twist as well; the library accepted it: results must still follow the ladder
        rec.event("mont:twist-u-accepted")
    k = case["k"]
    kk, R = libcall(lambda: P * k, allowed=(ValueError,), bucket="mont/%s/mul" % curve)
    if kk == "exc":
        raise Violation("mont/%s/scalar-refused" % curve, "scalar multiplication by a %d-bit scalar raised: %s" % (k.bit_length(), R), **info)
    # projective ladder: Z == 0 <=> the result is the neutral element (exact for every k when u != 0, Bernstein 2006 Thm B.1);
    # u = 0 with Z != 0 is the point of order two, which is *not* the neutral element
    X, Z = ec._ladder_xz(c, k, u)
    exp = X * pow(Z, p - 2, p) % p
    true_inf = Z % p == 0
    lib_inf = bool(R.is_point_at_infinity())
    if u % p == 0:
        # base point (0, 0) of order two: the x-only formulas degenerate, the group law is k*(0,0) = (0,0) for odd k and the neutral element for even k
        true_inf = k % 2 == 0
        exp = 0
        if lib_inf != true_inf:
            raise Violation("mont/%s/order-2-point" % curve, "%d*(0,0) reported as %s; (0,0) has order two, the group law gives %s"
                            % (k if k < 1000 else -1, "the neutral element" if lib_inf else "an ordinary point", "the neutral element" if true_inf else "(0,0)"), **info)
        if not lib_inf and int(R.x) != 0:
            raise Violation("mont/%s/wrong-result" % curve, "k*(0,0) has u=%d" % int(R.x), **info)
        got = 0
    elif lib_inf:
        got = 0
        if not true_inf:
            raise Violation("mont/%s/wrong-infinity" % curve, "k*P reported as point at infinity, the ladder gives u=%d (Z != 0)" % exp, **info)
    else:
        got = int(R.x)
        if true_inf:
            raise Violation("mont/%s/infinity-not-reported" % curve, "k*P is the neutral element (Z = 0 in the ladder) but the result is an ordinary point with u=%d" % got, **info)
        if got != exp:
            raise Violation("mont/%s/wrong-result" % curve, "k*P has u=%d, RFC 7748 ladder gives %d" % (got, exp), **info)
    if true_inf:
        rec.event("mont:%s:neutral-result" % curve)
    if int(P.x) != u % p:
        raise Violation("mont/%s/operand-modified" % curve, "scalar multiplication changed its operand", **info)
    rec.nt(curve, uk, sclass(k, c["L"], c["bits"]))
    rec.event("mont:%s:%s" % (curve, uk))
    rec.sample({"curve": curve, "ukind": uk, "k_bits": k.bit_length()})


# ------------------------------------------------------------------ key agreement
ROLES = ["s-s", "e-s", "s-e", "e-e", "es-es", "e-ss", "ss-e"]


@st.composite
def strat_ecdh(draw, tier):
    curve = draw(st.sampled_from(WS + MONT + MONT))
    return {"curve": curve, "roles": draw(st.sampled_from(ROLES)), "seeds": [draw(st.binary(min_size=8, max_size=8)) for _ in range(4)],
            "peer": draw(st.sampled_from(["normal", "normal", "normal", "low-order", "non-canonical", "off-curve"]))}


def mk_pair(curve, seed):
    """(library private key, reference private, reference public)."""
    from Crypto.PublicKey import ECC
    c = C(curve)
    if curve in WS:
        d = keys.ecc_scalar(curve, seed)
        return ECC.construct(curve=curve, d=d), d, ec.ws_mul(c, d, (c["Gx"], c["Gy"]))
    sd = keys.ecc_seed(curve, seed)
    f = ec.x25519 if curve == "curve25519" else ec.x448
    base = (9).to_bytes(32, "little") if curve == "curve25519" else (5).to_bytes(56, "little")
    return ECC.construct(curve=curve, seed=sd), sd, f(sd, base)


def ref_dh(curve, priv, pub):
    c = C(curve)
    if curve in WS:
        P = ec.ws_mul(c, priv, pub)
        if P is None:
            return None
        return P[0].to_bytes((c["p"].bit_length() + 7) // 8, "big")
    f = ec.x25519 if curve == "curve25519" else ec.x448
    z = f(priv, pub)
    return None if z == bytes(len(z)) else z


def run_ecdh(case, rec):
    from Crypto.Protocol.DH import key_agreement
    from Crypto.PublicKey import ECC
    from Crypto.Protocol import DH
    curve, roles = case["curve"], case["roles"]
    c = C(curve)
    A_s, A_e, B_s, B_e = [mk_pair(curve, s) for s in case["seeds"]]
    ident = lambda z: z
    info = {"curve": curve, "roles": roles, "peer": case["peer"]}
    if case["peer"] != "normal":
        # a hostile static public key offered to party A
        if curve in WS:
            if case["peer"] == "off-curve":
                x, y = B_s[2]
                kk, r = libcall(ECC.construct, curve=curve, point_x=x, point_y=(y + 1) % c["p"], allowed=(ValueError,), bucket="ecdh/construct")
                if kk == "ok":
                    raise Violation("ecdh/%s/off-curve-peer-accepted" % curve, "an off-curve public point was accepted", **info)
                rec.nt(curve, "off-curve-refused")
            raise Skip()
        p = c["p"]
        ln = 32 if curve == "curve25519" else 56
        imp = DH.import_x25519_public_key if curve == "curve25519" else DH.import_x448_public_key
        lo = ec.mont_low_order_us(c)
        if case["peer"] == "low-order":
            u = lo[case["seeds"][0][0] % len(lo)]
            enc_ = u.to_bytes(ln, "little")
        elif case["peer"] == "non-canonical":
            u = lo[case["seeds"][0][0] % len(lo)] + p
            if u.bit_length() > 8 * ln:
                raise Skip()
            enc_ = u.to_bytes(ln, "little")
        else:
            raise Skip()
        expz = ref_dh(curve, A_s[1], enc_)
        kk, pk = libcall(imp, enc_, allowed=(ValueError,), bucket="ecdh/import")
        if kk == "ok":
            kk2, z = libcall(key_agreement, static_priv=A_s[0], static_pub=pk, kdf=ident, allowed=(ValueError,), bucket="ecdh/key_agreement")
            if kk2 == "ok":
                if expz is None:
                    raise Violation("ecdh/%s/neutral-result-accepted" % curve, "exchange with a low-order peer (%s) returned %s instead of raising" % (case["peer"], bytes(z).hex()[:32]), **info)
                if bytes(z) != expz:
                    raise Violation("ecdh/%s/wrong-secret" % curve, "secret differs from RFC 7748", **info)
        rec.nt(curve, case["peer"], kk)
        rec.event("ecdh:%s:%s:%s" % (curve, case["peer"], "refused" if kk == "exc" else "imported"))
        return
    # both parties, every admitted role combination
    def pub(pair):
        return pair[0].public_key()
    if roles == "s-s":
        a = dict(static_priv=A_s[0], static_pub=pub(B_s))
        b = dict(static_priv=B_s[0], static_pub=pub(A_s))
        exp = ref_dh(curve, A_s[1], B_s[2])
    elif roles == "e-s":
        a = dict(eph_priv=A_e[0], static_pub=pub(B_s))
        b = dict(static_priv=B_s[0], eph_pub=pub(A_e))
        exp = ref_dh(curve, A_e[1], B_s[2])
    elif roles == "s-e":
        a = dict(static_priv=A_s[0], eph_pub=pub(B_e))
        b = dict(eph_priv=B_e[0], static_pub=pub(A_s))
        exp = ref_dh(curve, A_s[1], B_e[2])
    elif roles == "e-e":
        a = dict(eph_priv=A_e[0], eph_pub=pub(B_e))
        b = dict(eph_priv=B_e[0], eph_pub=pub(A_e))
        exp = ref_dh(curve, A_e[1], B_e[2])
    elif roles == "es-es":
        a = dict(eph_priv=A_e[0], eph_pub=pub(B_e), static_priv=A_s[0], static_pub=pub(B_s))
        b = dict(eph_priv=B_e[0], eph_pub=pub(A_e), static_priv=B_s[0], static_pub=pub(A_s))
        exp = ref_dh(curve, A_e[1], B_e[2]) + ref_dh(curve, A_s[1], B_s[2])          # Z = Ze || Zs (SP 800-56A)
    elif roles == "e-ss":
        a = dict(eph_priv=A_e[0], static_priv=A_s[0], static_pub=pub(B_s))
        b = dict(eph_pub=pub(A_e), static_priv=B_s[0], static_pub=pub(A_s))
        exp = ref_dh(curve, A_e[1], B_s[2]) + ref_dh(curve, A_s[1], B_s[2])
    else:
        a = dict(eph_pub=pub(B_e), static_priv=A_s[0], static_pub=pub(B_s))
        b = dict(eph_priv=B_e[0], static_priv=B_s[0], static_pub=pub(A_s))
        exp = ref_dh(curve, A_s[1], B_e[2]) + ref_dh(curve, A_s[1], B_s[2])
    kk, za = libcall(key_agreement, kdf=ident, allowed=(ValueError, TypeError), bucket="ecdh/key_agreement", **a)
    kk2, zb = libcall(key_agreement, kdf=ident, allowed=(ValueError, TypeError), bucket="ecdh/key_agreement", **b)
    if kk == "exc" or kk2 == "exc":
        raise Violation("ecdh/%s/role-combination-refused" % curve, "role combination %s refused: %s" % (roles, za if kk == "exc" else zb), **info)
    if bytes(za) != bytes(zb):
        raise Violation("ecdh/%s/parties-disagree" % curve, "the two parties derive different secrets (%s)" % roles, **info)
    if bytes(za) != exp:
        raise Violation("ecdh/%s/wrong-secret" % curve, "shared secret differs from SP 800-56A / RFC 7748 (%s)" % roles, **info)
    # libcrypto second opinion on the simplest combination
    if roles == "s-s":
        if curve in WS:
            z2 = lc.ecdh(keys.REFNAME[curve], A_s[1], B_s[2][0], B_s[2][1])
        else:
            z2 = lc.xdh("X25519" if curve == "curve25519" else "X448", A_s[1], B_s[2])
        if z2 is not None and z2 != exp:
            raise HarnessError("libcrypto and the reference disagree on ECDH")
    rec.nt(curve, roles)
    rec.event("ecdh:%s:%s" % (curve, roles))
    rec.sample(info)


CHECKS = [
    Check("ops", run=run_ops, strategy=strat_ops, examples=(6000, 150000), shards=(16, 16),
          rule="Weierstrass/Edwards point operation sequences vs affine reference arithmetic; operands preserved"),
    Check("relations", run=run_rel, strategy=strat_rel, examples=(1500, 40000), shards=(16, 16),
          rule="k1*P + k2*P == (k1+k2)*P, (k mod n)*P == k*P, n*P == O, generator fast path == generic path"),
    Check("montgomery", run=run_mont, strategy=strat_mont, examples=(3000, 60000), shards=(8, 16),
          rule="EccXPoint scalar multiplication vs RFC 7748 ladder for valid, twist and low-order u"),
    Check("ecdh", run=run_ecdh, strategy=strat_ecdh, examples=(2000, 50000), shards=(16, 16),
          rule="key_agreement in every static/ephemeral combination: both parties equal, equal to reference (+libcrypto); low-order peers refused"),
]
