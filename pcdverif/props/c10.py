"""C10 — objects obey their documented call-order state machine for every call sequence."""
import importlib

from hypothesis import strategies as st

from ..core import Check, Violation, HarnessError, Skip, libcall
from .. import gen, oracles, sym
from ..refs import modes

META = {
    "rule": "model-based stateful testing: a generated list of method calls (<= 30 quick / 60 thorough steps) is interpreted against "
            "the object and against a model transcribed from Doc/src/cipher/aead.png, ocb_mode.png, siv.png, modern.rst and the "
            "method docstrings; after every step: forbidden call => TypeError and model state unchanged (the object keeps being "
            "used and compared), permitted call => output equals the prefix of the one-shot computation over the data accepted so "
            "far, digest/verify idempotent (also after a failed verify), CCM declared-length violations => ValueError. "
            "Non-trivial = sequence with >=1 forbidden call followed by >=1 compared permitted call, or an idempotent call followed "
            "by another call; distinct by the abstract trace (method names + verdicts)",
    "assumptions": ["for the four calls the AEAD picture does not draw out of Initialized (encrypt, decrypt, digest, verify) the model "
                    "accepts success (results must then be right) or TypeError (then nothing changes)",
                    "after a CCM ValueError the object is not used further (the statement says nothing about continuing)",
                    "one-shot results come from a fresh object of the same library (conformance is C01/C02/C03)"],
    "unexplored": ["arguments of the wrong type (their TypeError is a different contract)"],
}

AEAD_METHODS = ["update", "update", "encrypt", "encrypt", "decrypt", "decrypt", "digest", "hexdigest", "verify_ok", "verify_bad",
                "hexverify_ok", "hexverify_bad", "encrypt_and_digest", "decrypt_and_verify_ok", "decrypt_and_verify_bad", "final"]


@st.composite
def steps_of(draw, methods, maxsteps):
    n = draw(st.integers(1, maxsteps))
    out = []
    for _ in range(n):
        m = draw(st.sampled_from(methods))
        out.append([m, draw(st.binary(max_size=40)) if draw(st.integers(0, 5)) else draw(gen.data_of(st.sampled_from([0, 15, 16, 17, 48, 100])))])
    return out


@st.composite
def strat_aead(draw, tier):
    fam = draw(st.sampled_from(["GCM", "EAX", "ChaCha20_Poly1305", "CCM", "CCM", "OCB", "SIV"]))
    spec = draw(sym.aead_spec(modes_=(fam,)))
    c = {"spec": spec, "steps": draw(steps_of(AEAD_METHODS, 14 if tier == "quick" else 30))}
    if fam == "CCM":
        c["msg_decl"] = draw(st.sampled_from([None, None, "exact", "more", "less"]))
        c["assoc_decl"] = draw(st.sampled_from([None, None, "exact", "more", "less"]))
    return c


class AeadModel:
    """Model of the documented AEAD life cycle. States: INIT HASH ENC DEC ENCF DECF ENCD DECD (F = OCB finalized)."""

    def __init__(self, mode):
        self.mode = mode
        self.state = "INIT"
        self.ccm_second_msg = False

    def verdict(self, m, ccm_single=False):
        """'ok' | 'forbidden' | 'lenient' for base method m in the current state."""
        s, mode = self.state, self.mode
        if mode == "SIV":
            if m in ("encrypt", "decrypt", "final"):
                return "forbidden" if m != "final" else "na"
            if m == "update":
                return "ok" if s in ("INIT", "HASH") else "forbidden"
            if m == "encrypt_and_digest":
                return "ok" if s in ("INIT", "HASH") else "forbidden"
            if m == "decrypt_and_verify":
                return "ok" if s in ("INIT", "HASH") else "forbidden"
            if m == "digest":
                return "ok" if s == "ENCD" else "lenient" if s in ("INIT", "HASH") else "forbidden"
            if m == "verify":
                return "ok" if s == "DECD" else "lenient" if s in ("INIT", "HASH") else "forbidden"
        if m == "final":
            if mode != "OCB":
                return "na"
            if s == "ENC":
                return "ok-enc"
            if s == "DEC":
                return "ok-dec"
            return "lenient-final"      # encrypt()/decrypt() with no argument elsewhere: not drawn; direction ambiguous
        if m == "update":
            return "ok" if s in ("INIT", "HASH") else "forbidden"
        if m == "encrypt":
            if s == "HASH":
                return "ok"
            if s == "ENC":
                return "forbidden" if ccm_single else "ok"
            return "lenient" if s == "INIT" else "forbidden"
        if m == "decrypt":
            if s == "HASH":
                return "ok"
            if s == "DEC":
                return "forbidden" if ccm_single else "ok"
            return "lenient" if s == "INIT" else "forbidden"
        if m == "digest":
            if mode == "OCB":
                if s in ("ENCF", "ENCD", "HASH"):
                    return "ok"
                return "lenient" if s == "INIT" else "forbidden"
            if s in ("HASH", "ENC", "ENCD"):
                return "ok"
            return "lenient" if s == "INIT" else "forbidden"
        if m == "verify":
            if mode == "OCB":
                if s in ("DECF", "DECD", "HASH"):
                    return "ok"
                return "lenient" if s == "INIT" else "forbidden"
            if s in ("HASH", "DEC", "DECD"):
                return "ok"
            return "lenient" if s == "INIT" else "forbidden"
        if m == "encrypt_and_digest":
            if s in ("INIT", "HASH"):
                return "ok"
            if s == "ENC":
                return "forbidden" if ccm_single else "ok"
            return "forbidden"
        if m == "decrypt_and_verify":
            if s in ("INIT", "HASH"):
                return "ok"
            if s == "DEC":
                return "forbidden" if ccm_single else "ok"
            return "forbidden"
        raise HarnessError(m)


def one_shot(spec, aad, pt):
    """(ct, tag) from a fresh object of the same library."""
    e = sym.lib_new(spec)
    for a in aad:
        e.update(a)
    ct, tag = e.encrypt_and_digest(pt)
    return bytes(ct), bytes(tag)


def one_shot_dec(spec, aad, ct):
    """Plaintext for a ciphertext without authentication, from the reference implementation (the library
    has no tag-less one-shot for every mode)."""
    if spec["mode"] == "SIV":
        return None
    if spec["mode"] == "OCB":
        c = sym.ref_bc(spec)
        # OCB decryption does not depend on the tag: use reference with the tag it computes itself
        return modes.ocb_decrypt_notag(c, spec["nonce"], ct) if hasattr(modes, "ocb_decrypt_notag") else _ocb_pt(spec, ct)
    return sym.ref_decrypt_noauth(spec, ct, aad)


def _ocb_pt(spec, ct):
    """OCB3 plaintext through a fresh library object (decrypt without verify)."""
    d = sym.lib_new(spec)
    return bytes(d.decrypt(ct)) + bytes(d.decrypt())


def run_aead(case, rec):
    spec = dict(case["spec"])
    mode = spec["mode"]
    label = sym.spec_label(spec)
    steps = case["steps"]
    # CCM declared lengths are fixed relative to what a "planned" run would supply: sum of update() and of the first direction's data
    plan_aad = sum(len(a) for m, a in steps if m == "update")
    plan_msg = sum(len(a) for m, a in steps if m in ("encrypt", "decrypt", "encrypt_and_digest", "decrypt_and_verify_ok", "decrypt_and_verify_bad"))
    if mode == "CCM":
        q = 15 - len(spec["nonce"])
        if plan_msg >= (1 << (8 * q)):
            raise Skip()
        md, ad = case.get("msg_decl"), case.get("assoc_decl")
        if md:
            spec["msg_len"] = max(0, plan_msg + {"exact": 0, "more": 5, "less": -3}[md])
        if ad:
            spec["assoc_len"] = max(0, plan_aad + {"exact": 0, "more": 4, "less": -2}[ad])
    obj = sym.lib_new(spec)
    model = AeadModel(mode)
    aad = []              # components accepted so far
    fed = b""             # message bytes accepted so far (plaintext when encrypting, ciphertext when decrypting)
    out = b""             # bytes returned so far
    trace = []
    saw_forbidden = compared_after_forbidden = idem_then_more = False
    last_idem = False
    final_tag = None
    verify_results = {}
    dead = False
    ccm_single = mode == "CCM" and "msg_len" not in spec

    def aad_bytes():
        return aad if mode == "SIV" else [b"".join(aad)]

    def check_prefix(direction):
        nonlocal compared_after_forbidden
        if direction == "enc":
            full, _ = one_shot(_fit(spec, fed), aad_bytes(), fed)
        else:
            full = _ocb_pt(spec, fed) if mode == "OCB" else one_shot_dec(_fit(spec, fed), aad_bytes(), fed)
        if mode == "OCB" and model.state in ("ENC", "DEC"):
            okp = full.startswith(out) and len(fed) - len(out) < 16 + 16
        else:
            okp = out == full
        if not okp:
            raise Violation("sm/%s/output-differs-from-one-shot" % label, "after %r the data returned so far is not the one-shot result" % (trace[-6:],),
                            spec=spec, trace=trace)
        if saw_forbidden:
            compared_after_forbidden = True

    def _fit(sp, data):
        """One-shot spec for CCM: declared lengths replaced by the actual ones."""
        if mode != "CCM":
            return sp
        s2 = dict(sp)
        s2.pop("msg_len", None)
        s2.pop("assoc_len", None)
        return s2

    def right_tag():
        if model.state in ("DEC", "DECF", "DECD") or direction_of.get("d") == "dec":
            pt = _ocb_pt(spec, fed) if mode == "OCB" else (one_shot_dec(_fit(spec, fed), aad_bytes(), fed) if mode != "SIV" else None)
            if mode == "SIV":
                return None
            return one_shot(_fit(spec, pt), aad_bytes(), pt)[1]
        return one_shot(_fit(spec, fed), aad_bytes(), fed)[1]

    direction_of = {}
    siv = {"given": bytes(16), "passed": False}
    for m, arg in steps:
        if dead:
            break
        base = m.split("_ok")[0].split("_bad")[0]
        base = {"hexdigest": "digest", "hexverify": "verify"}.get(base, base)
        want_bad = m.endswith("_bad")
        v = model.verdict(base, ccm_single)
        if v == "na":
            continue
        if last_idem:
            idem_then_more = True
        last_idem = False
        # ---- build the call
        if base == "update":
            call = lambda: obj.update(arg)
        elif base == "encrypt":
            call = lambda: obj.encrypt(arg)
        elif base == "decrypt":
            call = lambda: obj.decrypt(arg)
        elif base == "final":
            if v == "ok-enc":
                call = lambda: obj.encrypt()
            elif v == "ok-dec":
                call = lambda: obj.decrypt()
            else:
                # outside Encrypting/Decrypting the no-argument form is not drawn; skip (direction would be ambiguous)
                continue
        elif base == "digest":
            call = (lambda: obj.digest()) if m == "digest" else (lambda: bytes.fromhex(obj.hexdigest()))
        elif base == "encrypt_and_digest":
            call = lambda: obj.encrypt_and_digest(arg)
        elif base in ("verify", "decrypt_and_verify"):
            # the right tag for what the receiver will have consumed after this call
            expect_pass = not want_bad
            if v == "forbidden":
                tag = arg[:16].ljust(4, b"\0")
            elif mode == "SIV":
                if base == "decrypt_and_verify":
                    # produce an authentic (ct, tag) pair by treating arg as PLAINTEXT for a fresh sender
                    ctx, tagx = one_shot(spec, aad, arg)
                    arg, tag = ctx, tagx
                    if want_bad:
                        t = bytearray(tag)
                        t[len(arg) % len(t)] ^= 0x40
                        tag = bytes(t)
                elif model.state == "DECD":
                    # idempotence: the tag given to decrypt_and_verify gets the same verdict again; any other tag fails
                    tag = siv["given"]
                    expect_pass = siv["passed"] and not want_bad
                    if want_bad:
                        t = bytearray(tag)
                        t[(len(arg) + 3) % len(t)] ^= 0x04
                        tag = bytes(t)
                else:
                    tag = arg[:16].ljust(16, b"\0")      # verify() before any data: undocumented path, verdict not modelled
                    expect_pass = None
            else:
                consumed = fed + (arg if base == "decrypt_and_verify" else b"")
                try:
                    if mode == "OCB":
                        pt_all = _ocb_pt(spec, consumed)
                    else:
                        pt_all = one_shot_dec(_fit(spec, consumed), aad_bytes(), consumed)
                    tag = one_shot(_fit(spec, pt_all), aad_bytes(), pt_all)[1]
                except ValueError:
                    raise Skip()
                if want_bad:
                    t = bytearray(tag)
                    t[len(arg) % len(t)] ^= 0x40
                    tag = bytes(t)
            if base == "verify":
                if m.startswith("hex"):
                    call = lambda: obj.hexverify(tag.hex())
                else:
                    call = lambda: obj.verify(tag)
            else:
                cta = arg
                call = lambda: obj.decrypt_and_verify(cta, tag)
        else:
            raise HarnessError(base)
        kind, res = libcall(call, allowed=(TypeError, ValueError), bucket="sm/%s/%s" % (label, base))
        is_type = kind == "exc" and isinstance(res, TypeError)
        is_value = kind == "exc" and isinstance(res, ValueError)
        trace.append("%s@%s:%s" % (m, model.state, "T" if is_type else "V" if is_value else "ok"))
        # ---- compare with the model
        if v == "forbidden":
            if not is_type:
                raise Violation("sm/%s/forbidden-call-not-refused/%s@%s" % (label, base, model.state),
                                "%s in state %s must raise TypeError, got %s" % (m, model.state, "ValueError: %s" % res if is_value else "success"),
                                spec=spec, trace=trace)
            saw_forbidden = True
            continue
        if v in ("lenient", "lenient-final") and is_type:
            saw_forbidden = True
            continue
        if is_type:
            raise Violation("sm/%s/permitted-call-refused/%s@%s" % (label, base, model.state),
                            "%s in state %s is drawn in the documentation but raised TypeError: %s" % (m, model.state, res), spec=spec, trace=trace)
        # ---- CCM declared lengths
        if mode == "CCM" and is_value and not (base in ("verify", "decrypt_and_verify") and "MAC check" in str(res)):
            exp_err = False
            if base == "update" and "assoc_len" in spec and sum(map(len, aad)) + len(arg) > spec["assoc_len"]:
                exp_err = True
            if base in ("encrypt", "decrypt", "encrypt_and_digest", "decrypt_and_verify", "digest", "verify"):
                if "assoc_len" in spec and sum(map(len, aad)) < spec["assoc_len"]:
                    exp_err = True
                if "msg_len" in spec:
                    add = len(arg) if base in ("encrypt", "decrypt", "encrypt_and_digest", "decrypt_and_verify") else 0
                    if len(fed) + add > spec["msg_len"]:
                        exp_err = True
                    if base in ("digest", "verify", "encrypt_and_digest", "decrypt_and_verify") and len(fed) + add < spec["msg_len"]:
                        exp_err = True
                q = 15 - len(spec["nonce"])
                if len(fed) + (len(arg) if base not in ("digest", "verify") else 0) >= (1 << (8 * q)):
                    exp_err = True
            if not exp_err:
                raise Violation("sm/%s/unexpected-ValueError/%s" % (label, base), "ValueError %r although declared lengths are respected" % str(res),
                                spec=spec, trace=trace)
            rec.event("ccm-length-violation-refused")
            dead = True
            continue
        if mode == "CCM" and kind == "ok":
            # a declared-length violation must not pass silently
            tot_aad = sum(map(len, aad)) + (len(arg) if base == "update" else 0)
            if "assoc_len" in spec and tot_aad > spec["assoc_len"]:
                raise Violation("sm/%s/ccm-excess-aad-accepted" % label, "more associated data than declared was accepted", spec=spec, trace=trace)
            if base in ("encrypt", "decrypt", "encrypt_and_digest", "decrypt_and_verify", "digest") and "assoc_len" in spec and tot_aad < spec["assoc_len"]:
                raise Violation("sm/%s/ccm-short-aad-accepted" % label, "less associated data than declared was accepted", spec=spec, trace=trace)
            if "msg_len" in spec:
                add = len(arg) if base in ("encrypt", "decrypt", "encrypt_and_digest", "decrypt_and_verify") else 0
                if len(fed) + add > spec["msg_len"]:
                    raise Violation("sm/%s/ccm-excess-msg-accepted" % label, "more message data than declared was accepted", spec=spec, trace=trace)
                if base in ("digest", "encrypt_and_digest") and len(fed) + add < spec["msg_len"]:
                    raise Violation("sm/%s/ccm-short-msg-accepted" % label, "digest with less message data than declared", spec=spec, trace=trace)
        if is_value and base not in ("verify", "decrypt_and_verify"):
            raise Violation("sm/%s/unexpected-ValueError/%s" % (label, base), "ValueError: %s" % res, spec=spec, trace=trace)
        # ---- state update + output comparison
        if base == "update":
            aad.append(arg)
            model.state = "HASH"
        elif base == "encrypt":
            fed += arg
            out += bytes(res)
            model.state = "ENC"
            check_prefix("enc")
        elif base == "decrypt":
            fed += arg
            out += bytes(res)
            model.state = "DEC"
            direction_of["d"] = "dec"
            check_prefix("dec")
        elif base == "final":
            out += bytes(res)
            if v == "ok-enc":
                model.state = "ENCF"
                check_prefix("enc")
            else:
                model.state = "DECF"
                check_prefix("dec")
        elif base == "digest":
            tag = bytes(res)
            if mode == "SIV":
                # before encrypt_and_digest the value is not specified by the documentation (lenient path): only idempotence
                exp = final_tag if final_tag is not None else tag
            else:
                exp = one_shot(_fit(spec, fed), aad_bytes(), fed)[1]
            if tag != exp:
                raise Violation("sm/%s/digest-differs-from-one-shot" % label, "digest() after %r differs from the one-shot tag" % (trace[-6:],), spec=spec, trace=trace)
            if final_tag is not None and tag != final_tag:
                raise Violation("sm/%s/digest-not-idempotent" % label, "second digest() returned another tag", spec=spec, trace=trace)
            final_tag = tag
            model.state = "ENCD"
            last_idem = True
            if saw_forbidden:
                compared_after_forbidden = True
        elif base == "encrypt_and_digest":
            ct, tag = res
            fed += arg
            out += bytes(ct)
            model.state = "ENCD"
            full_ct, full_tag = one_shot(_fit(spec, fed), aad_bytes(), fed)
            if out != full_ct or bytes(tag) != full_tag:
                raise Violation("sm/%s/output-differs-from-one-shot" % label, "encrypt_and_digest after %r differs from one-shot" % (trace[-6:],), spec=spec, trace=trace)
            final_tag = bytes(tag)
            if saw_forbidden:
                compared_after_forbidden = True
        elif base in ("verify", "decrypt_and_verify"):
            if base == "decrypt_and_verify":
                fed += arg
                direction_of["d"] = "dec"
            if expect_pass is True and is_value:
                raise Violation("sm/%s/right-tag-rejected" % label, "%s with the right tag failed after %r" % (base, trace[-6:]), spec=spec, trace=trace)
            if expect_pass is False and kind == "ok":
                raise Violation("sm/%s/wrong-tag-accepted" % label, "%s with a wrong tag succeeded after %r" % (base, trace[-6:]), spec=spec, trace=trace)
            if mode == "SIV":
                if base == "decrypt_and_verify" or model.state != "DECD":
                    siv["given"], siv["passed"] = tag, kind == "ok"
                if base == "decrypt_and_verify" and kind == "ok":
                    pt_exp = sym.ref_decrypt(spec, arg, aad, tag)
                    if bytes(res) != pt_exp:
                        raise Violation("sm/%s/output-differs-from-one-shot" % label, "decrypt_and_verify returned a wrong plaintext", spec=spec, trace=trace)
            elif base == "decrypt_and_verify" and kind == "ok":
                out += bytes(res)
                model.state = "DECD"
                check_prefix("dec")
            model.state = "DECD"
            last_idem = True
            if saw_forbidden:
                compared_after_forbidden = True
    if compared_after_forbidden or idem_then_more:
        rec.nt(label, tuple(t.split(":")[0].split("@")[0] + t[-2:] for t in trace)[:12], case.get("msg_decl"), case.get("assoc_decl"))
    rec.event("aead-sm:" + mode)
    rec.event("steps", len(trace))
    rec.sample({"mode": label, "trace": trace[:20], "msg_decl": case.get("msg_decl"), "assoc_decl": case.get("assoc_decl")})


# ------------------------------------------------------------------ classic modes and ChaCha20: encrypt/decrypt exclusivity
@st.composite
def strat_classic(draw, tier):
    if draw(st.integers(0, 4)) == 0:
        spec = draw(sym.stream_spec(ciphers=("ChaCha20",)))
        bs = 1
    else:
        spec = draw(sym.block_spec(modes_=["CBC", "CFB", "OFB", "CTR"]))
        bs = oracles.BLOCK[spec["cipher"]] if spec["mode"] == "CBC" else 1
    n = draw(st.integers(1, 12))
    steps = []
    for _ in range(n):
        ln = draw(st.integers(0, 5)) * bs if bs > 1 else draw(st.integers(0, 40))
        steps.append([draw(st.sampled_from(["encrypt", "decrypt"])), draw(st.binary(min_size=ln, max_size=ln))])
    return {"spec": spec, "steps": steps}


def run_classic(case, rec):
    spec, steps = case["spec"], case["steps"]
    label = sym.spec_label(spec)
    if spec.get("mode") == "CTR":
        cap = (1 << (8 * spec["ctr"]["clen"])) * oracles.BLOCK[spec["cipher"]]
        if sum(len(a) for _, a in steps) > cap:
            raise Skip()
    obj = sym.lib_new(spec)
    direction = None
    fed = out = b""
    trace = []
    saw_forbidden = compared_after = False
    for m, arg in steps:
        kind, res = libcall(getattr(obj, m), arg, allowed=(TypeError,), bucket="sm/%s/%s" % (label, m))
        if direction is not None and m != direction:
            if kind != "exc":
                raise Violation("sm/%s/direction-switch-accepted" % label, "%s() accepted after %s()" % (m, direction), spec=spec, trace=trace)
            trace.append(m + ":T")
            saw_forbidden = True
            continue
        if kind == "exc":
            raise Violation("sm/%s/permitted-call-refused" % label, "%s() refused: %s" % (m, res), spec=spec, trace=trace)
        direction = m
        fed += arg
        out += bytes(res)
        full = bytes(getattr(sym.lib_new(spec), m)(fed))
        if out != full:
            raise Violation("sm/%s/output-differs-from-one-shot" % label, "output after %r differs from one-shot" % trace, spec=spec, trace=trace)
        trace.append(m + ":ok")
        if saw_forbidden:
            compared_after = True
    if compared_after:
        rec.nt(label, tuple(trace)[:10])
    rec.event("classic-sm:" + label)
    rec.sample({"mode": label, "trace": trace})


# ------------------------------------------------------------------ hashes, MACs, XOFs
FINALISING = {"SHA3_224", "SHA3_256", "SHA3_384", "SHA3_512", "BLAKE2b", "BLAKE2s", "keccak", "KMAC128", "KMAC256", "CMAC", "Poly1305",
              "TupleHash128", "TupleHash256"}
UAD = {"SHA3_224", "SHA3_256", "SHA3_384", "SHA3_512", "BLAKE2b", "BLAKE2s", "keccak", "CMAC"}
CONTINUING = ["MD2", "MD4", "MD5", "RIPEMD160", "SHA1", "SHA224", "SHA256", "SHA384", "SHA512", "HMAC"]
XOFS = ["SHAKE128", "SHAKE256", "cSHAKE128", "cSHAKE256", "TurboSHAKE128", "TurboSHAKE256", "KangarooTwelve"]
MACS = {"KMAC128", "KMAC256", "CMAC", "Poly1305", "HMAC", "BLAKE2b-keyed"}


def make_h(alg, uad, key):
    H = "Crypto.Hash."
    kw = {"update_after_digest": True} if uad else {}
    if alg in ("SHA3_224", "SHA3_256", "SHA3_384", "SHA3_512"):
        return importlib.import_module(H + alg).new(**kw)
    if alg in ("BLAKE2b", "BLAKE2s"):
        return importlib.import_module(H + alg).new(digest_bytes=32, **kw)
    if alg == "BLAKE2b-keyed":
        return importlib.import_module(H + "BLAKE2b").new(digest_bytes=32, key=key, **kw)
    if alg == "keccak":
        return importlib.import_module(H + alg).new(digest_bits=256, **kw)
    if alg.startswith("KMAC"):
        return importlib.import_module(H + alg).new(key=key, mac_len=16)
    if alg == "CMAC":
        from Crypto.Hash import CMAC
        from Crypto.Cipher import AES
        return CMAC.new(key[:16], ciphermod=AES, **kw)
    if alg == "Poly1305":
        from Crypto.Hash import Poly1305
        from Crypto.Cipher import AES
        return Poly1305.new(key=key, cipher=AES, nonce=key[:16])
    if alg.startswith("TupleHash"):
        return importlib.import_module(H + alg).new(digest_bytes=32)
    if alg == "HMAC":
        from Crypto.Hash import HMAC, SHA256
        return HMAC.new(key, digestmod=SHA256)
    if alg in oracles.HASHES:
        return oracles.lib_hash_new(alg)
    if alg.startswith("cSHAKE"):
        return importlib.import_module(H + alg).new(custom=b"c10")
    return importlib.import_module(H + alg).new()


@st.composite
def strat_hash(draw, tier):
    alg = draw(st.sampled_from(sorted(FINALISING) + ["BLAKE2b-keyed"] + CONTINUING + XOFS))
    uad = alg in UAD | {"BLAKE2b-keyed"} and draw(st.booleans())
    if alg in XOFS:
        methods = ["update", "update", "read", "read", "copy", "swap"]
    elif alg in MACS:
        methods = ["update", "update", "update", "digest", "hexdigest", "verify_ok", "verify_bad", "hexverify_ok", "copy", "copy", "swap"]
    else:
        methods = ["update", "update", "update", "digest", "hexdigest", "copy", "swap", "new"]
    n = draw(st.integers(1, 12 if tier == "quick" else 25))
    steps = [[draw(st.sampled_from(methods)), draw(st.binary(max_size=40))] for _ in range(n)]
    return {"alg": alg, "uad": uad, "steps": steps, "key": draw(st.binary(min_size=32, max_size=32))}


def run_hash(case, rec):
    """One *current* object plus the objects parked by copy(): after a copy the sequence continues with the clone or with the
    original (the other one is parked), `swap` returns to a parked object, and at the end every object still alive is audited
    against the one-shot computation over the data *it* absorbed (a clone that shares buffers with its original fails there)."""
    alg, uad, steps, key = case["alg"], case["uad"], case["steps"], case["key"]
    label = alg + ("+uad" if uad else "")

    def new_state(obj, src=None):
        if src is None:
            return {"obj": obj, "fed": [], "squeezed": 0, "finalized": False, "last_digest": None, "reading": False}
        return {"obj": obj, "fed": list(src["fed"]), "squeezed": src["squeezed"], "finalized": src["finalized"], "last_digest": src["last_digest"],
                "reading": src["reading"]}

    S = new_state(make_h(alg, uad, key))
    parked = []
    trace = []
    saw_forbidden = compared_after = False
    copies = swaps = 0

    def fresh_result(st_, nread=None):
        f = make_h(alg, uad, key)
        for x in st_["fed"]:
            f.update(x)
        if nread is not None:
            return bytes(f.read(nread))
        return bytes(f.digest())

    for m, arg in steps:
        base = m.split("_")[0]
        obj = S["obj"]
        if base == "swap":
            if parked:
                i_ = len(arg) % len(parked)
                S, parked[i_] = parked[i_], S
                swaps += 1
                trace.append("swap")
            continue
        if base == "copy":
            if not hasattr(obj, "copy"):
                continue
            k, c2 = libcall(obj.copy, allowed=(TypeError, ValueError, NotImplementedError, AttributeError), bucket="sm/%s/copy" % label)
            if k == "exc":
                continue
            C = new_state(c2, S)
            copies += 1
            trace.append("copy")
            if S["finalized"] and not uad and alg in FINALISING | {"BLAKE2b-keyed"}:
                # clone of a finalised hash: the documentation does not say whether the clone is finalised too.
                # Accept both; if update is accepted the clone simply continues from the absorbed data.
                k, r = libcall(c2.update, b"", allowed=(TypeError,), bucket="sm/%s/update" % label)
                if k == "ok":
                    C["finalized"] = False
                    C["last_digest"] = None
            if len(parked) < 3:
                if len(arg) % 2 == 0:
                    parked.append(S)        # continue with the clone, the original stays alive
                    S = C
                else:
                    parked.append(C)        # continue with the original, the clone stays alive
            else:
                S = C
            continue
        if base == "new":
            if not hasattr(obj, "new") or alg not in oracles.HASHES:
                continue        # .new() of parameterised classes re-applies defaults (documented), not modelled here
            k, c2 = libcall(obj.new, allowed=(TypeError,), bucket="sm/%s/new" % label)
            if k == "exc":
                continue
            if len(parked) < 3:
                parked.append(S)
            S = new_state(c2)
            trace.append("new")
            continue
        if base == "update":
            forbidden = (alg in XOFS and S["reading"]) or (alg in FINALISING | {"BLAKE2b-keyed"} and S["finalized"] and not uad)
            k, r = libcall(obj.update, arg, allowed=(TypeError,), bucket="sm/%s/update" % label)
            if forbidden:
                if k != "exc":
                    raise Violation("sm/%s/update-after-%s-accepted" % (label, "read" if alg in XOFS else "digest"),
                                    "update() accepted after the object was finalised", alg=alg, trace=trace)
                saw_forbidden = True
                trace.append("update:T")
                continue
            if k == "exc":
                raise Violation("sm/%s/permitted-update-refused" % label, "update() refused: %s" % r, alg=alg, trace=trace)
            S["fed"].append(arg)
            S["last_digest"] = None
            trace.append("update")
            continue
        if base == "read":
            n = len(arg)
            got = bytes(obj.read(n))
            full = fresh_result(S, S["squeezed"] + n)
            if got != full[S["squeezed"]:]:
                raise Violation("sm/%s/read-differs-from-one-shot" % label, "read() after %r is not the continuation of the one-shot output" % trace, alg=alg, trace=trace)
            S["squeezed"] += n
            S["reading"] = True
            trace.append("read")
            if saw_forbidden:
                compared_after = True
            continue
        if base in ("digest", "hexdigest"):
            got = bytes(obj.digest()) if base == "digest" else bytes.fromhex(obj.hexdigest())
            exp = fresh_result(S)
            if got != exp:
                raise Violation("sm/%s/digest-differs-from-one-shot" % label, "digest() after %r differs from one-shot" % trace, alg=alg, trace=trace)
            if S["last_digest"] is not None and got != S["last_digest"]:
                raise Violation("sm/%s/digest-not-idempotent" % label, "digest() changed without new data", alg=alg, trace=trace)
            S["last_digest"] = got
            S["finalized"] = True
            trace.append("digest")
            if saw_forbidden:
                compared_after = True
            continue
        if base in ("verify", "hexverify"):
            exp = fresh_result(S)
            tag = exp
            bad = m.endswith("_bad")
            if bad:
                t = bytearray(exp)
                t[len(arg) % len(t)] ^= 1
                tag = bytes(t)
            if base == "verify":
                k, r = libcall(obj.verify, tag, allowed=(ValueError,), bucket="sm/%s/verify" % label)
            else:
                k, r = libcall(obj.hexverify, tag.hex(), allowed=(ValueError,), bucket="sm/%s/hexverify" % label)
            if bad and k == "ok":
                raise Violation("sm/%s/wrong-tag-accepted" % label, "verify accepted a wrong tag after %r" % trace, alg=alg, trace=trace)
            if not bad and k == "exc":
                raise Violation("sm/%s/right-tag-rejected" % label, "verify rejected the right tag after %r" % trace, alg=alg, trace=trace)
            S["finalized"] = True
            trace.append(m)
            if saw_forbidden:
                compared_after = True
            continue
    # final audit of every object that is still alive (the current one and everything parked by copy/new)
    if parked:
        for st_ in parked + [S]:
            if alg in XOFS:
                got = bytes(st_["obj"].read(8))
                if got != fresh_result(st_, st_["squeezed"] + 8)[st_["squeezed"]:]:
                    raise Violation("sm/%s/copy-not-independent" % label, "after %r an object's read() is not the one-shot output of the data it absorbed itself" % trace,
                                    alg=alg, trace=trace)
            else:
                got = bytes(st_["obj"].digest())
                if got != fresh_result(st_):
                    raise Violation("sm/%s/copy-not-independent" % label, "after %r an object's digest() is not the one-shot digest of the data it absorbed itself" % trace,
                                    alg=alg, trace=trace)
    if compared_after or (len(trace) >= 3 and "digest" in trace[:-1]) or (copies and len(trace) >= 3):
        rec.nt(label, tuple(trace)[:12])
    rec.event("hash-sm:" + label)
    if copies:
        rec.event("hash-sm:with-copy" + (":swapped" if swaps else ""))
    rec.sample({"alg": label, "trace": trace})


CHECKS = [
    Check("aead", run=run_aead, strategy=strat_aead, examples=(12000, 200000), shards=(16, 16),
          rule="AEAD life cycle (generic, OCB, SIV, CCM with declared/undeclared lengths) vs documented state diagrams"),
    Check("classic", run=run_classic, strategy=strat_classic, examples=(5000, 60000), shards=(8, 16),
          rule="CBC/CFB/OFB/CTR/ChaCha20: encrypt/decrypt exclusivity, outputs equal one-shot"),
    Check("hash", run=run_hash, strategy=strat_hash, examples=(12000, 150000), shards=(16, 16),
          rule="hash/MAC/XOF life cycle: update after digest/read, update_after_digest, idempotent digest/verify, copy/new"),
]
