"""C07 — RSA-OAEP and PKCS#1 v1.5 encryption round-trip and decode exactly per RFC 8017."""
import hashlib

from hypothesis import strategies as st

from ..core import Check, Violation, HarnessError, Skip, libcall
from .. import gen, keys, oracles
from ..refs import rsa_pkcs1 as rp

META = {
    "rule": "keys constructed from harness-built primes (1024, 1025, 1031, 1032, 1536, 2048 bits); OAEP hash in SHA-1/224/256/384/512/"
            "SHA3-256, custom MGF (MGF1 over another hash), labels 0..100 bytes; messages 0..max and max+1..max+3; v1.5 sentinels "
            "(bytes of length 0..k+2, None, int, str) and expected_pt_len in {0, true, other, > k-11}. Ciphertexts: genuine and EM^e mod n "
            "for crafted encoded messages covering the decoder's decision space (OAEP: Y != 0, lHash' mismatch, non-zero PS byte at "
            "first/middle/last position, missing 01, 01 as last byte; v1.5: first byte != 00, second != 02, zero inside the first eight PS "
            "bytes at each position, no zero at all, zero at the last position, PS of 7/8/9 bytes), wrong length, c >= n. Oracle: RFC 8017 "
            "7.1.2 / 7.2.2 decoders in pure Python applied to the same EM. Non-trivial = crafted EM or boundary message length; distinct "
            "by (scheme, k, hash, fault class and position class, sentinel class)",
    "assumptions": ["reference encoders/decoders in pcdverif/refs/rsa_pkcs1.py (validated against the openssl CLI in both directions)",
                    "raw RSA through Python pow() with the harness' own key numbers"],
    "unexplored": ["timing/branch behaviour of the constant-time decoders"],
}

BITS = [1024, 1024, 1025, 1031, 1032, 1536, 2048]
BIG_BITS = [3072, 3073]      # k > 256+11: index arithmetic of the constant-time decoders crosses a byte boundary
OAEP_HASHES = ["SHA1", "SHA224", "SHA256", "SHA384", "SHA512", "SHA3_256"]

_KEYS = {}


def key(bits, e_idx=0):
    k = (bits, e_idx)
    if k not in _KEYS:
        from Crypto.PublicKey import RSA
        e = [65537, 3, 17][e_idx]
        nums = keys.rsa_numbers(bits, 0, e)
        _KEYS[k] = (RSA.construct(nums), nums)
    return _KEYS[k]


class Tape:
    def __init__(self, seed):
        self.h = hashlib.shake_128(b"c07" + bytes(seed))
        self.pos = 0

    def __call__(self, n):
        out = self.h.digest(self.pos + n)[self.pos:]
        self.pos += n
        return out


def hashfn(name):
    return oracles.HASHES[name][0], oracles.HASHES[name][1]


def raw_encrypt(nums, em):
    n, e = nums[0], nums[1]
    m = int.from_bytes(em, "big")
    if m >= n:
        return None
    k = (n.bit_length() + 7) // 8
    return pow(m, e, n).to_bytes(k, "big")


# ------------------------------------------------------------------ OAEP
OAEP_FAULTS = ["valid", "valid", "genuine", "y-nonzero", "lhash-first", "lhash-last", "ps-first", "ps-middle", "ps-last", "no-separator",
               "sep-not-01", "empty-message", "max-message", "all-zero-db"]


@st.composite
def strat_oaep(draw, tier):
    bits = draw(st.sampled_from((BITS if tier == "thorough" else BITS[:5] + [1536]) + BIG_BITS[:1]))
    h = draw(st.sampled_from(OAEP_HASHES))
    if draw(st.integers(0, 5)) == 0:
        # the smallest moduli the scheme admits for this hash: k = 2*hLen+2 (only the empty message fits), +1, +2; byte-aligned or not
        hl = oracles.HASHES[h][1]
        bits = 8 * (2 * hl + 2 + draw(st.sampled_from([0, 0, 1, 2]))) - draw(st.sampled_from([0, 0, 1, 7]))
    return {"bits": bits, "e": draw(st.sampled_from([0, 0, 1, 2])), "hash": h, "mgf_hash": draw(st.sampled_from([None, None, "SHA1", "SHA256", "SHA512"])),
            "label": draw(st.one_of(st.just(b""), st.binary(max_size=20), gen.data_of(st.sampled_from([64, 100])))),
            "fault": draw(st.sampled_from(OAEP_FAULTS)), "msg_frac": draw(st.integers(0, 1000)), "seed": draw(st.binary(min_size=8, max_size=8)),
            "val": draw(st.integers(1, 255)), "pos": draw(st.integers(0, 10 ** 6))}


def run_oaep(case, rec):
    from Crypto.Cipher import PKCS1_OAEP
    kobj, nums = key(case["bits"], case["e"])
    n = nums[0]
    k = (n.bit_length() + 7) // 8
    hname = case["hash"]
    hf, hlen = hashfn(hname)
    mgf_h = case["mgf_hash"]
    if mgf_h:
        mf, _ = hashfn(mgf_h)
        ref_mgf = lambda seed, ln: rp.mgf1(seed, ln, mf)
        lib_mgf = ref_mgf          # the library takes any callable(seed, length): give it the reference MGF1 over another hash
    else:
        ref_mgf, lib_mgf = None, None
    maxlen = rp.oaep_max_msg_len(k, hlen)
    if maxlen < 0:
        raise Skip()
    label = case["label"]
    fault = case["fault"]
    cipher = PKCS1_OAEP.new(kobj, hashAlgo=oracles.lib_hash_module(hname), mgfunc=lib_mgf, label=label, randfunc=Tape(case["seed"]))
    mlen = case["msg_frac"] * maxlen // 1000
    if maxlen > 300 and case["msg_frac"] % 3 == 0:
        mlen = min(maxlen, [255, 256, 257, 254, 300, 44][case["msg_frac"] // 3 % 6])
    if fault == "max-message":
        mlen = maxlen
    if fault == "empty-message":
        mlen = 0
    msg = gen.expand(case["seed"], mlen)
    seed = hashlib.shake_128(b"oaep-seed" + case["seed"]).digest(hlen)
    info = {"bits": case["bits"], "hash": hname, "mgf_hash": mgf_h, "label_len": len(label), "fault": fault, "mlen": mlen}
    if fault == "genuine":
        # library encrypts; reference decodes; library decrypts
        ct = bytes(cipher.encrypt(msg))
        em = pow(int.from_bytes(ct, "big"), nums[2], n).to_bytes(k, "big")
        dec = rp.oaep_decode(em, label, hf, hlen, ref_mgf)
        if dec != msg:
            raise Violation("oaep/encrypt-not-rfc8017", "reference decoder does not recover the message from the library's ciphertext", **info)
        # the encoding is deterministic given randfunc: EM equals the reference encoding with the same seed
        em_ref = rp.oaep_encode(msg, k, label, hf, hlen, Tape(case["seed"])(hlen), ref_mgf)
        if em != em_ref:
            raise Violation("oaep/encoded-message-differs", "EM differs from EME-OAEP encoding with the same seed", **info)
        # too long messages are refused
        for extra in (1, 2, 3):
            kk, r = libcall(cipher.encrypt, msg + bytes(maxlen - mlen + extra), allowed=(ValueError,), bucket="oaep/encrypt")
            if kk == "ok":
                raise Violation("oaep/too-long-message-accepted", "message of %d bytes (max %d) was encrypted" % (maxlen + extra, maxlen), **info)
        expected = msg
    else:
        ps_len = k - mlen - 2 * hlen - 2
        db_tail = bytearray(bytes(ps_len) + b"\x01" + msg)
        y, lo = 0, None
        if fault == "y-nonzero":
            y = 1 + case["val"] % 3
        elif fault in ("lhash-first", "lhash-last"):
            lo = bytearray(hf(label))
            lo[0 if fault == "lhash-first" else -1] ^= case["val"]
            lo = bytes(lo)
        elif fault.startswith("ps-"):
            if ps_len == 0:
                raise Skip()
            i = {"ps-first": 0, "ps-middle": ps_len // 2, "ps-last": ps_len - 1}[fault]
            db_tail[i] = case["val"]
        elif fault == "no-separator":
            db_tail = bytearray(len(db_tail))
        elif fault == "sep-not-01":
            db_tail[ps_len] = 2 + case["val"] % 254
        elif fault == "all-zero-db":
            db_tail = bytearray(len(db_tail))
            lo = bytes(hlen)
        em = rp.oaep_build_em(k, hf, hlen, label, seed, bytes(db_tail), y=y, lhash_override=lo, mgf=ref_mgf)
        ct = raw_encrypt(nums, em)
        if ct is None:
            raise Skip()
        expected = rp.oaep_decode(em, label, hf, hlen, ref_mgf)
    kk, r = libcall(cipher.decrypt, ct, allowed=(ValueError,), bucket="oaep/decrypt")
    if expected is None:
        if kk == "ok":
            raise Violation("oaep/invalid-em-accepted/%s" % fault, "EM violating RFC 8017 7.1.2 (%s) decrypted to %d bytes" % (fault, len(r)), **info)
    else:
        if kk != "ok":
            raise Violation("oaep/valid-em-rejected", "valid EM (%s) rejected: %s" % (fault, r), **info)
        if bytes(r) != expected:
            raise Violation("oaep/wrong-plaintext", "returned message differs from the encoded one", **info)
    # wrong length / c >= n
    for bad, what in ((ct[:-1], "short"), (ct + b"\0", "long"), ((n + 1).to_bytes(k, "big"), "c>=n"), (n.to_bytes(k, "big"), "c=n")):
        kk, r = libcall(cipher.decrypt, bad, allowed=(ValueError,), bucket="oaep/decrypt-" + what)
        if kk == "ok":
            raise Violation("oaep/bad-ciphertext-accepted/%s" % what, "ciphertext %s was accepted" % what, **info)
    rec.nt("oaep", k, hname, mgf_h, fault, len(label) > 0, mlen in (0, maxlen))
    rec.event("oaep:%s:%s" % (fault, "accept" if expected is not None else "reject"))
    rec.sample(info)


# ------------------------------------------------------------------ PKCS#1 v1.5
V15_FAULTS = ["valid", "valid", "genuine", "first-byte", "second-byte", "zero-in-ps8", "no-zero", "zero-last", "ps7", "ps8", "ps9", "second-01",
              "second-00"]
SENTINELS = ["bytes-rand", "bytes-rand", "bytes-empty", "bytes-k", "bytes-k+1", "bytes-k+2", "none", "int", "str", "bytes-same-len"]


@st.composite
def strat_v15(draw, tier):
    bits = draw(st.sampled_from((BITS if tier == "thorough" else BITS[:5] + [1536]) + BIG_BITS))
    if draw(st.integers(0, 9)) == 0:
        bits = draw(st.sampled_from([88, 89, 96, 104, 128, 255, 256, 257, 512]))      # k = 11 (only the empty message fits), 12, 13, ...
    return {"bits": bits, "e": draw(st.sampled_from([0, 0, 1, 2])), "fault": draw(st.sampled_from(V15_FAULTS)), "msg_frac": draw(st.integers(0, 1000)),
            "seed": draw(st.binary(min_size=8, max_size=8)), "sentinel": draw(st.sampled_from(SENTINELS)),
            "expected": draw(st.sampled_from(["zero", "zero", "true", "other", "other+", "too-big", "+-256", "+-256"])), "pos": draw(st.integers(0, 10 ** 6)),
            "val": draw(st.integers(1, 255))}


def nonzero_bytes(seed, n):
    raw = hashlib.shake_128(b"ps" + bytes(seed)).digest(n)
    return bytes(b or 0x5A for b in raw)


def run_v15(case, rec):
    from Crypto.Cipher import PKCS1_v1_5
    kobj, nums = key(case["bits"], case["e"])
    n = nums[0]
    k = (n.bit_length() + 7) // 8
    fault = case["fault"]
    maxlen = k - 11
    mlen = case["msg_frac"] * maxlen // 1000
    if maxlen > 300 and case["msg_frac"] % 3 == 0:
        mlen = [255, 256, 257, 254, 300, 44][case["msg_frac"] // 3 % 6]
    if fault == "zero-last":
        mlen = 0
    if fault in ("ps7", "ps8", "ps9"):
        mlen = k - 3 - int(fault[2:])
    if mlen < 0:
        raise Skip()        # this padding length does not exist for so small a modulus
    msg = gen.expand(case["seed"], mlen)
    if fault == "no-zero":
        msg = bytes(b or 1 for b in msg)
    cipher = PKCS1_v1_5.new(kobj, randfunc=Tape(case["seed"]))
    info = {"bits": case["bits"], "fault": fault, "mlen": mlen, "sentinel": case["sentinel"], "expected": case["expected"]}
    if fault == "genuine":
        ct = bytes(cipher.encrypt(msg))
        em = pow(int.from_bytes(ct, "big"), nums[2], n).to_bytes(k, "big")
        if rp.pkcs1v15_enc_decode(em) != msg:
            raise Violation("v15/encrypt-not-rfc8017", "reference decoder does not recover the message from the library's ciphertext", **info)
        if len(em) - len(msg) - 3 < 8 or 0 in em[2:len(em) - len(msg) - 1]:
            raise Violation("v15/ps-invalid", "library produced a padding string with a zero byte or shorter than 8", **info)
        for extra in (1, 2, 3):
            kk, r = libcall(cipher.encrypt, bytes(maxlen + extra), allowed=(ValueError,), bucket="v15/encrypt")
            if kk == "ok":
                raise Violation("v15/too-long-message-accepted", "message of %d bytes (max %d) was encrypted" % (maxlen + extra, maxlen), **info)
    else:
        ps_len = k - 3 - mlen
        ps = bytearray(nonzero_bytes(case["seed"], ps_len))
        em = bytearray(b"\x00\x02" + bytes(ps) + b"\x00" + msg)
        if fault == "first-byte":
            em[0] = 1
        elif fault == "second-byte":
            em[1] = [3, 1, 0xFF, 0x12][case["pos"] % 4]
        elif fault == "second-01":
            em[1] = 1
        elif fault == "second-00":
            em[1] = 0
        elif fault == "zero-in-ps8":
            em[2 + case["pos"] % 8] = 0
        elif fault == "no-zero":
            em[2 + ps_len] = case["val"]
        em = bytes(em)
        ct = raw_encrypt(nums, em)
        if ct is None:
            raise Skip()
    dec = rp.pkcs1v15_enc_decode(em)
    # sentinel and expected length
    sk = case["sentinel"]
    if sk == "bytes-rand":
        sentinel = hashlib.shake_128(b"sent" + case["seed"]).digest(1 + case["pos"] % 40)
    elif sk == "bytes-empty":
        sentinel = b""
    elif sk == "bytes-same-len":
        sentinel = hashlib.shake_128(b"sent" + case["seed"]).digest(max(1, mlen))
    elif sk.startswith("bytes-k"):
        sentinel = b"\xEE" * (k + (0 if sk == "bytes-k" else int(sk[-1])))
    elif sk == "none":
        sentinel = None
    elif sk == "int":
        sentinel = 12
    else:
        sentinel = "sentinel-string"
    ek = case["expected"]
    tl = len(dec) if dec is not None else mlen
    if ek == "+-256":
        # lengths differing by a multiple of 256 (byte-folding bugs in constant-time comparisons)
        cands = [v for v in (tl + 256, tl - 256, tl + 512) if 1 <= v <= maxlen]
        if not cands:
            ek = "other"
    epl = {"zero": 0, "true": tl, "other": tl + 1 if tl + 1 <= maxlen else max(1, tl - 1), "other+": max(1, (tl * 7 + 3) % (maxlen + 1)), "too-big": maxlen + 1 + case["pos"] % 5,
           "+-256": cands[case["pos"] % len(cands)] if ek == "+-256" else 0}[ek]
    if epl == tl and ek in ("other", "other+"):
        epl = tl + 1 if tl + 1 <= maxlen else tl - 1
        if epl < 1:
            raise Skip()
    if ek == "true" and tl == 0:
        epl = 0
    want_sentinel = dec is None or (epl > 0 and epl != len(dec))
    kk, r = libcall(cipher.decrypt, ct, sentinel, epl, allowed=(ValueError,), bucket="v15/decrypt")
    info["epl"] = epl
    if kk == "exc":
        # the documented ValueErrors concern the ciphertext length only; an impossible expected_pt_len may also be refused
        if ek == "too-big":
            rec.event("v15:too-big-expected-len-refused")
        else:
            raise Violation("v15/decrypt-raised", "decrypt raised %s for a ciphertext of the right length" % r, **info)
    else:
        is_sentinel = (r is sentinel) or (isinstance(sentinel, bytes) and isinstance(r, (bytes, bytearray)) and bytes(r) == sentinel)
        if want_sentinel:
            if not is_sentinel:
                if dec is not None and isinstance(r, (bytes, bytearray)) and bytes(r) == dec:
                    raise Violation("v15/unexpected-length-returned", "message of %d bytes returned although expected_pt_len=%d" % (len(dec), epl), **info)
                raise Violation("v15/sentinel-not-returned/%s" % ("nonbytes-sentinel" if not isinstance(sentinel, bytes) else "oversize-sentinel" if len(sentinel) > k else "bytes-sentinel"),
                                "padding error (%s) but decrypt returned %r instead of the sentinel" % (fault, r if not isinstance(r, (bytes, bytearray)) else bytes(r)[:20]), **info)
        else:
            if is_sentinel and not (isinstance(sentinel, bytes) and sentinel == dec):
                raise Violation("v15/valid-message-replaced-by-sentinel", "correctly padded message (%s) replaced by the sentinel" % fault, **info)
            if not isinstance(r, (bytes, bytearray)) or bytes(r) != dec:
                raise Violation("v15/wrong-plaintext", "returned %r, encoded message %r" % (r if not isinstance(r, (bytes, bytearray)) else bytes(r)[:20], dec[:20]), **info)
    for bad, what in ((ct[:-1], "short"), (ct + b"\0", "long"), ((n + 1).to_bytes(k, "big"), "c>=n")):
        kk, r2 = libcall(cipher.decrypt, bad, b"sentinel", allowed=(ValueError,), bucket="v15/decrypt-" + what)
        if kk == "ok":
            raise Violation("v15/bad-ciphertext-accepted/%s" % what, "ciphertext %s was accepted (returned %r)" % (what, r2), **info)
    rec.nt("v15", k, fault, sk, ek, want_sentinel)
    rec.event("v15:%s:%s" % (fault, "sentinel" if want_sentinel else "message"))
    rec.sample(info)


# ------------------------------------------------------------------ every message length round-trips
def cases_lengths(tier, shard, nshards):
    out = []
    for bits in ([1024, 1025, 3072] if tier == "quick" else [1024, 1025, 1031, 1536, 2048, 3072, 4096]):
        k = (bits + 7) // 8
        for scheme, h in (("v15", None), ("oaep", "SHA1"), ("oaep", "SHA256"), ("oaep", "SHA512")):
            mx = k - 11 if scheme == "v15" else k - 2 * oracles.HASHES[h][1] - 2
            if mx < 0:
                continue
            step = 1 if tier == "thorough" else (3 if bits < 3000 else 11)
            for n in sorted(set(list(range(0, mx + 1, step)) + [0, 1, mx - 1, mx] + [v for v in range(250, 262) if v <= mx])):
                if n >= 0:
                    out.append({"bits": bits, "scheme": scheme, "hash": h, "n": n})
    return [c for i, c in enumerate(out) if i % nshards == shard]


def run_lengths(case, rec):
    from Crypto.Cipher import PKCS1_OAEP, PKCS1_v1_5
    kobj, nums = key(case["bits"])
    msg = gen.expand(b"len%d" % case["n"], case["n"])
    if case["scheme"] == "v15":
        c = PKCS1_v1_5.new(kobj, randfunc=Tape(b"%d" % case["n"]))
        back = c.decrypt(c.encrypt(msg), b"\xEE" * 5, len(msg))
    else:
        c = PKCS1_OAEP.new(kobj, hashAlgo=oracles.lib_hash_module(case["hash"]), randfunc=Tape(b"%d" % case["n"]))
        back = c.decrypt(c.encrypt(msg))
    if bytes(back) != msg:
        raise Violation("%s/roundtrip" % case["scheme"], "message of %d bytes does not round-trip" % case["n"], **case)
    rec.nt(case["scheme"], case["bits"], case["hash"], case["n"])
    rec.event("lengths:" + case["scheme"])


CHECKS = [
    Check("oaep", run=run_oaep, strategy=strat_oaep, examples=(5000, 120000), shards=(16, 16),
          rule="OAEP decrypt raises ValueError iff the RFC 8017 7.1.2 decoder rejects the crafted/genuine EM, returns exactly M otherwise"),
    Check("v15", run=run_v15, strategy=strat_v15, examples=(6000, 150000), shards=(16, 16),
          rule="PKCS#1 v1.5 decrypt returns the sentinel iff the RFC 8017 7.2.2 decoder rejects (or length != expected_pt_len), exactly M otherwise"),
    Check("lengths", run=run_lengths, cases=cases_lengths, shards=(16, 16),
          rule="every message length 0..max round-trips for each scheme/hash/key size"),
]
