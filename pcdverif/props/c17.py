"""C17 — native code never touches memory outside its buffers, for any length or aliasing.

Every check of this module runs in a worker process that imports the AddressSanitizer build of the current tree
(variant "asan": -fsanitize=address, LD_PRELOAD=libasan.so, PYTHONMALLOC=malloc so that every Python buffer is its own
red-zoned allocation). The verdict is AddressSanitizer's (or a fatal signal): the worker journals each case to disk before
running it; when the process dies the parent takes the journalled case as the reproducer."""
import gc
import importlib

from hypothesis import strategies as st

from ..core import Check, Violation, HarnessError, Skip, libcall
from .. import gen, oracles, sym, keys
from . import c02, c03, c06, c07, c09, c12, c14, c19

META = {
    "rule": "all extension modules driven only through the public Python API inside an ASan-instrumented build: (i) the generated drivers of C02, C03, "
            "C06, C07, C09, C12, C14, C19 re-used for coverage of every entry point (their own oracle verdicts are counted, not reported here); (ii) "
            "dedicated sweeps: every data length 0..4*block+1 and a thin sweep to 4 KiB per cipher/mode/hash/MAC with input and output in writable "
            "memoryviews at offsets 0..15 of exactly-sized bytearrays, aliased in/out, output one byte short/long (must raise, not write), tag / "
            "digest / XOF / mac_len / KDF output lengths at their extremes, unsupported lengths for ECB/CBC (must raise), scalars and integers of "
            "0..600 bytes for EC/modexp, pkcs1/OAEP decoders with every key-size/hash combination incl. k < 2*hLen+2 and sentinels/expected "
            "lengths at 0/k/k+1; (iii) object life-cycle programs (create/copy/use/del + gc.collect()). Verdict: AddressSanitizer report or fatal "
            "signal = violation; Python exceptions for unsupported lengths are the expected outcome. Non-trivial = length not a multiple of the "
            "block size, or within 1 of an internal buffer size, or aliased, or offset != 0, or a life-cycle program with a use after copy/del of "
            "a sibling; distinct by (entry point, length class, offset, aliasing, sequence shape)",
    "assumptions": ["AddressSanitizer (heap/stack/global overflow, use-after-free, double free) is the detector; PYTHONMALLOC=malloc makes Python-owned "
                    "buffers individually red-zoned; UBSan is deliberately not enabled (alignment/overflow UB is not what the statement claims)"],
    "unexplored": ["entry points reachable only with >= 2^32-byte arguments", "reads of uninitialised memory (MSan needs an instrumented CPython)"],
}


def reuse(fn):
    """Run a driver of another property; its oracle violations are not C17's verdict."""
    def run(case, rec):
        try:
            fn(case, rec)
        except Violation as v:
            rec.event("other-property-verdict:" + v.bucket.split("/")[0])
        except Skip:
            raise
    return run


# ------------------------------------------------------------------ (ii) dedicated sweeps
CIPHER_MODES = [("AES", m) for m in ["ECB", "CBC", "CFB", "OFB", "CTR", "OPENPGP", "GCM", "CCM", "EAX", "SIV", "OCB"]] + \
               [(c, m) for c in ["DES", "DES3", "Blowfish", "CAST", "ARC2"] for m in ["ECB", "CBC", "CFB", "OFB", "CTR", "EAX"]] + \
               [("ChaCha20", None), ("Salsa20", None), ("ARC4", None), ("ChaCha20_Poly1305", None)]


@st.composite
def strat_sweep(draw, tier):
    cipher, mode = draw(st.sampled_from(CIPHER_MODES))
    bs = oracles.BLOCK.get(cipher, 64 if cipher in ("ChaCha20", "Salsa20", "ChaCha20_Poly1305") else 1)
    n = draw(st.one_of(st.integers(0, 4 * bs + 1), st.integers(0, 4 * bs + 1), st.sampled_from([127, 128, 129, 255, 256, 257, 1023, 1024, 1025, 4095, 4096, 4097])))
    return {"cipher": cipher, "mode": mode, "n": n, "off_in": draw(st.integers(0, 15)), "off_out": draw(st.integers(0, 15)),
            "out": draw(st.sampled_from(["ret", "exact", "alias", "short", "long", "alias-shifted"])), "use_aesni": draw(st.booleans()),
            "seed": draw(st.binary(min_size=4, max_size=4)), "decrypt": draw(st.booleans()), "mac_len_extreme": draw(st.sampled_from([None, "min", "max"]))}


def exact_view(data, off):
    """Writable memoryview over exactly len(data) bytes starting `off` bytes into an exactly sized bytearray."""
    ba = bytearray(off + len(data))
    ba[off:] = data
    return memoryview(ba)[off:], ba


def run_sweep(case, rec):
    cipher, mode, n = case["cipher"], case["mode"], case["n"]
    key = gen.expand(case["seed"] + b"k", 32)
    data = gen.expand(case["seed"] + b"d", n)
    kw = {}
    if cipher == "AES":
        kw["use_aesni"] = case["use_aesni"]
    if cipher in ("ChaCha20", "Salsa20", "ARC4", "ChaCha20_Poly1305"):
        spec = {"kind": "stream" if cipher != "ChaCha20_Poly1305" else "aead", "cipher": cipher, "mode": cipher if cipher == "ChaCha20_Poly1305" else None,
                "key": key if cipher != "ARC4" else key[:16], "nonce": key[:8] if cipher != "ChaCha20_Poly1305" else key[:12], "mac_len": 16}
    else:
        kl = {"AES": 16, "DES": 8, "DES3": 24, "Blowfish": 16, "CAST": 16, "ARC2": 16}[cipher]
        k = bytes(range(2, 50, 2)) if cipher == "DES3" else key[:kl]
        bs = oracles.BLOCK[cipher]
        spec = {"kind": "block", "cipher": cipher, "mode": mode, "key": k}
        if mode in ("CBC", "CFB", "OFB", "OPENPGP"):
            spec["iv"] = key[:bs]
        if mode == "CFB":
            spec["segment_size"] = 8 * (1 + case["off_in"] % bs)
        if mode == "CTR":
            spec["ctr"] = {"form": "nonce", "nonce": key[:bs // 2], "initial": 0, "initial_as_bytes": False, "clen": bs - bs // 2}
        if mode in ("GCM", "CCM", "EAX", "SIV", "OCB"):
            spec["kind"] = "aead"
            lo, hi = {"GCM": (4, 16), "CCM": (4, 16), "EAX": (2, bs), "OCB": (8, 16), "SIV": (16, 16)}[mode]
            spec["mac_len"] = {"min": lo, "max": hi, None: hi}[case["mac_len_extreme"]]
            spec["nonce"] = {"GCM": key[:12], "CCM": key[:11], "EAX": key[:16], "OCB": key[:15], "SIV": key[:16]}[mode]
            if mode == "SIV":
                spec["key"] = key + key
            if mode == "CCM":
                spec["msg_len"] = n
    label = "%s/%s" % (cipher, mode)
    obj = sym.lib_new(spec, **kw)
    if spec["kind"] == "aead" and mode != "SIV":
        obj.update(data[:7])
    meth_name = "decrypt" if case["decrypt"] else "encrypt"
    if mode == "SIV":
        meth = obj.encrypt_and_digest
    else:
        meth = getattr(obj, meth_name)
    src, src_ba = exact_view(data, case["off_in"])
    outmode = case["out"]
    has_out = c09.has_output(meth)
    allowed = (Exception,)     # any Python exception is an acceptable report of an unsupported length
    if outmode == "ret" or not has_out:
        k, r = libcall(meth, src, allowed=allowed, bucket="sweep/%s" % label)
    elif outmode == "alias":
        k, r = libcall(meth, src, allowed=allowed, bucket="sweep/%s" % label, output=src)
    elif outmode == "alias-shifted":
        # overlapping but shifted buffers: legal to refuse, never allowed to corrupt memory
        big = bytearray(n + 8)
        big[:n] = data
        mvb = memoryview(big)
        k, r = libcall(meth, mvb[:n], allowed=allowed, bucket="sweep/%s" % label, output=mvb[1:n + 1] if n else mvb[:0])
    else:
        m = {"exact": n, "short": max(0, n - 1), "long": n + 1}[outmode]
        dst, dst_ba = exact_view(bytes(m), case["off_out"])
        k, r = libcall(meth, src, allowed=allowed, bucket="sweep/%s" % label, output=dst)
        if outmode in ("short", "long") and k == "ok" and m != n:
            rec.event("sweep:wrong-size-output-accepted:" + label)
    if spec["kind"] == "aead" and k == "ok" and mode != "SIV":
        if mode == "OCB":
            libcall(getattr(obj, meth_name), allowed=allowed, bucket="sweep/%s" % label)
        if not case["decrypt"]:
            libcall(obj.digest, allowed=allowed, bucket="sweep/%s" % label)
        else:
            libcall(obj.verify, bytes(spec["mac_len"]), allowed=allowed, bucket="sweep/%s" % label)
    bs_ = oracles.BLOCK.get(cipher, 64)
    rec.nt(label, gen.length_class(n, bs_), case["off_in"] % 4, outmode, case["decrypt"], case["mac_len_extreme"])
    rec.event("sweep:" + label)
    rec.sample({"cipher": cipher, "mode": mode, "n": n, "off_in": case["off_in"], "out": outmode})


HASH_SWEEP = ["MD2", "MD4", "MD5", "RIPEMD160", "SHA1", "SHA224", "SHA256", "SHA384", "SHA512", "SHA3_224", "SHA3_256", "SHA3_384", "SHA3_512", "BLAKE2b", "BLAKE2s",
              "keccak", "SHAKE128", "SHAKE256", "cSHAKE128", "cSHAKE256", "TurboSHAKE128", "TurboSHAKE256", "KangarooTwelve", "KMAC128", "KMAC256", "TupleHash128",
              "Poly1305", "CMAC", "HMAC"]


@st.composite
def strat_hsweep(draw, tier):
    alg = draw(st.sampled_from(HASH_SWEEP))
    return {"alg": alg, "n": draw(st.one_of(st.integers(0, 300), st.sampled_from([8191, 8192, 8193, 4096, 1023]))), "off": draw(st.integers(0, 15)),
            "outlen": draw(st.one_of(st.integers(0, 70), st.sampled_from([0, 1, 64, 135, 136, 137, 167, 168, 169, 1000]))), "cut": draw(st.integers(0, 300)),
            "seed": draw(st.binary(min_size=4, max_size=4)), "copy": draw(st.booleans())}


def run_hsweep(case, rec):
    H = "Crypto.Hash."
    alg, n = case["alg"], case["n"]
    data = gen.expand(case["seed"], n)
    key = gen.expand(case["seed"] + b"k", 32)
    ol = case["outlen"]
    allowed = (Exception,)     # any Python exception is an acceptable report of an unsupported length
    if alg in ("BLAKE2b", "BLAKE2s"):
        mx = 64 if alg == "BLAKE2b" else 32
        k, o = libcall(importlib.import_module(H + alg).new, digest_bytes=max(1, min(mx, ol or 1)), key=key[:ol % (mx + 1)], allowed=allowed)
    elif alg == "keccak":
        k, o = libcall(importlib.import_module(H + alg).new, digest_bits=[224, 256, 384, 512][ol % 4], allowed=allowed)
    elif alg.startswith("KMAC"):
        k, o = libcall(importlib.import_module(H + alg).new, key=key, mac_len=max(8, ol), custom=data[:ol], allowed=allowed)
    elif alg == "TupleHash128":
        k, o = libcall(importlib.import_module(H + alg).new, digest_bytes=max(8, ol), allowed=allowed)
    elif alg == "Poly1305":
        from Crypto.Cipher import AES, ChaCha20
        from Crypto.Hash import Poly1305
        k, o = libcall(Poly1305.new, key=key, cipher=AES if ol % 2 else ChaCha20, nonce=key[:16] if ol % 2 else key[:12], allowed=allowed)
    elif alg == "CMAC":
        from Crypto.Hash import CMAC
        from Crypto.Cipher import AES, DES3
        k, o = libcall(CMAC.new, key[:16] if ol % 2 else bytes(range(2, 50, 2)), ciphermod=AES if ol % 2 else DES3, mac_len=4 + ol % 5, allowed=allowed)
    elif alg == "HMAC":
        from Crypto.Hash import HMAC
        k, o = libcall(HMAC.new, key[:ol % 33] + data[:ol], digestmod=importlib.import_module(H + ["SHA256", "SHA512", "MD5", "SHA3_256", "SHA1"][ol % 5]), allowed=allowed)
    elif alg.startswith("cSHAKE") or alg == "KangarooTwelve":
        k, o = libcall(importlib.import_module(H + alg).new, custom=data[:ol], allowed=allowed)
    else:
        k, o = libcall(importlib.import_module(H + alg).new, allowed=allowed)
    if k == "exc":
        rec.event("hsweep:ctor-refused:" + alg)
        return
    src, _ = exact_view(data, case["off"])
    cut = min(case["cut"], n)
    o.update(src[:cut])
    if case["copy"] and hasattr(o, "copy"):
        k2, o2 = libcall(o.copy, allowed=(Exception,))
        if k2 == "ok":
            o2.update(src[cut:])
            del o2
            gc.collect()
    o.update(src[cut:])
    if hasattr(o, "read"):
        libcall(o.read, ol, allowed=allowed)
        libcall(o.read, 1, allowed=allowed)
    else:
        libcall(o.digest, allowed=allowed)
    rec.nt(alg, n % 17, case["off"] % 4, ol % 9, case["copy"])
    rec.event("hsweep:" + alg)
    rec.sample({"alg": alg, "n": n, "off": case["off"], "outlen": ol})


# ------------------------------------------------------------------ RSA decoders with every key-size/hash combination
@st.composite
def strat_rsa(draw, tier):
    return {"bits": draw(st.sampled_from([1024, 1025, 1031, 1536])), "hash": draw(st.sampled_from(["SHA1", "SHA256", "SHA384", "SHA512", "SHA3_512", "MD5"])),
            "scheme": draw(st.sampled_from(["oaep", "oaep", "v15", "pss", "pkcs1sig"])), "ct": draw(st.binary(min_size=1, max_size=8)),
            "sentinel_len": draw(st.sampled_from([0, 1, 16, 127, 128, 129, 200, 256])), "epl": draw(st.sampled_from([0, 1, 100, 117, 118, 128, 129, 1000])),
            "label": draw(st.binary(max_size=8)), "ctlen": draw(st.sampled_from(["k", "k", "k", "k-1", "k+1", "0"]))}


def run_rsa(case, rec):
    from Crypto.PublicKey import RSA
    from Crypto.Cipher import PKCS1_OAEP, PKCS1_v1_5
    from Crypto.Signature import pss, pkcs1_15
    nums = keys.rsa_numbers(case["bits"])
    key = RSA.construct(nums)
    k = (nums[0].bit_length() + 7) // 8
    n = {"k": k, "k-1": k - 1, "k+1": k + 1, "0": 0}[case["ctlen"]]
    ct = (case["ct"] * (n // len(case["ct"]) + 1))[:n]
    if n == k:
        ct = (int.from_bytes(ct, "big") % nums[0]).to_bytes(k, "big")
    hm = oracles.lib_hash_module(case["hash"])
    allowed = (Exception,)     # any Python exception is an acceptable report of an unsupported length
    if case["scheme"] == "oaep":
        c = PKCS1_OAEP.new(key, hashAlgo=hm, label=case["label"])
        libcall(c.decrypt, ct, allowed=allowed, bucket="rsa/oaep")
        libcall(c.encrypt, case["ct"], allowed=allowed, bucket="rsa/oaep")
    elif case["scheme"] == "v15":
        c = PKCS1_v1_5.new(key)
        libcall(c.decrypt, ct, bytes(case["sentinel_len"]), case["epl"], allowed=allowed, bucket="rsa/v15")
    elif case["scheme"] == "pss":
        h = oracles.lib_hash_new(case["hash"], case["ct"])
        libcall(pss.new(key, salt_bytes=case["sentinel_len"] % 130).verify, h, ct, allowed=allowed, bucket="rsa/pss")
        libcall(pss.new(key, salt_bytes=case["sentinel_len"] % 130).sign, h, allowed=allowed, bucket="rsa/pss")
    else:
        h = oracles.lib_hash_new(case["hash"], case["ct"])
        libcall(pkcs1_15.new(key).verify, h, ct, allowed=allowed, bucket="rsa/pkcs1sig")
    rec.nt(case["scheme"], case["bits"], case["hash"], case["ctlen"], case["sentinel_len"], case["epl"])
    rec.event("rsa:" + case["scheme"])
    rec.sample({k_: v for k_, v in case.items() if k_ not in ("ct", "label")})


# ------------------------------------------------------------------ misc native entry points: strxor, scalars, modexp sizes, KDFs
@st.composite
def strat_misc(draw, tier):
    return {"what": draw(st.sampled_from(["strxor", "strxor_c", "modexp", "mult_modulo", "ec_scalar", "ec_coords", "ec_mixed", "ec_mixed", "scrypt", "bcrypt", "pbkdf2", "x25519", "poly1305"])),
            "n": draw(st.one_of(st.integers(0, 70), st.sampled_from([0, 1, 31, 32, 33, 64, 65, 127, 128, 129, 255, 256, 257, 600]))), "m": draw(st.integers(0, 70)),
            "off": draw(st.integers(0, 15)), "seed": draw(st.binary(min_size=4, max_size=4)), "alias": draw(st.booleans())}


def run_misc(case, rec):
    what, n, m = case["what"], case["n"], case["m"]
    a = gen.expand(case["seed"] + b"a", n)
    b = gen.expand(case["seed"] + b"b", n)
    allowed = (Exception,)
    if what == "strxor":
        from Crypto.Util.strxor import strxor
        va, _ = exact_view(a, case["off"])
        vb, _ = exact_view(b, (case["off"] * 7) % 16)
        out, _ = exact_view(bytes(n if m % 3 else max(0, n - 1)), case["off"])
        libcall(strxor, va, vb, allowed=allowed)
        libcall(strxor, va, vb, allowed=allowed, output=va if case["alias"] else out)
        libcall(strxor, va, vb[:max(0, n - 1)], allowed=allowed)
    elif what == "strxor_c":
        from Crypto.Util.strxor import strxor_c
        va, _ = exact_view(a, case["off"])
        libcall(strxor_c, va, m, allowed=allowed)
        libcall(strxor_c, va, m, allowed=allowed, output=va if case["alias"] else bytearray(n))
        libcall(strxor_c, va, 256 + m, allowed=allowed)
    elif what in ("modexp", "mult_modulo"):
        from Crypto.Math._IntegerCustom import IntegerCustom as I
        x, e, md = int.from_bytes(a, "big"), int.from_bytes(b[:m], "big"), int.from_bytes(gen.expand(case["seed"] + b"m", max(1, n)), "big") | 1
        if what == "modexp":
            libcall(pow, I(x), I(e), I(md), allowed=allowed)
            libcall(pow, I(e), I(x), I(md), allowed=allowed)
        else:
            libcall(I._mult_modulo_bytes, x, e, md, allowed=allowed)
    elif what in ("ec_scalar", "ec_coords"):
        from Crypto.PublicKey import ECC
        from Crypto.PublicKey.ECC import EccPoint, EccXPoint
        curve = keys.ALL_CURVES[m % 9]
        G = ECC._curves[curve].G
        if what == "ec_scalar":
            libcall(lambda: G * int.from_bytes(a, "big"), allowed=allowed)
            P = G * 5
            libcall(lambda: P * int.from_bytes(a, "big"), allowed=allowed)
        else:
            x, y = int.from_bytes(a, "big"), int.from_bytes(b, "big")
            if curve in ("curve25519", "curve448"):
                libcall(EccXPoint, x, curve, allowed=allowed)
            else:
                libcall(EccPoint, x, y, curve, allowed=allowed)
    elif what == "ec_mixed":
        # operands on two (possibly different) curves, in both orders: the native comparison/addition must refuse or answer without
        # looking at the other curve's buffers with its own field size
        from Crypto.PublicKey import ECC
        c1, c2 = keys.ALL_CURVES[n % 9], keys.ALL_CURVES[m % 9]

        def pt(curve, sel):
            G = ECC._curves[curve].G
            if sel == 0:
                return G.copy()
            if sel == 1:
                return G.point_at_infinity()
            return G * (2 + sel)

        def key(curve, sel):
            if curve in keys.NIST:
                return ECC.construct(curve=curve, d=3 + sel)
            return ECC.construct(curve=curve, seed=bytes([sel + 1]) * keys.SEEDLEN[curve])
        P, Q = pt(c1, case["off"] % 4), pt(c2, (case["off"] // 4) % 4)
        for A, B in ((P, Q), (Q, P)):
            libcall(lambda: A == B, allowed=allowed)
            libcall(lambda: A != B, allowed=allowed)
            libcall(lambda: A in [B], allowed=allowed)
            if hasattr(A, "__add__"):
                libcall(lambda: A + B, allowed=allowed)
                libcall(lambda: A.copy().__iadd__(B), allowed=allowed)
            # set(): the receiver takes over the other point; afterwards it must be usable (and describe itself) as a point of that curve
            k_, C_ = libcall(lambda: A.copy().set(B), allowed=allowed)
            if k_ == "ok":
                libcall(lambda: (C_ == B, C_.curve, C_.size_in_bytes(), None if C_.is_point_at_infinity() else int(C_.x)), allowed=allowed)
                if type(A) is type(B) and (C_.curve != B.curve or not (C_ == B)):
                    raise Violation("ec/set-leaves-stale-curve", "after P.set(Q) the receiver does not describe itself as a point of Q's curve / is not equal to Q",
                                    c1=c1, c2=c2)
        K1, K2 = key(c1, case["off"] % 3), key(c2, case["off"] % 2)
        for A, B in ((K1, K2), (K2, K1), (K1.public_key(), K2), (K1, K2.public_key())):
            libcall(lambda: A == B, allowed=allowed)
            libcall(lambda: A != B, allowed=allowed)
    elif what == "scrypt":
        from Crypto.Protocol.KDF import scrypt
        libcall(scrypt, a, b[:m], max(1, m), 2 << (m % 4), 1 + m % 3, 1 + m % 2, allowed=allowed)
    elif what == "bcrypt":
        from Crypto.Protocol.KDF import bcrypt
        libcall(bcrypt, bytes(x or 1 for x in a[:80]), 4, b[:16].ljust(16, b"s") if m % 5 else b[:m % 20], allowed=allowed)
    elif what == "pbkdf2":
        from Crypto.Protocol.KDF import PBKDF2
        from Crypto.Hash import SHA1, SHA256, SHA512, SHA224, SHA384, MD5
        libcall(PBKDF2, a, b, max(1, m), 1 + m % 4, hmac_hash_module=[SHA1, SHA256, SHA512, SHA224, SHA384, MD5][m % 6], allowed=allowed)
    elif what == "x25519":
        from Crypto.Protocol import DH
        f = DH.import_x25519_public_key if m % 2 else DH.import_x448_public_key
        libcall(f, a, allowed=allowed)
    else:
        from Crypto.Hash import Poly1305
        from Crypto.Cipher import ChaCha20
        k, o = libcall(Poly1305.new, key=gen.expand(case["seed"], 32), cipher=ChaCha20, nonce=gen.expand(case["seed"], 12), allowed=allowed)
        if k == "ok":
            v, _ = exact_view(a, case["off"])
            o.update(v)
            o.digest()
    rec.nt(what, n % 33, m % 7, case["off"] % 4, case["alias"])
    rec.event("misc:" + what)
    rec.sample({"what": what, "n": n, "m": m})


CHECKS = [
    Check("sweep", run=run_sweep, strategy=strat_sweep, examples=(14000, 100000), shards=(16, 16), variant="asan",
          rule="cipher/mode length sweep with exactly-sized offset buffers, aliasing, short/long outputs, tag-length extremes"),
    Check("hsweep", run=run_hsweep, strategy=strat_hsweep, examples=(8000, 60000), shards=(16, 16), variant="asan",
          rule="hash/XOF/MAC length and output-length sweep with offset buffers, copy/del interleaved"),
    Check("rsa_decoders", run=run_rsa, strategy=strat_rsa, examples=(2500, 15000), shards=(16, 16), variant="asan",
          rule="pkcs1_decode / oaep_decode / PSS / v1.5 verification with every key-size x hash combination, ciphertext lengths k-1/k/k+1, sentinel and expected lengths at extremes"),
    Check("misc", run=run_misc, strategy=strat_misc, examples=(6000, 40000), shards=(16, 16), variant="asan",
          rule="strxor, modexp/mont sizes 0..600 bytes, EC scalars/coordinates of any length, scrypt/bcrypt/PBKDF2, X25519/X448 import, Poly1305"),
    Check("lifecycle", run=reuse(c19.run_seq), strategy=c19.strat_seq, examples=(2500, 15000), shards=(16, 16), variant="asan",
          rule="object life-cycle programs (create/copy/use/del + gc.collect()) from C19 under ASan"),
    Check("drv_c09_cipher", run=reuse(c09.run_cipher), strategy=c09.strat_cipher, examples=(5000, 40000), shards=(16, 16), variant="asan",
          rule="C09 segmentation/buffer-type/in-place driver (classic modes, stream ciphers) under ASan"),
    Check("drv_c09_aead", run=reuse(c09.run_aead), strategy=c09.strat_aead, examples=(4000, 25000), shards=(16, 16), variant="asan",
          rule="C09 AEAD segmentation/in-place driver under ASan"),
    Check("drv_c06", run=reuse(c06.run_ops), strategy=c06.strat_ops, examples=(1500, 10000), shards=(16, 16), variant="asan",
          rule="C06 point-operation driver under ASan"),
    Check("drv_c14", run=reuse(c14.run_arith), strategy=c14.strat_arith, examples=(6000, 50000), shards=(16, 16), variant="asan",
          rule="C14 big-integer driver (custom C back-end: modexp, mont) under ASan"),
    Check("drv_c12", run=reuse(c12.run_scrypt), strategy=c12.strat_scrypt, examples=(300, 5000), shards=(8, 16), variant="asan",
          rule="C12 scrypt driver under ASan"),
    Check("drv_c03_mac", run=reuse(c03.run_mac), strategy=c03.strat_mac, examples=(2500, 15000), shards=(16, 16), variant="asan",
          rule="C03 MAC driver under ASan"),
    Check("drv_c19_threads", run=reuse(c19.run_threads), strategy=c19.strat_threads, examples=(64, 600), shards=(8, 8), variant="asan",
          rule="the multi-threaded workloads of C19 (2..16 threads, native code without the GIL) on the ASan build"),
    Check("drv_c07", run=reuse(c07.run_v15), strategy=c07.strat_v15, examples=(800, 5000), shards=(16, 16), variant="asan",
          rule="C07 PKCS#1 v1.5 decoder driver under ASan"),
]
