"""C01 — AEAD decryption accepts exactly the authentic (key, nonce, AAD, ct, tag) tuple."""
from hypothesis import strategies as st

from ..core import Check, Violation, HarnessError, Skip, libcall
from .. import gen, oracles, sym
from ..refs import modes

META = {
    "rule": "sender = reference implementation; the received tuple is derived by a mutation operator (identity, bit flip in "
            "tag/ct/AAD/nonce/key, tag truncated/extended/emptied, sibling tag, swapped ciphertext blocks, AAD/ciphertext boundary "
            "moved, receiver with another mac_len and truncated tag, SIV vector reordered/re-split, crafted KW/KWP blobs); "
            "oracle = reference decryption of the *received* tuple (accept iff tag is byte-for-byte the specified tag); library "
            "driven through decrypt_and_verify, decrypt+verify, decrypt+hexverify, unseal. Non-trivial = non-identity mutation "
            "or identity with non-empty AAD and non-default tag/nonce length; distinct by (mode, cipher, key len, nonce len, "
            "mac_len, AAD/pt length class, mutation kind, API path)",
    "assumptions": ["reference AEAD implementations (refs/modes.py, stream.py) validated against NIST/RFC/Wycheproof vectors and libcrypto",
                    "no probabilistic argument: a mutated tag that happens to be right is expected to be accepted (decided by the oracle)"],
    "unexplored": ["timing of the tag comparison", "messages above 64 KiB"],
}

MUTS = ["identity", "identity", "flip-tag", "flip-tag", "flip-ct", "flip-aad", "flip-nonce", "flip-key", "trunc-tag", "trunc-tag",
        "extend-tag", "zero-extend-tag", "empty-tag", "sibling-tag", "swap-blocks", "aad->ct", "ct->aad", "other-maclen",
        "siv-reorder", "siv-resplit", "drop-aad", "trunc-ct", "extend-ct", "zero-tail-trunc", "zero-head-trunc"]


@st.composite
def strat_aead(draw, tier):
    spec = draw(sym.aead_spec())
    bs = 16 if spec["cipher"] in ("AES", "ChaCha20_Poly1305") else 8
    n = draw(st.one_of(st.integers(0, 3 * bs + 1), st.sampled_from([0, 1, bs - 1, bs, bs + 1, 2 * bs, 127, 128, 129]),
                       st.sampled_from([300, 1024] if tier == "quick" else [300, 1024, 4097])))
    if spec["mode"] == "CCM":
        n = min(n, (1 << (8 * (15 - len(spec["nonce"])))) - 1)
    pt = draw(gen.data_of(st.just(n)))
    if spec["mode"] == "SIV":
        ncomp = draw(st.integers(0, 4))
        aad = [draw(gen.data_of(st.one_of(st.integers(0, 40), st.sampled_from([0, 15, 16, 17, 32])))) for _ in range(ncomp)]
    else:
        aad = [draw(gen.data_of(st.one_of(st.integers(0, 3 * bs + 1), st.sampled_from([0, bs - 1, bs, bs + 1, 127, 128, 129, 300]))))]
    return {"spec": spec, "pt": pt, "aad": aad, "mut": draw(st.sampled_from(MUTS)), "pos": draw(st.integers(0, 1 << 20)),
            "k": draw(st.integers(1, 16)), "extra": draw(st.binary(min_size=4, max_size=4)),
            "path": draw(st.sampled_from(["dav", "dav", "split", "hex", "HEX", "inplace", "dav-inplace"]))}


def flip(b, pos):
    if len(b) == 0:
        return None
    b = bytearray(b)
    i = pos % (len(b) * 8)
    b[i // 8] ^= 1 << (i % 8)
    return bytes(b)


def mutate(case, ct, tag):
    """Returns (spec', aad', ct', tag') or None when the mutation does not apply."""
    spec, aad, mut, pos, k = dict(case["spec"]), list(case["aad"]), case["mut"], case["pos"], case["k"]
    bs = 16 if spec["cipher"] in ("AES", "ChaCha20_Poly1305") else 8
    if mut == "identity":
        return spec, aad, ct, tag
    if mut == "flip-tag":
        return spec, aad, ct, flip(tag, pos)
    if mut == "flip-ct":
        x = flip(ct, pos)
        return None if x is None else (spec, aad, x, tag)
    if mut == "flip-aad":
        idx = [i for i, a in enumerate(aad) if len(a)]
        if not idx:
            return None
        i = idx[pos % len(idx)]
        aad[i] = flip(aad[i], pos // 7)
        return spec, aad, ct, tag
    if mut == "flip-nonce":
        if not spec.get("nonce"):
            return None
        spec["nonce"] = flip(spec["nonce"], pos)
        return spec, aad, ct, tag
    if mut == "flip-key":
        key = flip(spec["key"], pos)
        if spec["cipher"] == "DES3" and not sym.des3_ok(key):
            return None
        if spec["cipher"] in ("DES", "DES3") and bytes(b & 0xFE for b in key) == bytes(b & 0xFE for b in spec["key"]):
            pass   # parity-only change: the oracle will (correctly) expect acceptance
        spec["key"] = key
        return spec, aad, ct, tag
    if mut == "trunc-tag":
        return spec, aad, ct, tag[:max(0, len(tag) - 1 - (k % len(tag)))]
    if mut == "extend-tag":
        return spec, aad, ct, tag + case["extra"][:1 + k % 4]
    if mut == "zero-extend-tag":
        return spec, aad, ct, tag + bytes(1 + k % 4)
    if mut == "empty-tag":
        return spec, aad, ct, b""
    if mut == "sibling-tag":
        pt2 = bytes(case["pt"]) + b"\x01" if len(case["pt"]) % 2 else bytes(case["pt"])[::-1] + b"\x02"
        try:
            _, tag2 = sym.ref_encrypt(spec, pt2, aad)
        except ValueError:
            return None
        return spec, aad, ct, tag2
    if mut == "swap-blocks":
        if len(ct) < 2 * bs:
            return None
        nb = len(ct) // bs
        i = pos % nb
        j = (i + 1 + (pos // nb) % (nb - 1)) % nb
        blocks = [ct[x * bs:(x + 1) * bs] for x in range(nb)]
        blocks[i], blocks[j] = blocks[j], blocks[i]
        return spec, aad, b"".join(blocks) + ct[nb * bs:], tag
    if mut == "aad->ct":
        if spec["mode"] == "SIV" or not aad or len(aad[-1]) == 0:
            return None
        m = 1 + k % len(aad[-1])
        moved = aad[-1][-m:]
        aad[-1] = aad[-1][:-m]
        return spec, aad, moved + ct, tag
    if mut == "ct->aad":
        if spec["mode"] == "SIV" or len(ct) == 0:
            return None
        m = 1 + k % len(ct)
        aad = (aad or [b""])
        aad[-1] = aad[-1] + ct[:m]
        return spec, aad, ct[m:], tag
    if mut == "other-maclen":
        lo = {"GCM": 4, "CCM": 4, "EAX": 2, "OCB": 8}.get(spec["mode"])
        if lo is None or spec["mac_len"] <= lo:
            return None
        m = lo + k % (spec["mac_len"] - lo)
        if spec["mode"] == "CCM":
            m -= m % 2
            if m < 4:
                m = 4
        if m == spec["mac_len"]:
            return None
        spec["mac_len"] = m
        return spec, aad, ct, tag[:m]
    if mut == "siv-reorder":
        if spec["mode"] != "SIV" or len(aad) < 2:
            return None
        aad[0], aad[-1] = aad[-1], aad[0]
        return spec, aad, ct, tag
    if mut == "siv-resplit":
        if spec["mode"] != "SIV" or len(aad) < 1:
            return None
        if len(aad) >= 2 and k % 2:
            aad = [aad[0] + aad[1]] + aad[2:]          # merge two components
        else:
            a = aad[0]
            cut = k % (len(a) + 1)
            aad = [a[:cut], a[cut:]] + aad[1:]        # split one component (an empty piece still counts)
        return spec, aad, ct, tag
    if mut == "drop-aad":
        if not aad or (spec["mode"] != "SIV" and len(aad[0]) == 0):
            return None
        return spec, aad[1:], ct, tag
    if mut == "trunc-ct":
        if len(ct) == 0:
            return None
        return spec, aad, ct[:len(ct) - 1 - k % len(ct)], tag
    if mut == "extend-ct":
        return spec, aad, ct + case["extra"][:1 + k % 4], tag
    return None


def lib_open(spec, aad, ct, tag, path, label):
    """Drive the library receiver through one API path. Returns ('ok', pt) or ('exc', ValueError)."""
    spec = dict(spec)
    if spec["mode"] == "CCM":
        # exercise declared lengths on the receiving side half of the time (chosen from the tuple, deterministic)
        if len(ct) % 2:
            spec["msg_len"] = len(ct)
        if sum(len(a) for a in aad) % 2:
            spec["assoc_len"] = sum(len(a) for a in aad)
    k, dec = libcall(sym.lib_new, spec, allowed=(ValueError,), bucket="aead/%s/new" % label)
    if k == "exc":
        return "ctor-exc", dec
    for a in aad:
        dec.update(a)
    import inspect

    def takes_output(m):
        try:
            return "output" in inspect.signature(m).parameters
        except (TypeError, ValueError):
            return False
    if path == "dav-inplace" and not takes_output(dec.decrypt_and_verify):
        path = "dav"
    if path == "inplace" and not takes_output(dec.decrypt):
        path = "split"
    if path == "dav-inplace" and spec["mode"] not in ("SIV", "OCB") and len(ct) > 0:
        # documented: output= may be the buffer that holds the ciphertext
        buf = bytearray(ct)
        k, r = libcall(dec.decrypt_and_verify, buf, tag, allowed=(ValueError,), bucket="aead/%s/decrypt_and_verify" % label, output=buf)
        return (k, bytes(buf)) if k == "ok" else (k, r)
    if path in ("dav", "dav-inplace") or spec["mode"] == "SIV":
        return libcall(dec.decrypt_and_verify, ct, tag, allowed=(ValueError,), bucket="aead/%s/decrypt_and_verify" % label)
    if path == "inplace" and spec["mode"] != "OCB" and len(ct) > 0:
        # in-place decryption in two pieces, then verify()
        buf = bytearray(ct)
        mv = memoryview(buf)
        cut = len(buf) // 2
        if spec["mode"] == "CCM" and "msg_len" not in spec:
            cut = 0         # without a declared length CCM takes the whole message in one call (documented)
        for a_, b_ in ((0, cut), (cut, len(buf))):
            if b_ > a_:
                k, r = libcall(dec.decrypt, mv[a_:b_], allowed=(ValueError,), bucket="aead/%s/decrypt" % label, output=mv[a_:b_])
                if k == "exc":
                    return k, r
        k, r = libcall(dec.verify, tag, allowed=(ValueError,), bucket="aead/%s/verify" % label)
        return (k, bytes(buf)) if k == "ok" else (k, r)
    if len(ct) == 0 and spec["mode"] in ("GCM", "EAX", "CCM", "ChaCha20_Poly1305") and (len(tag) + sum(len(a) for a in aad)) % 2:
        # MAC-only use of the object (documented: update() ... verify()): no decrypt() call at all for the empty message
        pt = b""
    else:
        k, pt = libcall(dec.decrypt, ct, allowed=(ValueError,), bucket="aead/%s/decrypt" % label)
        if k == "exc":
            return k, pt
        pt = bytes(pt)
        if spec["mode"] == "OCB":
            pt += bytes(dec.decrypt())
    if path == "split":
        k, r = libcall(dec.verify, tag, allowed=(ValueError,), bucket="aead/%s/verify" % label)
    else:
        hx = tag.hex()
        if path == "HEX":
            hx = hx.upper()
        k, r = libcall(dec.hexverify, hx, allowed=(ValueError,), bucket="aead/%s/hexverify" % label)
    return (k, pt) if k == "ok" else (k, r)


def run_aead(case, rec):
    spec, pt, aad = case["spec"], case["pt"], case["aad"]
    label = sym.spec_label(spec)
    ct, tag = sym.ref_encrypt(spec, pt, aad)
    if case["mut"] in ("zero-tail-trunc", "zero-head-trunc"):
        # search a sibling message whose tag ends (starts) with a zero byte and drop that byte: catches receivers that
        # zero-pad, prefix-compare or integer-compare tags. Bounded search; skipped if none is found.
        idx = -1 if case["mut"] == "zero-tail-trunc" else 0
        base = bytes(pt[:64])
        found = None
        for i in range(400):
            pt_i = base + i.to_bytes(2, "big")
            try:
                ct_i, tag_i = sym.ref_encrypt(spec, pt_i, aad)
            except ValueError:
                break
            if tag_i[idx] == 0:
                found = (pt_i, ct_i, tag_i)
                break
        if found is None:
            raise Skip()
        pt, ct, tag = found
        m = (dict(spec), list(aad), ct, tag[:-1] if idx == -1 else tag[1:])
    else:
        m = mutate(case, ct, tag)
    if m is None:
        raise Skip()
    rspec, raad, rct, rtag = m
    if rtag is None:
        raise Skip()
    # oracle verdict on the received tuple
    try:
        exp = sym.ref_decrypt(rspec, rct, raad, rtag)
    except ValueError:
        exp = None      # received parameters outside the mode's domain (e.g. CCM message too long for the nonce)
    kind, got = lib_open(rspec, raad, rct, rtag, case["path"], label)
    info = {"spec": rspec, "mut": case["mut"], "path": case["path"], "ct_len": len(rct), "tag": rtag, "aad": [len(a) for a in raad]}
    if kind == "ctor-exc":
        if exp is not None:
            raise Violation("aead/%s/authentic-rejected-at-new" % label, "constructor refused parameters of an authentic tuple", **info)
    elif exp is None:
        if kind == "ok":
            raise Violation("aead/%s/forgery-accepted/%s" % (label, case["mut"]),
                            "a %s tuple was accepted (returned %d bytes)" % (case["mut"], len(got)), **info)
    else:
        if kind != "ok":
            raise Violation("aead/%s/authentic-rejected" % label, "authentic tuple (%s) rejected: %s" % (case["mut"], got), **info)
        if bytes(got) != exp:
            raise Violation("aead/%s/wrong-plaintext" % label, "accepted, but plaintext differs from the reference", **info)
    bs = 16 if spec["cipher"] in ("AES", "ChaCha20_Poly1305") else 8
    total_aad = sum(len(a) for a in aad)
    if case["mut"] != "identity" or (total_aad and (spec["mac_len"] != 16 or len(spec.get("nonce") or b"") != 12)):
        rec.nt(label, len(spec["key"]), len(spec.get("nonce") or b""), spec["mac_len"], gen.length_class(total_aad, bs),
               gen.length_class(len(pt), bs), case["mut"], case["path"], exp is not None)
    rec.event("mut:%s:%s" % (case["mut"], "accept" if exp is not None else "reject"))
    rec.event("aead:" + label)
    rec.sample({"mode": label, "keylen": len(spec["key"]), "noncelen": len(spec.get("nonce") or b""), "mac_len": spec["mac_len"],
                "pt_len": len(pt), "aad": [len(a) for a in aad], "mut": case["mut"], "path": case["path"], "expected": "accept" if exp is not None else "reject"})


# ------------------------------------------------------------------ encryption side of the "iff": digest() is the specified tag
# (covered by C02.aead; here only the tag of the library's own sender is cross-opened by the reference receiver)
@st.composite
def strat_sender(draw, tier):
    c = draw(strat_aead(tier))
    c["mut"] = "identity"
    return c


def run_sender(case, rec):
    spec, pt, aad = dict(case["spec"]), case["pt"], case["aad"]
    label = sym.spec_label(spec)
    enc = sym.lib_new(spec)
    for a in aad:
        enc.update(a)
    ct, tag = enc.encrypt_and_digest(pt)
    ct, tag = bytes(ct), bytes(tag)
    back = sym.ref_decrypt(spec, ct, aad, tag)
    if back != pt:
        raise Violation("aead/%s/library-sender-not-openable" % label, "reference receiver rejects the library's own output", spec=spec)
    if len(tag) != spec["mac_len"]:
        raise Violation("aead/%s/tag-length" % label, "tag has %d bytes, mac_len %d" % (len(tag), spec["mac_len"]), spec=spec)
    rec.nt(label, len(spec["key"]), len(spec.get("nonce") or b""), spec["mac_len"], len(pt) > 0, len(aad))
    rec.event("sender:" + label)


# ------------------------------------------------------------------ KW / KWP
KW_MUTS = ["identity", "flip", "flip", "trunc8", "trunc1", "extend8", "extend1", "swap", "other-key", "crafted"]


@st.composite
def strat_kw(draw, tier):
    mode = draw(st.sampled_from(["KW", "KWP", "KWP"]))
    kl = draw(st.sampled_from([16, 24, 32]))
    if mode == "KW":
        n = 8 * draw(st.one_of(st.integers(2, 8), st.sampled_from([2, 3, 4])))
    else:
        n = draw(st.one_of(st.integers(1, 40), st.sampled_from([1, 7, 8, 9, 15, 16, 17, 24, 25])))
    c = {"mode": mode, "key": draw(st.binary(min_size=kl, max_size=kl)), "pt": draw(gen.data_of(st.just(n))),
         "mut": draw(st.sampled_from(KW_MUTS)), "pos": draw(st.integers(0, 1 << 16))}
    if c["mut"] == "crafted":
        # craft S = A || blocks and wrap it with the raw W function, so that the decrypted block is fully controlled
        nblk = draw(st.integers(1, 5))
        body = bytearray(draw(st.binary(min_size=8 * nblk, max_size=8 * nblk)))
        if mode == "KW":
            a = draw(st.sampled_from([b"\xa6" * 8, b"\xa6" * 7 + b"\xa7", b"\xa6\x59\x59\xa6" + bytes(4), bytes(8)]))
            if nblk < 2:
                nblk = 2
                body = body + bytearray(8)
        else:
            total = 8 * nblk
            mli_kind = draw(st.sampled_from(["ok", "ok", "low", "high", "zero", "huge", "pad-nonzero", "bad-const", "exact"]))
            mli = {"ok": total - draw(st.integers(0, 7)), "exact": total, "low": max(0, total - 8 - draw(st.integers(0, 3))),
                   "high": total + 1 + draw(st.integers(0, 9)), "zero": 0, "huge": 0xFFFFFFFF - draw(st.integers(0, 7)),
                   "pad-nonzero": total - draw(st.integers(1, 7)), "bad-const": total - 3}[mli_kind]
            const = b"\xa6\x59\x59\xa6" if mli_kind != "bad-const" else draw(st.sampled_from([b"\xa6\xa6\xa6\xa6", b"\xa6\x59\x59\xa7", bytes(4)]))
            a = const + (mli & 0xFFFFFFFF).to_bytes(4, "big")
            if mli_kind in ("ok", "exact", "low") and 0 <= mli <= total:
                for i in range(mli, total):
                    body[i] = 0
            if mli_kind == "pad-nonzero":
                for i in range(mli, total):
                    body[i] = 0
                body[mli + draw(st.integers(0, total - mli - 1))] = draw(st.integers(1, 255))
            c["mli_kind"] = mli_kind
        c["A"] = a
        c["body"] = bytes(body)
    return c


def run_kw(case, rec):
    from Crypto.Cipher import AES
    mode, key, pt, mut = case["mode"], case["key"], case["pt"], case["mut"]
    c = modes.aes_bc(key)
    m = getattr(AES, "MODE_" + mode)
    rkey = key
    if mut == "crafted":
        blocks = [case["body"][i:i + 8] for i in range(0, len(case["body"]), 8)]
        if mode == "KWP" and len(blocks) == 1:
            blob = c.enc(case["A"] + blocks[0])
        else:
            blob = modes.kw_W(c, case["A"], blocks)
    else:
        blob = modes.kw_wrap(c, pt) if mode == "KW" else modes.kwp_wrap(c, pt)
        pos = case["pos"]
        if mut == "flip":
            blob = flip(blob, pos)
        elif mut == "trunc8":
            blob = blob[:-8]
        elif mut == "trunc1":
            blob = blob[:-1 - pos % 7]
        elif mut == "extend8":
            blob = blob + bytes(8) if pos % 2 else blob + blob[:8]
        elif mut == "extend1":
            blob = blob + bytes(1 + pos % 7)
        elif mut == "swap":
            if len(blob) < 24:
                raise Skip()
            b = [blob[i:i + 8] for i in range(0, len(blob), 8)]
            i = pos % len(b)
            j = (i + 1) % len(b)
            b[i], b[j] = b[j], b[i]
            blob = b"".join(b)
        elif mut == "other-key":
            rkey = flip(key, pos)
    rc = modes.aes_bc(rkey)
    try:
        exp = modes.kw_unwrap(rc, blob) if mode == "KW" else modes.kwp_unwrap(rc, blob)
    except ValueError:
        exp = None
    kind, got = libcall(AES.new(rkey, m).unseal, blob, allowed=(ValueError,), bucket="kw/%s/unseal" % mode)
    info = {"mode": mode, "keylen": len(key), "mut": mut, "blob": blob, "mli_kind": case.get("mli_kind")}
    if exp is None and kind == "ok":
        raise Violation("kw/%s/forgery-accepted/%s" % (mode, case.get("mli_kind", mut)), "unseal accepted a %s blob and returned %s" % (mut, bytes(got).hex()[:40]), **info)
    if exp is not None:
        if kind != "ok":
            raise Violation("kw/%s/authentic-rejected" % mode, "unseal rejected a blob the RFC defines as valid (%s)" % mut, **info)
        if bytes(got) != exp:
            raise Violation("kw/%s/wrong-key-data" % mode, "unseal returned other key data than the reference", **info)
    rec.nt(mode, len(key), mut, case.get("mli_kind"), len(blob) // 8, exp is not None)
    rec.event("kw:%s:%s:%s" % (mode, case.get("mli_kind", mut), "accept" if exp is not None else "reject"))
    rec.sample({"mode": mode, "mut": mut, "mli_kind": case.get("mli_kind"), "blob_len": len(blob), "expected": "accept" if exp is not None else "reject"})


# ------------------------------------------------------------------ CCM: AAD length-encoding thresholds (receiver side)
def cases_ccm_aad(tier, shard, nshards):
    out = []
    for i, n in enumerate([0xFEFF, 0xFF00, 0xFF01, 0xFFFF, 0x10000, 0x10001]):
        for j, (nl, ml) in enumerate([(7, 16), (13, 4), (11, 8), (12, 10)]):
            if tier == "quick" and (i + j) % 2:
                continue
            out.append({"aad_len": n, "nonce_len": nl, "mac_len": ml, "keylen": [16, 24, 32][(i + j) % 3], "pt_len": [0, 1, 17, 32][j],
                        "mut": ["identity", "flip-tag", "identity", "flip-aad"][(i + j) % 4]})
    return [c for k, c in enumerate(out) if k % nshards == shard]


def run_ccm_aad(case, rec):
    spec = {"kind": "aead", "cipher": "AES", "mode": "CCM", "key": gen.expand(b"k", case["keylen"]), "nonce": gen.expand(b"n", case["nonce_len"]),
            "mac_len": case["mac_len"]}
    aad = gen.expand(b"aad", case["aad_len"])
    pt = gen.expand(b"pt", case["pt_len"])
    ct, tag = sym.ref_encrypt(spec, pt, [aad])
    raad, rtag = aad, tag
    if case["mut"] == "flip-tag":
        rtag = flip(tag, 5)
    elif case["mut"] == "flip-aad":
        raad = flip(aad, 8 * (len(aad) - 1))
    exp = sym.ref_decrypt(spec, ct, [raad], rtag)
    kind, got = lib_open(spec, [raad[:1000], raad[1000:]], ct, rtag, "dav", "AES/CCM")
    if exp is None and kind == "ok":
        raise Violation("aead/AES/CCM/forgery-accepted/aad-boundary", "forged tuple accepted with %d bytes of AAD" % len(aad), **case)
    if exp is not None and (kind != "ok" or bytes(got) != exp):
        raise Violation("aead/AES/CCM/authentic-rejected/aad-boundary", "the specification's tag for %d bytes of associated data is rejected" % len(aad), **case)
    rec.nt("ccm-aad", case["aad_len"], case["nonce_len"], case["mac_len"], case["mut"])
    rec.event("ccm-aad:%#x:%s" % (case["aad_len"], case["mut"]))
    rec.sample(case)


CHECKS = [
    Check("ccm_aad", run=run_ccm_aad, cases=cases_ccm_aad, shards=(8, 12),
          rule="CCM receiver with associated data lengths around the 0xFF00 / 2^16 length-encoding thresholds"),
    Check("aead", run=run_aead, strategy=strat_aead, examples=(40000, 800000), shards=(16, 16),
          rule="received tuple = mutation of a reference-encrypted message; accepted iff the reference accepts, plaintext equal, rejection is ValueError"),
    Check("sender", run=run_sender, strategy=strat_sender, examples=(6000, 80000), shards=(8, 16),
          rule="the library sender's (ct, tag) is opened by the reference receiver"),
    Check("kw", run=run_kw, strategy=strat_kw, examples=(8000, 150000), shards=(8, 16),
          rule="KW/KWP unseal of mutated and crafted blobs (every decoder check of RFC 5649 reached) accepted iff the reference accepts"),
]
