"""Worker process of the C16 public-key differential: executes generated scripts, prints JSON outcomes.
The Integer back-end is whatever the process environment selects."""
import hashlib
import json
import math
import os
import sys


def main():
    if os.environ.get("PCDVERIF_FORCE_NATIVE"):
        os.environ["PYCRYPTODOME_DISABLE_GMP"] = "1"
        sys.modules["Crypto.Math._IntegerCustom"] = None
    try:
        sys.set_int_max_str_digits(0)
    except AttributeError:
        pass
    from Crypto.Math.Numbers import Integer
    from pcdverif.core import dec
    st = State()
    sys.stdout.write(json.dumps({"integer": Integer.__name__}) + "\n")
    sys.stdout.flush()
    for line in sys.stdin:
        case = dec(json.loads(line))
        out = []
        for op in case["ops"]:
            try:
                out.append(run_op(st, op))
            except Exception as e:
                out.append({"exc": type(e).__name__})
        sys.stdout.write(json.dumps(out) + "\n")
        sys.stdout.flush()


class Tape:
    def __init__(self, seed):
        self.h = hashlib.shake_128(b"c16" + bytes(seed))
        self.pos = 0

    def __call__(self, n):
        out = self.h.digest(self.pos + n)[self.pos:]
        self.pos += n
        return out


def prime_from(seed, bits):
    import sympy
    x = int.from_bytes(hashlib.shake_128(seed).digest((bits + 7) // 8), "big")
    x &= (1 << bits) - 1
    x |= (1 << (bits - 1)) | (1 << (bits - 2)) | 1
    return int(sympy.nextprime(x))


class State:
    def __init__(self):
        self.rsa = {}
        self.dsa = None

    def rsa_parts(self, idx, bits=1024):
        k = (idx % 4, bits)
        if k not in self.rsa:
            e = [65537, 3, 17, 257][idx % 4]
            i = 0
            while True:
                p = prime_from(b"p%d-%d-%d" % (idx % 4, bits, i), bits // 2)
                q = prime_from(b"q%d-%d-%d" % (idx % 4, bits, i), bits - bits // 2)
                if math.gcd(e, (p - 1) * (q - 1)) == 1 and p != q:
                    break
                i += 1
            n = p * q
            d = pow(e, -1, math.lcm(p - 1, q - 1))
            self.rsa[k] = (n, e, d, p, q)
        return self.rsa[k]

    def dsa_parts(self):
        if self.dsa is None:
            import sympy
            q = prime_from(b"dsa-q", 160)
            k = (1 << 1023) // q
            while True:
                k += 1
                p = k * q + 1
                if p.bit_length() == 1024 and sympy.isprime(p):
                    break
            h = 2
            while True:
                g = pow(h, (p - 1) // q, p)
                if g > 1:
                    break
                h += 1
            x = int.from_bytes(hashlib.sha256(b"dsa-x").digest(), "big") % (q - 1) + 1
            self.dsa = (pow(g, x, p), g, p, q, x)
        return self.dsa


CURVES = ["p192", "p224", "p256", "p384", "p521"]


def hx(b):
    return bytes(b).hex()


def tn(x):
    """Public type name: every back-end class is 'Integer' to the caller."""
    from Crypto.Math.Numbers import Integer
    return "Integer" if isinstance(x, Integer) else type(x).__name__


def run_op(st, o):
    from Crypto.PublicKey import RSA, DSA, ECC
    from Crypto.Hash import SHA256, SHA1, SHA512
    from Crypto.Math.Numbers import Integer
    op, seed, n, msg = o["op"], o["seed"], o["n"], o["msg"]
    si = int.from_bytes(seed, "big")
    if op == "rsa_construct":
        nn, e, d, p, q = st.rsa_parts(n)
        form = n % 4
        comps = [(nn, e), (nn, e, d), (nn, e, d, p, q), (nn, e, d, q, p)][form]
        k = RSA.construct(comps)
        r = {"n": int(k.n), "e": int(k.e), "priv": k.has_private()}
        if k.has_private():
            r.update(d=int(k.d), p=int(k.p), q=int(k.q), u=int(k.u), dp=int(k.dp), dq=int(k.dq), invq=int(k.invq), invp=int(k.invp))
            r["types"] = [tn(k.n), tn(k.d)]
        return r
    if op == "rsa_recover":
        nn, e, d, p, q = st.rsa_parts(n)
        k = RSA.construct((nn, e, d))
        return sorted([int(k.p), int(k.q)])
    if op == "rsa_raw":
        nn, e, d, p, q = st.rsa_parts(n)
        k = RSA.construct((nn, e, d, p, q))
        m = si % nn
        c = k._encrypt(m)
        return [int(c), int(k._decrypt(int(c))), tn(c), hx(k._decrypt_to_bytes(Integer(int(c))))]
    if op == "rsa_pkcs1_sign":
        from Crypto.Signature import pkcs1_15
        k = RSA.construct(st.rsa_parts(n))
        h = [SHA256, SHA1, SHA512][n % 3].new(msg)
        s = pkcs1_15.new(k).sign(h)
        pkcs1_15.new(k.public_key()).verify([SHA256, SHA1, SHA512][n % 3].new(msg), s)
        return hx(s)
    if op == "rsa_pss_sign":
        from Crypto.Signature import pss
        k = RSA.construct(st.rsa_parts(n))
        s = pss.new(k, rand_func=Tape(seed), salt_bytes=n % 33).sign(SHA256.new(msg))
        pss.new(k.public_key(), salt_bytes=n % 33).verify(SHA256.new(msg), s)
        return hx(s)
    if op == "rsa_oaep":
        from Crypto.Cipher import PKCS1_OAEP
        k = RSA.construct(st.rsa_parts(n))
        c = PKCS1_OAEP.new(k.public_key(), hashAlgo=SHA256, randfunc=Tape(seed)).encrypt(msg)
        return [hx(c), hx(PKCS1_OAEP.new(k, hashAlgo=SHA256).decrypt(c))]
    if op == "rsa_v15_enc":
        from Crypto.Cipher import PKCS1_v1_5
        k = RSA.construct(st.rsa_parts(n))
        c = PKCS1_v1_5.new(k.public_key(), randfunc=Tape(seed)).encrypt(msg)
        bad = bytearray(c)
        bad[n % len(bad)] ^= 1
        return [hx(c), hx(PKCS1_v1_5.new(k).decrypt(c, b"SENTINEL")), hx(PKCS1_v1_5.new(k).decrypt(bytes(bad), b"SENTINEL"))]
    if op in ("dsa_rfc6979", "dsa_fips_tape"):
        from Crypto.Signature import DSS
        k = DSA.construct(st.dsa_parts())
        enc = ["binary", "der"][n % 2]
        if op == "dsa_rfc6979":
            s = DSS.new(k, "deterministic-rfc6979", encoding=enc).sign(SHA256.new(msg))
        else:
            s = DSS.new(k, "fips-186-3", encoding=enc, randfunc=Tape(seed)).sign(SHA256.new(msg))
        DSS.new(k.public_key(), "fips-186-3", encoding=enc).verify(SHA256.new(msg), s)
        return hx(s)
    if op in ("ecdsa_rfc6979", "ecdsa_fips_tape"):
        from Crypto.Signature import DSS
        curve = CURVES[n % 5]
        order = int(ECC._curves[curve].order)
        k = ECC.construct(curve=curve, d=si % (order - 1) + 1)
        enc = ["binary", "der"][(n // 5) % 2]
        h = SHA512.new(msg)
        if op == "ecdsa_rfc6979":
            s = DSS.new(k, "deterministic-rfc6979", encoding=enc).sign(h)
        else:
            s = DSS.new(k, "fips-186-3", encoding=enc, randfunc=Tape(seed)).sign(h)
        DSS.new(k.public_key(), "fips-186-3", encoding=enc).verify(SHA512.new(msg), s)
        return hx(s)
    if op == "ecc_construct":
        curve = CURVES[n % 5]
        order = int(ECC._curves[curve].order)
        d = [si % (order - 1) + 1, 1, order - 1, 2][(n // 5) % 4]
        k = ECC.construct(curve=curve, d=d)
        return [int(k.pointQ.x), int(k.pointQ.y), tn(k.pointQ.x), tn(k.d)]
    if op == "ecc_decompress":
        curve = CURVES[n % 5]
        order = int(ECC._curves[curve].order)
        k = ECC.construct(curve=curve, d=si % (order - 1) + 1)
        comp = k.public_key().export_key(format="SEC1", compress=True)
        k2 = ECC.import_key(comp, curve_name=curve)
        bad = bytearray(comp)
        bad[-1] ^= 1 + n % 7
        try:
            k3 = ECC.import_key(bytes(bad), curve_name=curve)
            r3 = [int(k3.pointQ.x), int(k3.pointQ.y)]
        except Exception as e:
            r3 = {"exc": type(e).__name__}
        return [int(k2.pointQ.y), r3]
    if op == "dsa_construct_bad":
        y, g, p, q, x = st.dsa_parts()
        which = n % 6
        tup = [(y + 1, g, p, q, x), (y, g, p, q + 2, x), (y, g, p + 2, q, x), (y, 1, p, q, x), (y, g, p, q, q + 1), (y, p - 1, p, q)][which]
        DSA.construct(tup)
        return "accepted"
    if op == "primality":
        from Crypto.Math import Primality
        bits = 40 + n % 300
        base = prime_from(seed, bits)
        cands = [base, base * prime_from(seed + b"x", bits), base * base, base + 2, 2 ** 127 - 1, 561, 3215031751]
        return [Primality.test_probable_prime(c, randfunc=Tape(seed)) for c in cands] + \
               [Primality.miller_rabin_test(c, 5, randfunc=Tape(seed)) for c in cands] + [Primality.lucas_test(c) for c in cands]
    if op == "gen_prime_tape":
        from Crypto.Math import Primality
        from Crypto.Util import number
        p = Primality.generate_probable_prime(exact_bits=160 + n % 100, randfunc=Tape(seed))
        p2 = number.getPrime(64 + n % 64, randfunc=Tape(seed))
        return [int(p), int(p2), tn(p)]
    if op == "rsa_generate_tape":
        k = RSA.generate(1024, randfunc=Tape(seed), e=[65537, 3, 17][n % 3])
        return [int(k.n), int(k.d), int(k.u)]
    if op == "ecc_offcurve":
        curve = CURVES[n % 5]
        k = ECC.construct(curve=curve, d=si + 1)
        ECC.construct(curve=curve, point_x=int(k.pointQ.x), point_y=int(k.pointQ.y) + 1 + n % 3)
        return "accepted"
    if op == "rsa_construct_bad":
        nn, e, d, p, q = st.rsa_parts(n)
        which = (n // 4) % 6
        tup = [(nn + 2, e, d, p, q), (nn, e, d + 2, p, q), (nn, e + 1, d, p, q), (nn, e, d, p + 2, q), (nn, e, d, p, q, 5), (nn, 1)][which]
        RSA.construct(tup)
        return "accepted"
    if op == "ecc_mul":
        curve = CURVES[n % 5]
        order = int(ECC._curves[curve].order)
        k = ECC.construct(curve=curve, d=si % (order - 1) + 1)
        s = [si, 0, 1, order, order - 1, order + 1][(n // 5) % 6]
        R = k.pointQ * s
        if R.is_point_at_infinity():
            return "inf"
        return [int(R.x), int(R.y)]
    if op == "eddsa_sign":
        from Crypto.Signature import eddsa
        curve = ["ed25519", "ed448"][n % 2]
        k = ECC.construct(curve=curve, seed=hashlib.shake_128(seed).digest(32 if curve == "ed25519" else 57))
        s = eddsa.new(k, "rfc8032").sign(msg)
        eddsa.new(k.public_key(), "rfc8032").verify(msg, s)
        return hx(s)
    if op == "ecdh":
        from Crypto.Protocol.DH import key_agreement
        curve = (CURVES + ["curve25519", "curve448"])[n % 7]
        if curve.startswith("p"):
            order = int(ECC._curves[curve].order)
            a = ECC.construct(curve=curve, d=si % (order - 1) + 1)
            b = ECC.construct(curve=curve, d=(si * 7 + 3) % (order - 1) + 1)
        else:
            ln = 32 if curve == "curve25519" else 56
            a = ECC.construct(curve=curve, seed=hashlib.shake_128(seed).digest(ln))
            b = ECC.construct(curve=curve, seed=hashlib.shake_128(seed + b"b").digest(ln))
        z = key_agreement(static_priv=a, static_pub=b.public_key(), kdf=lambda x: x)
        return hx(z)
    if op == "inverse_fail":
        which = n % 6
        a = si | 1
        if which == 0:
            return int(Integer(a * 3).inverse(a * 5))
        if which == 1:
            return int(Integer(a).inverse(0))
        if which == 2:
            return int(pow(Integer(a), -1, a + 2))
        if which == 3:
            return hx(Integer._mult_modulo_bytes(a, a + 1, (a | 1) + 1))
        if which == 4:
            return int(Integer(-a).sqrt())
        return int(Integer(a).sqrt(-7))
    raise ValueError("unknown op " + op)


if __name__ == "__main__":
    main()
