"""C14 — big-integer arithmetic exact in every back-end; primality tests sound."""
import math

from hypothesis import strategies as st

from ..core import Check, Violation, HarnessError, Skip, libcall

META = {
    "rule": "operands generated with bias to word boundaries (31..33, 63..65, 127..129, ... 2047..2049 bits), "
            "special values (0, +-1, 2^k, 2^k+-1, all-ones, limb patterns), negative values, int/Integer mix and "
            "in-place aliasing; oracle = Python int / math / own Jacobi + sympy.isprime; non-trivial = operand at a "
            "word boundary, negative, aliased, or an exception case; adversarial composite or prime for primality; "
            "distinct by (back-end, operation, size classes, sign pattern, aliasing/mix, outcome kind)",
    "assumptions": ["Python int arithmetic, math.isqrt/gcd and sympy.isprime (BPSW, deterministic < 2^64) are correct",
                    "Miller-Rabin-only verdicts on composites use >= 30 rounds with a deterministic randfunc (error <= 4^-30)"],
    "unexplored": ["operands above ~4200 bits", "negative shift counts and non-prime moduli for modular sqrt (undocumented domain)"],
}

BACKENDS = ["gmp", "custom", "native"]


def get_backend(name):
    if name == "gmp":
        from Crypto.Math._IntegerGMP import IntegerGMP as I
    elif name == "custom":
        from Crypto.Math._IntegerCustom import IntegerCustom as I
    else:
        from Crypto.Math._IntegerNative import IntegerNative as I
    return I


# ------------------------------------------------------------------ operand generators
BITS = [1, 2, 7, 8, 9, 15, 16, 17, 31, 32, 33, 63, 64, 65, 95, 96, 97, 127, 128, 129, 191, 192, 193,
        255, 256, 257, 511, 512, 513, 1023, 1024, 1025, 2047, 2048, 2049]


@st.composite
def nat(draw, maxbits=4200):
    kind = draw(st.integers(0, 9))
    if kind == 0:
        return draw(st.sampled_from([0, 1, 2, 3, 255, 256, 65535, 65536]))
    bits = draw(st.one_of(st.sampled_from([b for b in BITS if b <= maxbits]), st.integers(1, min(maxbits, 300)),
                          st.integers(1, maxbits)))
    if kind == 1:
        return 1 << (bits - 1)
    if kind == 2:
        return (1 << bits) - 1
    if kind == 3:
        return (1 << (bits - 1)) + 1
    if kind == 4:
        # limb patterns
        v = draw(st.sampled_from([0xFFFFFFFF00000000, 0x8000000000000001, 0xFFFFFFFFFFFFFFFF, 0x00000000FFFFFFFF]))
        reps = max(1, bits // 64)
        x = 0
        for _ in range(reps):
            x = (x << 64) | v
        return x
    if bits <= 64:
        return draw(st.integers(1 << (bits - 1), (1 << bits) - 1))
    top = draw(st.integers(1 << 63, (1 << 64) - 1))
    low = draw(st.integers(0, (1 << 64) - 1))
    seed = draw(st.integers(0, (1 << 32) - 1))
    import hashlib
    nb = (bits + 7) // 8
    mid = int.from_bytes(hashlib.shake_128(seed.to_bytes(4, "big")).digest(nb), "big")
    x = mid & ((1 << bits) - 1)
    x |= 1 << (bits - 1)
    # splice the drawn top and low words so shrinking has something to act on
    x = (x & ~((1 << 64) - 1)) | low
    if bits > 128:
        x = (x & ((1 << (bits - 64)) - 1)) | (top << (bits - 64))
    return x


@st.composite
def word_sized(draw):
    """Values that just fit / just overflow a C int, long or limb (31..33 and 63..65 bits), where a native fast path for 'small' operands
    would change behaviour; results near the top of the range (>= 2^31, >= 2^63) included."""
    bits = draw(st.sampled_from([31, 32, 32, 32, 33, 63, 64, 64, 65]))
    v = draw(st.one_of(st.integers(1 << (bits - 1), (1 << bits) - 1), st.integers(1, 4).map(lambda d: (1 << bits) - d), st.just(1 << (bits - 1))))
    return -v if draw(st.integers(0, 5)) == 0 else v


@st.composite
def integer(draw, maxbits=4200):
    v = draw(nat(maxbits))
    if draw(st.integers(0, 3)) == 0:
        v = -v
    return v


def sizeclass(v):
    b = abs(v).bit_length()
    edge = ""
    if b and (b % 32 in (31, 0, 1)):
        edge = "w"
    s = "-" if v < 0 else ""
    if b <= 1:
        return s + str(abs(v))
    for lim in (32, 64, 128, 256, 512, 1024, 2048, 4096, 9000):
        if b <= lim:
            return "%s<=%d%s" % (s, lim, edge)
    return s + "huge"


def at_boundary(v):
    b = abs(v).bit_length()
    return b % 32 in (31, 0, 1) or v in (0, 1, -1)


# ------------------------------------------------------------------ model
def jacobi(a, n):
    assert n > 0 and n & 1
    a %= n
    r = 1
    while a:
        while a & 1 == 0:
            a >>= 1
            if n % 8 in (3, 5):
                r = -r
        a, n = n, a
        if a % 4 == 3 and n % 4 == 3:
            r = -r
        a %= n
    return r if n == 1 else 0


class Raises:
    def __init__(self, *types):
        self.types = types

    def __repr__(self):
        return "Raises(%s)" % "/".join(t.__name__ for t in self.types)


VE = Raises(ValueError)
ZD = Raises(ZeroDivisionError)
VE_OR_ZD = Raises(ValueError, ZeroDivisionError)


def model_mod(a, m):
    if m == 0:
        return ZD
    if m < 0:
        return VE
    return a % m


def model_pow(a, e, m):
    if m is None:
        return VE if e < 0 else a ** e
    if e < 0 and m == 0:
        return VE_OR_ZD          # two preconditions violated: either documented exception
    if e < 0:
        return VE
    if m == 0:
        return ZD
    if m < 0:
        return VE
    return pow(a, e, m)


def model_inverse(a, m):
    if m == 0:
        return ZD
    if m < 0:
        return VE
    if math.gcd(a, m) != 1:
        return VE
    return pow(a, -1, m)


def model_to_bytes(a, bs, order):
    if a < 0:
        return VE
    n = max(1, (a.bit_length() + 7) // 8)
    if bs > 0:
        if n > bs:
            return VE
        n = bs
    return a.to_bytes(n, order)


# op table: name -> (n_operands, model(a,b,c), apply(I, A, b_arg, c_arg), domain predicate or None)
def _wrap(I, v, as_int):
    return v if as_int else I(v)


BINOPS = {
    "add": (lambda a, b: a + b, lambda A, B: A + B),
    "sub": (lambda a, b: a - b, lambda A, B: A - B),
    "mul": (lambda a, b: a * b, lambda A, B: A * B),
    "floordiv": (lambda a, b: ZD if b == 0 else a // b, lambda A, B: A // B),
    "mod": (model_mod, lambda A, B: A % B),
    "and": (lambda a, b: a & b, lambda A, B: A & B),
    "or": (lambda a, b: a | b, lambda A, B: A | B),
    "eq": (lambda a, b: a == b, lambda A, B: A == B),
    "ne": (lambda a, b: a != b, lambda A, B: A != B),
    "lt": (lambda a, b: a < b, lambda A, B: A < B),
    "le": (lambda a, b: a <= b, lambda A, B: A <= B),
    "gt": (lambda a, b: a > b, lambda A, B: A > B),
    "ge": (lambda a, b: a >= b, lambda A, B: A >= B),
    "gcd": (lambda a, b: math.gcd(a, b), lambda A, B: A.gcd(B)),
    "lcm": (lambda a, b: 0 if a == 0 or b == 0 else abs(a * b) // math.gcd(a, b), lambda A, B: A.lcm(B)),
    "inverse": (model_inverse, lambda A, B: A.inverse(B)),
    "pow2": (lambda a, b: model_pow(a, b, None), lambda A, B: pow(A, B)),
}
INPLACE = {
    "iadd": (lambda a, b: a + b, lambda A, B: A.__iadd__(B)),
    "isub": (lambda a, b: a - b, lambda A, B: A.__isub__(B)),
    "imul": (lambda a, b: a * b, lambda A, B: A.__imul__(B)),
    "imod": (model_mod, lambda A, B: A.__imod__(B)),
    "inplace_inverse": (model_inverse, lambda A, B: A.inplace_inverse(B)),
    "set": (lambda a, b: b, lambda A, B: (A.set(B), A)[1]),
}
UNOPS = {
    "int": (lambda a: a, lambda A: int(A)),
    "str": (lambda a: str(a), lambda A: str(A)),
    "abs": (lambda a: abs(a), lambda A: abs(A)),
    "bool": (lambda a: a != 0, lambda A: bool(A)),
    "is_negative": (lambda a: a < 0, lambda A: A.is_negative()),
    "is_odd": (lambda a: a & 1 == 1, lambda A: A.is_odd()),
    "is_even": (lambda a: a & 1 == 0, lambda A: A.is_even()),
    "size_in_bits": (lambda a: VE if a < 0 else max(1, a.bit_length()), lambda A: A.size_in_bits()),
    "size_in_bytes": (lambda a: VE if a < 0 else max(1, (a.bit_length() + 7) // 8), lambda A: A.size_in_bytes()),
    "is_perfect_square": (lambda a: a >= 0 and math.isqrt(a) ** 2 == a, lambda A: A.is_perfect_square()),
    "sqrt": (lambda a: VE if a < 0 else math.isqrt(a), lambda A: A.sqrt()),
    "index": (lambda a: a, lambda A: A.__index__()),
}


def value_of(x):
    if isinstance(x, bool):
        return x
    if isinstance(x, (str, bytes)):
        return x
    return int(x)


def compare(opname, backend, expected, thunk, rec, feat, case):
    """Run thunk (library) and compare with the model's expectation."""
    allowed = (ValueError, ZeroDivisionError)
    kind, res = libcall(thunk, allowed=allowed, bucket="int/%s/%s" % (backend, opname))
    if isinstance(expected, Raises):
        if kind == "ok":
            raise Violation("int/%s/%s/no-exception" % (backend, opname),
                            "expected %r, got value %s" % (expected, str(value_of(res))[:80]), **case)
        if not isinstance(res, expected.types):
            raise Violation("int/%s/%s/wrong-exception" % (backend, opname),
                            "expected %r, got %s(%s)" % (expected, type(res).__name__, res), **case)
        rec.nt(backend, opname, "raises", *feat)
        return None
    if kind == "exc":
        raise Violation("int/%s/%s/spurious-%s" % (backend, opname, type(res).__name__),
                        "result %s exists but the library raised %s(%s)" % (str(expected)[:80], type(res).__name__, res), **case)
    if res is NotImplemented:
        raise Violation("int/%s/%s/NotImplemented" % (backend, opname), "operator returned NotImplemented", **case)
    got = value_of(res)
    if got != expected:
        raise Violation("int/%s/%s/wrong-value" % (backend, opname),
                        "expected %s, got %s" % (str(expected)[:120], str(got)[:120]), **case)
    return res


# ------------------------------------------------------------------ arithmetic check
@st.composite
def strat_arith(draw, tier):
    group = draw(st.sampled_from(["bin", "bin", "bin", "bin-word", "inplace", "un", "un-sqrt", "shift", "powmod", "powmod", "bytes",
                                  "jacobi", "sqrtmod", "misc", "mmb"]))
    c = {"backend": draw(st.sampled_from(BACKENDS)), "group": group, "b_as_int": draw(st.booleans()),
         "alias": False}
    if group == "bin-word":
        # every binary operator with a divisor / second operand that just fits (or just overflows) a machine word, as int and as Integer,
        # and a first operand of any size: where fast paths for "small" native operands live
        c["group"] = "bin"
        c["op"] = draw(st.sampled_from([o for o in sorted(BINOPS) if o not in ("pow2", "inverse")]))
        c["a"] = draw(st.one_of(integer(), word_sized()))
        c["b"] = draw(word_sized())
    elif group == "bin":
        c["op"] = draw(st.sampled_from(sorted(BINOPS)))
        if c["op"] == "pow2":
            c["a"] = draw(integer(200))
            c["b"] = draw(st.integers(-2, 40))
        elif c["op"] == "inverse":
            c["a"] = draw(integer(2100))
            c["b"] = draw(st.one_of(integer(2100), st.sampled_from([0, 1, 2, -5])))
        else:
            c["a"] = draw(integer())
            c["b"] = draw(st.one_of(integer(), st.just(c["a"]), st.sampled_from([0, 1, -1]), word_sized(), word_sized()))
            if draw(st.integers(0, 5)) == 0:
                c["a"] = draw(word_sized())
    elif group == "inplace":
        c["op"] = draw(st.sampled_from(sorted(INPLACE)))
        c["a"] = draw(integer(2100))
        c["alias"] = draw(st.integers(0, 3)) == 0
        c["b"] = c["a"] if c["alias"] else draw(st.one_of(integer(2100), st.sampled_from([0, 1, -1]), word_sized()))
    elif group in ("un", "un-sqrt"):
        c["op"] = draw(st.sampled_from((sorted(UNOPS) + ["sqrt", "is_perfect_square"]) if group == "un" else ["sqrt", "sqrt", "is_perfect_square"]))
        c["group"] = "un"
        c["a"] = draw(integer())
        if c["op"] in ("sqrt", "is_perfect_square") and draw(st.integers(0, 3)) != 0:
            # perfect squares and their neighbours, with the size of the root swept through the widths where a floating-point or
            # word-sized short cut would stop being exact (24..28, 31..33, 52..54, 63..65 bits) and through every size up to 700 bits
            rb = draw(st.one_of(st.sampled_from([24, 25, 26, 27, 27, 28, 31, 32, 33, 52, 53, 54, 63, 64, 65, 127, 128]), st.integers(1, 700)))
            m = draw(st.one_of(st.integers(1 << (rb - 1), (1 << rb) - 1), st.just((1 << rb) - 1), st.just(1 << (rb - 1)),
                               # squares between 2^52 and 2^53 (still exact as a double, but the double square root of m*m-1 rounds up to m),
                               # and between 2^63 and 2^64 (last values of a machine word)
                               st.integers((1 << 26) + 1, 94906265), st.integers(3037000500, (1 << 32) - 1)))
            c["a"] = max(0, m * m + draw(st.sampled_from([-1, -1, -1, 0, 0, 1, -2, 2 * m, 2 * m + 1, -m])))
    elif group == "shift":
        c["op"] = draw(st.sampled_from(["rshift", "lshift", "irshift", "ilshift", "get_bit"]))
        c["a"] = draw(integer(2100))
        c["b"] = draw(st.one_of(st.integers(0, 130), st.integers(0, 5000),
                                st.sampled_from([2 ** 31 - 1, 2 ** 31, 2 ** 32 - 1, 2 ** 32, 2 ** 32 + 1, 2 ** 63, 2 ** 64, 2 ** 64 + 5, 2 ** 70])))
    elif group == "powmod":
        c["op"] = draw(st.sampled_from(["pow3", "inplace_pow3"]))
        c["a"] = draw(integer(2100))
        c["b"] = draw(st.one_of(nat(2100), st.sampled_from([0, 1, 2, 3, 65537, -1])))
        m = draw(st.one_of(nat(2100), st.sampled_from([0, 1, 2, -7])))
        if draw(st.booleans()) and m > 0:
            m |= 1
        c["c"] = m
        if draw(st.integers(0, 5)) == 0:
            # results that are exactly 0 (or 1, or m-1) modulo a *composite* odd modulus although no operand is: m = q^j (or q^j * t), base = q^i * u
            q = draw(st.one_of(st.sampled_from([3, 5, 7, 255, 65537, (1 << 61) - 1, (1 << 64) - 59, (1 << 127) - 1]), nat(300).map(lambda v: v | 1)))
            j = draw(st.integers(2, 4))
            i_ = draw(st.integers(1, j))
            c["c"] = q ** j * draw(st.sampled_from([1, 1, 3, 5]))
            c["a"] = q ** i_ * draw(st.sampled_from([1, 1, 2, 7, -1])) + draw(st.sampled_from([0, 0, 0, 1, -1]))
            c["b"] = draw(st.integers(1, 6))
        c["alias"] = draw(st.integers(0, 7)) == 0
        c["c_as_int"] = draw(st.booleans())
    elif group == "bytes":
        c["op"] = draw(st.sampled_from(["to_bytes", "from_bytes"]))
        c["a"] = draw(st.one_of(nat(2100), st.just(-5)))
        c["order"] = draw(st.sampled_from(["big", "little"]))
        n = max(1, (abs(c["a"]).bit_length() + 7) // 8)
        c["b"] = draw(st.one_of(st.just(0), st.integers(max(0, n - 2), n + 9), st.integers(0, 300)))
        c["lead"] = draw(st.integers(0, 3))
    elif group == "jacobi":
        c["op"] = "jacobi_symbol"
        c["a"] = draw(integer(1100))
        n = draw(st.one_of(nat(1100), st.sampled_from([1, 3, 9, 15, 2, 0, -3])))
        if draw(st.integers(0, 5)) != 0 and n > 0:
            n |= 1
        c["b"] = n
    elif group == "sqrtmod":
        c["op"] = "sqrtmod"
        c["pidx"] = draw(st.integers(0, 20))
        c["a"] = draw(integer(600))
        c["square_it"] = draw(st.booleans())
        c["c_as_int"] = draw(st.booleans())
    elif group == "misc":
        c["op"] = draw(st.sampled_from(["multiply_accumulate", "fail_if_divisible_by", "ctor", "eq_none"]))
        c["a"] = draw(integer(2100))
        c["b"] = draw(integer(1100))
        c["c"] = draw(st.one_of(integer(1100), st.sampled_from([2, 3, 5, 7, 11, 13, 65537, 2 ** 31 - 1, 2 ** 61 - 1, 2 ** 64 + 13])))
        c["c_as_int"] = draw(st.booleans())
        c["alias"] = draw(st.integers(0, 4)) == 0
    elif group == "mmb":
        c["op"] = "_mult_modulo_bytes"
        m = draw(st.one_of(nat(2100), st.sampled_from([0, 1, 2, -7, 3])))
        if draw(st.integers(0, 7)) != 0 and m > 0:
            m |= 1
        c["c"] = m
        c["a"] = draw(integer(2100))
        c["b"] = draw(integer(2100))
        if draw(st.integers(0, 4)) == 0:
            # a*b = 0 (or = m) modulo a composite odd modulus with non-zero factors
            q = draw(st.one_of(st.sampled_from([3, 5, 7, 255, 65537, (1 << 61) - 1, (1 << 64) - 59]), nat(300).map(lambda v: v | 1)))
            r_ = draw(st.one_of(st.sampled_from([3, 5, 9, 65537]), nat(200).map(lambda v: v | 1)))
            c["c"] = q * r_
            c["a"] = q * draw(st.sampled_from([1, 1, 2, 4]))
            c["b"] = r_ * draw(st.sampled_from([1, 1, 3])) + draw(st.sampled_from([0, 0, 0, 1]))
    return c


def _sqrt_primes():
    # primes p with various 2-adic valuations of p-1 (Tonelli-Shanks paths), found by construction + sympy check
    import sympy
    out = [3, 5, 7, 13, 17, 97, 193, 257, 65537, 2 ** 61 - 1, 2 ** 127 - 1, 2 ** 255 - 19, 2 ** 224 - 2 ** 96 + 1,
           2 ** 256 - 2 ** 224 + 2 ** 192 + 2 ** 96 - 1, 2 ** 521 - 1, 2 ** 448 - 2 ** 224 - 1]
    for s in (3, 8, 16, 40, 100):
        k = (1 << 21) + 1
        while not sympy.isprime(k * (1 << s) + 1):
            k += 2
        out.append(k * (1 << s) + 1)
    return out


SQRT_PRIMES = None


def sqrt_primes():
    global SQRT_PRIMES
    if SQRT_PRIMES is None:
        SQRT_PRIMES = _sqrt_primes()
    return SQRT_PRIMES


def run_arith(case, rec):
    be = case["backend"]
    I = get_backend(be)
    op, group = case["op"], case["group"]
    a = case["a"]
    b = case.get("b")
    A = I(a)
    feat = [sizeclass(a), sizeclass(b) if isinstance(b, int) else "", case.get("b_as_int"), case.get("alias")]
    info = {"a": a, "b": b, "c": case.get("c")}
    nontriv = at_boundary(a) or a < 0 or (isinstance(b, int) and (at_boundary(b) or b < 0)) or case.get("alias")
    rec.event("%s:%s" % (be, op))
    if group == "bin":
        model, fn = BINOPS[op]
        B = _wrap(I, b, case["b_as_int"])
        exp = model(a, b)
        res = compare(op, be, exp, lambda: fn(A, B), rec, feat, info)
        if int(A) != a or (not case["b_as_int"] and int(B) != b):
            raise Violation("int/%s/%s/operand-mutated" % (be, op), "out-of-place operator changed an operand", **info)
    elif group == "inplace":
        model, fn = INPLACE[op]
        B = A if case["alias"] else _wrap(I, b, case["b_as_int"])
        exp = model(a, b)
        res = compare(op, be, exp, lambda: fn(A, B), rec, feat, info)
        if not isinstance(exp, Raises):
            if int(A) != exp:
                raise Violation("int/%s/%s/inplace-not-updated" % (be, op), "object holds %s after in-place op, expected %s" % (str(int(A))[:80], str(exp)[:80]), **info)
            if not case["alias"] and not case["b_as_int"] and int(B) != b:
                raise Violation("int/%s/%s/operand-mutated" % (be, op), "in-place operator changed its argument", **info)
    elif group == "un":
        model, fn = UNOPS[op]
        exp = model(a)
        compare(op, be, exp, lambda: fn(A), rec, feat, info)
        if int(A) != a:
            raise Violation("int/%s/%s/operand-mutated" % (be, op), "unary operation changed the object", **info)
    elif group == "shift":
        n = b
        N = _wrap(I, n, case["b_as_int"])
        if op in ("rshift", "irshift"):
            exp = (a >> n) if n < (1 << 20) else (0 if a >= 0 else -1)
            f = (lambda: A >> N) if op == "rshift" else (lambda: A.__irshift__(N))
        elif op in ("lshift", "ilshift"):
            if n > 5000:
                # a result of more than 2^16 bits: back-ends refuse or allocate; no documented contract
                raise Skip()
            exp = a << n
            f = (lambda: A << N) if op == "lshift" else (lambda: A.__ilshift__(N))
        else:
            exp = VE if a < 0 else bool((a >> n) & 1) if n < (1 << 20) else False
            f = lambda: A.get_bit(N)
        if n >= 2 ** 31:
            feat.append("hugecount")
            nontriv = True
        compare(op, be, exp, f, rec, feat, info)
        if op in ("rshift", "lshift", "get_bit") and int(A) != a:
            raise Violation("int/%s/%s/operand-mutated" % (be, op), "shift changed its operand", **info)
    elif group == "powmod":
        e, m = b, case["c"]
        E = _wrap(I, e, case["b_as_int"])
        M = A if (case["alias"] and m == a) else _wrap(I, m, case["c_as_int"])
        if case["alias"]:
            # alias exponent with base: a ** a mod m (only for non-huge a)
            e = a
            E = A
        exp = model_pow(a, e, m)
        feat += [sizeclass(m), "odd" if m & 1 else "even"]
        info = {"a": a, "b": e, "c": m}
        if op == "pow3":
            compare(op, be, exp, lambda: pow(A, E, M), rec, feat, info)
            if int(A) != a:
                raise Violation("int/%s/pow3/operand-mutated" % be, "pow changed its base", **info)
        else:
            compare(op, be, exp, lambda: A.inplace_pow(E, M), rec, feat, info)
            if not isinstance(exp, Raises) and int(A) != exp:
                raise Violation("int/%s/inplace_pow3/inplace-not-updated" % be, "base not updated in place", **info)
        nontriv = True
    elif group == "bytes":
        order = case["order"]
        if op == "to_bytes":
            bs = b
            exp = model_to_bytes(a, bs, order)
            compare(op, be, exp, lambda: A.to_bytes(bs, order), rec, feat + [order, bs == 0], info)
        else:
            if a < 0:
                raise Skip()
            raw = bytes(case["lead"]) + a.to_bytes(max(1, (a.bit_length() + 7) // 8), "big")
            if order == "little":
                raw = raw[::-1]
            compare(op, be, a, lambda: I.from_bytes(raw, order), rec, feat + [order, case["lead"]], info)
            r = I.from_bytes(raw, order)
            if type(r) is not I:
                raise Violation("int/%s/from_bytes/type" % be, "from_bytes returned %s" % type(r).__name__)
        nontriv = True
    elif group == "jacobi":
        n = b
        exp = VE if (n <= 0 or n & 1 == 0) else jacobi(a, n)
        compare(op, be, exp, lambda: I.jacobi_symbol(_wrap(I, a, case["b_as_int"]), _wrap(I, n, case["b_as_int"])), rec, feat, info)
        nontriv = True
    elif group == "sqrtmod":
        ps = sqrt_primes()
        p = ps[case["pidx"] % len(ps)]
        v = a * a if case["square_it"] else a
        is_res = (v % p == 0) or jacobi(v % p, p) == 1
        P = _wrap(I, p, case["c_as_int"])
        V = I(v)
        kind, res = libcall(lambda: V.sqrt(P), allowed=(ValueError, ZeroDivisionError), bucket="int/%s/sqrtmod" % be)
        info = {"a": v, "p": p}
        if is_res:
            if kind == "exc":
                raise Violation("int/%s/sqrtmod/spurious-%s" % (be, type(res).__name__), "square root exists but %s raised" % type(res).__name__, **info)
            r = int(res)
            if not (0 <= r < p) or (r * r - v) % p != 0:
                raise Violation("int/%s/sqrtmod/wrong-value" % be, "returned %d is not a square root of a mod p" % r, **info)
        else:
            if kind == "ok":
                raise Violation("int/%s/sqrtmod/no-exception" % be, "non-residue but returned %s" % int(res), **info)
            if not isinstance(res, ValueError):
                raise Violation("int/%s/sqrtmod/wrong-exception" % be, "non-residue raised %s" % type(res).__name__, **info)
        feat += [case["pidx"], is_res]
        nontriv = True
    elif group == "misc":
        c = case["c"]
        C = _wrap(I, c, case["c_as_int"])
        B = _wrap(I, b, case["b_as_int"])
        if op == "multiply_accumulate":
            if case["alias"]:
                B, b = A, a
            exp = a + b * c
            res = compare(op, be, exp, lambda: A.multiply_accumulate(B, C), rec, feat, info)
            if int(A) != exp:
                raise Violation("int/%s/multiply_accumulate/inplace-not-updated" % be, "object not updated", **info)
        elif op == "fail_if_divisible_by":
            sp = abs(c)
            if sp < 2:
                raise Skip()
            SP = _wrap(I, sp, case["c_as_int"])
            exp = VE if a % sp == 0 else None
            kind, res = libcall(lambda: A.fail_if_divisible_by(SP), allowed=(ValueError,), bucket="int/%s/%s" % (be, op))
            if (kind == "exc") != (exp is VE):
                raise Violation("int/%s/fail_if_divisible_by/wrong" % be, "a %% p == %d but %s" % (a % sp, "raised" if kind == "exc" else "did not raise"), a=a, p=sp)
            feat.append(sizeclass(sp))
        elif op == "ctor":
            X = I(I(a))
            if int(X) != a or type(X) is not I:
                raise Violation("int/%s/ctor/copy" % be, "Integer(Integer(a)) != a", **info)
            X += 1
            if int(A) != a:
                raise Violation("int/%s/ctor/shared-state" % be, "copy-constructed Integer shares state with the original", **info)
            kind, res = libcall(lambda: I(1.5), allowed=(ValueError,), bucket="int/%s/ctor" % be)
            if kind == "ok":
                raise Violation("int/%s/ctor/float-accepted" % be, "float accepted", **info)
        elif op == "eq_none":
            if (A == None) is not False or (A != None) is not True:  # noqa: E711
                raise Violation("int/%s/eq_none" % be, "comparison with None wrong")
    elif group == "mmb":
        m = case["c"]
        if m == 0:
            exp = ZD
        elif m < 0 or m & 1 == 0:
            exp = VE
        else:
            n = max(1, (m.bit_length() + 7) // 8)
            exp = ((a * b) % m).to_bytes(n, "big")
        feat += [sizeclass(m)]
        compare(op, be, exp, lambda: bytes(I._mult_modulo_bytes(I(a), I(b), I(m))), rec, feat, info)
        compare(op, be, exp, lambda: bytes(I._mult_modulo_bytes(a, b, m)), rec, feat, info)
        nontriv = True
    if nontriv:
        rec.nt(be, op, *feat)
    rec.sample({"backend": be, "op": op, "a": a, "b": b, "c": case.get("c")})


# ------------------------------------------------------------------ result types
def strat_types(tier):
    return st.fixed_dictionaries({"backend": st.sampled_from(BACKENDS), "a": integer(300), "b": nat(300)})


def run_types(case, rec):
    """Out-of-place arithmetic returns an object of the same class (documented container semantics)."""
    be = case["backend"]
    I = get_backend(be)
    a, b = case["a"], case["b"] + 1
    A, B = I(a), I(b)
    for name, f in [("add", lambda: A + B), ("sub", lambda: A - B), ("mul", lambda: A * B), ("floordiv", lambda: A // B),
                    ("mod", lambda: A % B), ("pow", lambda: pow(A, 3, B | 1)), ("and", lambda: A & B), ("or", lambda: A | B),
                    ("lshift", lambda: A << 5), ("rshift", lambda: A >> 5), ("gcd", lambda: A.gcd(B)),
                    ("add_int", lambda: A + b), ("mul_int", lambda: A * b)]:
        r = f()
        if type(r) is not I:
            raise Violation("int/%s/%s/result-type" % (be, name), "result type %s" % type(r).__name__, a=a, b=b)
    rec.nt(be, sizeclass(a), sizeclass(b))
    rec.event("types:" + be)


# ------------------------------------------------------------------ primality
KNOWN_SPSP = [2047, 1373653, 25326001, 3215031751, 2152302898747, 3474749660383, 341550071728321,
              3825123056546413051, 318665857834031151167461, 3317044064679887385961981]
# strong Lucas pseudoprimes (Selfridge parameters) below 10^5 and a few Lucas/Frobenius classics
KNOWN_SLPSP = [5459, 5777, 10877, 16109, 18971, 22499, 24569, 25199, 40309, 58519, 75077, 97439]
KNOWN_LPSP = [323, 377, 1159, 1829, 3827, 5459, 5777, 9071, 9179, 10877, 11419, 11663, 13919, 14839, 16109]
KNOWN_PRIMES = [2, 3, 5, 7, 11, 13, 541, 547, 557, 7919, 65537, 2 ** 31 - 1, 2 ** 61 - 1, 2 ** 89 - 1, 2 ** 107 - 1,
                2 ** 127 - 1, 2 ** 255 - 19, 2 ** 521 - 1, 2 ** 192 - 2 ** 64 - 1, 2 ** 224 - 2 ** 96 + 1,
                2 ** 256 - 2 ** 224 + 2 ** 192 + 2 ** 96 - 1, 2 ** 384 - 2 ** 128 - 2 ** 96 + 2 ** 32 - 1,
                2 ** 448 - 2 ** 224 - 1, 2 ** 607 - 1, 2 ** 1279 - 1]


@st.composite
def strat_prime(draw, tier):
    fam = draw(st.sampled_from(["prime", "prime", "known_prime", "carmichael", "p(2p-1)", "p(k(p-1)+1)", "spsp", "lucas_psp",
                                "square", "close", "small*large", "random_odd", "semiprime"]))
    bits = draw(st.one_of(st.sampled_from([16, 24, 32, 33, 48, 64, 65, 96, 128, 160, 219, 220, 221, 256, 279, 280, 389, 390, 512]),
                          st.integers(8, 300 if tier == "quick" else 640),
                          st.sampled_from([1024] if tier == "quick" else [1024, 1536, 2048])))
    return {"family": fam, "bits": bits, "start": draw(st.integers(0, (1 << 64) - 1)),
            "idx": draw(st.integers(0, 1000)), "k": draw(st.integers(2, 40)),
            "tape": draw(st.integers(0, (1 << 32) - 1))}


def _rand_of_bits(bits, start):
    import hashlib
    nb = (bits + 7) // 8
    x = int.from_bytes(hashlib.shake_128(start.to_bytes(8, "big")).digest(nb), "big")
    x &= (1 << bits) - 1
    x |= 1 << (bits - 1)
    return x


def make_candidate(case):
    """Returns (n, is_prime, label) built with sympy only."""
    import sympy
    fam, bits, start, idx, k = case["family"], case["bits"], case["start"], case["idx"], case["k"]
    if fam == "known_prime":
        n = KNOWN_PRIMES[idx % len(KNOWN_PRIMES)]
        return n, True
    if fam == "prime":
        n = sympy.nextprime(_rand_of_bits(bits, start))
        return n, True
    if fam == "spsp":
        return KNOWN_SPSP[idx % len(KNOWN_SPSP)], False
    if fam == "lucas_psp":
        l = KNOWN_SLPSP + KNOWN_LPSP
        return l[idx % len(l)], False
    hb = max(6, bits // 2)
    if fam == "square":
        p = sympy.nextprime(_rand_of_bits(hb, start))
        return p * p, False
    if fam == "close":
        p = sympy.nextprime(_rand_of_bits(hb, start))
        q = p
        for _ in range(1 + idx % 5):
            q = sympy.nextprime(q)
        return p * q, False
    if fam == "semiprime":
        p = sympy.nextprime(_rand_of_bits(hb, start))
        q = sympy.nextprime(_rand_of_bits(max(6, bits - hb), start ^ 0x55))
        return p * q, False
    if fam == "small*large":
        sp = [3, 5, 7, 11, 13, 547, 557, 563, 7919, 65537][idx % 10]
        p = sympy.nextprime(_rand_of_bits(max(6, bits - sp.bit_length()), start))
        return sp * p, False
    if fam == "p(2p-1)":
        x = _rand_of_bits(min(hb, 160), start)
        for _ in range(200000):
            x = sympy.nextprime(x)
            if sympy.isprime(2 * x - 1):
                return x * (2 * x - 1), False
        raise Skip()
    if fam == "p(k(p-1)+1)":
        x = _rand_of_bits(min(hb, 160), start)
        for _ in range(20000):
            x = sympy.nextprime(x)
            q = k * (x - 1) + 1
            if sympy.isprime(q):
                return x * q, False
        raise Skip()
    if fam == "carmichael":
        fb = min(max(8, bits // 3), 90)
        m = _rand_of_bits(fb, start) // 6
        for _ in range(400000):
            m += 1
            if sympy.isprime(6 * m + 1) and sympy.isprime(12 * m + 1) and sympy.isprime(18 * m + 1):
                return (6 * m + 1) * (12 * m + 1) * (18 * m + 1), False
        raise Skip()
    n = _rand_of_bits(bits, start) | 1
    return n, bool(sympy.isprime(n))


class DetRand:
    """Deterministic randfunc (SHAKE stream) for Miller-Rabin bases."""

    def __init__(self, seed):
        import hashlib
        self.h = hashlib.shake_128(b"mr" + seed.to_bytes(8, "big"))
        self.pos = 0

    def __call__(self, n):
        out = self.h.digest(self.pos + n)[self.pos:]
        self.pos += n
        return out


def run_prime(case, rec):
    from Crypto.Math import Primality
    from Crypto.Math.Numbers import Integer
    n, isp = make_candidate(case)
    fam = case["family"]
    be = Integer.__name__
    info = {"n": n, "family": fam}
    tpp = libcall(Primality.test_probable_prime, n, DetRand(case["tape"]), bucket="prime/%s/test_probable_prime" % be)[1]
    mr = libcall(Primality.miller_rabin_test, n, 30, DetRand(case["tape"] + 1), bucket="prime/%s/miller_rabin" % be)[1]
    mrI = Primality.miller_rabin_test(Integer(n), 30, DetRand(case["tape"] + 1))
    lu = libcall(Primality.lucas_test, n, bucket="prime/%s/lucas" % be)[1]
    if mr != mrI:
        raise Violation("prime/%s/int-vs-Integer" % be, "miller_rabin_test differs for int and Integer argument", **info)
    if isp:
        for name, v in (("test_probable_prime", tpp), ("miller_rabin_test", mr), ("lucas_test", lu)):
            if v != Primality.PROBABLY_PRIME:
                raise Violation("prime/%s/%s/prime-declared-composite" % (be, name), "prime %d declared composite" % n, **info)
    else:
        if tpp != Primality.COMPOSITE:
            raise Violation("prime/%s/test_probable_prime/composite-accepted" % be, "composite %d (%s) declared probably prime" % (n, fam), **info)
        if mr != Primality.COMPOSITE:
            raise Violation("prime/%s/miller_rabin_test/composite-accepted" % be, "composite %d (%s) passed 30 MR rounds" % (n, fam), **info)
        if fam not in ("lucas_psp",) and lu != Primality.COMPOSITE:
            # a Lucas pseudoprime outside the listed ones would be remarkable; the standard allows it, so only count it
            rec.event("lucas-pseudoprime-seen:%s" % fam)
    from Crypto.Util import number
    ip = libcall(number.isPrime, n, bucket="prime/number.isPrime")[1]
    if bool(ip) != isp and n > 3:
        raise Violation("prime/number.isPrime/wrong", "isPrime(%d) = %r" % (n, ip), **info)
    rec.nt(be, fam, n.bit_length() // 16, isp)
    rec.event("prime:%s:%s" % (be, fam))
    rec.sample({"n": n, "family": fam, "prime": isp})


@st.composite
def strat_gen(draw, tier):
    return {"bits": draw(st.one_of(st.sampled_from([160, 161, 167, 168, 169, 192, 255, 256, 257]), st.integers(160, 330))),
            "tape": draw(st.integers(0, (1 << 32) - 1)), "filter": draw(st.sampled_from(["none", "mod4", "gcd3"])),
            "which": draw(st.sampled_from(["gpp", "gpp", "gpp", "getPrime", "getPrime", "getStrongPrime", "safe"]))}


def run_gen(case, rec):
    import sympy
    from Crypto.Math import Primality
    from Crypto.Util import number
    bits, which = case["bits"], case["which"]
    rf = DetRand(case["tape"])
    if which == "gpp":
        filt = {"none": lambda x: True, "mod4": lambda x: int(x) % 4 == 3, "gcd3": lambda x: (int(x) - 1) % 3 != 0}[case["filter"]]
        p = int(Primality.generate_probable_prime(exact_bits=bits, randfunc=rf, prime_filter=filt))
        if not filt(p):
            raise Violation("primegen/filter-ignored", "generated prime violates the prime_filter", p=p)
    elif which == "getPrime":
        bits = 64 + bits % 200
        p = int(number.getPrime(bits, randfunc=rf))
    elif which == "getStrongPrime":
        bits = 512 + 128 * (bits % 2)
        p = int(number.getStrongPrime(bits, e=0 if case["filter"] == "none" else 65537, randfunc=rf))
        if case["filter"] != "none" and math.gcd(p - 1, 65537) != 1:
            raise Violation("primegen/getStrongPrime/e", "gcd(p-1, e) != 1", p=p)
    else:
        bits = 161 + bits % 8
        p = int(Primality.generate_probable_safe_prime(exact_bits=bits, randfunc=rf))
        if not sympy.isprime((p - 1) // 2):
            raise Violation("primegen/safe/not-safe", "(p-1)/2 is not prime", p=p)
    if p.bit_length() != bits:
        raise Violation("primegen/%s/size" % which, "requested %d bits, got %d" % (bits, p.bit_length()), p=p)
    if not sympy.isprime(p):
        raise Violation("primegen/%s/composite" % which, "generated value is composite", p=p)
    rec.nt(which, bits, case["filter"])
    rec.event("primegen:" + which)
    rec.sample({"which": which, "bits": bits, "p": p})


# ------------------------------------------------------------------ number.py helpers
@st.composite
def strat_number(draw, tier):
    return {"a": draw(nat(1200)), "b": draw(nat(1200)), "bs": draw(st.integers(0, 40)), "lead": draw(st.integers(0, 5))}


def run_number(case, rec):
    from Crypto.Util import number
    a, b = case["a"], case["b"]
    if number.GCD(a, b) != math.gcd(a, b):
        raise Violation("number/GCD", "GCD wrong", a=a, b=b)
    if number.size(a) != a.bit_length():
        raise Violation("number/size", "size(%d) = %d" % (a, number.size(a)), a=a)
    if b > 0:
        if number.ceil_div(a, b) != -(-a // b):
            raise Violation("number/ceil_div", "ceil_div wrong", a=a, b=b)
        if b > 1 and math.gcd(a, b) == 1:
            inv = number.inverse(a, b)
            if inv != pow(a, -1, b):
                raise Violation("number/inverse", "inverse wrong", a=a, b=b)
        elif b > 1:
            kind, r = libcall(number.inverse, a, b, allowed=(ValueError,))
            if kind == "ok":
                raise Violation("number/inverse/no-exception", "inverse of non-coprime returned %r" % r, a=a, b=b)
    bs = case["bs"]
    raw = number.long_to_bytes(a, bs)
    n = max(1, (a.bit_length() + 7) // 8)
    if bs > 0 and n % bs:
        n += bs - n % bs
    if raw != a.to_bytes(n, "big"):
        raise Violation("number/long_to_bytes", "long_to_bytes(%d, %d) = %s" % (a, bs, raw.hex()[:80]), a=a, bs=bs)
    if number.bytes_to_long(bytes(case["lead"]) + raw) != a:
        raise Violation("number/bytes_to_long", "bytes_to_long does not invert long_to_bytes", a=a)
    rec.nt(sizeclass(a), sizeclass(b), bs)
    rec.event("number")


_ENV = {"gmp": {}, "custom": {"PYCRYPTODOME_DISABLE_GMP": "1"}, "native": {"PCDVERIF_FORCE_NATIVE": "1"}}

CHECKS = [
    Check("arith", run=run_arith, strategy=strat_arith, examples=(40000, 1200000), shards=(16, 16),
          rule="every _IntegerBase operation on 3 back-ends vs Python int model (value, in-place update, operand preservation, exception type)"),
    Check("types", run=run_types, strategy=strat_types, examples=(600, 10000), shards=(1, 4),
          rule="result class of out-of-place operators"),
    Check("number", run=run_number, strategy=strat_number, examples=(3000, 60000), shards=(1, 8),
          rule="Crypto.Util.number helpers vs Python int"),
]
for _be in BACKENDS:
    CHECKS.append(Check("prime_" + _be, run=run_prime, strategy=strat_prime, examples=(260, 8000), shards=(4, 5), env=_ENV[_be],
                        rule="primality verdicts (test_probable_prime, MR x30, Lucas, isPrime) on primes and adversarial composites, back-end " + _be))
    CHECKS.append(Check("primegen_" + _be, run=run_gen, strategy=strat_gen, examples=(24, 600), shards=(1, 5), env=_ENV[_be],
                        rule="generated primes: exact size, prime (sympy), filter honoured, back-end " + _be))
