"""C03 — hashes, XOFs and MACs equal their standards; verify accepts only the true tag."""
import hashlib
import importlib

from hypothesis import strategies as st

from ..core import Check, Violation, HarnessError, Skip, libcall
from .. import gen, oracles
from ..refs import keccak, modes, stream, libcrypto as lc

META = {
    "rule": "messages with lengths dense in 0..3*block+1 and at padding/block/rate/chunk boundaries (55-57, 63-65, 111-113, "
            "119-129, rate+-2, 8190-8194, 16383-16386, ...), keys shorter/equal/longer than the block, customisation strings "
            "up to >255 bytes, every output length; oracle = hashlib / pure-Python Keccak-family, MD2, MD4, CMAC, Poly1305 "
            "references / libcrypto; candidate tags = true tag and flip/truncate/extend/empty/sibling mutations. "
            "Non-trivial = length within +-1 of a boundary or non-default parameter; distinct by (algorithm, parameters, length class)",
    "assumptions": ["hashlib (OpenSSL/HACL*) is correct for MD5, SHA-1/2, SHA-3, SHAKE, BLAKE2, RIPEMD-160",
                    "pure-Python references (refs/keccak.py, oldhash.py, modes.cmac, stream.poly1305) are validated against "
                    "hashlib/libcrypto/standard vectors by their selftests"],
    "unexplored": ["messages above ~40 KiB", "BLAKE2 salt/personalisation (not exposed by the library)"],
}

FIXED = sorted(oracles.HASHES)
RATE = {"SHA3_224": 144, "SHA3_256": 136, "SHA3_384": 104, "SHA3_512": 72}
EXTRA_LEN = [55, 56, 57, 63, 64, 65, 111, 112, 113, 119, 120, 127, 128, 129, 71, 72, 73, 103, 104, 105, 135, 136, 137,
             143, 144, 145, 167, 168, 169, 335, 336, 337]


def msg_strategy(maxlen=1300):
    return gen.data_of(st.one_of(st.integers(0, 300), st.sampled_from(EXTRA_LEN), st.sampled_from(EXTRA_LEN),
                                 st.integers(0, maxlen)))


@st.composite
def cuts_of(draw, n):
    k = draw(st.integers(0, 3))
    return sorted(draw(st.integers(0, n)) for _ in range(k))


def feed(obj, data, cuts, first_in_new=None):
    prev = 0
    for c in list(cuts) + [len(data)]:
        obj.update(data[prev:c])
        prev = c
    return obj


def lenclass(n, block):
    r = n % block
    k = n // block
    pos = "=" if r == 0 else "+1" if r == 1 else "-1" if r == block - 1 else "pad" if block - r in (8, 9, 16, 17) else "r"
    return "%s%s" % (min(k, 4), pos)


def near_boundary(n, block):
    r = n % block
    return r in (0, 1, block - 1) or (block - r) in (8, 9, 10, 16, 17, 18) or n == 0


# ------------------------------------------------------------------ fixed-output hashes
@st.composite
def strat_hash(draw, tier):
    alg = draw(st.sampled_from(FIXED + ["BLAKE2b", "BLAKE2s", "keccak"]))
    msg = draw(msg_strategy(1300 if tier == "quick" else 5000))
    c = {"alg": alg, "msg": msg, "cuts": draw(cuts_of(len(msg))), "first_in_new": draw(st.booleans())}
    if alg == "BLAKE2b":
        c["dbytes"] = draw(st.one_of(st.integers(1, 64), st.sampled_from([20, 32, 48, 64])))
        c["bits"] = draw(st.booleans())
    elif alg == "BLAKE2s":
        c["dbytes"] = draw(st.one_of(st.integers(1, 32), st.sampled_from([16, 20, 28, 32])))
        c["bits"] = draw(st.booleans())
    elif alg == "keccak":
        c["dbytes"] = draw(st.sampled_from([28, 32, 48, 64]))
        c["bits"] = draw(st.booleans())
    return c


def run_hash(case, rec):
    alg, msg, cuts = case["alg"], case["msg"], case["cuts"]
    first = msg[:cuts[0]] if (cuts and case["first_in_new"]) else None
    rest_cuts = [c - len(first) for c in cuts[1:]] if first is not None else cuts
    rest = msg[len(first):] if first is not None else msg
    if alg in oracles.HASHES:
        exp = oracles.ref_hash(alg, msg)
        h = oracles.lib_hash_new(alg, first)
        block = oracles.HASHES[alg][2]
        param = ()
    else:
        db = case["dbytes"]
        kw = {"digest_bits": db * 8} if case["bits"] else {"digest_bytes": db}
        if first is not None:
            kw["data"] = first
        if alg == "BLAKE2b":
            from Crypto.Hash import BLAKE2b as M
            exp = hashlib.blake2b(msg, digest_size=db).digest()
            block = 128
        elif alg == "BLAKE2s":
            from Crypto.Hash import BLAKE2s as M
            exp = hashlib.blake2s(msg, digest_size=db).digest()
            block = 64
        else:
            from Crypto.Hash import keccak as M
            exp = keccak.keccak_legacy(db * 8, msg)
            block = 200 - 2 * db
        h = M.new(**kw)
        param = (db, case["bits"])
    feed(h, rest, rest_cuts)
    got = h.digest()
    info = {"alg": alg, "len": len(msg), "cuts": cuts, "param": list(param)}
    if bytes(got) != exp:
        raise Violation("hash/%s/wrong-digest" % alg, "digest %s, reference %s" % (bytes(got).hex()[:64], exp.hex()[:64]), **info)
    if h.hexdigest() != exp.hex():
        raise Violation("hash/%s/hexdigest" % alg, "hexdigest differs from digest", **info)
    if h.digest_size != len(exp):
        raise Violation("hash/%s/digest_size" % alg, "digest_size attribute %r, digest has %d bytes" % (h.digest_size, len(exp)), **info)
    if alg in oracles.HASHES:
        if getattr(h, "oid", None) is not None and h.oid != oracles.OIDS[alg]:
            raise Violation("hash/%s/oid" % alg, "oid %s, standard %s" % (h.oid, oracles.OIDS[alg]), **info)
        if alg.startswith("SHA") and alg != "SHA1" or alg == "SHA1":
            from Crypto import Hash
            nm = alg.replace("_", "-")
            kind, h2 = libcall(Hash.new, nm, allowed=(ValueError,))
            if kind == "ok":
                h2.update(msg)
                if bytes(h2.digest()) != exp:
                    raise Violation("hash/Hash.new/%s" % alg, "Hash.new(%r) computes another function" % nm, **info)
        h3 = h.new()
        h3.update(msg)
        if bytes(h3.digest()) != exp:
            raise Violation("hash/%s/new-method" % alg, ".new() object computes another value", **info)
    if near_boundary(len(msg), block) or param:
        rec.nt(alg, param, lenclass(len(msg), block), len(cuts))
    rec.event("hash:" + alg)
    rec.sample({"alg": alg, "len": len(msg), "cuts": cuts, "param": list(param)})


# ------------------------------------------------------------------ XOFs
K12_LENS = [8190, 8191, 8192, 8193, 8194, 16383, 16384, 16385, 16386, 24575, 24576, 24577, 3 * 8192 + 5, 40000]


@st.composite
def strat_xof(draw, tier):
    alg = draw(st.sampled_from(["SHAKE128", "SHAKE256", "cSHAKE128", "cSHAKE256", "TurboSHAKE128", "TurboSHAKE256",
                                "KangarooTwelve", "KangarooTwelve"]))
    c = {"alg": alg}
    if alg == "KangarooTwelve":
        big = draw(st.integers(0, 9))
        if big == 0:
            n = draw(st.sampled_from(K12_LENS))
        elif big == 1:
            n = draw(st.integers(8100, 8300))
        else:
            n = draw(st.one_of(st.integers(0, 400), st.sampled_from(EXTRA_LEN)))
        c["msg"] = gen.expand(draw(st.binary(min_size=4, max_size=4)), n)
        ck = draw(st.integers(0, 11))
        if ck == 0:
            cl = draw(st.sampled_from([8185, 8188, 8189, 8190, 8191, 8192, 8193, 9000, 16384]))
        elif ck == 1:
            cl = max(0, 8192 - n - draw(st.integers(0, 6)))
        else:
            cl = draw(st.one_of(st.just(0), st.integers(0, 300)))
        c["custom"] = gen.expand(draw(st.binary(min_size=4, max_size=4)), cl)
    else:
        c["msg"] = draw(msg_strategy(800))
        if alg.startswith("cSHAKE"):
            c["custom"] = draw(gen.data_of(st.one_of(st.just(0), st.integers(0, 40), st.sampled_from([30, 31, 32, 33, 255, 256, 257, 600, 8191, 8192, 8193]))))
        if alg.startswith("Turbo"):
            c["domain"] = draw(st.one_of(st.sampled_from([0x01, 0x1F, 0x07, 0x0B, 0x06, 0x7F]), st.integers(1, 0x7F)))
    c["cuts"] = draw(cuts_of(len(c["msg"])))
    c["first_in_new"] = draw(st.booleans())
    nreads = draw(st.integers(1, 4))
    c["reads"] = [draw(st.one_of(st.integers(0, 40), st.sampled_from([135, 136, 137, 167, 168, 169, 200, 336, 500])))
                  for _ in range(nreads)]
    return c


def run_xof(case, rec):
    alg, msg, cuts = case["alg"], case["msg"], case["cuts"]
    total = sum(case["reads"])
    M = importlib.import_module("Crypto.Hash." + alg)
    kw = {}
    if alg.startswith("SHAKE"):
        exp = keccak.shake(int(alg[5:]), msg, total)
        if hashlib.new("shake_" + alg[5:], msg).digest(total) != exp:
            raise HarnessError("hashlib and Keccak reference disagree on SHAKE")
        rate = 168 if alg.endswith("128") else 136
    elif alg.startswith("cSHAKE"):
        kw["custom"] = case["custom"]
        exp = keccak.cshake(int(alg[6:]), msg, total, custom=case["custom"])
        rate = 168 if alg.endswith("128") else 136
    elif alg.startswith("Turbo"):
        kw["domain"] = case["domain"]
        exp = keccak.turboshake(int(alg[10:]), msg, total, case["domain"])
        rate = 168 if alg.endswith("128") else 136
    else:
        kw["custom"] = case["custom"]
        exp = keccak.k12(msg, total, case["custom"])
        rate = 8192
    first = msg[:cuts[0]] if (cuts and case["first_in_new"]) else None
    if first is not None:
        kw["data"] = first
        rest, rest_cuts = msg[len(first):], [c - len(first) for c in cuts[1:]]
    else:
        rest, rest_cuts = msg, cuts
    h = M.new(**kw)
    if first is not None and not rest and not rest_cuts:
        pass
    elif first is None and not msg and not cuts:
        pass   # never call update: the "no update at all" path
    else:
        feed(h, rest, rest_cuts)
    got = b"".join(bytes(h.read(n)) for n in case["reads"])
    info = {"alg": alg, "len": len(msg), "custom_len": len(case.get("custom", b"")), "domain": case.get("domain"), "reads": case["reads"], "cuts": cuts}
    if got != exp:
        if alg == "KangarooTwelve" and len(msg) == 0 and len(case["custom"]) >= 8190:
            raise Violation("xof/KangarooTwelve/empty-message-long-custom",
                            "K12 with empty message and %d-byte customisation string differs from RFC 9861" % len(case["custom"]), **info)
        raise Violation("xof/%s/wrong-output" % alg, "output %s..., reference %s..." % (got.hex()[:48], exp.hex()[:48]), **info)
    cl = len(case.get("custom", b""))
    if near_boundary(len(msg) + (cl if alg == "KangarooTwelve" else 0), rate) or cl > 255 or len(case["reads"]) > 1 or case.get("domain", 0x1F) != 0x1F:
        rec.nt(alg, lenclass(len(msg), rate), min(cl, 260) // 65, len(case["reads"]), case.get("domain", 0) in (1, 0x7F))
    rec.event("xof:" + alg)
    rec.sample(info)


# ------------------------------------------------------------------ TupleHash
@st.composite
def strat_tuple(draw, tier):
    n = draw(st.integers(0, 6))
    items = [draw(gen.data_of(st.one_of(st.just(0), st.integers(0, 40), st.sampled_from([135, 136, 137, 167, 168, 169, 255, 256, 300, 8191, 8192])))) for _ in range(n)]
    return {"bits": draw(st.sampled_from([128, 256])), "items": items, "dbytes": draw(st.one_of(st.integers(8, 100), st.sampled_from([8, 32, 64, 200]))),
            "custom": draw(gen.data_of(st.one_of(st.just(0), st.integers(0, 40), st.sampled_from([255, 256, 300])))),
            "grouping": draw(st.lists(st.integers(1, 3), max_size=6)), "use_bits": draw(st.booleans())}


def run_tuple(case, rec):
    M = importlib.import_module("Crypto.Hash.TupleHash%d" % case["bits"])
    kw = {"digest_bits": case["dbytes"] * 8} if case["use_bits"] else {"digest_bytes": case["dbytes"]}
    h = M.new(custom=case["custom"], **kw)
    items = list(case["items"])
    i = 0
    for g in case["grouping"] + [len(items)]:
        grp = items[i:i + g]
        i += len(grp)
        if grp:
            h.update(*grp)
        if i >= len(items):
            break
    got = bytes(h.digest())
    exp = keccak.tuplehash(case["bits"], items, case["dbytes"], custom=case["custom"])
    info = {"bits": case["bits"], "items": [len(x) for x in items], "dbytes": case["dbytes"], "custom_len": len(case["custom"])}
    if got != exp:
        raise Violation("tuplehash/wrong-digest", "TupleHash%d digest differs from SP 800-185" % case["bits"], **info)
    # tuple sensitivity: moving a boundary must change the digest (standard's defining property)
    if len(items) >= 2 and len(items[0]) > 0:
        moved = [items[0][:-1], items[0][-1:] + items[1]] + items[2:]
        h2 = M.new(custom=case["custom"], **kw)
        h2.update(*moved)
        if bytes(h2.digest()) != keccak.tuplehash(case["bits"], moved, case["dbytes"], custom=case["custom"]):
            raise Violation("tuplehash/wrong-digest", "TupleHash of re-split tuple differs from SP 800-185", **info)
    rec.nt(case["bits"], len(items), any(len(x) == 0 for x in items), len(case["custom"]) > 255, case["dbytes"] != 64)
    rec.event("tuplehash:%d" % case["bits"])
    rec.sample(info)


# ------------------------------------------------------------------ MACs
def mutate_tag(draw, tag, sibling):
    kind = draw(st.sampled_from(["true", "true", "flip", "flip", "truncate", "extend", "empty", "sibling", "zero-extend", "prefix-swap"]))
    if kind == "true" or len(tag) == 0:
        return "true", tag
    if kind == "flip":
        i = draw(st.integers(0, len(tag) * 8 - 1))
        t = bytearray(tag)
        t[i // 8] ^= 1 << (i % 8)
        return kind, bytes(t)
    if kind == "truncate":
        return kind, tag[:draw(st.integers(1, len(tag))) - 1] if len(tag) > 1 else b""
    if kind == "extend":
        return kind, tag + draw(st.binary(min_size=1, max_size=4))
    if kind == "zero-extend":
        return kind, tag + b"\0"
    if kind == "empty":
        return kind, b""
    if kind == "prefix-swap":
        return kind, tag[1:] + tag[:1]
    return kind, sibling


CMAC_CIPHERS = ["AES", "AES", "DES3", "Blowfish", "CAST", "ARC2", "DES"]


@st.composite
def strat_mac(draw, tier):
    fam = draw(st.sampled_from(["HMAC", "HMAC", "CMAC", "CMAC", "KMAC", "Poly1305-AES", "Poly1305-ChaCha20", "BLAKE2b", "BLAKE2s"]))
    c = {"fam": fam, "msg": draw(msg_strategy(700)), "mut_seed": draw(st.integers(0, 2 ** 32 - 1))}
    c["cuts"] = draw(cuts_of(len(c["msg"])))
    if fam == "HMAC":
        c["hash"] = draw(st.sampled_from(FIXED))
        bs = oracles.HASHES[c["hash"]][2]
        kl = draw(st.one_of(st.integers(0, 40), st.sampled_from([bs - 1, bs, bs + 1, 2 * bs, 2 * bs + 1, 300])))
        c["key"] = draw(gen.data_of(st.just(kl)))
    elif fam == "CMAC":
        c["cipher"] = draw(st.sampled_from(CMAC_CIPHERS))
        kl = draw(st.sampled_from(oracles.KEYLENS[c["cipher"]]))
        c["key"] = draw(st.binary(min_size=kl, max_size=kl))
        c["mac_len"] = draw(st.one_of(st.none(), st.integers(4, oracles.BLOCK[c["cipher"]])))
    elif fam == "KMAC":
        c["bits"] = draw(st.sampled_from([128, 256]))
        minkey = 16 if c["bits"] == 128 else 32
        kl = draw(st.one_of(st.integers(minkey, 64), st.sampled_from([135, 136, 137, 167, 168, 169, 300])))
        c["key"] = draw(gen.data_of(st.just(kl)))
        c["mac_len"] = draw(st.one_of(st.integers(8, 100), st.sampled_from([8, 32, 64, 300])))
        c["custom"] = draw(gen.data_of(st.one_of(st.just(0), st.integers(0, 40), st.sampled_from([255, 256, 600, 8191, 8192]))))
    elif fam.startswith("Poly1305"):
        c["key"] = draw(st.one_of(st.binary(min_size=32, max_size=32), st.just(b"\xff" * 32)))
        c["nonce"] = draw(st.binary(min_size=16, max_size=16)) if fam.endswith("AES") else \
            draw(st.one_of(st.binary(min_size=12, max_size=12), st.binary(min_size=8, max_size=8)))
        if draw(st.integers(0, 5)) == 0:
            # blocks of 0xff exercise the carry chain of the 130-bit accumulator
            c["msg"] = b"\xff" * len(c["msg"])
    else:
        mx = 64 if fam == "BLAKE2b" else 32
        c["key"] = draw(gen.data_of(st.one_of(st.integers(1, mx), st.just(mx))))
        c["dbytes"] = draw(st.one_of(st.integers(1, mx), st.just(mx)))
    return c


def make_mac(case, msg_first=None):
    """Returns (library object factory, reference tag)."""
    fam, key, msg = case["fam"], case["key"], case["msg"]
    if fam == "HMAC":
        from Crypto.Hash import HMAC
        dm = oracles.lib_hash_module(case["hash"])
        mk = lambda: HMAC.new(key, digestmod=dm)
        exp = oracles.ref_hmac(case["hash"], key, msg)
    elif fam == "CMAC":
        from Crypto.Hash import CMAC
        ciph = importlib.import_module("Crypto.Cipher." + case["cipher"])
        ml = case["mac_len"]
        kw = {} if ml is None else {"mac_len": ml}
        if case["cipher"] == "DES3":
            k = bytearray(key)
            # avoid degenerate 3DES keys (refused by the library by design)
            from Crypto.Cipher import DES3
            try:
                DES3.adjust_key_parity(bytes(k))
            except ValueError:
                raise Skip()
        mk = lambda: CMAC.new(key, ciphermod=ciph, **kw)
        ek = 1024 if case["cipher"] == "ARC2" else None
        full = modes.cmac(oracles.bc(case["cipher"], key, effective_keylen=ek), msg)
        if case["cipher"] == "AES":
            second = lc.mac("CMAC", key, msg, cipher="aes-%d-cbc" % (len(key) * 8))
            if second != full:
                raise HarnessError("libcrypto CMAC and reference CMAC disagree")
        exp = full[:ml] if ml is not None else full
    elif fam == "KMAC":
        M = importlib.import_module("Crypto.Hash.KMAC%d" % case["bits"])
        mk = lambda: M.new(key=key, mac_len=case["mac_len"], custom=case["custom"])
        exp = keccak.kmac(case["bits"], key, msg, case["mac_len"], custom=case["custom"])
        if len(msg) < 64 and len(case["custom"]) <= 100 and len(key) <= 200:
            try:
                second = lc.mac("KMAC%d" % case["bits"], key, msg, custom=case["custom"], size=case["mac_len"])
            except lc.LibCryptoError:
                second = exp        # parameters outside what this OpenSSL build supports: no second opinion
            if second != exp:
                raise HarnessError("libcrypto KMAC and reference KMAC disagree")
    elif fam == "Poly1305-AES":
        from Crypto.Hash import Poly1305
        from Crypto.Cipher import AES
        from ..refs import aes as raes
        mk = lambda: Poly1305.new(key=key, cipher=AES, nonce=case["nonce"])
        s = raes.encrypt_block(key[:16], case["nonce"])
        exp = stream.poly1305_with_cipher(key[16:], s, msg)
    elif fam == "Poly1305-ChaCha20":
        from Crypto.Hash import Poly1305
        from Crypto.Cipher import ChaCha20
        mk = lambda: Poly1305.new(key=key, cipher=ChaCha20, nonce=case["nonce"])
        n12 = case["nonce"] if len(case["nonce"]) == 12 else bytes(4) + case["nonce"]    # RFC 8439 section 2.6
        rs = stream.chacha20_block(key, 0, n12)[:32]
        exp = stream.poly1305(rs, msg)
        if lc.mac("POLY1305", rs, msg) != exp:
            raise HarnessError("libcrypto Poly1305 and reference disagree")
    else:
        M = importlib.import_module("Crypto.Hash." + fam)
        mk = lambda: M.new(key=key, digest_bytes=case["dbytes"])
        f = hashlib.blake2b if fam == "BLAKE2b" else hashlib.blake2s
        exp = f(msg, key=key, digest_size=case["dbytes"]).digest()
    return mk, exp


def run_mac(case, rec):
    import random as _r   # deterministic: seeded from the case only (mutation choice is data)
    fam, msg, cuts = case["fam"], case["msg"], case["cuts"]
    mk, exp = make_mac(case)
    h = mk()
    feed(h, msg, cuts)
    got = bytes(h.digest())
    info = {"fam": fam, "len": len(msg), "keylen": len(case["key"]), "hash": case.get("hash"), "cipher": case.get("cipher"),
            "mac_len": case.get("mac_len"), "custom_len": len(case.get("custom", b""))}
    if got != exp:
        raise Violation("mac/%s/wrong-tag" % fam, "tag %s, reference %s" % (got.hex()[:64], exp.hex()[:64]), **info)
    if h.hexdigest() != exp.hex():
        raise Violation("mac/%s/hexdigest" % fam, "hexdigest differs", **info)
    # candidate tags
    rng = _r.Random(case["mut_seed"])
    sibling_case = dict(case)
    sibling_case["msg"] = msg + b"\x01"
    _, sib = make_mac(sibling_case)
    # the documented use of copy(): MACs of messages sharing a prefix. The prefix object and its clone each receive a different suffix
    # (crossing a block boundary); both tags must be the standard's value for their own message
    if case["mut_seed"] % 4 == 0 and len(msg) >= 2:
        p0 = mk()
        if hasattr(p0, "copy"):
            cut = 1 + case["mut_seed"] // 4 % (len(msg) - 1)
            p0.update(msg[:cut])
            k_, c0 = libcall(p0.copy, allowed=(TypeError, ValueError, NotImplementedError, AttributeError), bucket="mac/%s/copy" % fam)
            if k_ == "ok":
                c0.update(msg[cut:])
                p0.update(msg[cut:][::-1] + b"\x01")
                if bytes(c0.digest()) != exp:
                    raise Violation("mac/%s/wrong-tag-via-copy" % fam, "tag of prefix.copy().update(suffix) differs from the tag of prefix||suffix", **info)
                if msg[cut:][::-1] == msg[cut:]:
                    if bytes(p0.digest()) != sib:
                        raise Violation("mac/%s/wrong-tag-via-copy" % fam, "tag of the original after its clone was updated differs from the standard", **info)
                else:
                    oc = dict(case)
                    oc["msg"] = msg[:cut] + msg[cut:][::-1] + b"\x01"
                    if bytes(p0.digest()) != make_mac(oc)[1]:
                        raise Violation("mac/%s/wrong-tag-via-copy" % fam, "tag of the original after its clone was updated differs from the standard", **info)
                rec.event("mac-via-copy:" + fam)
    cands = [("true", exp)]
    t = bytearray(exp)
    i = rng.randrange(len(exp) * 8)
    t[i // 8] ^= 1 << (i % 8)
    cands.append(("flip", bytes(t)))
    cands.append(("truncate", exp[:rng.randrange(len(exp))]))
    cands.append(("extend", exp + bytes([rng.randrange(256)])))
    cands.append(("zero-extend", exp + b"\0"))
    cands.append(("empty", b""))
    cands.append(("sibling", sib))
    cands.append(("rotate", exp[1:] + exp[:1]))
    chosen = [cands[0]] + rng.sample(cands[1:], 3)
    for kind, cand in chosen:
        for how in ("verify", "hexverify"):
            v = mk()
            feed(v, msg, cuts)
            if how == "verify":
                k, r = libcall(v.verify, cand, allowed=(ValueError,), bucket="mac/%s/verify" % fam)
            else:
                hx = cand.hex()
                if rng.random() < 0.5:
                    hx = hx.upper()
                k, r = libcall(v.hexverify, hx, allowed=(ValueError,), bucket="mac/%s/hexverify" % fam)
            should = cand == exp
            if should and k == "exc":
                raise Violation("mac/%s/true-tag-rejected" % fam, "%s rejected the correct tag" % how, **info)
            if not should and k == "ok":
                raise Violation("mac/%s/forged-tag-accepted/%s" % (fam, kind), "%s accepted a %s tag %s (true %s)" % (how, kind, cand.hex()[:40], exp.hex()[:40]), **info)
        rec.event("mac-candidate:" + kind)
    block = {"HMAC": 64, "CMAC": 16, "KMAC": 168, "BLAKE2b": 128, "BLAKE2s": 64}.get(fam, 16)
    rec.nt(fam, case.get("hash"), case.get("cipher"), case.get("mac_len"), lenclass(len(msg), block),
           len(case["key"]) // 33, tuple(k for k, _ in chosen))
    rec.event("mac:" + fam + (":" + case.get("hash", case.get("cipher", "")) if fam in ("HMAC", "CMAC") else ""))
    rec.sample(info)


# ------------------------------------------------------------------ exhaustive length sweep (thorough)
def cases_sweep(tier, shard, nshards):
    algs = FIXED + ["BLAKE2b", "BLAKE2s", "keccak"]
    top = 300 if tier == "quick" else 1200
    out = []
    for a in algs:
        for n in range(0, top + 1):
            if tier == "quick" and n > 150 and n % 3:
                continue
            out.append({"alg": a, "n": n})
    if tier == "thorough":
        for n in list(range(8000, 8401)) + list(range(16300, 16501)):
            out.append({"alg": "KangarooTwelve", "n": n})
    else:
        for n in list(range(8185, 8200)) + list(range(16380, 16390)):
            out.append({"alg": "KangarooTwelve", "n": n})
    return [c for i, c in enumerate(out) if i % nshards == shard]


def run_sweep(case, rec):
    a, n = case["alg"], case["n"]
    msg = gen.expand(b"sweep" + a.encode(), n)
    if a == "KangarooTwelve":
        from Crypto.Hash import KangarooTwelve
        got = bytes(KangarooTwelve.new(data=msg).read(32))
        exp = keccak.k12(msg, 32)
    elif a in oracles.HASHES:
        got = bytes(oracles.lib_hash_new(a, msg).digest())
        exp = oracles.HASHES[a][0](msg)
    elif a == "keccak":
        from Crypto.Hash import keccak as K
        got = bytes(K.new(digest_bits=256, data=msg).digest())
        exp = keccak.keccak_legacy(256, msg)
    else:
        M = importlib.import_module("Crypto.Hash." + a)
        got = bytes(M.new(data=msg).digest())
        exp = (hashlib.blake2b if a == "BLAKE2b" else hashlib.blake2s)(msg).digest()
    if got != exp:
        raise Violation("hash/%s/wrong-digest" % a, "length %d: digest differs from reference" % n, alg=a, len=n)
    rec.nt(a, n)
    rec.event("sweep:" + a)


# ------------------------------------------------------------------ very long messages (bit counters past 2^32, K12 chunk counter past 255)
BIG_ALGS = ["MD4", "MD5", "RIPEMD160", "SHA1", "SHA224", "SHA256", "SHA384", "SHA512", "SHA512-256", "SHA3_256", "SHA3_512", "BLAKE2b", "BLAKE2s", "SHAKE128",
            "HMAC-SHA256", "HMAC-SHA512"]


def cases_big(tier, shard, nshards):
    out = []
    sizes = [(1 << 29) + 3] if tier == "quick" else [(1 << 29) - 1, (1 << 29) + 3, (1 << 32) + 5]
    for a in BIG_ALGS:
        for n in sizes:
            out.append({"alg": a, "n": n})
    # the same length handed over in ONE call (update() or new(data=...)): per-call block counts >= 2^23
    for a in (["SHA224", "SHA256", "SHA512", "SHA1", "MD5"] if tier == "quick" else [x for x in BIG_ALGS if not x.startswith("HMAC")]):
        out.append({"alg": a, "n": (1 << 29) + 3, "single": "update" if len(out) % 2 else "new"})
    # KangarooTwelve: more than 255 leaves: length_encode(n-1) grows by one byte (65536 leaves = 512 MiB is beyond the pure-Python reference)
    out.append({"alg": "KangarooTwelve", "n": 257 * 8192 + 5})
    out.append({"alg": "KangarooTwelve", "n": 256 * 8192})
    return [c for k, c in enumerate(out) if k % nshards == shard]


def run_big(case, rec):
    import hmac as pyhmac
    a, n = case["alg"], case["n"]
    chunk = gen.expand(b"bigmsg", 1 << 24)
    if a == "KangarooTwelve":
        from Crypto.Hash import KangarooTwelve
        msg = (chunk * (n // len(chunk) + 1))[:n]
        got = bytes(KangarooTwelve.new(data=msg).read(32))
        exp = keccak.k12(msg, 32)
        if got != exp:
            raise Violation("bigmsg/KangarooTwelve/wrong-output", "K12 over %d bytes (%d leaves) differs from RFC 9861" % (n, (n + 8191) // 8192 - 1), n=n)
        rec.nt(a, n)
        rec.event("bigmsg:" + a)
        rec.sample({"alg": a, "bytes": n})
        return
    if a.startswith("HMAC-"):
        from Crypto.Hash import HMAC
        hn = a[5:]
        lib = HMAC.new(b"key-for-bigmsg", digestmod=oracles.lib_hash_module(hn))
        ref = pyhmac.new(b"key-for-bigmsg", digestmod=oracles.HASHES[hn][3])
    elif a in ("BLAKE2b", "BLAKE2s"):
        lib = importlib.import_module("Crypto.Hash." + a).new(digest_bytes=64 if a == "BLAKE2b" else 32)
        ref = hashlib.blake2b() if a == "BLAKE2b" else hashlib.blake2s()
    elif a == "SHAKE128":
        from Crypto.Hash import SHAKE128
        lib = SHAKE128.new()
        ref = hashlib.shake_128()
    else:
        lib = oracles.lib_hash_new(a)
        try:
            ref = hashlib.new(oracles.HASHES[a][3] or a.lower())
        except ValueError:
            raise Skip()        # no fast second implementation of this algorithm in the sandbox
    if case.get("single"):
        buf = bytes(n)
        if case["single"] == "new" and a in oracles.HASHES:
            lib = oracles.lib_hash_new(a, buf)
        else:
            lib.update(buf)
        ref.update(buf)
        del buf
    else:
        left = n
        while left:
            m = chunk if left >= len(chunk) else chunk[:left]
            lib.update(m)
            ref.update(m)
            left -= len(m)
    if a == "SHAKE128":
        got, exp = bytes(lib.read(32)), ref.digest(32)
    else:
        got, exp = bytes(lib.digest()), ref.digest()
    if got != exp:
        raise Violation("bigmsg/%s/wrong-digest" % a, "digest of a %d-byte message (%d bits) differs from the second implementation" % (n, 8 * n), n=n)
    rec.nt(a, n, case.get("single"))
    rec.event("bigmsg:" + a + (":single-call" if case.get("single") else ""))
    rec.sample({"alg": a, "bytes": n, "bits_over_2^32": 8 * n - (1 << 32), "single_call": case.get("single")})


CHECKS = [
    Check("hash", run=run_hash, strategy=strat_hash, examples=(30000, 400000), shards=(16, 16),
          rule="fixed-output hashes (one-shot and update) vs hashlib/pure references; attributes"),
    Check("xof", run=run_xof, strategy=strat_xof, examples=(12000, 150000), shards=(16, 16),
          rule="SHAKE/cSHAKE/TurboSHAKE/K12 output for split reads vs pure Keccak references"),
    Check("tuplehash", run=run_tuple, strategy=strat_tuple, examples=(3000, 40000), shards=(4, 8),
          rule="TupleHash128/256 on generated tuples (empty items, regrouped update calls)"),
    Check("mac", run=run_mac, strategy=strat_mac, examples=(16000, 250000), shards=(16, 16),
          rule="HMAC/CMAC/KMAC/Poly1305/keyed BLAKE2 tag == reference; verify/hexverify accept iff candidate == reference tag"),
    Check("bigmsg", run=run_big, cases=cases_big, shards=(9, 16),
          rule="messages of 2^29+3 bytes (bit length just past 2^32; thorough: also 2^29-1 and 2^32+5 bytes) for every hash with a fast second "
               "implementation and HMAC; KangarooTwelve with 256/257 leaves"),
    Check("sweep", run=run_sweep, cases=cases_sweep, shards=(8, 16), exhaustive=False,
          rule="every message length 0..N for each fixed-output hash; K12 lengths around the 8192-byte chunk"),
]
