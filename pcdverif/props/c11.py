"""C11 — no keystream block or nonce is used twice in one object; limits are enforced."""
from hypothesis import strategies as st

from ..core import Check, Violation, HarnessError, Skip, libcall
from .. import gen, oracles, sym
from ..refs import modes, stream, libcrypto as lc

META = {
    "rule": "CTR: every cipher, counter_len 1..block, big/little endian, prefix/suffix, initial values near the wrap, both "
            "constructor forms, call patterns crossing the 8-block look-ahead and the wrap through zero; limit runs for "
            "counter_len 1 and 2 (3 in thorough) with totals limit-d, limit, limit+1 in one call and split. ChaCha20/XChaCha20: "
            "seek to mid/last-2/last/past-the-end/2^70 positions and lengths crossing the end. CCM: nonce 13 (and 12 in thorough) "
            "with messages at 2^(8q)-1 / 2^(8q). HPKE: successive seal() of identical messages. Oracles: (1) model-free repeat "
            "detector (set of keystream blocks of zeros-encryption for the life of the object), (2) position oracle (integer counter "
            "model through reference ECB / reference ChaCha20). Non-trivial = counter wraps, or a limit within 2 blocks, or "
            "counter_len < block / little endian / suffix; distinct by (cipher, layout, initial class, call pattern class, limit relation)",
    "assumptions": ["E_K is a permutation: a duplicated keystream block means a repeated counter block",
                    "a limit that is enforced earlier than necessary (e.g. ChaCha20's last block) is conservative, not a violation"],
    "unexplored": ["CTR byte-count limits for counter_len >= 5 (>= 16 TiB of data); counter_len 4 is reached for AES only (64 GiB, big_limit)",
                   "Salsa20's 2^70-byte limit"],
}


def ks_blocks(ks, bs):
    return [ks[i:i + bs] for i in range(0, len(ks) - len(ks) % bs, bs)]


def expected_ctr_ks(spec, nbytes):
    """Keystream from the integer counter model through libcrypto ECB (fast) — AES also checked against pure AES on a sample."""
    c = spec["ctr"]
    bs = oracles.BLOCK[spec["cipher"]]
    nblk = (nbytes + bs - 1) // bs
    f = sym.ctr_blocks(spec)
    blocks = b"".join(f(i) for i in range(nblk))
    enc, _ = lc.make_ecb(oracles.LC_NAME[spec["cipher"]], spec["key"],
                         rc2_effective_bits=spec.get("ek", 1024) if spec["cipher"] == "ARC2" else None)
    ks = enc(blocks) if blocks else b""
    if spec["cipher"] == "AES" and nblk:
        from ..refs import aes as raes
        if raes.encrypt_block(spec["key"], blocks[:16]) != ks[:16]:
            raise HarnessError("libcrypto AES and the pure AES reference disagree")
    return ks[:nbytes]


def keystream_matches(spec, start, data, chunk=1 << 20):
    """True iff `data` is the key stream of byte positions start.. (integer counter model through libcrypto ECB), compared chunk by chunk
    so that a 256 MiB stream never exists twice in memory."""
    bs = oracles.BLOCK[spec["cipher"]]
    f = sym.ctr_blocks(spec)
    enc, _ = lc.make_ecb(oracles.LC_NAME[spec["cipher"]], spec["key"],
                         rc2_effective_bits=spec.get("ek", 1024) if spec["cipher"] == "ARC2" else None)
    mv = memoryview(data)
    off = 0
    while off < len(mv):
        n = min(chunk, len(mv) - off)
        a = start + off
        lo, hi = a // bs, (a + n + bs - 1) // bs
        ks = enc(b"".join(f(i) for i in range(lo, hi)))
        if ks[a - lo * bs: a - lo * bs + n] != mv[off:off + n]:
            return False
        off += n
    return True


# ------------------------------------------------------------------ CTR layouts and wrap through zero
@st.composite
def strat_ctr(draw, tier):
    spec = draw(sym.block_spec(modes_=["CTR"]))
    bs = oracles.BLOCK[spec["cipher"]]
    c = spec["ctr"]
    limit = (1 << (8 * c["clen"])) * bs
    # bias the initial value to sit just below the wrap so that the counter passes through zero
    if draw(st.booleans()):
        c["initial"] = (1 << (8 * c["clen"])) - draw(st.integers(1, 20))
    total = min(limit, draw(st.one_of(st.integers(0, 40 * bs), st.sampled_from([7 * bs, 8 * bs, 8 * bs + 1, 9 * bs, 16 * bs, 17 * bs - 1, 24 * bs + 5]))))
    return {"spec": spec, "plan": draw(gen.partition(total, bs * 8, 5)), "total": total}


def run_ctr(case, rec):
    spec, plan, total = case["spec"], case["plan"], case["total"]
    bs = oracles.BLOCK[spec["cipher"]]
    c = spec["ctr"]
    obj = sym.lib_new(spec)
    ks = b"".join(bytes(obj.encrypt(bytes(n))) for n in plan)
    exp = expected_ctr_ks(spec, total)
    label = "%s/CTR" % spec["cipher"]
    info = {"spec": spec, "plan": plan}
    if ks != exp:
        d = next((i for i in range(min(len(ks), len(exp))) if ks[i] != exp[i]), min(len(ks), len(exp)))
        raise Violation("ctr/%s/wrong-keystream" % label, "keystream differs from the counter model at byte %d (block %d)" % (d, d // bs), **info)
    blocks = ks_blocks(ks, bs)
    if len(set(blocks)) != len(blocks):
        raise Violation("ctr/%s/repeated-keystream-block" % label, "a keystream block was produced twice", **info)
    wraps = c["initial"] + (total + bs - 1) // bs > (1 << (8 * c["clen"]))
    if wraps or c["clen"] < bs or c.get("little") or c.get("suffix"):
        rec.nt(label, c["form"], c["clen"], bool(c.get("little")), len(c.get("suffix", b"")) > 0, wraps, len(plan), total // (8 * bs))
    rec.event("ctr:%s%s" % (spec["cipher"], ":wraps" if wraps else ""))
    rec.sample({"cipher": spec["cipher"], "ctr": c, "plan": plan})


# ------------------------------------------------------------------ CTR limit
@st.composite
def strat_ctr_limit(draw, tier):
    cipher = draw(st.sampled_from(["AES", "AES", "DES", "DES3", "Blowfish", "CAST", "ARC2"]))
    bs = oracles.BLOCK[cipher]
    clen = draw(st.sampled_from([1, 1, 1, 2] if tier == "quick" else [1, 1, 2, 2]))
    if tier != "quick" and cipher == "AES" and draw(st.integers(0, 29)) == 0:
        clen = 3            # 2^24 blocks = 256 MiB per case: rare
    spec = {"kind": "block", "cipher": cipher, "mode": "CTR", "key": draw(sym.key_for(cipher))}
    if cipher == "ARC2":
        spec["ek"] = 1024
    form = draw(st.sampled_from(["nonce", "counter"]))
    init = draw(st.one_of(st.just(0), st.just(1), st.integers(0, (1 << (8 * clen)) - 1), st.just((1 << (8 * clen)) - 1)))
    if form == "nonce":
        spec["ctr"] = {"form": "nonce", "nonce": draw(st.binary(min_size=bs - clen, max_size=bs - clen)), "initial": init,
                       "initial_as_bytes": draw(st.booleans()), "clen": clen}
    else:
        plen = draw(st.integers(0, bs - clen))
        spec["ctr"] = {"form": "counter", "prefix": draw(st.binary(min_size=plen, max_size=plen)),
                       "suffix": draw(st.binary(min_size=bs - clen - plen, max_size=bs - clen - plen)), "clen": clen,
                       "initial": init, "little": draw(st.booleans())}
    limit = (1 << (8 * clen)) * bs
    rel = draw(st.sampled_from(["limit-1", "limit", "limit+1", "limit+1", "limit+blk", "limit-blk-1"]))
    first = {"limit-1": limit - 1, "limit": limit, "limit+1": limit + 1, "limit+blk": limit + bs, "limit-blk-1": limit - bs - 1}[rel]
    split = draw(st.sampled_from(["one", "two", "tail-bytes"]))
    more = [draw(st.integers(0, 3)), draw(st.integers(1, 2 * bs)), draw(st.integers(1, 200))]
    return {"spec": spec, "first": first, "split": split, "cut": draw(st.integers(0, first)), "more": more, "rel": rel,
            "decrypt": draw(st.booleans())}


def run_ctr_limit(case, rec):
    spec, first = case["spec"], case["first"]
    bs = oracles.BLOCK[spec["cipher"]]
    clen = spec["ctr"]["clen"]
    limit = (1 << (8 * clen)) * bs
    label = "%s/CTR" % spec["cipher"]
    obj = sym.lib_new(spec)
    meth = obj.decrypt if case["decrypt"] else obj.encrypt
    calls = []
    if case["split"] == "one":
        calls = [first]
    elif case["split"] == "two":
        calls = [case["cut"], first - case["cut"]]
    else:
        calls = [max(0, first - 3)] + [1] * min(3, first)
    calls += case["more"]
    info = {"spec": spec, "calls": calls, "limit": limit}
    if limit > (8 << 20):
        return run_ctr_limit_streaming(case, rec, spec, meth, calls, limit, label, clen, bs, info)
    produced = b""
    failed = False
    for n in calls:
        kind, r = libcall(meth, bytes(n), allowed=(OverflowError,), bucket="ctr/%s/limit" % label)
        would = len(produced) + n
        if failed:
            if kind == "ok" and n > 0:
                # after a failure every later call must raise, or return keystream that does not repeat
                ks = produced + bytes(r)
                blocks = ks_blocks(ks, bs)
                if len(set(blocks)) != len(blocks) or would > limit:
                    raise Violation("ctr/%s/keystream-after-failure" % label, "a call after the OverflowError returned %d bytes beyond the limit" % len(r), **info)
            continue
        if would > limit:
            if kind == "ok":
                raise Violation("ctr/%s/limit-not-enforced" % label, "%d bytes obtained from a %d-byte counter (limit %d bytes)" % (would, clen, limit), **info)
            failed = True
            continue
        if kind == "exc":
            raise Violation("ctr/%s/limit-too-early" % label, "OverflowError after only %d of %d obtainable bytes" % (would, limit), **info)
        produced += bytes(r)
    exp = expected_ctr_ks(spec, len(produced))
    if produced != exp:
        raise Violation("ctr/%s/wrong-keystream-before-limit" % label, "data returned before the failure is not the keystream of its position", **info)
    blocks = ks_blocks(produced, bs)
    if len(set(blocks)) != len(blocks):
        raise Violation("ctr/%s/repeated-keystream-block" % label, "a keystream block was produced twice before the limit", **info)
    rec.nt(label, clen, spec["ctr"]["form"], spec["ctr"].get("little"), case["rel"], case["split"], failed)
    rec.event("ctr-limit:%s:clen%d:%s" % (case["rel"], clen, "failed" if failed else "ok"))
    rec.sample({"cipher": spec["cipher"], "clen": clen, "rel": case["rel"], "split": case["split"], "calls": calls})


def run_ctr_limit_streaming(case, rec, spec, meth, calls, limit, label, clen, bs, info):
    """Same verdicts as run_ctr_limit for limits of hundreds of MiB: every returned piece is compared with the key stream of its position as
    it arrives (which also rules out a repeated block: the counter blocks of distinct positions are distinct by construction)."""
    pos = 0
    failed = False
    for n in calls:
        kind, r = libcall(meth, bytes(n), allowed=(OverflowError,), bucket="ctr/%s/limit" % label)
        would = pos + n
        if failed:
            if kind == "ok" and n > 0:
                raise Violation("ctr/%s/keystream-after-failure" % label, "a call after the OverflowError returned %d bytes" % len(r), **info)
            continue
        if would > limit:
            if kind == "ok":
                raise Violation("ctr/%s/limit-not-enforced" % label, "%d bytes obtained from a %d-byte counter (limit %d bytes)" % (would, clen, limit), **info)
            failed = True
            continue
        if kind == "exc":
            raise Violation("ctr/%s/limit-too-early" % label, "OverflowError after only %d of %d obtainable bytes" % (would, limit), **info)
        if not keystream_matches(spec, pos, r):
            raise Violation("ctr/%s/wrong-keystream-before-limit" % label, "data returned before the failure is not the keystream of its position", **info)
        pos = would
        del r
    rec.nt(label, clen, spec["ctr"]["form"], spec["ctr"].get("little"), case["rel"], case["split"], failed)
    rec.event("ctr-limit:%s:clen%d:%s" % (case["rel"], clen, "failed" if failed else "ok"))
    rec.sample({"cipher": spec["cipher"], "clen": clen, "rel": case["rel"], "split": case["split"], "calls": calls})


# ------------------------------------------------------------------ ChaCha20 / XChaCha20 block counter and seek
@st.composite
def strat_chacha(draw, tier):
    nl = draw(st.sampled_from([8, 12, 24]))
    nblocks = (1 << 64) if nl == 8 else (1 << 32)
    end = nblocks * 64
    where = draw(st.sampled_from(["start", "mid", "last-3", "last-2", "last", "past", "2^70", "2^70+k", "huge", "32bit-boundary"]))
    off = draw(st.integers(0, 63))
    pos = {"start": off, "mid": (nblocks // 2) * 64 + off, "last-3": end - 192 + off, "last-2": end - 128 + off, "last": end - 64 + off,
           "past": end + draw(st.integers(0, 200)), "2^70": 1 << 70, "2^70+k": (1 << 70) + 64 * draw(st.integers(0, 5)) + off,
           "huge": (1 << draw(st.sampled_from([71, 76, 102, 134, 200]))) + 64 * draw(st.integers(0, 3)),
           "32bit-boundary": ((1 << 32) - 2) * 64 + off}[where]
    return {"key": draw(st.binary(min_size=32, max_size=32)), "nonce": draw(st.binary(min_size=nl, max_size=nl)), "where": where,
            "pos": pos, "lens": [draw(st.one_of(st.integers(0, 70), st.sampled_from([64, 128, 129, 200, 300]))) for _ in range(draw(st.integers(1, 5)))]}


def run_chacha(case, rec):
    from Crypto.Cipher import ChaCha20
    key, nonce, pos = case["key"], case["nonce"], case["pos"]
    nl = len(nonce)
    nblocks = (1 << 64) if nl == 8 else (1 << 32)
    end = nblocks * 64
    label = "ChaCha20/n%d" % nl
    obj = ChaCha20.new(key=key, nonce=nonce)
    info = {"nonce_len": nl, "pos": pos, "where": case["where"], "lens": case["lens"]}
    # reference keystream of block 0.. (to recognise aliasing / replays)
    head = stream.chacha20_stream(key, nonce, 256)
    kind, r = libcall(obj.seek, pos, allowed=(ValueError, OverflowError), bucket="chacha/seek")
    if pos >= end:
        if kind == "ok":
            ks = bytes(obj.encrypt(bytes(64)))
            raise Violation("chacha/%s/seek-past-end-accepted" % label,
                            "seek(%d) beyond the last representable block succeeded%s" % (pos, "; keystream equals position %d" % (pos % end) if True else ""), **info)
        rec.nt(label, case["where"], "refused")
        rec.event("chacha:seek-past-end-refused")
        return
    produced = b""
    failed = False
    cur = pos
    seen = set()
    if kind == "exc":
        # seek to a representable position refused: allowed only when the position lies in the last block (documented
        # conservative behaviour: the last block cannot be used)
        if pos < end - 64:
            raise Violation("chacha/%s/seek-refused" % label, "seek(%d) to a representable position refused: %s" % (pos, r), **info)
        failed = True
    for n in case["lens"]:
        kind, r = libcall(obj.encrypt, bytes(n), allowed=(ValueError, OverflowError), bucket="chacha/encrypt")
        if failed:
            if kind == "ok" and n > 0:
                out = bytes(r)
                # later calls may only return keystream of positions not used before in this object; in particular not block 0
                if cur + n > end:
                    raise Violation("chacha/%s/keystream-after-failure" % label,
                                    "after the limit error a later encrypt() returned %d bytes past the end of the key stream%s" % (
                                        n, " (they replay the start of the key stream)" if out[:16] and out[:16] in head + head else ""), **info)
                exp = stream.chacha20_stream(key, nonce, n, start_block=cur // 64, start_offset=cur % 64)
                if out != exp:
                    raise Violation("chacha/%s/wrong-keystream-after-failure" % label, "bytes returned after a failure are not the keystream of their position", **info)
                cur += n
            continue
        if cur + n > end:
            if kind == "ok":
                raise Violation("chacha/%s/limit-not-enforced" % label, "keystream requested past the last block was returned", **info)
            failed = True
            continue
        if kind == "exc":
            # conservative early failure is tolerated only within the last block
            if cur + n <= end - 64:
                raise Violation("chacha/%s/limit-too-early" % label, "failure at position %d, %d bytes before the end" % (cur, end - cur), **info)
            failed = True
            rec.event("chacha:last-block-unusable")
            continue
        out = bytes(r)
        exp = stream.chacha20_stream(key, nonce, n, start_block=cur // 64, start_offset=cur % 64)
        if out != exp:
            raise Violation("chacha/%s/wrong-keystream" % label, "keystream at position %d differs from the reference" % cur, **info)
        cur += n
    rec.nt(label, case["where"], failed, len(case["lens"]))
    rec.event("chacha:%s:%s" % (case["where"], "failed" if failed else "ok"))
    rec.sample(info)


# ------------------------------------------------------------------ CCM message length limit
def cases_ccm(tier, shard, nshards):
    out = []
    for nl in ([13] if tier == "quick" else [13, 12]):
        q = 15 - nl
        lim = 1 << (8 * q)
        for n in (lim - 1, lim, lim + 1):
            for declared in (False, True):
                for split in (False, True):
                    out.append({"nonce_len": nl, "n": n, "declared": declared, "split": split})
    return [c for k, c in enumerate(out) if k % nshards == shard]


def run_ccm(case, rec):
    from Crypto.Cipher import AES
    nl, n = case["nonce_len"], case["n"]
    q = 15 - nl
    lim = 1 << (8 * q)
    key, nonce = bytes(range(16)), bytes(range(nl))
    kw = {"msg_len": n} if case["declared"] else {}
    kind, obj = libcall(AES.new, key, AES.MODE_CCM, nonce=nonce, allowed=(ValueError,), bucket="ccm/new", **kw)
    info = dict(case)
    if kind == "exc":
        if n < lim:
            raise Violation("ccm/limit-too-early", "msg_len %d refused for a %d-byte nonce" % (n, nl), **info)
        rec.nt(nl, n - lim, case["declared"], "ctor-refused")
        rec.event("ccm-limit:refused-at-new")
        return
    pt = bytes(n)
    try:
        if case["split"] and case["declared"]:
            kind, r = libcall(lambda: obj.encrypt(pt[:n // 2]) + obj.encrypt(pt[n // 2:]), allowed=(ValueError,), bucket="ccm/encrypt")
        else:
            kind, r = libcall(obj.encrypt, pt, allowed=(ValueError,), bucket="ccm/encrypt")
        if kind == "ok":
            kind2, tag = libcall(obj.digest, allowed=(ValueError,), bucket="ccm/digest")
        else:
            kind2, tag = kind, r
    except MemoryError:
        raise Skip()
    if n >= lim:
        if kind == "ok" and kind2 == "ok":
            raise Violation("ccm/limit-not-enforced", "%d-byte message accepted with a %d-byte nonce (limit %d)" % (n, nl, lim - 1), **info)
        rec.event("ccm-limit:refused")
    else:
        if kind != "ok" or kind2 != "ok":
            raise Violation("ccm/limit-too-early", "%d-byte message refused with a %d-byte nonce" % (n, nl), **info)
        ct = bytes(r)
        second = lc.aead_encrypt("aes-128-ccm", key, nonce, b"", pt, 16)
        if ct != second[0] or bytes(tag) != second[1]:
            raise Violation("ccm/wrong-output-at-limit", "ciphertext/tag at the maximum length differ from libcrypto", **info)
        blocks = ks_blocks(ct, 16)
        if len(set(blocks)) != len(blocks):
            raise Violation("ccm/repeated-keystream-block", "keystream block repeated within one message", **info)
        rec.event("ccm-limit:max-length-ok")
    rec.nt(nl, n - lim, case["declared"], case["split"])
    rec.sample(info)


# ------------------------------------------------------------------ HPKE: successive messages never share a nonce
@st.composite
def strat_hpke(draw, tier):
    return {"aead": draw(st.sampled_from(["AES128_GCM", "AES256_GCM", "CHACHA20_POLY1305"])), "n": draw(st.integers(2, 12)),
            "pt": draw(st.binary(max_size=40)), "aad": draw(st.binary(max_size=20)), "seed": draw(st.binary(min_size=32, max_size=32)),
            "near_max": draw(st.booleans())}


def run_hpke(case, rec):
    from Crypto.Protocol import HPKE
    from Crypto.PublicKey import ECC
    rkey = ECC.construct(curve="curve25519", seed=case["seed"])
    aead = getattr(HPKE.AEAD, case["aead"])
    snd = HPKE.new(receiver_key=rkey.public_key(), aead_id=aead)
    rcv = HPKE.new(receiver_key=rkey, aead_id=aead, enc=snd.enc)
    nonces = []
    orig = snd._new_cipher if hasattr(snd, "_new_cipher") else None
    if orig is not None:
        def spy():
            c = orig()
            nonces.append(bytes(c.nonce))
            return c
        snd._new_cipher = spy
    if case["near_max"] and hasattr(snd, "_sequence") and hasattr(snd, "_max_sequence"):
        start = snd._max_sequence - case["n"] // 2
        snd._sequence = start
        rcv._sequence = start
        rec.event("hpke:near-max-sequence")
    cts = []
    refused = False
    for i in range(case["n"]):
        kind, ct = libcall(snd.seal, case["pt"], case["aad"], allowed=(ValueError,), bucket="hpke/seal")
        if kind == "exc":
            refused = True
            continue
        if refused:
            raise Violation("hpke/seal-after-exhaustion", "seal() succeeded after the context had refused for sequence exhaustion")
        cts.append(bytes(ct))
    if len(set(cts)) != len(cts):
        raise Violation("hpke/nonce-reuse", "two seal() calls on identical input returned identical ciphertexts (same nonce)", n=case["n"])
    if len(set(nonces)) != len(nonces):
        raise Violation("hpke/nonce-reuse", "the same AEAD nonce was used for two messages", n=case["n"])
    if case["near_max"] and hasattr(snd, "_max_sequence") and not refused and case["n"] // 2 + 1 < case["n"]:
        raise Violation("hpke/sequence-exhaustion-not-enforced", "sender sealed past the end of its sequence space")
    for ct in cts:
        pt = rcv.unseal(ct, case["aad"])
        if bytes(pt) != case["pt"]:
            raise Violation("hpke/wrong-plaintext", "receiver returned a wrong plaintext")
    rec.nt(case["aead"], case["near_max"], refused, min(case["n"], 6))
    rec.event("hpke:" + case["aead"])
    rec.sample({"aead": case["aead"], "n": case["n"], "near_max": case["near_max"], "refused": refused})


# ------------------------------------------------------------------ 2^32-block limits reached through the public API (64 GiB of data)
BIG_CHUNK = 64 << 20


def cases_big(tier, shard, nshards):
    """GCM (12-byte nonce: 32-bit inner counter starting at J0+1, SP 800-38D limit 2^39-256 bits = 2^36-32 bytes) and plain CTR with a
    4-byte counter (limit 2^36 bytes). `tail` are the call sizes after the object has been brought to limit-4096 bytes."""
    # (the encrypt case with tail [4096, 32, 16] is the committed replay replays/C11/gcm-limit-2-36-bytes.json and runs in every tier)
    out = [{"mode": "GCM", "dir": "decrypt", "tail": [4096, 1, 32], "little": False, "initial": 0},
           {"mode": "CTR", "dir": "encrypt", "tail": [4096, 1, 16], "little": False, "initial": 0xFFFFFF00}]
    if tier != "quick":
        out += [{"mode": "GCM", "dir": "encrypt", "tail": [4097], "little": False, "initial": 0},
                {"mode": "CTR", "dir": "decrypt", "tail": [4097, 1], "little": True, "initial": 5}]
    return [c for k, c in enumerate(out) if k % nshards == shard]


def run_big(case, rec):
    from Crypto.Cipher import AES
    from Crypto.Util import Counter
    from ..refs import aes as raes
    key = bytes(range(16, 32))
    nonce = bytes(range(100, 112))
    mode = case["mode"]
    if mode == "GCM":
        obj = AES.new(key, AES.MODE_GCM, nonce=nonce)
        limit = (1 << 36) - 32
        first = 2            # counter value (low 32 bits) of the first data block: J0 = nonce || 1
        j0 = nonce + (1).to_bytes(4, "big")

        def block_of(i):
            return nonce + ((first + i) & 0xFFFFFFFF).to_bytes(4, "big")
    else:
        if case["little"]:
            ctr = Counter.new(32, suffix=nonce, initial_value=case["initial"], little_endian=True)
            obj = AES.new(key, AES.MODE_CTR, counter=ctr)

            def block_of(i):
                return ((case["initial"] + i) & 0xFFFFFFFF).to_bytes(4, "little") + nonce
        else:
            obj = AES.new(key, AES.MODE_CTR, nonce=nonce, initial_value=case["initial"])

            def block_of(i):
                return nonce + ((case["initial"] + i) & 0xFFFFFFFF).to_bytes(4, "big")
        limit = 1 << 36
        j0 = None
    meth = obj.decrypt if case["dir"] == "decrypt" else obj.encrypt
    info = dict(case)
    zeros = bytes(BIG_CHUNK)
    out = bytearray(BIG_CHUNK)
    total = 0
    target = limit - 4096
    # bulk phase: nothing is inspected except that no exception is raised below the limit
    while total < target:
        n = min(BIG_CHUNK, target - total)
        kind, r = libcall(lambda: meth(zeros[:n] if n < BIG_CHUNK else zeros, output=(memoryview(out)[:n] if n < BIG_CHUNK else out)),
                          allowed=(OverflowError, ValueError), bucket="big/%s" % mode)
        if kind == "exc":
            raise Violation("big/%s/limit-too-early" % mode, "%s after only %d of %d permitted bytes" % (type(r).__name__, total + n, limit), **info)
        total += n
    ej0 = raes.encrypt_block(key, j0) if j0 else None
    failed = False
    for n in case["tail"]:
        kind, r = libcall(meth, bytes(n), allowed=(OverflowError, ValueError), bucket="big/%s" % mode)
        would = total + n
        if kind == "ok":
            data = bytes(r)
            if would > limit:
                # data handed out beyond the limit: say whether it exposes the block that masks the tag / repeats block 0
                first_blk = total // 16
                blocks = [data[k:k + 16] for k in range((-total) % 16, len(data) - 15, 16)]
                reuse = ""
                if ej0 is not None and ej0 in blocks:
                    reuse = "; the returned key stream contains E_K(J0), the block that masks the tag"
                if mode == "CTR" and raes.encrypt_block(key, block_of(0)) in blocks:
                    reuse = "; the key stream of block 0 is returned again"
                raise Violation("big/%s/limit-not-enforced" % mode, "%d bytes obtained from one object, the limit is %d%s" % (would, limit, reuse), **info)
            # data below the limit must be the key stream of its position
            lo, hi = total // 16, (would + 15) // 16
            ks = b"".join(raes.encrypt_block(key, block_of(i)) for i in range(lo, hi))
            exp = ks[total - lo * 16: total - lo * 16 + n]
            if data != exp:
                raise Violation("big/%s/wrong-keystream-before-limit" % mode, "the %d bytes before the limit are not the key stream of their position" % n, **info)
            total = would
        else:
            if would <= limit and not failed:
                # (after a refusal the object may or may not have consumed key stream: later refusals are not judged)
                raise Violation("big/%s/limit-too-early" % mode, "%s at %d of %d permitted bytes" % (type(r).__name__, would, limit), **info)
            failed = True
    rec.nt(mode, case["dir"], tuple(case["tail"]), case["little"], failed)
    rec.event("big-limit:%s:%s:%s" % (mode, case["dir"], "refused-beyond-limit" if failed else "limit-not-crossed"))
    rec.sample({"mode": mode, "dir": case["dir"], "bytes_processed": total, "limit": limit, "tail": case["tail"], "refused": failed})


CHECKS = [
    Check("ctr_layout", run=run_ctr, strategy=strat_ctr, examples=(12000, 200000), shards=(16, 16),
          rule="CTR keystream == integer counter model through reference ECB; no repeated keystream block; counter passes through zero"),
    Check("ctr_limit", run=run_ctr_limit, strategy=strat_ctr_limit, examples=(1500, 30000), shards=(16, 16),
          rule="exactly block_len*2^(8w) bytes obtainable, next byte OverflowError, later calls raise; data before is correct"),
    Check("chacha", run=run_chacha, strategy=strat_chacha, examples=(5000, 80000), shards=(8, 16),
          rule="ChaCha20/XChaCha20 seek + encrypt near the end of the key stream and past it (2^70, huge positions)"),
    Check("ccm_limit", run=run_ccm, cases=cases_ccm, shards=(12, 16), exhaustive=True,
          rule="CCM messages of 2^(8q)-1, 2^(8q), 2^(8q)+1 bytes, declared/undeclared, one call/split"),
    Check("big_limit", run=run_big, cases=cases_big, shards=(2, 4),
          rule="AES-GCM (32-bit inner counter) and AES-CTR with a 4-byte counter driven to their 2^32-block limit through the public API (64 GiB): "
               "limit bytes accepted with the right key stream, the next byte refused, E_K(J0) never handed out"),
    Check("hpke", run=run_hpke, strategy=strat_hpke, examples=(300, 4000), shards=(4, 8),
          rule="HPKE: N seal() calls on identical input give pairwise distinct nonces/ciphertexts; sequence exhaustion refuses"),
]
