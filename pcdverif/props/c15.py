"""C15 — HPKE contexts conform to RFC 9180 for every suite, mode and message history."""
import hashlib

from hypothesis import strategies as st

from ..core import Check, Violation, HarnessError, Skip, libcall
from .. import gen, keys
from ..refs import hpke as rh, ec

META = {
    "rule": "model-based history testing: per case a suite (5 KEMs x 3 AEADs x 4 modes), info, PSK/PSK-id, static keys, and a generated history "
            "(<= 25 steps) over: library seal, deliver next genuine message, deliver a corrupted copy (bit flip in ct/tag/AAD, truncation below "
            "and above Nt, extension), replay, out-of-order delivery, message from a context differing in exactly one of {info, psk, psk_id, "
            "AEAD id, sender key, receiver key, mode}, reference seal -> library unseal. Oracle: reference RFC 9180 implementation "
            "(refs/hpke.py: DHKEM Encap/Decap/AuthEncap/AuthDecap, KeySchedule, ComputeNonce, Seal/Open with the rule that a failed Open does "
            "not consume the sequence number) validated against RFC 9180 Appendix A vectors. Non-trivial = history with >= 3 genuine messages "
            "and >= 1 rejected delivery followed by a genuine one; distinct by (suite, mode, abstract delivery trace)",
    "assumptions": ["reference HPKE passes RFC 9180 A.1.1 / A.3.1 vectors (embedded in its selftest); its building blocks are the references of C01/C06/C12",
                    "the library chooses the ephemeral key itself: interoperability is decided by the reference receiver opening every library message"],
    "unexplored": ["export interface (not offered by the library)"],
}

KEMS = ["p256", "p384", "p521", "curve25519", "curve448"]
AEAD_IDS = [1, 2, 3]


def mk_keys(kem, seed):
    """(library private key, reference private, reference public)"""
    from Crypto.PublicKey import ECC
    if kem.startswith("p"):
        d = keys.ecc_scalar(kem, seed)
        return ECC.construct(curve=kem, d=d), d, rh.pub_of(kem, d)
    sd = keys.ecc_seed(kem, seed)
    return ECC.construct(curve=kem, seed=sd), sd, rh.pub_of(kem, sd)


STEPS = ["seal", "seal", "seal", "deliver", "deliver", "corrupt", "corrupt", "replay", "skip", "foreign", "refseal", "refseal-corrupt"]


@st.composite
def strat_history(draw, tier):
    kem = draw(st.sampled_from(KEMS if tier == "thorough" else ["p256", "curve25519", "p256", "curve25519", "p384", "p521", "curve448"]))
    mode = draw(st.sampled_from([0, 1, 2, 3]))
    n = draw(st.integers(3, 14 if tier == "quick" else 25))
    steps = [[draw(st.sampled_from(STEPS)), draw(st.binary(max_size=24)), draw(st.binary(max_size=12)), draw(st.integers(0, 10 ** 6))] for _ in range(n)]
    return {"kem": kem, "aead": draw(st.sampled_from(AEAD_IDS)), "mode": mode, "info": draw(st.binary(max_size=20)),
            "psk": draw(gen.data_of(st.sampled_from([32, 33, 48, 100]))), "psk_id": draw(st.binary(min_size=1, max_size=12)),
            "seed": draw(st.binary(min_size=8, max_size=8)), "steps": steps}


def lib_ctx(kem, aead, mode, recv_key, send_key, psk, psk_id, info, enc=None):
    from Crypto.Protocol import HPKE
    kw = {"receiver_key": recv_key, "aead_id": HPKE.AEAD(aead)}
    if enc is not None:
        kw["enc"] = enc
    if mode in (2, 3):
        kw["sender_key"] = send_key
    if mode in (1, 3):
        kw["psk"] = (psk_id, psk)
    if info:
        kw["info"] = info
    if enc is not None and (len(info) + len(psk_id)) % 2:
        # the RFC 9180 code point given as a plain integer (what a caller holding a wire value has): accepted by the library like the enum
        # member; if a version refuses plain integers that is its right, and the enum member is used instead
        try:
            return HPKE.new(**dict(kw, aead_id=int(aead)))
        except (TypeError, ValueError):
            pass
    return HPKE.new(**kw)


def corrupt(ct, aad, pos):
    """Returns (ct', aad', label) different from the genuine pair."""
    k = pos % 7
    if k == 0 and len(ct) > 16:
        b = bytearray(ct)
        b[pos // 7 % (len(ct) - 16)] ^= 1 << (pos % 8)
        return bytes(b), aad, "flip-ct"
    if k == 1 or (k == 0):
        b = bytearray(ct)
        b[len(ct) - 1 - (pos // 7 % 16)] ^= 1 << (pos % 8)
        return bytes(b), aad, "flip-tag"
    if k == 2:
        if aad:
            b = bytearray(aad)
            b[pos // 7 % len(aad)] ^= 1 << (pos % 8)
            return ct, bytes(b), "flip-aad"
        return ct, b"\x00", "aad-added"
    if k == 3:
        return ct[:pos // 7 % 16], aad, "truncate-below-Nt"
    if k == 4:
        return ct[:-1], aad, "truncate-1"
    if k == 5:
        return ct + b"\x00", aad, "extend"
    return ct[1:], aad, "drop-first"


def run_history(case, rec):
    from Crypto.Protocol import HPKE
    kem, aead, mode = case["kem"], case["aead"], case["mode"]
    info, psk, psk_id = case["info"], case["psk"], case["psk_id"]
    R = mk_keys(kem, case["seed"] + b"R")
    S = mk_keys(kem, case["seed"] + b"S")
    ipsk, ipsk_id = (psk, psk_id) if mode in (1, 3) else (b"", b"")
    label = "%s/aead%d/mode%d" % (kem, aead, mode)
    inf = {"kem": kem, "aead": aead, "mode": mode}
    # library sender + library receiver + reference receiver
    snd = lib_ctx(kem, aead, mode, R[0].public_key(), S[0], psk, psk_id, info)
    enc = bytes(snd.enc)
    try:
        ss = rh.decap(kem, enc, R[1], S[2] if mode in (2, 3) else None)
    except ValueError as ex:
        raise Violation("hpke/%s/enc-not-deserializable" % label, "reference cannot deserialise the library's enc: %s" % ex, **inf)
    ref_rcv = rh.key_schedule(kem, aead, mode, ss, info, ipsk, ipsk_id)
    lib_rcv = lib_ctx(kem, aead, mode, R[0], S[0].public_key(), psk, psk_id, info, enc=enc)
    # reference sender + library receiver
    skE = mk_keys(kem, case["seed"] + b"E")[1]
    ss2, enc2 = rh.encap(kem, R[2], skE, S[1] if mode in (2, 3) else None)
    ref_snd = rh.key_schedule(kem, aead, mode, ss2, info, ipsk, ipsk_id)
    lib_rcv2 = lib_ctx(kem, aead, mode, R[0], S[0].public_key(), psk, psk_id, info, enc=enc2)
    queue = []          # genuine messages sealed by the library: (pt, aad, ct)
    delivered = 0
    trace = []
    rejected_then_ok = False
    pending_reject = False
    for op, pt, aad, pos in case["steps"]:
        if op == "seal":
            kind, ct = libcall(snd.seal, pt, aad if aad else None, allowed=(), bucket="hpke/seal")
            ct = bytes(ct)
            # interoperability: the reference receiver opens it with the RFC's key schedule and nonce
            got = rh.open_(ref_rcv, aad, ct)
            if got != pt:
                raise Violation("hpke/%s/sender-not-rfc9180" % label, "reference receiver cannot open library message #%d (enc/key schedule/nonce/ciphertext differ from RFC 9180)" % len(queue),
                                trace=trace, **inf)
            queue.append((pt, aad, ct))
            trace.append("seal")
        elif op == "deliver":
            if delivered >= len(queue):
                continue
            pt0, aad0, ct0 = queue[delivered]
            kind, r = libcall(lib_rcv.unseal, ct0, aad0 if aad0 else None, allowed=(ValueError,), bucket="hpke/unseal")
            if kind != "ok" or bytes(r) != pt0:
                raise Violation("hpke/%s/genuine-message-rejected%s" % (label, "-after-rejection" if pending_reject else ""),
                                "genuine in-order message #%d %s (trace %r)" % (delivered, "rejected: %s" % r if kind != "ok" else "returned a wrong plaintext", trace[-8:]),
                                trace=trace, **inf)
            delivered += 1
            if pending_reject:
                rejected_then_ok = True
                pending_reject = False
            trace.append("deliver")
        elif op in ("corrupt", "replay", "skip", "foreign"):
            if op == "corrupt":
                if delivered >= len(queue):
                    continue
                pt0, aad0, ct0 = queue[delivered]
                ct1, aad1, what = corrupt(ct0, aad0, pos)
            elif op == "replay":
                if delivered == 0:
                    continue
                pt0, aad1, ct1 = queue[pos % delivered]
                if delivered < len(queue) and queue[delivered][2] == ct1:
                    continue
                what = "replay"
            elif op == "skip":
                if delivered + 1 >= len(queue):
                    continue
                pt0, aad1, ct1 = queue[delivered + 1]
                what = "out-of-order"
            else:
                # a sender context that differs in exactly one input, sealing at the receiver's current sequence number
                which = ["info", "psk", "psk_id", "aead", "sender-key", "receiver-key", "mode"][pos % 7]
                f_info, f_psk, f_pskid, f_aead, f_S, f_Rpub, f_mode = info, psk, psk_id, aead, S, R[2], mode
                if which == "info":
                    f_info = info + b"x"
                elif which == "psk":
                    if mode not in (1, 3):
                        continue
                    f_psk = psk[:-1] + bytes([psk[-1] ^ 1])
                elif which == "psk_id":
                    if mode not in (1, 3):
                        continue
                    f_pskid = psk_id + b"y"
                elif which == "aead":
                    f_aead = 1 + aead % 3
                    if {aead, f_aead} == {1, 2} and False:
                        continue
                elif which == "sender-key":
                    if mode not in (2, 3):
                        continue
                    f_S = mk_keys(kem, case["seed"] + b"S2")
                elif which == "receiver-key":
                    f_Rpub = mk_keys(kem, case["seed"] + b"R2")[2]
                else:
                    f_mode = {0: 1, 1: 0, 2: 3, 3: 2}[mode]
                fpsk, fpskid = (f_psk, f_pskid) if f_mode in (1, 3) else (b"", b"")
                # the foreign sender reuses the *same enc* where possible (same ephemeral key), so that only the one input differs
                try:
                    fss, fenc = rh.encap(kem, f_Rpub, skE, f_S[1] if f_mode in (2, 3) else None)
                except ValueError:
                    continue
                fctx = rh.key_schedule(kem, f_aead, f_mode, fss, f_info, fpsk, fpskid)
                fctx["seq"] = delivered
                ct1 = rh.seal(fctx, aad, pt)
                aad1 = aad
                what = "foreign-" + which
                # offered to the receiver bound to enc2 (same ephemeral key) at its own sequence position
                kind, r = libcall(lib_rcv2.unseal, ct1, aad1 if aad1 else None, allowed=(ValueError,), bucket="hpke/unseal")
                if kind == "ok" and getattr(lib_rcv2, "_sequence", None) is not None:
                    pass
                if kind == "ok":
                    raise Violation("hpke/%s/foreign-context-accepted/%s" % (label, which), "a message sealed under a different %s was opened" % which, trace=trace, **inf)
                trace.append("reject:" + what)
                continue
            kind, r = libcall(lib_rcv.unseal, ct1, aad1 if aad1 else None, allowed=(ValueError,), bucket="hpke/unseal")
            if kind == "ok":
                raise Violation("hpke/%s/non-genuine-accepted/%s" % (label, what.split("-")[0] if what.startswith("flip") else what),
                                "%s delivery was accepted" % what, trace=trace, **inf)
            pending_reject = True
            trace.append("reject:" + what)
        elif op in ("refseal", "refseal-corrupt"):
            ct = rh.seal(ref_snd, aad, pt)
            if op == "refseal-corrupt":
                ct1, aad1, what = corrupt(ct, aad, pos)
                kind, r = libcall(lib_rcv2.unseal, ct1, aad1 if aad1 else None, allowed=(ValueError,), bucket="hpke/unseal")
                if kind == "ok":
                    raise Violation("hpke/%s/non-genuine-accepted/%s" % (label, what), "%s copy of a reference-sealed message accepted" % what, trace=trace, **inf)
                trace.append("ref-reject:" + what)
            kind, r = libcall(lib_rcv2.unseal, ct, aad if aad else None, allowed=(ValueError,), bucket="hpke/unseal")
            if kind != "ok" or bytes(r) != pt:
                raise Violation("hpke/%s/receiver-not-rfc9180%s" % (label, "-after-rejection" if op == "refseal-corrupt" else ""),
                                "library receiver cannot open a message sealed by the reference sender (RFC 9180 key schedule/nonce): %s" % (r if kind != "ok" else "wrong plaintext"),
                                trace=trace, **inf)
            if op == "refseal-corrupt":
                rejected_then_ok = True
            trace.append("refseal")
    # finally every remaining genuine message is opened in order
    while delivered < len(queue):
        pt0, aad0, ct0 = queue[delivered]
        kind, r = libcall(lib_rcv.unseal, ct0, aad0 if aad0 else None, allowed=(ValueError,), bucket="hpke/unseal")
        if kind != "ok" or bytes(r) != pt0:
            raise Violation("hpke/%s/genuine-message-rejected%s" % (label, "-after-rejection" if pending_reject else ""),
                            "genuine in-order message #%d not opened at the end of the history %r" % (delivered, trace[-8:]), trace=trace, **inf)
        if pending_reject:
            rejected_then_ok = True
            pending_reject = False
        delivered += 1
    if len(queue) >= 3 and rejected_then_ok or (rejected_then_ok and "refseal" in trace):
        rec.nt(kem, aead, mode, tuple(t.split(":")[0] for t in trace)[:14])
    rec.event("hpke:%s:mode%d:aead%d" % (kem, mode, aead))
    for t in trace:
        rec.event("step:" + t.split("-")[0].split(":")[0])
    rec.sample({"kem": kem, "aead": aead, "mode": mode, "trace": trace[:20]})


# ------------------------------------------------------------------ set-up negatives
@st.composite
def strat_setup(draw, tier):
    return {"kem": draw(st.sampled_from(KEMS)), "aead": draw(st.sampled_from(AEAD_IDS)), "seed": draw(st.binary(min_size=8, max_size=8)),
            "fault": draw(st.sampled_from(["psk-without-id", "id-without-psk", "psk-short", "two-private", "two-public-auth", "curve-mismatch", "enc-when-sealing",
                                           "enc-missing", "enc-flip", "enc-short", "enc-long", "enc-offcurve", "enc-loworder", "enc-compressed", "unsupported-curve",
                                           "bad-aead", "enc-infinity", "enc-highbit"])), "pos": draw(st.integers(0, 10 ** 6))}


def run_setup(case, rec):
    from Crypto.Protocol import HPKE
    from Crypto.PublicKey import ECC
    kem, aead, fault = case["kem"], case["aead"], case["fault"]
    R = mk_keys(kem, case["seed"] + b"R")
    S = mk_keys(kem, case["seed"] + b"S")
    A = HPKE.AEAD(aead)
    psk = (b"id", b"k" * 32)
    inf = {"kem": kem, "aead": aead, "fault": fault}
    snd = HPKE.new(receiver_key=R[0].public_key(), aead_id=A)
    enc = bytes(snd.enc)
    ct = snd.seal(b"hello", b"aad")
    late = False         # True: failure may surface at the first unseal instead of new()
    must = True
    if fault == "psk-without-id":
        f = lambda: HPKE.new(receiver_key=R[0].public_key(), aead_id=A, psk=(b"", b"k" * 32))
    elif fault == "id-without-psk":
        f = lambda: HPKE.new(receiver_key=R[0].public_key(), aead_id=A, psk=(b"id", b""))
    elif fault == "psk-short":
        f = lambda: HPKE.new(receiver_key=R[0].public_key(), aead_id=A, psk=(b"id", b"k" * 31))
    elif fault == "two-private":
        f = lambda: HPKE.new(receiver_key=R[0], aead_id=A, sender_key=S[0], enc=enc)
    elif fault == "two-public-auth":
        f = lambda: HPKE.new(receiver_key=R[0].public_key(), aead_id=A, sender_key=S[0].public_key())
    elif fault == "curve-mismatch":
        other = "p384" if kem != "p384" else "p256"
        f = lambda: HPKE.new(receiver_key=R[0].public_key(), aead_id=A, sender_key=mk_keys(other, case["seed"])[0])
    elif fault == "enc-when-sealing":
        f = lambda: HPKE.new(receiver_key=R[0].public_key(), aead_id=A, enc=enc)
    elif fault == "enc-missing":
        f = lambda: HPKE.new(receiver_key=R[0], aead_id=A)
    elif fault == "unsupported-curve":
        k = ECC.construct(curve=["p192", "p224", "ed25519", "ed448"][case["pos"] % 4], **({"d": 5} if case["pos"] % 4 < 2 else {"seed": bytes(32 if case["pos"] % 4 == 2 else 57)}))
        f = lambda: HPKE.new(receiver_key=k.public_key(), aead_id=A)
    elif fault == "bad-aead":
        f = lambda: HPKE.new(receiver_key=R[0].public_key(), aead_id=[0, 4, 0xFFFF][case["pos"] % 3])
        must = None
    else:
        late = True
        c = ec.CURVES[rh.KEMS[kem][4]]
        if fault == "enc-flip":
            b = bytearray(enc)
            b[1 + case["pos"] % (len(enc) - 1)] ^= 1 << (case["pos"] % 8)
            e2 = bytes(b)
        elif fault == "enc-short":
            e2 = enc[:-1]
        elif fault == "enc-long":
            e2 = enc + b"\0"
        elif fault == "enc-offcurve":
            if not kem.startswith("p"):
                raise Skip()
            P = rh.deserialize_pub(kem, enc)
            e2 = b"\x04" + P[0].to_bytes(c["size"], "big") + ((P[1] + 1) % c["p"]).to_bytes(c["size"], "big")
        elif fault == "enc-infinity":
            if not kem.startswith("p"):
                raise Skip()
            e2 = b"\x04" + bytes(2 * c["size"])
        elif fault == "enc-compressed":
            if not kem.startswith("p"):
                raise Skip()
            P = rh.deserialize_pub(kem, enc)
            e2 = ec.sec1_encode(c, P, True)
        elif fault == "enc-highbit":
            if kem != "curve25519":
                raise Skip()
            e2 = enc[:-1] + bytes([enc[-1] | 0x80])
        else:
            if kem.startswith("p"):
                raise Skip()
            lo = ec.mont_low_order_us(c)
            e2 = lo[case["pos"] % len(lo)].to_bytes(len(enc), "little")

        def f():
            r = HPKE.new(receiver_key=R[0], aead_id=A, enc=e2)
            return r.unseal(ct, b"aad")
    kind, r = libcall(f, allowed=(ValueError, TypeError) if must is None else (ValueError,), bucket="hpke/setup/%s" % fault)
    if kind == "ok" and must:
        raise Violation("hpke/setup/accepted/%s" % fault, "invalid set-up (%s) was accepted%s" % (fault, " and the message opened" if late else ""), **inf)
    rec.nt(kem, fault, kind)
    rec.event("setup:%s:%s" % (fault, "refused" if kind == "exc" else "accepted"))
    rec.sample(inf)


# ------------------------------------------------------------------ sequence exhaustion
@st.composite
def strat_seq(draw, tier):
    return {"kem": draw(st.sampled_from(["p256", "curve25519"])), "aead": draw(st.sampled_from(AEAD_IDS)), "seed": draw(st.binary(min_size=8, max_size=8)),
            "before": draw(st.integers(0, 4)), "extra": draw(st.integers(1, 3))}


def run_seq(case, rec):
    from Crypto.Protocol import HPKE
    R = mk_keys(case["kem"], case["seed"])
    A = HPKE.AEAD(case["aead"])
    snd = HPKE.new(receiver_key=R[0].public_key(), aead_id=A)
    if not (hasattr(snd, "_sequence") and hasattr(snd, "_max_sequence")):
        rec.event("seq:white-box-attributes-missing")
        raise Skip()
    mx = (1 << 96) - 1
    snd._sequence = mx - case["before"]
    ss = rh.decap(case["kem"], bytes(snd.enc), R[1])
    ref = rh.key_schedule(case["kem"], case["aead"], 0, ss)
    ref["seq"] = mx - case["before"]
    sealed = 0
    nonces = set()
    for i in range(case["before"] + case["extra"]):
        kind, ct = libcall(snd.seal, b"m", allowed=(ValueError,), bucket="hpke/seal")
        if kind == "ok":
            sealed += 1
            if ref["seq"] >= mx:
                raise Violation("hpke/sequence-exhaustion-not-enforced", "seal() succeeded at sequence number 2^96-1", **case)
            if rh.open_(ref, b"", bytes(ct)) != b"m":
                raise Violation("hpke/nonce-near-exhaustion", "message near the end of the sequence space not sealed with base_nonce xor seq", **case)
        else:
            if ref["seq"] < mx:
                raise Violation("hpke/sequence-limit-too-early", "seal() refused at sequence %d below the limit: %s" % (ref["seq"], ct), **case)
    rec.nt(case["kem"], case["aead"], case["before"], case["extra"])
    rec.event("seq:exhaustion")


CHECKS = [
    Check("history", run=run_history, strategy=strat_history, examples=(500, 9000), shards=(16, 16),
          rule="sender/receiver histories vs reference RFC 9180: interop both ways, in-order delivery, every non-genuine delivery rejected, recovery after rejection"),
    Check("setup", run=run_setup, strategy=strat_setup, examples=(900, 8000), shards=(8, 16),
          rule="invalid PSK/key/enc combinations refused at new() (or at the first unseal for a mutated enc)"),
    Check("sequence", run=run_seq, strategy=strat_seq, examples=(120, 1500), shards=(2, 4),
          rule="context at the end of its sequence space refuses to seal and never reuses a nonce"),
]
