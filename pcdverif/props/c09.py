"""C09 — results do not depend on data segmentation, buffer type or in-place output."""
import importlib
import inspect
import itertools

from hypothesis import strategies as st

from ..core import Check, Violation, HarnessError, Skip, libcall
from .. import gen, oracles, sym

META = {
    "rule": "metamorphic: the same library, one call with bytes in and the result returned, vs a generated partition of the "
            "AAD / message / XOF output (cuts biased to k*block-1, k*block, k*block+1, empty and one-byte segments), a buffer type "
            "per segment (bytes, bytearray, read-only memoryview, writable memoryview at an odd offset) and an output mode per call "
            "(returned, output=bytearray, output=memoryview, output=the input buffer itself; discovered with inspect.signature). "
            "Non-trivial = >=2 non-empty segments with a cut off a block boundary, or a non-bytes buffer, or an output= call; "
            "distinct by (class, cut-pattern class, buffer-type multiset, output modes)",
    "assumptions": ["the one-shot result is the reference here (its conformance to the standard is decided by C02/C03)"],
    "unexplored": ["segments above 64 KiB"],
}

OUTMODES = ["ret", "ret", "out_ba", "out_mv", "inplace"]


def has_output(method):
    try:
        return "output" in inspect.signature(method).parameters
    except (TypeError, ValueError):
        return False


def call_with(method, seg, bufkind, outmode, label):
    """Call encrypt/decrypt on one segment with the chosen buffer type and output mode. Returns bytes."""
    if outmode == "ret" or not has_output(method):
        buf = gen.as_buffer(seg, bufkind)
        r = method(buf)
        if r is None:
            raise Violation("%s/returned-None" % label, "method returned None without output=")
        if isinstance(buf, (bytearray, memoryview)) and bytes(buf) != bytes(seg):
            raise Violation("%s/input-buffer-modified" % label, "input buffer modified by a call without output=")
        return bytes(r)
    if outmode == "inplace":
        if bufkind in ("bytes", "mv_ro", "bytearray"):
            buf = bytearray(seg)
        else:
            buf = gen.as_buffer(seg, "mv_rw_off")
        r = method(buf, output=buf)
        if r is not None:
            raise Violation("%s/output-return-value" % label, "method returned %r although output= was given" % type(r).__name__)
        return bytes(buf)
    buf = gen.as_buffer(seg, bufkind)
    if outmode == "out_ba":
        out = bytearray(len(seg))
    else:
        backing = bytearray(len(seg) + 9)
        out = memoryview(backing)[5:5 + len(seg)]
    r = method(buf, output=out)
    if r is not None:
        raise Violation("%s/output-return-value" % label, "method returned %r although output= was given" % type(r).__name__)
    if isinstance(buf, (bytearray, memoryview)) and bytes(buf) != bytes(seg):
        raise Violation("%s/input-buffer-modified" % label, "input buffer modified although output= is another buffer")
    if outmode == "out_mv" and (bytes(backing[:5]) != bytes(5) or bytes(backing[5 + len(seg):]) != bytes(4)):
        raise Violation("%s/output-overrun" % label, "bytes outside the output memoryview were written")
    return bytes(out)


@st.composite
def seg_plan(draw, total, block, aligned=False, max_cuts=5):
    segs = draw(gen.partition(total, block, max_cuts))
    if aligned:
        # move every cut to a block boundary
        out, acc, prev = [], 0, 0
        for s_ in segs[:-1]:
            acc += s_
            c = acc - acc % block
            out.append(c - prev)
            prev = c
        out.append(total - prev)
        segs = out
    plan = []
    for s_ in segs:
        plan.append([s_, draw(st.sampled_from(gen.BUFKINDS)), draw(st.sampled_from(OUTMODES))])
    return plan


def plan_features(plan, block):
    nonempty = [p for p in plan if p[0]]
    offcut = False
    acc = 0
    for p in plan[:-1]:
        acc += p[0]
        if acc % block:
            offcut = True
    kinds = tuple(sorted(set(p[1] for p in plan)))
    outs = tuple(sorted(set(p[2] for p in plan)))
    nontriv = (len(nonempty) >= 2 and offcut) or kinds != ("bytes",) or outs != ("ret",)
    cls = (min(len(plan), 4), offcut, any(p[0] == 0 for p in plan), any(p[0] == 1 for p in plan))
    return nontriv, cls, kinds, outs


# ------------------------------------------------------------------ classic modes + stream ciphers
@st.composite
def strat_cipher(draw, tier):
    if draw(st.integers(0, 3)) == 0:
        spec = draw(sym.stream_spec())
        bs = 64
        aligned = False
    else:
        spec = draw(sym.block_spec())
        bs = oracles.BLOCK[spec["cipher"]]
        aligned = spec["mode"] in ("ECB", "CBC")
    n = draw(st.one_of(st.integers(0, 4 * bs + 2), st.sampled_from([8 * bs - 1, 8 * bs, 8 * bs + 1, 9 * bs + 3, 17 * bs]), st.integers(0, 40 * bs)))
    if aligned:
        n -= n % bs
    if spec.get("mode") == "CTR":
        n = min(n, (1 << (8 * spec["ctr"]["clen"])) * bs)
    data = draw(gen.data_of(st.just(n)))
    return {"spec": spec, "data": data, "plan": draw(seg_plan(n, bs, aligned)), "decrypt": draw(st.booleans())}


def run_cipher(case, rec):
    spec, data, plan = case["spec"], case["data"], case["plan"]
    label = "seg/" + sym.spec_label(spec)
    bs = oracles.BLOCK.get(spec["cipher"], 64)
    direction = "decrypt" if case["decrypt"] else "encrypt"
    if spec.get("mode") == "OPENPGP" and case["decrypt"]:
        # receiver is created with the encrypted IV; data is the ciphertext body
        enc = sym.lib_new(spec)
        full = bytes(enc.encrypt(data))
        spec = dict(spec)
        spec["iv"] = full[:bs + 2]
        data = full[bs + 2:]
    one = bytes(getattr(sym.lib_new(spec), direction)(bytes(data)))
    if not plan:
        plan = [[0, "bytes", "ret"]]
    obj = sym.lib_new(spec)
    m = getattr(obj, direction)
    out, p = [], 0
    for n, bufkind, outmode in plan:
        seg = data[p:p + n]
        p += n
        if spec.get("mode") == "OPENPGP" and not case["decrypt"] and not out and outmode != "ret":
            outmode = "ret"
        out.append(call_with(m, seg, bufkind, outmode, label))
    got = b"".join(out)
    nontriv, cls, kinds, outs = plan_features(plan, bs)
    if got != one:
        d = next((i for i in range(min(len(got), len(one))) if got[i] != one[i]), min(len(got), len(one)))
        raise Violation("%s/%s/segmentation" % (label, direction), "segmented result differs from one-shot at byte %d (plan %r)" % (d, plan),
                        spec=spec, plan=plan, len=len(data))
    if nontriv:
        rec.nt(label, direction, cls, kinds, outs)
    rec.event(label)
    rec.sample({"class": label, "dir": direction, "len": len(data), "plan": plan})


# ------------------------------------------------------------------ AEAD
@st.composite
def strat_aead(draw, tier):
    spec = draw(sym.aead_spec())
    bs = 16 if spec["cipher"] in ("AES", "ChaCha20_Poly1305") else 8
    n = draw(st.one_of(st.integers(0, 4 * bs + 2), st.sampled_from([8 * bs - 1, 8 * bs, 8 * bs + 1, 17 * bs + 5]), st.integers(0, 20 * bs)))
    if spec["mode"] == "CCM":
        n = min(n, (1 << (8 * (15 - len(spec["nonce"])))) - 1)
        spec["declare_msg"] = True
    pt = draw(gen.data_of(st.just(n)))
    if spec["mode"] == "SIV":
        ncomp = draw(st.integers(0, 4))
        aad = [draw(gen.data_of(st.integers(0, 40))) for _ in range(ncomp)]
        aplan = [[len(a), draw(st.sampled_from(gen.BUFKINDS)), "ret"] for a in aad]
        mplan = [[n, draw(st.sampled_from(gen.BUFKINDS)), draw(st.sampled_from(OUTMODES))]]
    else:
        an = draw(st.one_of(st.integers(0, 4 * bs + 2), st.sampled_from([0, 127, 128, 129, 300])))
        aad = [draw(gen.data_of(st.just(an)))]
        aplan = draw(seg_plan(an, bs))
        mplan = draw(seg_plan(n, bs))
    return {"spec": spec, "pt": pt, "aad": aad, "aplan": aplan, "mplan": mplan, "decrypt": draw(st.booleans())}


def run_aead(case, rec):
    spec, pt, aad = dict(case["spec"]), case["pt"], case["aad"]
    label = "seg/" + sym.spec_label(spec)
    bs = 16 if spec["cipher"] in ("AES", "ChaCha20_Poly1305") else 8
    mode = spec["mode"]
    if mode == "CCM":
        spec["msg_len"] = len(pt)
    # one-shot reference from the same library
    e = sym.lib_new(spec)
    for a in aad:
        e.update(bytes(a))
    ct1, tag1 = e.encrypt_and_digest(bytes(pt))
    ct1, tag1 = bytes(ct1), bytes(tag1)
    direction = "decrypt" if case["decrypt"] else "encrypt"
    src = ct1 if case["decrypt"] else pt
    obj = sym.lib_new(spec)
    if mode == "SIV":
        for a, (n, bufkind, _) in zip(aad, case["aplan"]):
            obj.update(gen.as_buffer(a, bufkind))
        n, bufkind, outmode = case["mplan"][0]
        if case["decrypt"]:
            meth = obj.decrypt_and_verify
            if outmode == "ret" or not has_output(meth):
                got = bytes(meth(gen.as_buffer(src, bufkind), tag1))
            else:
                buf = bytearray(src) if outmode == "inplace" else gen.as_buffer(src, bufkind)
                out = buf if outmode == "inplace" else bytearray(len(src))
                r = meth(buf, tag1, output=out)
                if r is not None:
                    raise Violation("%s/output-return-value" % label, "decrypt_and_verify returned a value although output= was given")
                got = bytes(out)
            tag = tag1
        else:
            meth = obj.encrypt_and_digest
            if outmode == "ret" or not has_output(meth):
                got, tag = meth(gen.as_buffer(src, bufkind))
            else:
                buf = bytearray(src) if outmode == "inplace" else gen.as_buffer(src, bufkind)
                out = buf if outmode == "inplace" else bytearray(len(src))
                r = meth(buf, output=out)
                # documented: a tuple whose first item is None when output= is given
                if not isinstance(r, tuple) or len(r) != 2 or r[0] is not None:
                    raise Violation("%s/output-return-value" % label, "encrypt_and_digest(output=) did not return (None, tag)")
                got, tag = bytes(out), r[1]
            got, tag = bytes(got), bytes(tag)
    else:
        a = aad[0]
        p = 0
        for n, bufkind, _ in case["aplan"]:
            obj.update(gen.as_buffer(a[p:p + n], bufkind))
            p += n
        m = getattr(obj, direction)
        out, p = [], 0
        for n, bufkind, outmode in case["mplan"]:
            out.append(call_with(m, src[p:p + n], bufkind, outmode, label))
            p += n
        if mode == "OCB":
            out.append(bytes(m()))
        got = b"".join(out)
        if case["decrypt"]:
            k, r = libcall(obj.verify, tag1, allowed=(ValueError,), bucket=label + "/verify")
            if k == "exc":
                raise Violation("%s/decrypt/tag-depends-on-segmentation" % label, "verify fails after segmented/in-place decryption", spec=spec,
                                aplan=case["aplan"], mplan=case["mplan"])
            tag = tag1
        else:
            tag = bytes(obj.digest())
    want = pt if case["decrypt"] else ct1
    info = {"spec": spec, "aplan": case["aplan"], "mplan": case["mplan"], "len": len(pt)}
    if got != want:
        raise Violation("%s/%s/segmentation" % (label, direction), "segmented result differs from one-shot", **info)
    if tag != tag1:
        raise Violation("%s/%s/tag-depends-on-segmentation" % (label, direction), "tag after segmented/in-place processing differs from one-shot tag", **info)
    nt1, cls1, k1, o1 = plan_features(case["mplan"], bs)
    nt2, cls2, k2, o2 = plan_features(case["aplan"], bs) if case["aplan"] else (False, (), (), ())
    if nt1 or nt2:
        rec.nt(label, direction, cls1, cls2, k1, k2, o1)
    rec.event(label)
    rec.sample({"class": label, "dir": direction, "len": len(pt), "aplan": case["aplan"], "mplan": case["mplan"]})


# ------------------------------------------------------------------ hashes, XOFs, MACs
HASHLIKE = ["MD2", "MD4", "MD5", "RIPEMD160", "SHA1", "SHA224", "SHA256", "SHA384", "SHA512", "SHA512-256", "SHA3_224", "SHA3_256",
            "SHA3_384", "SHA3_512", "BLAKE2b", "BLAKE2s", "keccak", "HMAC", "CMAC", "CMAC-DES3", "KMAC128", "KMAC256",
            "Poly1305-AES", "Poly1305-ChaCha20", "BLAKE2b-keyed", "SHAKE128", "SHAKE256", "cSHAKE128", "cSHAKE256",
            "TurboSHAKE128", "TurboSHAKE256", "KangarooTwelve", "KangarooTwelve"]
HBLOCK = {"MD2": 16, "SHA384": 128, "SHA512": 128, "SHA512-256": 128, "SHA3_224": 144, "SHA3_256": 136, "SHA3_384": 104, "SHA3_512": 72,
          "BLAKE2b": 128, "BLAKE2b-keyed": 128, "keccak": 136, "CMAC": 16, "CMAC-DES3": 8, "KMAC128": 168, "KMAC256": 136,
          "Poly1305-AES": 16, "Poly1305-ChaCha20": 16, "SHAKE128": 168, "SHAKE256": 136, "cSHAKE128": 168, "cSHAKE256": 136,
          "TurboSHAKE128": 168, "TurboSHAKE256": 136, "KangarooTwelve": 8192}


def make_hashlike(alg, key):
    """Fresh object of the class."""
    H = "Crypto.Hash."
    if alg in oracles.HASHES:
        return oracles.lib_hash_new(alg)
    if alg in ("BLAKE2b", "BLAKE2s"):
        return importlib.import_module(H + alg).new(digest_bytes=32)
    if alg == "keccak":
        return importlib.import_module(H + "keccak").new(digest_bits=256)
    if alg == "HMAC":
        from Crypto.Hash import HMAC, SHA256
        return HMAC.new(key, digestmod=SHA256)
    if alg == "CMAC":
        from Crypto.Hash import CMAC
        from Crypto.Cipher import AES
        return CMAC.new(key[:16], ciphermod=AES)
    if alg == "CMAC-DES3":
        from Crypto.Hash import CMAC
        from Crypto.Cipher import DES3
        return CMAC.new(bytes(range(2, 50, 2)), ciphermod=DES3)
    if alg.startswith("KMAC"):
        return importlib.import_module(H + alg).new(key=key, mac_len=32, custom=b"c09")
    if alg == "Poly1305-AES":
        from Crypto.Hash import Poly1305
        from Crypto.Cipher import AES
        return Poly1305.new(key=key, cipher=AES, nonce=key[:16])
    if alg == "Poly1305-ChaCha20":
        from Crypto.Hash import Poly1305
        from Crypto.Cipher import ChaCha20
        return Poly1305.new(key=key, cipher=ChaCha20, nonce=key[:12])
    if alg == "BLAKE2b-keyed":
        from Crypto.Hash import BLAKE2b
        return BLAKE2b.new(key=key, digest_bytes=64)
    if alg.startswith("cSHAKE"):
        return importlib.import_module(H + alg).new(custom=b"c09")
    if alg == "KangarooTwelve":
        return importlib.import_module(H + alg).new(custom=key[:5])
    return importlib.import_module(H + alg).new()


@st.composite
def strat_hash(draw, tier):
    alg = draw(st.sampled_from(HASHLIKE))
    block = HBLOCK.get(alg, 64)
    if alg == "KangarooTwelve":
        n = draw(st.one_of(st.integers(0, 300), st.sampled_from([8191, 8192, 8193, 16384, 16385, 24577, 8192 * 3 + 100]), st.integers(8000, 8400)))
    else:
        n = draw(st.one_of(st.integers(0, 3 * block + 2), st.sampled_from([block - 1, block, block + 1, 2 * block - 1, 2 * block, 2 * block + 1, 5 * block + 3])))
    data = draw(gen.data_of(st.just(n)))
    plan = draw(seg_plan(n, block, max_cuts=6))
    c = {"alg": alg, "data": data, "plan": [[p[0], p[1]] for p in plan], "key": draw(st.binary(min_size=32, max_size=32))}
    if alg.startswith(("SHAKE", "cSHAKE", "Turbo", "Kangaroo")):
        total = draw(st.one_of(st.integers(0, 80), st.sampled_from([135, 136, 137, 167, 168, 169, 336, 337, 500])))
        c["reads"] = draw(gen.partition(total, HBLOCK.get(alg, 168) if alg != "KangarooTwelve" else 168, 4))
    return c


def run_hash(case, rec):
    alg, data, plan, key = case["alg"], case["data"], case["plan"], case["key"]
    label = "seg/" + alg
    block = HBLOCK.get(alg, 64)
    one = make_hashlike(alg, key)
    one.update(bytes(data))
    obj = make_hashlike(alg, key)
    p = 0
    for n, bufkind in plan:
        buf = gen.as_buffer(data[p:p + n], bufkind)
        obj.update(buf)
        if isinstance(buf, (bytearray, memoryview)) and bytes(buf) != data[p:p + n]:
            raise Violation("%s/input-buffer-modified" % label, "update() modified its input buffer")
        p += n
    if "reads" in case:
        total = sum(case["reads"])
        want = bytes(one.read(total))
        got = b"".join(bytes(obj.read(n)) for n in case["reads"])
    else:
        want = bytes(one.digest())
        got = bytes(obj.digest())
    if got != want:
        raise Violation("%s/segmentation" % label, "result depends on the split of update()/read() calls (plan %r, reads %r)" % (plan, case.get("reads")),
                        alg=alg, len=len(data), plan=plan, reads=case.get("reads"))
    nontriv, cls, kinds, _ = plan_features([[a, b, "ret"] for a, b in plan], block)
    if nontriv or len(case.get("reads", [])) > 1:
        rec.nt(label, cls, kinds, min(len(case.get("reads", [])), 3))
    rec.event(label)
    rec.sample({"class": label, "len": len(data), "plan": plan, "reads": case.get("reads")})


# ------------------------------------------------------------------ exhaustive two-cut partitions for 16-byte-cache classes
def cases_twocut(tier, shard, nshards):
    classes = ["GCM", "CCM", "EAX", "OCB", "ChaCha20_Poly1305", "CMAC", "CBC-dec", "CFB128-dec", "CTR", "OFB", "OPENPGP-dec"]
    L = 50 if tier == "thorough" else 36
    out = []
    for cl in classes:
        for i in range(0, L + 1):
            out.append({"class": cl, "i": i, "L": L})
    return [c for k, c in enumerate(out) if k % nshards == shard]


def run_twocut(case, rec):
    """All partitions of an L-byte AAD and an L-byte message into three segments [0:i], [i:j], [j:L] for one i, all j>=i."""
    from Crypto.Cipher import AES, ChaCha20_Poly1305
    from Crypto.Hash import CMAC
    cl, i, L = case["class"], case["i"], case["L"]
    key = bytes(range(16))
    aad = gen.expand(b"twocut-aad", L)
    msg = gen.expand(b"twocut-msg", L if cl not in ("CBC-dec",) else 48)
    L = len(msg)

    def mk():
        if cl == "GCM":
            return AES.new(key, AES.MODE_GCM, nonce=bytes(12))
        if cl == "CCM":
            return AES.new(key, AES.MODE_CCM, nonce=bytes(11), msg_len=L, assoc_len=len(aad))
        if cl == "EAX":
            return AES.new(key, AES.MODE_EAX, nonce=bytes(16))
        if cl == "OCB":
            return AES.new(key, AES.MODE_OCB, nonce=bytes(15))
        if cl == "ChaCha20_Poly1305":
            return ChaCha20_Poly1305.new(key=key * 2, nonce=bytes(12))
        raise HarnessError(cl)
    if cl in ("GCM", "CCM", "EAX", "OCB", "ChaCha20_Poly1305"):
        e = mk()
        e.update(aad)
        ct1, tag1 = e.encrypt_and_digest(msg)
        for j in range(i, L + 1):
            o = mk()
            for seg in (aad[:i], aad[i:j], aad[j:]):
                o.update(seg)
            parts = [bytes(o.encrypt(s)) for s in (msg[:i], msg[i:j], msg[j:])]
            if cl == "OCB":
                parts.append(bytes(o.encrypt()))
            if b"".join(parts) != bytes(ct1) or bytes(o.digest()) != bytes(tag1):
                raise Violation("seg/%s/twocut" % cl, "cuts (%d,%d) change ciphertext or tag" % (i, j), **case)
            d = mk()
            for seg in (aad[:j], aad[j:]):
                d.update(seg)
            parts = [bytes(d.decrypt(s)) for s in (ct1[:i], ct1[i:j], ct1[j:])]
            if cl == "OCB":
                parts.append(bytes(d.decrypt()))
            if b"".join(parts) != msg:
                raise Violation("seg/%s/twocut-decrypt" % cl, "cuts (%d,%d) change plaintext" % (i, j), **case)
            d.verify(tag1)
    elif cl == "CMAC":
        t1 = CMAC.new(key, ciphermod=AES, msg=msg).digest()
        for j in range(i, L + 1):
            o = CMAC.new(key, ciphermod=AES)
            for seg in (msg[:i], msg[i:j], msg[j:]):
                o.update(seg)
            if o.digest() != t1:
                raise Violation("seg/CMAC/twocut", "cuts (%d,%d) change the tag" % (i, j), **case)
    else:
        def mkc():
            if cl == "CBC-dec":
                return AES.new(key, AES.MODE_CBC, iv=bytes(16))
            if cl == "CFB128-dec":
                return AES.new(key, AES.MODE_CFB, iv=bytes(16), segment_size=128)
            if cl == "CTR":
                return AES.new(key, AES.MODE_CTR, nonce=bytes(8))
            if cl == "OFB":
                return AES.new(key, AES.MODE_OFB, iv=bytes(16))
            return None
        if cl == "OPENPGP-dec":
            full = AES.new(key, AES.MODE_OPENPGP, iv=bytes(16)).encrypt(msg)
            eiv, ct = full[:18], full[18:]
            mkc = lambda: AES.new(key, AES.MODE_OPENPGP, iv=eiv)
        else:
            ct = bytes(mkc().encrypt(msg))
        step = 16 if cl == "CBC-dec" else 1
        if cl == "CBC-dec" and i % 16:
            return
        for j in range(i, L + 1, step):
            d = mkc()
            got = b"".join(bytes(d.decrypt(s)) for s in (ct[:i], ct[i:j], ct[j:]))
            if got != msg:
                raise Violation("seg/%s/twocut" % cl, "cuts (%d,%d) change the plaintext" % (i, j), **case)
            if cl == "OPENPGP-dec":
                continue        # no output= parameter in this mode
            buf = bytearray(ct)
            d = mkc()
            mv = memoryview(buf)
            for a, b in ((0, i), (i, j), (j, L)):
                if b > a:
                    d.decrypt(mv[a:b], output=mv[a:b])
            if bytes(buf) != msg:
                raise Violation("seg/%s/twocut-inplace" % cl, "in-place decryption with cuts (%d,%d) differs" % (i, j), **case)
    rec.nt(cl, i)
    rec.event("twocut:" + cl)


CHECKS = [
    Check("cipher", run=run_cipher, strategy=strat_cipher, examples=(40000, 600000), shards=(16, 16),
          rule="classic modes and stream ciphers: partition x buffer type x output mode vs one call"),
    Check("aead", run=run_aead, strategy=strat_aead, examples=(30000, 400000), shards=(16, 16),
          rule="AEAD: AAD and message partitions, buffer types, output=/in-place; ciphertext/plaintext and tag equal one-shot"),
    Check("hash", run=run_hash, strategy=strat_hash, examples=(30000, 400000), shards=(16, 16),
          rule="hashes, XOFs (absorb and squeeze), MACs: update()/read() partitions and buffer types vs one call"),
    Check("twocut", run=run_twocut, cases=cases_twocut, shards=(16, 16), exhaustive=True,
          rule="all two-cut partitions of an L-byte AAD and message for the classes with a 16-byte cache"),
]
