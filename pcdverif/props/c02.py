"""C02 — symmetric ciphers and modes compute exactly their specification and invert."""
from hypothesis import strategies as st

from ..core import Check, Violation, HarnessError, Skip, libcall
from .. import gen, oracles, sym
from ..refs import modes, stream, libcrypto as lc

META = {
    "rule": "every cipher x mode x legal key/IV/nonce/segment/counter-layout/tag length, message lengths biased to 0, 1, "
            "block+-1, 8 blocks+-1, multi-KiB; oracle = block primitive from libcrypto ECB (pure-Python AES) inside "
            "pure-Python mode references written from the specifications, plus whole-mode libcrypto results where they exist; "
            "non-trivial = message longer than one block or not block aligned or non-default parameter; "
            "distinct by (cipher, mode, key len, iv/nonce len, parameter tuple, length class)",
    "assumptions": ["libcrypto's raw block primitives (DES, 3DES, Blowfish, CAST5, RC2) and the pure AES reference are correct "
                    "(AES is cross-checked between both)",
                    "mode references in pcdverif/refs/modes.py and stream.py are validated against NIST/RFC/Wycheproof vectors, "
                    "the openssl CLI and gpg by their selftests"],
    "unexplored": ["messages above ~64 KiB", "CCM AAD longer than 2^16-2^8 bytes only in the thorough tier"],
}


@st.composite
def msg_len_strategy(draw, bs, tier, aligned=False):
    pts = [0, 1, bs - 1, bs, bs + 1, 2 * bs - 1, 2 * bs, 2 * bs + 1, 7 * bs, 8 * bs - 1, 8 * bs, 8 * bs + 1, 9 * bs, 16 * bs, 16 * bs + 1, 255 * bs, 256 * bs + 1]
    if tier == "huge":
        # the bigmsg check: more than 2^16 blocks / 2^16 bytes in one message (16-bit length or block-count slips)
        n = draw(st.sampled_from([65536 * bs + bs + 1, 65536 * bs + bs + 1, 65536 + 3]))
    else:
        big = [1024, 4096, 4097] if tier == "quick" else [1024, 4096, 4097, 16384, 65536 + 3]
        n = draw(st.one_of(st.integers(0, 4 * bs + 1), st.sampled_from(pts), st.sampled_from(pts), st.integers(0, 40 * bs), st.sampled_from(big)))
    if aligned:
        n -= n % bs
    return n


# ------------------------------------------------------------------ block modes
@st.composite
def strat_block(draw, tier):
    spec = draw(sym.block_spec())
    bs = oracles.BLOCK[spec["cipher"]]
    aligned = spec["mode"] in ("ECB", "CBC")
    n = draw(msg_len_strategy(bs, tier, aligned))
    if tier == "huge" and spec["mode"] == "CFB" and spec["segment_size"] < 8 * bs:
        n = min(n, 65536 + 3)       # the reference makes one block call per segment
    if spec["mode"] == "CTR":
        # stay below the counter limit (the limit itself is C11's subject)
        cap = (1 << (8 * spec["ctr"]["clen"])) * bs
        n = min(n, cap)
    return {"spec": spec, "pt": draw(gen.data_of(st.just(n)))}


def exposed_spec(spec, obj):
    """Spec rebuilt from the attributes the object exposes (what a peer would use)."""
    s = dict(spec)
    mode = spec.get("mode")
    if mode in ("CBC", "CFB", "OFB"):
        iv = bytes(obj.iv)
        if bytes(obj.IV) != iv:
            raise Violation("attr/iv-IV-differ", "iv and IV attributes differ")
        s["iv"] = iv
    if mode == "CTR" and spec["ctr"]["form"] == "nonce":
        c = dict(spec["ctr"])
        c["nonce"] = bytes(obj.nonce)
        c["clen"] = oracles.BLOCK[spec["cipher"]] - len(c["nonce"])
        s["ctr"] = c
    if spec["kind"] == "aead" or spec["cipher"] in ("ChaCha20", "Salsa20"):
        if not (mode == "SIV" and spec.get("nonce") is None):
            s["nonce"] = bytes(obj.nonce)
    return s


def lenclass(n, bs):
    return gen.length_class(n, bs)


def run_block(case, rec):
    spec, pt = case["spec"], case["pt"]
    bs = oracles.BLOCK[spec["cipher"]]
    label = sym.spec_label(spec)
    enc = sym.lib_new(spec)
    kind, ct = libcall(enc.encrypt, pt, allowed=(), bucket="block/%s/encrypt" % label)
    ct = bytes(ct)
    exp, _ = sym.ref_encrypt(spec, pt)
    info = {"spec": spec, "len": len(pt)}
    if ct != exp:
        raise Violation("block/%s/wrong-ciphertext" % label, "ciphertext differs from the specification (first diff at byte %d)" %
                        next((i for i in range(min(len(ct), len(exp))) if ct[i] != exp[i]), min(len(ct), len(exp))), **info)
    # AES whole-mode second opinion from libcrypto
    if spec["cipher"] == "AES" and spec["mode"] in ("CBC", "OFB") or (spec["cipher"] == "AES" and spec["mode"] == "CFB" and spec["segment_size"] in (8, 128) and len(pt) % (spec["segment_size"] // 8) == 0):
        nm = {"CBC": "cbc", "OFB": "ofb", "CFB": "cfb8" if spec.get("segment_size") == 8 else "cfb"}[spec["mode"]]
        try:
            second = lc.cipher("aes-%d-%s" % (len(spec["key"]) * 8, nm), spec["key"], spec["iv"], pt)
        except lc.LibCryptoError:
            second = None
        if second is not None and second != exp:
            raise HarnessError("libcrypto and the mode reference disagree for %s" % label)
    # library decrypt inverts
    dspec = dict(spec)
    if spec["mode"] == "OPENPGP":
        dspec["iv"] = ct[:bs + 2]
        body = ct[bs + 2:]
    else:
        body = ct
    dec = sym.lib_new(dspec)
    back = bytes(dec.decrypt(body))
    if back != pt:
        raise Violation("block/%s/decrypt-not-inverse" % label, "decrypt(encrypt(m)) != m", **info)
    # the exposed attributes are what a peer needs: the *reference* decryptor fed with them recovers the message
    es = exposed_spec(spec, enc)
    if spec["mode"] != "OPENPGP":
        if sym.ref_decrypt_noauth(es, ct) != pt:
            raise Violation("block/%s/exposed-iv-nonce-wrong" % label, "reference decryption with the object's iv/nonce attribute fails", **info)
    else:
        iv, rpt, ok = modes.openpgp_decrypt(sym.ref_bc(spec), ct)
        if rpt != pt or not ok or iv != spec["iv"] or bytes(enc.iv) != spec["iv"]:
            raise Violation("block/%s/openpgp-prefix" % label, "OpenPGP prefix/IV not as RFC 4880 13.9", **info)
    params = (len(spec["key"]), spec.get("segment_size"), spec.get("ek"),
              (spec["ctr"]["form"], spec["ctr"]["clen"], spec["ctr"].get("little")) if "ctr" in spec else None)
    if len(pt) > bs or len(pt) % bs or spec.get("segment_size", 8) != 8 or "ctr" in spec:
        rec.nt(label, params, lenclass(len(pt), bs))
    rec.event("block:" + label)
    rec.sample({"cipher": spec["cipher"], "mode": spec["mode"], "keylen": len(spec["key"]), "len": len(pt),
                "segment_size": spec.get("segment_size"), "ctr": spec.get("ctr")})


# ------------------------------------------------------------------ AEAD
@st.composite
def strat_aead(draw, tier):
    spec = draw(sym.aead_spec())
    bs = 16 if spec["cipher"] in ("AES", "ChaCha20_Poly1305") else 8
    n = draw(msg_len_strategy(bs, tier))
    if spec["mode"] == "CCM":
        n = min(n, (1 << (8 * (15 - len(spec["nonce"])))) - 1)
    pt = draw(gen.data_of(st.just(n)))
    if spec["mode"] == "SIV":
        ncomp = draw(st.one_of(st.integers(0, 4), st.sampled_from([0, 1, 2])))
        aad = [draw(gen.data_of(st.one_of(st.integers(0, 40), st.sampled_from([0, 15, 16, 17, 31, 32, 33])))) for _ in range(ncomp)]
    else:
        big = [0xFEFF, 0xFF00, 0xFF01] if (spec["mode"] == "CCM" and draw(st.integers(0, 30)) == 0) else [300]
        a = draw(gen.data_of(st.one_of(st.integers(0, 3 * bs + 1), st.sampled_from([0, 0, bs - 1, bs, bs + 1, 127, 128, 129] + big))))
        cuts = sorted(draw(st.lists(st.integers(0, len(a)), max_size=2)))
        aad = gen.split_by(a, [c2 - c1 for c1, c2 in zip([0] + cuts, cuts + [len(a)])])
    return {"spec": spec, "pt": pt, "aad": aad}


def run_aead(case, rec):
    spec, pt, aad = dict(case["spec"]), case["pt"], case["aad"]
    label = sym.spec_label(spec)
    if spec["mode"] == "SIV" and len(pt) == 0 and len(aad) == 0 and spec["nonce"] is None:
        pass   # S2V over the empty vector is reachable only through digest(); covered by check 'siv_empty'
    total_aad = sum(len(a) for a in aad)
    if spec["mode"] == "CCM":
        if spec.get("declare_msg"):
            spec["msg_len"] = len(pt)
        if spec.get("declare_assoc"):
            spec["assoc_len"] = total_aad
    enc = sym.lib_new(spec)
    for a in aad:
        enc.update(a)
    if len(pt) == 0 and spec["mode"] in ("GCM", "EAX", "CCM", "ChaCha20_Poly1305") and total_aad % 2:
        # MAC-only use (documented: update() ... digest()): no encrypt() call at all
        ct, tag = b"", enc.digest()
    elif spec["mode"] == "SIV" or spec.get("one_shot", True) and len(pt) % 3 == 0:
        ct, tag = enc.encrypt_and_digest(pt)
    else:
        ct = enc.encrypt(pt)
        if spec["mode"] == "OCB":
            ct += enc.encrypt()
        tag = enc.digest()
    ct, tag = bytes(ct), bytes(tag)
    ect, etag = sym.ref_encrypt(spec, pt, aad)
    info = {"spec": spec, "len": len(pt), "aad": [len(a) for a in aad]}
    if ct != ect:
        raise Violation("aead/%s/wrong-ciphertext" % label, "ciphertext differs from the specification", **info)
    if tag != etag:
        raise Violation("aead/%s/wrong-tag" % label, "tag %s, specification %s" % (tag.hex(), etag.hex()), **info)
    second = sym.lc_aead_encrypt(spec, pt, aad)
    if second is not None and (second[0] != ect or second[1][:len(etag)] != etag):
        raise HarnessError("libcrypto and the reference disagree for %s" % label)
    if second is not None:
        rec.event("aead-second-opinion:" + label)
    dec = sym.lib_new(spec)
    for a in aad:
        dec.update(a)
    k, back = libcall(dec.decrypt_and_verify, ct, tag, allowed=(ValueError,), bucket="aead/%s/decrypt" % label)
    if k == "exc" or bytes(back) != pt:
        raise Violation("aead/%s/decrypt-not-inverse" % label, "decrypt_and_verify of the genuine message failed", **info)
    if not (spec["mode"] == "SIV" and spec["nonce"] is None):
        if bytes(enc.nonce) != spec["nonce"]:
            raise Violation("aead/%s/nonce-attribute" % label, "nonce attribute differs from the nonce given", **info)
    bs = 16 if spec["cipher"] in ("AES", "ChaCha20_Poly1305") else 8
    rec.nt(label, len(spec["key"]), len(spec["nonce"] or b""), spec["mac_len"], lenclass(len(pt), bs), lenclass(total_aad, bs),
           len(aad) if spec["mode"] == "SIV" else 0, spec.get("declare_msg"), spec.get("declare_assoc"))
    rec.event("aead:" + label)
    rec.sample({"cipher": spec["cipher"], "mode": spec["mode"], "keylen": len(spec["key"]), "noncelen": len(spec["nonce"] or b""),
                "mac_len": spec["mac_len"], "len": len(pt), "aad": [len(a) for a in aad]})


# ------------------------------------------------------------------ SIV over the empty vector (digest only)
@st.composite
def strat_siv_empty(draw, tier):
    kl = draw(st.sampled_from([32, 48, 64]))
    return {"key": draw(st.binary(min_size=kl, max_size=kl)), "pt": draw(st.sampled_from([None, b""]))}


def run_siv_empty(case, rec):
    from Crypto.Cipher import AES
    key = case["key"]
    c = AES.new(key, AES.MODE_SIV)
    if case["pt"] is None:
        tag = bytes(c.digest())
        exp = modes.s2v(modes.aes_bc(key[:len(key) // 2]), [])
        which = "no-plaintext"
    else:
        _, tag = c.encrypt_and_digest(b"")
        tag = bytes(tag)
        exp = modes.siv_encrypt(key, [], b"")[1]
        which = "empty-plaintext"
    if tag != exp:
        raise Violation("siv/empty-vector/%s" % which, "SIV tag over the empty vector is %s, RFC 5297 S2V gives %s" % (tag.hex(), exp.hex()),
                        keylen=len(key))
    rec.nt(len(key), which)
    rec.event("siv-empty:" + which)


# ------------------------------------------------------------------ stream ciphers
@st.composite
def strat_stream(draw, tier):
    spec = draw(sym.stream_spec())
    n = draw(msg_len_strategy(64, tier))
    c = {"spec": spec, "pt": draw(gen.data_of(st.just(n)))}
    if spec["cipher"] == "ChaCha20":
        top = 70 if len(spec["nonce"]) == 8 else 38         # the key stream has 2^64 (8-byte nonce) or 2^32 blocks of 64 bytes
        c["seek"] = draw(st.one_of(st.none(), st.integers(0, 300),
                                   st.sampled_from([63, 64, 65, 64 * 255, 64 * 256 + 1, (1 << 32) * 64 - 200 if top == 70 else 1 << 20, (1 << 38) - 5000]),
                                   # any position, and the word boundaries of the block counter (2^32-1, 2^32, 2^32+1 blocks; 2^63; the last blocks)
                                   st.integers(0, (1 << top) - (1 << 21)),
                                   st.sampled_from([64 * ((1 << 32) - 1), 64 * (1 << 32) + 5, 64 * ((1 << 32) + 1), 64 * ((1 << 33) - 1) + 7, 64 * (1 << 63),
                                                    (1 << 70) - (1 << 21)] if top == 70 else [(1 << 37) + 3, (1 << 38) - (1 << 21)])))
    return c


def run_stream(case, rec):
    spec, pt = case["spec"], case["pt"]
    label = spec["cipher"]
    enc = sym.lib_new(spec)
    seek = case.get("seek")
    if seek is not None:
        if seek + len(pt) > (1 << (70 if len(spec["nonce"]) == 8 else 38)):
            raise Skip()        # crosses the end of the key stream: the limit behaviour is C11's subject
        enc.seek(seek)
        ks = stream.chacha20_stream(spec["key"], spec["nonce"], len(pt), start_block=seek // 64, start_offset=seek % 64)
        exp = bytes(a ^ b for a, b in zip(pt, ks))
    else:
        exp, _ = sym.ref_encrypt(spec, pt)
    ct = bytes(enc.encrypt(pt))
    info = {"spec": spec, "len": len(pt), "seek": seek}
    if ct != exp:
        raise Violation("stream/%s/wrong-keystream" % label, "ciphertext differs from the specification", **info)
    if label == "ChaCha20" and len(spec["nonce"]) == 12 and seek is None and len(pt) > 0:
        second = lc.cipher("chacha20", spec["key"], bytes(4) + spec["nonce"], pt)
        if second != exp:
            raise HarnessError("libcrypto and reference ChaCha20 disagree")
    if label == "ARC4" and not spec.get("drop") and len(spec["key"]) >= 1 and len(pt) > 0:
        try:
            second = lc.cipher("rc4", spec["key"], None, pt)
            if second != exp:
                raise HarnessError("libcrypto and reference RC4 disagree")
        except lc.LibCryptoError:
            pass
    dec = sym.lib_new(spec)
    if seek is not None:
        dec.seek(seek)
    if bytes(dec.decrypt(ct)) != pt:
        raise Violation("stream/%s/decrypt-not-inverse" % label, "decrypt(encrypt(m)) != m", **info)
    if label != "ARC4" and bytes(enc.nonce) != spec["nonce"]:
        raise Violation("stream/%s/nonce-attribute" % label, "nonce attribute differs", **info)
    rec.nt(label, len(spec["key"]), len(spec.get("nonce", b"")), spec.get("drop"), lenclass(len(pt), 64), seek is not None and seek % 64)
    rec.event("stream:" + label)
    rec.sample({"cipher": label, "keylen": len(spec["key"]), "len": len(pt), "seek": seek})


# ------------------------------------------------------------------ library-chosen nonce / IV
@st.composite
def strat_auto(draw, tier):
    kind = draw(st.sampled_from(["block", "aead", "aead", "stream"]))
    if kind == "block":
        spec = draw(sym.block_spec(modes_=["CBC", "CFB", "OFB", "CTR", "OPENPGP"]))
        if spec["mode"] == "CTR":
            spec["ctr"] = {"form": "nonce", "nonce": b"", "initial": 0, "initial_as_bytes": False,
                           "clen": oracles.BLOCK[spec["cipher"]]}
    elif kind == "aead":
        spec = draw(sym.aead_spec(modes_=("GCM", "CCM", "EAX", "OCB", "ChaCha20_Poly1305")))
    else:
        spec = draw(sym.stream_spec(ciphers=("ChaCha20", "Salsa20")))
    bs = 16
    n = draw(st.integers(0, 70))
    if spec.get("mode") in ("ECB", "CBC"):
        n -= n % oracles.BLOCK[spec["cipher"]]
    return {"spec": spec, "pt": draw(st.binary(min_size=n, max_size=n)), "aad": draw(st.binary(max_size=20))}


def run_auto(case, rec):
    spec, pt, aad = dict(case["spec"]), case["pt"], case["aad"]
    label = sym.spec_label(spec)
    bs = oracles.BLOCK.get(spec["cipher"], 16)
    f = sym.factory(spec["cipher"])
    kw = {}
    if spec["cipher"] == "ARC2" and "ek" in spec:
        kw["effective_keylen"] = spec["ek"]
    if spec["kind"] == "stream" or spec["cipher"] == "ChaCha20_Poly1305":
        kind, obj = libcall(f.new, key=spec["key"], allowed=(), bucket="auto/" + label)
    else:
        if spec["kind"] == "aead" and spec["mode"] != "SIV":
            kw["mac_len"] = spec["mac_len"]
        if spec.get("mode") == "CFB":
            kw["segment_size"] = spec["segment_size"]
        m = getattr(f, "MODE_" + spec["mode"])
        if spec["mode"] == "CTR" and bs < 16:
            # the library documents that it cannot create a safe random nonce for 64-bit block ciphers
            kind, obj = libcall(f.new, spec["key"], m, allowed=(TypeError,), **kw)
            if kind == "ok":
                raise Violation("auto/%s/short-block-nonce" % label, "CTR over a 64-bit block cipher created a random nonce")
            rec.event("auto:ctr-64bit-refused")
            return
        kind, obj = libcall(f.new, spec["key"], m, allowed=(), bucket="auto/" + label, **kw)
    # documented sizes of the generated value
    mode = spec.get("mode")
    if spec["kind"] == "aead":
        obj.update(aad)
        ct, tag = obj.encrypt_and_digest(pt)
        es = exposed_spec(spec, obj)
        want = {"GCM": 16, "CCM": 11, "EAX": 16, "OCB": 15, "ChaCha20_Poly1305": 12}[mode]
        if len(es["nonce"]) != want:
            raise Violation("auto/%s/nonce-length" % label, "generated nonce has %d bytes, documented %d" % (len(es["nonce"]), want))
        if sym.ref_decrypt(es, ct, [aad], tag) != pt:
            raise Violation("auto/%s/exposed-nonce-wrong" % label, "reference cannot open the message with the exposed nonce", spec=spec)
    else:
        ct = bytes(obj.encrypt(pt))
        if mode == "OPENPGP":
            iv, rpt, ok = modes.openpgp_decrypt(sym.ref_bc(spec), ct)
            if rpt != pt or not ok or bytes(obj.iv) != iv:
                raise Violation("auto/%s/openpgp-iv" % label, "OpenPGP generated IV not recoverable/exposed", spec=spec)
        else:
            es = exposed_spec(spec, obj)
            if mode in ("CBC", "CFB", "OFB") and len(es["iv"]) != bs:
                raise Violation("auto/%s/iv-length" % label, "generated IV has %d bytes" % len(es["iv"]))
            if mode == "CTR" and len(es["ctr"]["nonce"]) != bs // 2:
                raise Violation("auto/%s/nonce-length" % label, "generated CTR nonce has %d bytes, documented %d" % (len(es["ctr"]["nonce"]), bs // 2))
            if spec["cipher"] == "ChaCha20" and len(es["nonce"]) not in (8, 12):
                raise Violation("auto/%s/nonce-length" % label, "generated nonce has %d bytes" % len(es["nonce"]))
            if spec["cipher"] == "Salsa20" and len(es["nonce"]) != 8:
                raise Violation("auto/%s/nonce-length" % label, "generated nonce has %d bytes" % len(es["nonce"]))
            if sym.ref_decrypt_noauth(es, ct) != pt:
                raise Violation("auto/%s/exposed-iv-nonce-wrong" % label, "reference cannot decrypt with the exposed iv/nonce", spec=spec)
    # two objects must not get the same value (sanity of "library chose it")
    rec.nt(label, len(spec["key"]), len(pt) > 0)
    rec.event("auto:" + label)
    rec.sample({"cipher": spec["cipher"], "mode": mode, "len": len(pt)})


# ------------------------------------------------------------------ 3DES keys
@st.composite
def strat_des3(draw, tier):
    n = draw(st.sampled_from([16, 24]))
    key = bytearray(draw(st.binary(min_size=n, max_size=n)))
    kind = draw(st.sampled_from(["random", "k1=k2", "k2=k3", "k1=k2-parity", "k2=k3-parity", "k1=k3"]))
    par = draw(st.binary(min_size=8, max_size=8))
    if kind.startswith("k1=k2"):
        key[8:16] = key[0:8]
        if kind.endswith("parity"):
            key[8:16] = bytes(b ^ (p & 1) for b, p in zip(key[8:16], par))
    elif kind.startswith("k2=k3") and n == 24:
        key[16:24] = key[8:16]
        if kind.endswith("parity"):
            key[16:24] = bytes(b ^ (p & 1) for b, p in zip(key[16:24], par))
    elif kind == "k1=k3" and n == 24:
        key[16:24] = key[0:8]
    return {"key": bytes(key), "kind": kind, "pt": draw(st.binary(min_size=8, max_size=8))}


def run_des3(case, rec):
    from Crypto.Cipher import DES3
    key, pt = case["key"], case["pt"]
    degenerate = not sym.des3_ok(key)
    k, adj = libcall(DES3.adjust_key_parity, key, allowed=(ValueError,), bucket="des3/adjust")
    k2, obj = libcall(DES3.new, key, DES3.MODE_ECB, allowed=(ValueError,), bucket="des3/new")
    info = {"key": key, "kind": case["kind"]}
    if degenerate:
        if k == "ok" or k2 == "ok":
            raise Violation("des3/degenerate-key-accepted", "3DES key that degenerates to single DES was accepted", **info)
        rec.nt("degenerate", len(key), case["kind"])
    else:
        if k == "exc" or k2 == "exc":
            raise Violation("des3/valid-key-refused", "non-degenerate 3DES key refused", **info)
        adj = bytes(adj)
        if any(bin(b).count("1") % 2 != 1 for b in adj):
            raise Violation("des3/parity", "adjust_key_parity output has a byte without odd parity", **info)
        if bytes(b & 0xFE for b in adj) != bytes(b & 0xFE for b in key):
            raise Violation("des3/parity-changed-key-bits", "adjust_key_parity changed key bits", **info)
        c1 = bytes(obj.encrypt(pt))
        c2 = bytes(DES3.new(adj, DES3.MODE_ECB).encrypt(pt))
        c3 = lc.ecb("DES3", key, pt)
        if c1 != c2 or c1 != c3:
            raise Violation("des3/parity-affects-encryption", "3DES ciphertext depends on parity bits or differs from the reference", **info)
        rec.nt("valid", len(key), case["kind"])
    rec.event("des3:" + case["kind"])


# ------------------------------------------------------------------ illegal sizes adjacent to legal ranges are refused
@st.composite
def strat_illegal(draw, tier):
    what = draw(st.sampled_from(["key", "key", "iv", "nonce", "mac_len", "segment", "stream-key", "stream-nonce", "kw-len"]))
    c = {"what": what}
    if what == "key":
        c["cipher"] = draw(st.sampled_from(sym.BLOCK_CIPHERS))
        legal = set(oracles.KEYLENS[c["cipher"]])
        cand = sorted({n + d for n in legal for d in (-1, 1)} - legal | {0})
        c["n"] = draw(st.sampled_from([n for n in cand if n >= 0]))
    elif what == "iv":
        c["cipher"] = draw(st.sampled_from(sym.BLOCK_CIPHERS))
        c["mode"] = draw(st.sampled_from(["CBC", "CFB", "OFB"]))
        bs = oracles.BLOCK[c["cipher"]]
        c["n"] = draw(st.sampled_from([0, bs - 1, bs + 1, 2 * bs]))
    elif what == "nonce":
        c["mode"] = draw(st.sampled_from(["GCM", "CCM", "EAX", "OCB", "SIV", "CTR"]))
        c["n"] = draw(st.sampled_from({"GCM": [0], "CCM": [0, 6, 14, 15, 16], "EAX": [0], "OCB": [0, 16, 17], "SIV": [0], "CTR": [16, 17]}[c["mode"]]))
    elif what == "mac_len":
        c["mode"] = draw(st.sampled_from(["GCM", "CCM", "EAX", "OCB"]))
        c["n"] = draw(st.sampled_from({"GCM": [0, 3, 17], "CCM": [0, 2, 3, 5, 7, 15, 17, 18], "EAX": [0, 1, 17], "OCB": [0, 7, 17]}[c["mode"]]))
    elif what == "segment":
        c["cipher"] = draw(st.sampled_from(sym.BLOCK_CIPHERS))
        bs = oracles.BLOCK[c["cipher"]]
        c["n"] = draw(st.sampled_from([0, 1, 7, 9, 12, 8 * bs + 8, 8 * bs + 1, -8]))
    elif what == "stream-key":
        c["cipher"] = draw(st.sampled_from(["ChaCha20", "Salsa20", "ARC4", "ChaCha20_Poly1305"]))
        c["n"] = draw(st.sampled_from({"ChaCha20": [0, 16, 31, 33], "Salsa20": [0, 15, 17, 24, 31, 33], "ARC4": [0, 257],
                                       "ChaCha20_Poly1305": [0, 16, 31, 33]}[c["cipher"]]))
    elif what == "stream-nonce":
        c["cipher"] = draw(st.sampled_from(["ChaCha20", "Salsa20", "ChaCha20_Poly1305"]))
        c["n"] = draw(st.sampled_from({"ChaCha20": [0, 7, 9, 11, 13, 16, 23, 25], "Salsa20": [0, 7, 9, 12], "ChaCha20_Poly1305": [0, 7, 9, 11, 13, 23, 25]}[c["cipher"]]))
    else:
        c["mode"] = draw(st.sampled_from(["KW", "KWP"]))
        c["n"] = draw(st.sampled_from({"KW": [0, 8, 15, 17, 20, 23], "KWP": [0]}[c["mode"]]))
    return c


def run_illegal(case, rec):
    from Crypto.Cipher import AES
    what, n = case["what"], case["n"]
    bad = (ValueError,)
    if what == "key":
        f = sym.factory(case["cipher"])
        if case["cipher"] == "ARC2" and n not in oracles.KEYLENS["ARC2"]:
            pass
        thunk = lambda: f.new(bytes(range(1, n + 1)) if case["cipher"] != "DES3" else bytes((7 * i + 3) & 0xFE for i in range(n)), f.MODE_ECB).encrypt(bytes(f.block_size))
    elif what == "iv":
        f = sym.factory(case["cipher"])
        key = {"AES": bytes(16), "DES": bytes(8), "DES3": bytes(range(2, 50, 2))[:24], "Blowfish": bytes(8), "CAST": bytes(8), "ARC2": bytes(8)}[case["cipher"]]
        thunk = lambda: f.new(key, getattr(f, "MODE_" + case["mode"]), iv=bytes(n))
    elif what == "nonce":
        m = case["mode"]
        key = bytes(32) if m == "SIV" else bytes(16)
        thunk = lambda: AES.new(key, getattr(AES, "MODE_" + m), nonce=bytes(n))
    elif what == "mac_len":
        m = case["mode"]
        nonce = {"GCM": bytes(12), "CCM": bytes(11), "EAX": bytes(16), "OCB": bytes(15)}[m]
        thunk = lambda: AES.new(bytes(16), getattr(AES, "MODE_" + m), nonce=nonce, mac_len=n)
    elif what == "segment":
        f = sym.factory(case["cipher"])
        key = {"AES": bytes(16), "DES": bytes(8), "DES3": bytes(range(2, 50, 2))[:24], "Blowfish": bytes(8), "CAST": bytes(8), "ARC2": bytes(8)}[case["cipher"]]
        thunk = lambda: f.new(key, f.MODE_CFB, iv=bytes(f.block_size), segment_size=n)
    elif what == "stream-key":
        f = sym.factory(case["cipher"])
        if case["cipher"] == "ARC4":
            thunk = lambda: f.new(bytes(n))
        else:
            thunk = lambda: f.new(key=bytes(n))
    elif what == "stream-nonce":
        f = sym.factory(case["cipher"])
        thunk = lambda: f.new(key=bytes(32), nonce=bytes(n))
    else:
        m = case["mode"]
        thunk = lambda: AES.new(bytes(16), getattr(AES, "MODE_" + m)).seal(bytes(n))
    k, r = libcall(thunk, allowed=bad, bucket="illegal/%s" % what)
    if k == "ok":
        raise Violation("illegal/%s/accepted" % what, "illegal %s size %d was accepted (%s)" % (what, n, {k: v for k, v in case.items() if k != "what"}), **case)
    rec.nt(what, case.get("cipher"), case.get("mode"), n)
    rec.event("illegal:" + what)
    rec.sample(case)


# ------------------------------------------------------------------ KW / KWP
@st.composite
def strat_kw(draw, tier):
    mode = draw(st.sampled_from(["KW", "KWP"]))
    kl = draw(st.sampled_from([16, 24, 32]))
    if mode == "KW":
        n = 8 * draw(st.one_of(st.integers(2, 12), st.sampled_from([2, 3, 4, 64])))
    else:
        n = draw(st.one_of(st.integers(1, 40), st.sampled_from([1, 7, 8, 9, 15, 16, 17, 64, 513])))
    return {"mode": mode, "key": draw(st.binary(min_size=kl, max_size=kl)), "pt": draw(gen.data_of(st.just(n)))}


def run_kw(case, rec):
    from Crypto.Cipher import AES
    mode, key, pt = case["mode"], case["key"], case["pt"]
    m = getattr(AES, "MODE_" + mode)
    ct = bytes(AES.new(key, m).seal(pt))
    c = modes.aes_bc(key)
    exp = modes.kw_wrap(c, pt) if mode == "KW" else modes.kwp_wrap(c, pt)
    info = {"mode": mode, "keylen": len(key), "len": len(pt)}
    if ct != exp:
        raise Violation("kw/%s/wrong-wrapping" % mode, "wrapped key differs from RFC 3394/5649", **info)
    try:
        second = lc.cipher("id-aes%d-wrap%s" % (len(key) * 8, "-pad" if mode == "KWP" else ""), key, None, pt)
        if second is not None and second != exp:
            raise HarnessError("libcrypto and reference key wrap disagree")
    except lc.LibCryptoError:
        pass
    back = bytes(AES.new(key, m).unseal(ct))
    if back != pt:
        raise Violation("kw/%s/unseal-not-inverse" % mode, "unseal(seal(k)) != k", **info)
    rec.nt(mode, len(key), len(pt) if len(pt) < 18 else len(pt) // 8)
    rec.event("kw:" + mode)
    rec.sample(info)


# ------------------------------------------------------------------ CCM associated-data length encodings
def cases_ccm_aad(tier, shard, nshards):
    out = []
    lens = [0xFEFE, 0xFEFF, 0xFF00, 0xFF01, 0xFFFF, 0x10000, 0x10001]
    for i, n in enumerate(lens):
        for j, (nl, ml) in enumerate([(7, 16), (13, 4), (11, 8), (12, 10)]):
            if tier == "quick" and (i + j) % 2:
                continue
            out.append({"aad_len": n, "nonce_len": nl, "mac_len": ml, "keylen": [16, 24, 32][(i + j) % 3],
                        "declare": (i + j) % 3 == 0, "pt_len": [0, 1, 17, 32][j]})
    return [c for k, c in enumerate(out) if k % nshards == shard]


def run_ccm_aad(case, rec):
    spec = {"kind": "aead", "cipher": "AES", "mode": "CCM", "key": gen.expand(b"k", case["keylen"]),
            "nonce": gen.expand(b"n", case["nonce_len"]), "mac_len": case["mac_len"]}
    aad = gen.expand(b"aad", case["aad_len"])
    pt = gen.expand(b"pt", case["pt_len"])
    if case["declare"]:
        spec["assoc_len"] = len(aad)
        spec["msg_len"] = len(pt)
    enc = sym.lib_new(spec)
    enc.update(aad[:1000])
    enc.update(aad[1000:])
    ct, tag = enc.encrypt_and_digest(pt)
    ect, etag = sym.ref_encrypt(spec, pt, [aad])
    second = sym.lc_aead_encrypt(spec, pt, [aad])
    if second is not None and (second[0] != ect or second[1] != etag):
        raise HarnessError("libcrypto and reference CCM disagree at AAD length %d" % len(aad))
    if bytes(ct) != ect or bytes(tag) != etag:
        raise Violation("aead/AES/CCM/aad-length-encoding", "CCM tag wrong for %d bytes of associated data" % len(aad), **case)
    rec.nt(case["aad_len"], case["nonce_len"], case["mac_len"], case["declare"])
    rec.event("ccm-aad:%#x" % case["aad_len"])
    rec.sample(case)


# ------------------------------------------------------------------ messages of more than 2^16 blocks
@st.composite
def strat_bigmsg(draw, tier):
    kind = draw(st.sampled_from(["block", "block", "aead", "aead", "stream"]))
    c = draw({"block": strat_block, "aead": strat_aead, "stream": strat_stream}[kind]("huge"))
    c["which"] = kind
    c.pop("seek", None)
    return c


def run_bigmsg(case, rec):
    {"block": run_block, "aead": run_aead, "stream": run_stream}[case["which"]](case, rec)
    rec.event("bigmsg:%s:%s" % (case["spec"]["cipher"], case["spec"].get("mode")))


CHECKS = [
    Check("ccm_aad", run=run_ccm_aad, cases=cases_ccm_aad, shards=(8, 14),
          rule="CCM with associated data lengths around the 0xFF00 and 2^16 header-encoding thresholds"),
    Check("block", run=run_block, strategy=strat_block, examples=(40000, 600000), shards=(16, 16),
          rule="block cipher x classic mode: ciphertext == reference, decrypt inverts, exposed iv/nonce decrypts in the reference"),
    Check("aead", run=run_aead, strategy=strat_aead, examples=(20000, 300000), shards=(16, 16),
          rule="AEAD ciphertext and tag == reference (+libcrypto second opinion), genuine message opens"),
    Check("bigmsg", run=run_bigmsg, strategy=strat_bigmsg, examples=(64, 800), shards=(16, 16),
          rule="messages of 65536 blocks + 1 block + 1 byte (and 65536+3 bytes) through randomly drawn cipher/mode/parameter combinations"),
    Check("siv_empty", run=run_siv_empty, strategy=strat_siv_empty, examples=(60, 300), shards=(1, 1),
          rule="SIV over the empty vector"),
    Check("stream", run=run_stream, strategy=strat_stream, examples=(8000, 100000), shards=(8, 16),
          rule="ChaCha20/XChaCha20 (incl. seek), Salsa20, ARC4 keystream == reference"),
    Check("auto", run=run_auto, strategy=strat_auto, examples=(2000, 30000), shards=(4, 8),
          rule="library-chosen IV/nonce: documented length, exposed attribute decrypts in the reference"),
    Check("des3", run=run_des3, strategy=strat_des3, examples=(1500, 20000), shards=(2, 4),
          rule="3DES key parity / degenerate keys"),
    Check("illegal", run=run_illegal, strategy=strat_illegal, examples=(800, 5000), shards=(2, 4),
          rule="sizes adjacent to each legal key/iv/nonce/mac/segment range are refused with ValueError"),
    Check("kw", run=run_kw, strategy=strat_kw, examples=(800, 20000), shards=(2, 8),
          rule="AES-KW / AES-KWP seal == RFC 3394/5649 (reference + libcrypto), unseal inverts"),
]
