"""C05 — every key from generate/construct/import satisfies its mathematical invariants."""
import hashlib
import math

from hypothesis import strategies as st

from ..core import Check, Violation, HarnessError, Skip, libcall
from .. import gen, keys
from ..refs import ec, der

META = {
    "rule": "(i) generate() with an entropy tape (RSA 1024/1025/1031 bits x e in {3,5,17,257,65537,random odd}; DSA 1024 (+domain given); ElGamal 256; "
            "ECC nine curves); (ii) construct() with valid component tuples in every accepted shape and single-fault corruptions (n+-2, wrong d, "
            "composite/Carmichael p, p*q != n, e even/1/>=n, wrong u; DSA composite p/q (also as true single faults: composite p = p1*m or q = q1*q2 with every other domain condition holding), every domain fault "
            "offered to DSA.generate(domain=) as well as construct(), q not dividing p-1, g of wrong order or in {0,1,p-1,p}, "
            "y != g^x, x in {0,q,q+1}; ElGamal analogues incl. a Carmichael modulus; ECC off-curve (x, y+-1), coordinates >= p, twist points, point at infinity, d in "
            "{0, order, order+1}, d not matching the point, wrong-length seeds, Montgomery low-order u and their non-canonical aliases, Edwards "
            "encodings with y >= p or no square root); (iii) import_key() on valid exports and on mutated encodings. Oracle: invariants evaluated "
            "with Python ints, sympy.isprime and the reference EC arithmetic: every returned key must satisfy all invariants of its type, and "
            "every input violating an invariant named in the statement must raise ValueError. Non-trivial = corrupted/mutated input or generated "
            "key with non-default parameter; distinct by (key type, entry point, format, fault class, size)",
    "assumptions": ["sympy.isprime (BPSW) as primality oracle", "reference EC arithmetic in pcdverif/refs/ec.py"],
    "unexplored": ["the d < 2^(bits/2) retry branch of RSA.generate (probability 2^-500)", "RSA 2048/3072 generation only in the thorough tier"],
}


class Tape:
    def __init__(self, seed):
        self.h = hashlib.shake_128(b"c05" + bytes(seed))
        self.pos = 0

    def __call__(self, n):
        out = self.h.digest(self.pos + n)[self.pos:]
        self.pos += n
        return out


def isprime(n):
    import sympy
    return bool(sympy.isprime(n))


# ------------------------------------------------------------------ invariant checkers (raise Violation)
def inv_rsa(k, where, generated_bits=None, e_req=None):
    n, e = int(k.n), int(k.e)
    info = {"where": where, "n_bits": n.bit_length()}
    if not (1 < e < n):
        raise Violation("invariant/rsa/e-range", "%s returned an RSA key with e outside (1, n)" % where, **info)
    if k.has_private():
        d, p, q, u = int(k.d), int(k.p), int(k.q), int(k.u)
        if p * q != n:
            raise Violation("invariant/rsa/n!=pq", "%s returned an RSA key with n != p*q" % where, **info)
        if not (isprime(p) and isprime(q)):
            raise Violation("invariant/rsa/composite-factor", "%s returned an RSA key with a composite factor" % where, **info)
        lcm = math.lcm(p - 1, q - 1)
        if (e * d) % lcm != 1:
            raise Violation("invariant/rsa/ed!=1", "%s returned an RSA key with e*d != 1 mod lcm(p-1, q-1)" % where, **info)
        if (p * u) % q != 1:
            raise Violation("invariant/rsa/u", "%s returned an RSA key with u != p^-1 mod q" % where, **info)
        if int(k.dp) != d % (p - 1) or int(k.dq) != d % (q - 1) or (int(k.invq) * q) % p != 1 or (int(k.invp) * p) % q != 1:
            raise Violation("invariant/rsa/crt", "%s returned an RSA key with inconsistent CRT values" % where, **info)
        if generated_bits:
            b = generated_bits
            if n.bit_length() != b:
                raise Violation("generate/rsa/size", "requested %d bits, modulus has %d" % (b, n.bit_length()), **info)
            if e_req is not None and e != e_req:
                raise Violation("generate/rsa/e", "requested e=%d, key has e=%d" % (e_req, e), **info)
            sp, sq = b - b // 2, b // 2
            if p > q:
                p, q = q, p
            for f, sz in ((int(k.p), None), (int(k.q), None)):
                if f * f * 2 <= (1 << (2 * f.bit_length())) // 1 and False:
                    pass
            for f in (int(k.p), int(k.q)):
                sz = f.bit_length()
                if sz not in (sp, sq) or 2 * f * f <= (1 << (2 * sz - 1)) * 1:
                    # f > sqrt(2) * 2^(sz-1)  <=>  f^2 > 2^(2sz-1)
                    if f * f <= (1 << (2 * sz - 1)):
                        raise Violation("generate/rsa/factor-margin", "factor not above sqrt(2)*2^(size-1) (FIPS 186-4 B.3.1)", **info)
            if abs(int(k.p) - int(k.q)) <= (1 << (b // 2 - 100)):
                raise Violation("generate/rsa/pq-distance", "|p-q| <= 2^(bits/2-100)", **info)
            if math.gcd(e, int(k.p) - 1) != 1 or math.gcd(e, int(k.q) - 1) != 1:
                raise Violation("generate/rsa/gcd", "gcd(e, p-1) != 1", **info)
            if d <= (1 << (b // 2)):
                raise Violation("generate/rsa/d-small", "d <= 2^(bits/2)", **info)


def inv_dsa(k, where):
    p, q, g, y = int(k.p), int(k.q), int(k.g), int(k.y)
    info = {"where": where}
    if not (isprime(p) and isprime(q)):
        raise Violation("invariant/dsa/composite", "%s returned a DSA key with composite p or q" % where, **info)
    if (p - 1) % q:
        raise Violation("invariant/dsa/q-not-dividing", "%s returned a DSA key where q does not divide p-1" % where, **info)
    if not (1 < g < p) or pow(g, q, p) != 1:
        raise Violation("invariant/dsa/generator", "%s returned a DSA key whose g does not have order q" % where, **info)
    if not (0 < y < p):
        raise Violation("invariant/dsa/y-range", "%s returned a DSA key with y out of range" % where, **info)
    if k.has_private():
        x = int(k.x)
        if not (0 < x < q) or pow(g, x, p) != y:
            raise Violation("invariant/dsa/x", "%s returned a DSA key with x out of range or y != g^x" % where, **info)


def inv_elgamal(k, where):
    p, g, y = int(k.p), int(k.g), int(k.y)
    info = {"where": where}
    if not isprime(p):
        raise Violation("invariant/elgamal/composite", "%s returned an ElGamal key with composite p" % where, **info)
    if not (1 < g < p) or not (0 < y < p):
        raise Violation("invariant/elgamal/range", "%s returned an ElGamal key with g or y out of range" % where, **info)
    if k.has_private():
        x = int(k.x)
        if not (0 < x < p) or pow(g, x, p) != y:
            raise Violation("invariant/elgamal/x", "%s returned an ElGamal key with y != g^x" % where, **info)


def inv_ecc(k, where):
    curve = k.curve
    ref = {"NIST P-192": "P-192", "NIST P-224": "P-224", "NIST P-256": "P-256", "NIST P-384": "P-384", "NIST P-521": "P-521"}.get(curve, curve)
    C = ec.CURVES[ref]
    info = {"where": where, "curve": curve}
    p = C["p"]
    if ref.startswith("P-"):
        if k.pointQ.is_point_at_infinity():
            raise Violation("invariant/ecc/public-point-at-infinity", "%s returned a key whose public point is the point at infinity" % where, **info)
        x, y = int(k.pointQ.x), int(k.pointQ.y)
        if not (0 <= x < p and 0 <= y < p) or not ec.ws_on_curve(C, (x, y)):
            raise Violation("invariant/ecc/off-curve", "%s returned a key whose public point is not on the curve / not in range" % where, **info)
        if k.has_private():
            d = int(k.d)
            if not (1 <= d <= C["n"] - 1):
                raise Violation("invariant/ecc/d-range", "%s returned a key with d outside [1, n-1]" % where, **info)
            if ec.ws_mul(C, d, (C["Gx"], C["Gy"])) != (x, y):
                raise Violation("invariant/ecc/d-mismatch", "%s returned a key with Q != d*G" % where, **info)
    elif ref.startswith("Ed"):
        x, y = int(k.pointQ.x), int(k.pointQ.y)
        if not (0 <= x < p and 0 <= y < p) or not ec.ed_on_curve(C, (x, y)):
            raise Violation("invariant/ecc/off-curve", "%s returned an EdDSA key whose point is not on the curve / not in range" % where, **info)
        if k.has_private():
            if ec.eddsa_pubkey(ref, bytes(k.seed)) != ec.ed_encode(C, (x, y)):
                raise Violation("invariant/ecc/seed-mismatch", "%s returned an EdDSA key whose public point does not match the seed" % where, **info)
    else:
        u = int(k.pointQ.x)
        if not (0 <= u < p):
            raise Violation("invariant/ecc/u-range", "%s returned an X key with u out of range" % where, **info)
        if u in ec.mont_low_order_us(C):
            raise Violation("invariant/ecc/low-order-u", "%s returned an X25519/X448 key with a listed low-order u" % where, **info)
        if k.has_private():
            f = ec.x25519 if ref == "Curve25519" else ec.x448
            ln = 32 if ref == "Curve25519" else 56
            base = (9 if ref == "Curve25519" else 5).to_bytes(ln, "little")
            if int.from_bytes(f(bytes(k.seed), base), "little") != u:
                raise Violation("invariant/ecc/seed-mismatch", "%s returned an X key whose u does not match the clamped seed" % where, **info)


def check_key(k, where, **kw):
    name = type(k).__name__
    if name == "RsaKey":
        inv_rsa(k, where, **kw)
    elif name == "DsaKey":
        inv_dsa(k, where)
    elif name == "ElGamalKey":
        inv_elgamal(k, where)
    else:
        inv_ecc(k, where)


# ------------------------------------------------------------------ (i) generate with tapes
@st.composite
def strat_generate(draw, tier):
    # DSA domain generation (seconds to a minute) and ElGamal safe primes are rare in the quick tier
    slow = draw(st.integers(0, 63 if tier == "quick" else 11)) == 0
    if slow:
        what = draw(st.sampled_from(["dsa", "elgamal"]))
    else:
        what = draw(st.sampled_from(["rsa", "rsa", "dsa-domain", "dsa-domain", "ecc", "ecc", "ecc", "ecc"]))
    c = {"what": what, "seed": draw(st.binary(min_size=8, max_size=8))}
    if what == "rsa":
        c["bits"] = draw(st.sampled_from([1024, 1024, 1025, 1031] if tier == "quick" else [1024, 1025, 1031, 1536, 2048, 3072]))
        c["e"] = draw(st.one_of(st.sampled_from([3, 5, 17, 257, 65537]), st.integers(3, 1 << 40).map(lambda v: v | 1)))
    elif what == "ecc":
        c["curve"] = draw(st.sampled_from(keys.ALL_CURVES))
    return c


def run_generate(case, rec):
    from Crypto.PublicKey import RSA, DSA, ECC, ElGamal
    what = case["what"]
    t1, t2 = Tape(case["seed"]), Tape(case["seed"])
    if what == "rsa":
        k = RSA.generate(case["bits"], randfunc=t1, e=case["e"])
        check_key(k, "RSA.generate", generated_bits=case["bits"], e_req=case["e"])
        if case["bits"] <= 1031:
            k2 = RSA.generate(case["bits"], randfunc=t2, e=case["e"])
            if k2 != k or int(k2.d) != int(k.d):
                raise Violation("generate/rsa/nondeterministic", "same entropy tape gave different RSA keys")
        rec.nt("rsa", case["bits"], case["e"] if case["e"] < 70000 else "rand")
    elif what == "dsa-domain":
        y, g, p, q, x = keys.dsa_numbers()
        k = DSA.generate(1024, randfunc=t1, domain=(p, q, g))
        check_key(k, "DSA.generate(domain)")
        if (int(k.p), int(k.q), int(k.g)) != (p, q, g):
            raise Violation("generate/dsa/domain-changed", "DSA.generate did not use the supplied domain")
        rec.nt("dsa-domain")
    elif what == "dsa":
        k = DSA.generate(1024, randfunc=t1)
        check_key(k, "DSA.generate")
        if int(k.p).bit_length() != 1024 or int(k.q).bit_length() != 160:
            raise Violation("generate/dsa/size", "DSA.generate(1024) returned L=%d N=%d" % (int(k.p).bit_length(), int(k.q).bit_length()))
        rec.nt("dsa")
    elif what == "elgamal":
        k = ElGamal.generate(256, t1)
        check_key(k, "ElGamal.generate")
        if int(k.p).bit_length() != 256:
            raise Violation("generate/elgamal/size", "ElGamal.generate(256) returned %d bits" % int(k.p).bit_length())
        if not isprime((int(k.p) - 1) // 2):
            raise Violation("generate/elgamal/not-safe-prime", "ElGamal p is not a safe prime")
        rec.nt("elgamal")
    else:
        k = ECC.generate(curve=case["curve"], randfunc=t1)
        check_key(k, "ECC.generate")
        k2 = ECC.generate(curve=case["curve"], randfunc=t2)
        if k2 != k:
            raise Violation("generate/ecc/nondeterministic", "same entropy tape gave different ECC keys")
        rec.nt("ecc", case["curve"])
    rec.event("generate:" + what)
    rec.sample({k_: v for k_, v in case.items() if k_ != "seed"})


# ------------------------------------------------------------------ (ii) construct with corruptions
RSA_FAULTS = ["valid-ne", "valid-ned", "valid-nedpq", "valid-nedpqu", "valid-swapped", "n+2", "n-2", "d+2", "d-wrong-mod", "p-composite", "p-carmichael",
              "pq!=n", "e-1", "e>=n", "u-wrong", "q-composite", "d=1", "d>=n", "n-even", "p=q", "q=0", "p=0", "n=0"]
DSA_FAULTS = ["valid-4", "valid-5", "p-composite", "q-composite", "p-composite-only", "q-composite-only", "q-not-dividing", "g=0", "g=1", "g=p-1", "g=p", "g-wrong-order", "y!=g^x", "x=0", "x=q", "x=q+1",
              "y=0", "y=p", "y>=p", "q=0", "p=0"]
DSA_DOMAIN_FAULTS = {"valid-4", "valid-5", "p-composite", "q-composite", "p-composite-only", "q-composite-only", "q-not-dividing", "g=0", "g=1", "g=p-1", "g=p",
                     "g-wrong-order"}      # not q=0 / p=0: generate() answers ZeroDivisionError there, and C05 fixes no exception type for generate()
ELG_FAULTS = ["valid-3", "valid-4", "p-composite", "p-carmichael", "g=1", "g=p", "y!=g^x", "x=0", "x=p", "y=0", "y=p"]
ECC_FAULTS = ["valid-d", "valid-xy", "valid-dxy", "valid-seed", "off-curve-y+1", "off-curve-y-1", "x>=p", "y>=p", "infinity", "twist", "d=0", "d=n", "d=n+1",
              "d-mismatch", "d-mismatch-special", "d-mismatch-special", "seed-short", "seed-long", "mont-low-order", "mont-low-order-alias", "ed-not-on-curve", "x-only-for-ws", "d-and-seed"]


@st.composite
def strat_construct(draw, tier):
    fam = draw(st.sampled_from(["rsa", "rsa", "dsa", "elgamal", "ecc", "ecc", "ecc"]))
    c = {"fam": fam, "seed": draw(st.binary(min_size=8, max_size=8)), "pos": draw(st.integers(0, 10 ** 6))}
    if fam == "rsa":
        c["fault"] = draw(st.sampled_from(RSA_FAULTS))
        c["bits"] = draw(st.sampled_from([1024, 1025, 1031]))
        c["e"] = draw(st.sampled_from([65537, 3, 17]))
    elif fam == "dsa":
        c["fault"] = draw(st.sampled_from(DSA_FAULTS))
    elif fam == "elgamal":
        c["fault"] = draw(st.sampled_from(ELG_FAULTS))
    else:
        c["fault"] = draw(st.sampled_from(ECC_FAULTS))
        c["curve"] = draw(st.sampled_from(keys.ALL_CURVES))
    return c


def carmichael(bits):
    import sympy
    m = (1 << (bits // 3)) // 6
    while True:
        m += 1
        if sympy.isprime(6 * m + 1) and sympy.isprime(12 * m + 1) and sympy.isprime(18 * m + 1):
            return (6 * m + 1) * (12 * m + 1) * (18 * m + 1)


_CARM = {}


def run_construct(case, rec):
    from Crypto.PublicKey import RSA, DSA, ECC, ElGamal
    fam, fault = case["fam"], case["fault"]
    info = {"fam": fam, "fault": fault, "curve": case.get("curve"), "bits": case.get("bits")}
    must_refuse = not fault.startswith("valid")
    if fam == "rsa":
        n, e, d, p, q = keys.rsa_numbers(case["bits"], 0, case["e"])
        u = pow(p, -1, q)
        lcm = math.lcm(p - 1, q - 1)
        import sympy
        tup = {
            "valid-ne": (n, e), "valid-ned": (n, e, d), "valid-nedpq": (n, e, d, p, q), "valid-nedpqu": (n, e, d, p, q, u), "valid-swapped": (n, e, d, q, p),
            "n+2": (n + 2, e, d, p, q), "n-2": (n - 2, e, d, p, q), "d+2": (n, e, d + 2, p, q), "d-wrong-mod": (n, e, (d + (p - 1)) if math.gcd(q - 1, p - 1) != q - 1 else d + 2, p, q),
            "pq!=n": (n, e, d, p, int(sympy.nextprime(q))), "e-1": (n, 1, d, p, q), "e>=n": (n, n + 2, d, p, q), "u-wrong": (n, e, d, p, q, u + 1),
            "q=0": (n, e, d, p, 0), "p=0": (n, e, d, 0, q), "n=0": (0, e, d, p, q), "d=1": (n, e, 1, p, q), "d>=n": (n, e, d + lcm * (n // lcm + 1), p, q), "n-even": (n + 1, e), "p=q": (p * p, e, pow(e, -1, p * (p - 1)) if math.gcd(e, p * (p - 1)) == 1 else d, p, p),
        }.get(fault)
        if fault in ("p-composite", "q-composite", "p-carmichael"):
            # composite "factor" with n = p'*q and d consistent with the fake factorisation
            if fault == "p-carmichael":
                if case["bits"] not in _CARM:
                    _CARM[case["bits"]] = carmichael(case["bits"] // 2)
                pc = _CARM[case["bits"]]
            else:
                a = int(sympy.nextprime(1 << (case["bits"] // 4)))
                b = int(sympy.nextprime(a + 1000))
                pc = a * b
            qq = q
            for _ in range(50):
                if math.gcd(e, math.lcm(pc - 1, qq - 1)) == 1:
                    break
                qq = int(sympy.nextprime(qq))
            else:
                raise Skip()
            n2 = pc * qq
            d2 = pow(e, -1, math.lcm(pc - 1, qq - 1))
            tup = (n2, e, d2, pc, qq) if fault != "q-composite" else (n2, e, d2, qq, pc)
        if fault == "d-wrong-mod":
            must_refuse = (e * tup[2]) % lcm != 1
        f = lambda: RSA.construct(tup)
        entry = "RSA.construct"
    elif fam == "dsa":
        y, g, p, q, x = keys.dsa_numbers()
        import sympy
        wrong_g = pow(2, (p - 1) // q, p)
        if wrong_g == g:
            wrong_g = pow(3, (p - 1) // q, p)
        tup = {
            "valid-4": (y, g, p, q), "valid-5": (y, g, p, q, x), "p-composite": (y, g, p + 2 if not sympy.isprime(p + 2) else p + 4, q, x),
            "q-composite": (y, g, p, q + 2 if not sympy.isprime(q + 2) else q + 4, x), "q-not-dividing": (y, g, p, int(sympy.nextprime(q)), x),
            "g=0": (y, 0, p, q, x), "g=1": (1, 1, p, q, x), "g=p-1": (pow(p - 1, x, p), p - 1, p, q, x), "g=p": (y, p, p, q, x),
            "g-wrong-order": (pow(2, x, p), 2, p, q, x), "y!=g^x": (y + 1, g, p, q, x), "x=0": (1, g, p, q, 0), "x=q": (1, g, p, q, q), "x=q+1": (g, g, p, q, q + 1),
            "y=0": (0, g, p, q), "y=p": (p, g, p, q), "y>=p": (y + p, g, p, q), "q=0": (y, g, p, 0, x), "p=0": (y, g, 0, q, x),
        }.get(fault)
        if tup is None:
            # exactly one domain condition violated (the plain p-/q-composite faults above also break q | p-1 or g^q = 1)
            p_, q_, g_ = keys.dsa_single_fault_domain(fault)
            x_ = x % (q_ - 1) + 1
            tup = (pow(g_, x_, p_), g_, p_, q_, x_)
        if fault == "g-wrong-order" and pow(2, q, p) == 1:
            raise Skip()
        f = lambda: DSA.construct(tup)
        entry = "DSA.construct"
        if fault in DSA_DOMAIN_FAULTS and case["pos"] % 2:
            # the same domain handed to generate(): it must be refused, or the key that comes back must satisfy every invariant
            dom = (tup[2], tup[3], tup[1])
            f = lambda: DSA.generate(1024, randfunc=Tape(case["seed"]), domain=dom)
            entry = "DSA.generate(domain)"
            info["entry"] = entry
    elif fam == "elgamal":
        p, g, y, x = keys.elgamal_numbers(256)
        tup = {"valid-3": (p, g, y), "valid-4": (p, g, y, x), "p-composite": (p + 2, g, y, x), "g=1": (p, 1, 1, x), "g=p": (p, p, y, x), "y!=g^x": (p, g, y + 1, x),
               "x=0": (p, g, 1, 0), "x=p": (p, g, pow(g, p, p), p), "y=0": (p, g, 0), "y=p": (p, g, p)}.get(fault)
        if tup is None:
            # single fault: a Carmichael modulus C (g^(C-1) = 1 mod C for every g coprime to C) with y = g^x mod C: only the primality test can refuse it
            C_ = keys._cached("elg-carmichael-256", lambda: [carmichael(256)])[0]
            g_ = 2 + case["pos"] % 50
            if math.gcd(g_, C_) != 1 or pow(g_, C_ - 1, C_) != 1:
                raise Skip()
            tup = (C_, g_, pow(g_, x, C_), x)
        f = lambda: ElGamal.construct(tup)
        entry = "ElGamal.construct"
    else:
        curve = case["curve"]
        C = ec.CURVES[keys.REFNAME[curve]]
        p = C["p"]
        nist = curve in keys.NIST
        ed = curve.startswith("ed")
        kw = {"curve": curve}
        if nist:
            n = C["n"]
            d = keys.ecc_scalar(curve, case["seed"])
            Q = ec.ws_mul(C, d, (C["Gx"], C["Gy"]))
            if fault == "valid-d":
                kw["d"] = d
            elif fault == "valid-xy":
                kw.update(point_x=Q[0], point_y=Q[1])
            elif fault == "valid-dxy":
                kw.update(d=d, point_x=Q[0], point_y=Q[1])
            elif fault == "off-curve-y+1":
                kw.update(point_x=Q[0], point_y=(Q[1] + 1) % p)
            elif fault == "off-curve-y-1":
                kw.update(point_x=Q[0], point_y=(Q[1] - 1) % p)
            elif fault == "x>=p":
                if (Q[0] + p).bit_length() > 8 * C["size"]:
                    # make x small so that x+p fits in the field size
                    for t in range(1, 400):
                        P2 = ec.ws_decompress(C, t, 0)
                        if P2 is not None and (t + p).bit_length() <= 8 * C["size"]:
                            Q = P2
                            break
                    else:
                        raise Skip()
                    if (Q[0] + p).bit_length() > 8 * C["size"]:
                        raise Skip()
                kw.update(point_x=Q[0] + p, point_y=Q[1])
            elif fault == "y>=p":
                if (Q[1] + p).bit_length() > 8 * C["size"]:
                    raise Skip()
                kw.update(point_x=Q[0], point_y=Q[1] + p)
            elif fault == "infinity":
                kw.update(point_x=0, point_y=0)
            elif fault == "twist":
                # a point of the quadratic twist: x such that x^3+ax+b is a non-residue; y arbitrary
                for t in range(2, 400):
                    if ec.ws_decompress(C, t, 0) is None:
                        kw.update(point_x=t, point_y=(case["pos"] % (p - 1)) + 1)
                        break
            elif fault in ("d=0", "d=n", "d=n+1"):
                kw["d"] = {"d=0": 0, "d=n": n, "d=n+1": n + 1}[fault]
            elif fault == "d-mismatch":
                kw.update(d=d % (n - 1) + 1 if d + 1 < n else d - 1, point_x=Q[0], point_y=Q[1])
                kw["d"] = d + 1 if d + 1 < n else d - 1
            elif fault == "d-mismatch-special":
                # a private scalar together with a *foreign* point that is on the curve and has a special shape: x = 0 (where b is a square),
                # the generator, its negative, -Q
                cands = [(C["Gx"], C["Gy"]), (C["Gx"], p - C["Gy"]), (Q[0], p - Q[1])]
                P0 = ec.ws_decompress(C, 0, 0)
                if P0 is not None:
                    cands += [P0, P0, (P0[0], p - P0[1])]
                P_ = cands[case["pos"] % len(cands)]
                if tuple(P_) == tuple(Q):
                    raise Skip()
                kw.update(d=d, point_x=P_[0], point_y=P_[1])
            elif fault == "x-only-for-ws":
                kw.update(point_x=Q[0])
            elif fault == "d-and-seed":
                kw.update(d=d, seed=bytes(32))
            else:
                raise Skip()
        else:
            ln = keys.SEEDLEN[curve]
            seed = keys.ecc_seed(curve, case["seed"])
            if fault == "valid-seed":
                kw["seed"] = seed
            elif fault == "seed-short":
                kw["seed"] = seed[:-1]
            elif fault == "seed-long":
                kw["seed"] = seed + b"\0"
            elif fault == "d-and-seed":
                kw.update(d=5, seed=seed)
            elif ed:
                A = ec.ed_decode(C, ec.eddsa_pubkey(keys.REFNAME[curve], seed))
                if fault == "valid-xy":
                    kw.update(point_x=A[0], point_y=A[1])
                elif fault == "valid-dxy":
                    kw.update(seed=seed, point_x=A[0], point_y=A[1])
                elif fault in ("off-curve-y+1", "ed-not-on-curve"):
                    kw.update(point_x=A[0], point_y=(A[1] + 1) % p)
                elif fault == "off-curve-y-1":
                    kw.update(point_x=A[0], point_y=(A[1] - 1) % p)
                elif fault == "y>=p":
                    if (A[1] + p).bit_length() > 8 * ln:
                        raise Skip()
                    kw.update(point_x=A[0], point_y=A[1] + p)
                elif fault == "x>=p":
                    if (A[0] + p).bit_length() > 8 * ln:
                        raise Skip()
                    kw.update(point_x=A[0] + p, point_y=A[1])
                elif fault == "d-mismatch-special":
                    # the seed together with a foreign point of small order (zero coordinates), the base point or -A
                    cands = [(0, 1), (0, p - 1), (C["Gx"], C["Gy"]), ((p - A[0]) % p, A[1])]
                    if curve == "ed448":
                        cands += [(1, 0), (p - 1, 0)]
                    else:
                        i_ = pow(2, (p - 1) // 4, p)         # sqrt(-1) mod 2^255-19
                        cands += [(i_, 0), (p - i_, 0)]
                    P_ = cands[case["pos"] % len(cands)]
                    if not ec.ed_on_curve(C, P_) or tuple(P_) == tuple(A):
                        raise Skip()
                    kw.update(seed=seed, point_x=P_[0], point_y=P_[1])
                elif fault == "d-mismatch":
                    A2 = ec.ed_decode(C, ec.eddsa_pubkey(keys.REFNAME[curve], seed[::-1]))
                    kw.update(seed=seed, point_x=A2[0], point_y=A2[1])
                elif fault == "infinity":
                    kw.update(point_x=0, point_y=0)
                else:
                    raise Skip()
            else:
                f_ = ec.x25519 if curve == "curve25519" else ec.x448
                base = (9 if curve == "curve25519" else 5).to_bytes(ln, "little")
                u = int.from_bytes(f_(seed, base), "little")
                lo = ec.mont_low_order_us(C)
                if fault == "valid-xy":
                    kw.update(point_x=u)
                elif fault == "valid-dxy":
                    kw.update(seed=seed, point_x=u)
                elif fault == "mont-low-order":
                    kw.update(point_x=lo[case["pos"] % len(lo)])
                elif fault == "mont-low-order-alias":
                    v = lo[case["pos"] % len(lo)] + p
                    if v.bit_length() > 8 * ln:
                        raise Skip()
                    kw.update(point_x=v)
                elif fault == "x>=p":
                    # RFC 7748: non-canonical u-coordinates are accepted and processed as if reduced: nothing to refuse here
                    raise Skip()
                elif fault == "d-mismatch":
                    kw.update(seed=seed, point_x=int.from_bytes(f_(seed[::-1], base), "little"))
                else:
                    raise Skip()
        f = lambda: ECC.construct(**kw)
        entry = "ECC.construct"
        if fault in ("x-only-for-ws", "d-and-seed"):
            must_refuse = None      # argument-shape errors: any refusal or a valid key is fine
    kind, k = libcall(f, allowed=(ValueError, TypeError) if must_refuse is None else (ValueError,), bucket="construct/%s/%s" % (fam, fault))
    if kind == "ok":
        # whatever was accepted must satisfy every invariant (the corruption must have been immaterial)
        try:
            check_key(k, entry)
        except Violation as v:
            raise Violation("construct/%s/%s/%s" % (fam, fault, v.bucket.split("/", 1)[1]), "%s accepted a %s input: %s" % (entry, fault, v.message), **info)
        if must_refuse:
            raise Violation("construct/%s/accepted/%s" % (fam, fault), "%s accepted an input violating a stated invariant (%s)" % (entry, fault), **info)
    else:
        if must_refuse is False:
            raise Violation("construct/%s/valid-refused/%s" % (fam, fault), "%s refused valid components (%s): %s" % (entry, fault, k), **info)
    rec.nt(fam, fault, case.get("curve"), case.get("bits"), kind)
    rec.event("construct:%s:%s:%s" % (fam if entry != "DSA.generate(domain)" else "dsa-generate", fault, "accepted" if kind == "ok" else "refused"))
    rec.sample(info)


# ------------------------------------------------------------------ (iii) import of mutated encodings
@st.composite
def strat_import(draw, tier):
    from .c13 import KEYKINDS
    return {"kind": draw(st.sampled_from(KEYKINDS)), "fidx": draw(st.integers(0, 6)), "nmut": draw(st.integers(0, 2)),
            "ops": [[draw(st.sampled_from(["flip", "flip", "set", "swap-int", "inc-int", "zero-int"])), draw(st.integers(0, 10 ** 6)), draw(st.integers(0, 255))] for _ in range(2)]}


def int_positions(raw):
    """(offset, length) of the content of every INTEGER / OCTET STRING / BIT STRING at any depth of a DER blob."""
    out = []

    def walk(node, base):
        hdr = node.header_len
        if node.children is not None:
            off = base + hdr
            for ch in node.children:
                walk(ch, off)
                off += len(ch.raw)
        else:
            if node.cls == 0 and node.tag in (2, 3, 4) and len(node.content) > 0:
                out.append((base + hdr, len(node.content), node.tag))
                if node.tag in (3, 4):
                    inner = node.content[1:] if node.tag == 3 else node.content
                    try:
                        sub = der.parse(inner)
                        walk(sub, base + hdr + (1 if node.tag == 3 else 0))
                    except der.DerError:
                        pass
    try:
        walk(der.parse(raw), 0)
    except der.DerError:
        pass
    return out


def run_import(case, rec):
    from .c13 import export, importer
    out, fmt, kw = export(case["kind"], case["fidx"])
    if out is None or fmt != "DER" or kw.get("passphrase"):
        raise Skip()
    imp, allowed, family = importer(case["kind"])
    raw = bytearray(out)
    pos = int_positions(bytes(raw))
    label = "none"
    for op, where_, val in case["ops"][:case["nmut"]]:
        if not pos:
            break
        off, ln, tag = pos[where_ % len(pos)]
        label = op
        if op == "flip":
            i = off + (where_ // 7) % ln
            raw[i] ^= 1 << (val % 8)
        elif op == "set":
            raw[off + (where_ // 7) % ln] = val
        elif op == "inc-int":
            raw[off + ln - 1] = (raw[off + ln - 1] + 1 + val % 3) & 0xFF
        elif op == "zero-int":
            for i in range(off + 1, off + ln):
                raw[i] = 0
        elif op == "swap-int":
            off2, ln2, _ = pos[(where_ // 11) % len(pos)]
            if ln2 == ln and off2 != off:
                raw[off:off + ln], raw[off2:off2 + ln2] = raw[off2:off2 + ln2], raw[off:off + ln]
    data = bytes(raw)
    kind, k = libcall(imp, data, allowed=allowed, bucket="import/%s" % family)
    if kind == "ok":
        try:
            check_key(k, "%s.import_key" % family)
        except Violation as v:
            raise Violation("import/%s/%s" % (family, v.bucket.split("/", 1)[1]), "import_key accepted a mutated encoding (%s): %s" % (label, v.message),
                            kind=case["kind"], data=data)
    rec.nt(family, case["kind"], label, kind)
    rec.event("import:%s:%s:%s" % (family, label, "accepted" if kind == "ok" else "refused"))
    rec.sample({"kind": case["kind"], "mutation": label, "outcome": kind})


# ------------------------------------------------------------------ SEC1 / raw point encodings offered to import
@st.composite
def strat_points(draw, tier):
    curve = draw(st.sampled_from(keys.ALL_CURVES))
    return {"curve": curve, "fault": draw(st.sampled_from(["valid", "valid-compressed", "x>=p", "compressed-x>=p", "off-curve", "infinity-04", "infinity-00", "hybrid",
                                                            "ed-y>=p", "ed-no-root", "ed-x0-sign", "mont-low", "mont-noncanonical", "wrong-length"])),
            "seed": draw(st.binary(min_size=8, max_size=8)), "pos": draw(st.integers(0, 10 ** 6))}


def run_points(case, rec):
    from Crypto.PublicKey import ECC
    from Crypto.Signature import eddsa
    from Crypto.Protocol import DH
    curve, fault = case["curve"], case["fault"]
    C = ec.CURVES[keys.REFNAME[curve]]
    p = C["p"]
    info = {"curve": curve, "fault": fault}
    must_refuse = not fault.startswith("valid")
    if curve in keys.NIST:
        sz = C["size"]
        d = keys.ecc_scalar(curve, case["seed"])
        Q = ec.ws_mul(C, d, (C["Gx"], C["Gy"]))
        small = None
        for t in range(1, 400):
            P2 = ec.ws_decompress(C, t, case["pos"] % 2)
            if P2 is not None:
                small = P2
                break
        if fault == "valid":
            data = ec.sec1_encode(C, Q, False)
        elif fault == "valid-compressed":
            data = ec.sec1_encode(C, Q, True)
        elif fault == "x>=p":
            if (small[0] + p).bit_length() > 8 * sz:
                raise Skip()
            data = b"\x04" + (small[0] + p).to_bytes(sz, "big") + small[1].to_bytes(sz, "big")
        elif fault == "compressed-x>=p":
            if (small[0] + p).bit_length() > 8 * sz:
                raise Skip()
            data = bytes([2 + (small[1] & 1)]) + (small[0] + p).to_bytes(sz, "big")
        elif fault == "off-curve":
            data = b"\x04" + Q[0].to_bytes(sz, "big") + ((Q[1] + 1) % p).to_bytes(sz, "big")
        elif fault == "infinity-04":
            data = b"\x04" + bytes(2 * sz)
        elif fault == "infinity-00":
            data = b"\x00"
        elif fault == "hybrid":
            data = bytes([6 + (Q[1] & 1)]) + Q[0].to_bytes(sz, "big") + Q[1].to_bytes(sz, "big")
        elif fault == "wrong-length":
            data = ec.sec1_encode(C, Q, False)[:-1]
        else:
            raise Skip()
        f = lambda: ECC.import_key(data, curve_name=curve)
    elif curve.startswith("ed"):
        ln = keys.SEEDLEN[curve]
        seed = keys.ecc_seed(curve, case["seed"])
        pk = ec.eddsa_pubkey(keys.REFNAME[curve], seed)
        if fault == "valid":
            data = pk
        elif fault == "ed-y>=p":
            y = int.from_bytes(pk, "little") & ((1 << (8 * ln - 1)) - 1)
            v = (case["pos"] % 19) + p if curve == "ed25519" else p + case["pos"] % 1000
            if v.bit_length() > 8 * ln - 1:
                raise Skip()
            data = v.to_bytes(ln, "little")
        elif fault == "ed-no-root":
            v = int.from_bytes(pk, "little") & ((1 << (8 * ln - 1)) - 1)
            for t in range(1, 300):
                cand = ((v + t) % p).to_bytes(ln, "little")
                if ec.ed_decode(C, cand) is None:
                    data = cand
                    break
            else:
                raise Skip()
        elif fault == "ed-x0-sign":
            b = bytearray(ec.ed_encode(C, (0, 1) if case["pos"] % 2 else (0, p - 1)))
            b[-1] |= 0x80
            data = bytes(b)
        elif fault == "wrong-length":
            data = pk[:-1]
        else:
            raise Skip()
        f = lambda: eddsa.import_public_key(data)
    else:
        ln = keys.SEEDLEN[curve]
        imp = DH.import_x25519_public_key if curve == "curve25519" else DH.import_x448_public_key
        seed = keys.ecc_seed(curve, case["seed"])
        fx = ec.x25519 if curve == "curve25519" else ec.x448
        pk = fx(seed, (9 if curve == "curve25519" else 5).to_bytes(ln, "little"))
        lo = ec.mont_low_order_us(C)
        if fault == "valid":
            data = pk
        elif fault == "mont-low":
            data = lo[case["pos"] % len(lo)].to_bytes(ln, "little")
        elif fault == "mont-noncanonical":
            v = lo[case["pos"] % len(lo)] + p
            if v.bit_length() > 8 * ln:
                raise Skip()
            data = v.to_bytes(ln, "little")
        elif fault == "wrong-length":
            data = pk + b"\0"
        else:
            raise Skip()
        f = lambda: imp(data)
    kind, k = libcall(f, allowed=(ValueError,), bucket="points/%s/%s" % (curve, fault))
    if kind == "ok":
        try:
            check_key(k, "import of a %s point encoding" % fault)
        except Violation as v:
            raise Violation("points/%s/%s" % (fault, v.bucket.split("/", 1)[1]), "%s encoding accepted on %s: %s" % (fault, curve, v.message), **info)
        if must_refuse and fault not in ("mont-noncanonical",):
            raise Violation("points/accepted/%s" % fault, "a %s point encoding was accepted on %s" % (fault, curve), **info)
    elif not must_refuse:
        raise Violation("points/valid-refused", "a valid point encoding was refused on %s: %s" % (curve, k), **info)
    rec.nt(curve, fault, kind)
    rec.event("points:%s:%s" % (fault, "accepted" if kind == "ok" else "refused"))
    rec.sample(info)


# ------------------------------------------------------------------ (iii') coverage-guided import (atheris): accepted => invariants
FUZZ_IMPORTS = ["Crypto.Util.asn1", "Crypto.IO.PEM", "Crypto.IO.PKCS8", "Crypto.PublicKey", "Crypto.PublicKey._openssh", "Crypto.PublicKey.RSA",
                "Crypto.PublicKey.DSA", "Crypto.PublicKey.ECC", "Crypto.PublicKey._point", "Crypto.PublicKey._edwards", "Crypto.PublicKey._montgomery",
                "Crypto.PublicKey._nist_ecc", "Crypto.PublicKey._curve"]
FUZZ_FAMS = ["rsa", "dsa", "ecc"]
FUZZ_CURVES = [None, "p256", "p521", "ed25519", "ed448", "curve25519", "curve448", "p192"]


def fuzz_decode(data):
    if len(data) < 2:
        return None
    return {"fam": FUZZ_FAMS[data[0] % 3], "curve_name": FUZZ_CURVES[data[1] >> 5], "as_str": bool(data[1] & 1), "data": data[2:]}


def fuzz_corpus():
    from .c13 import KEYKINDS, FORMATS, get_key, export
    out = []
    for kind in KEYKINDS:
        fam = get_key(kind)[1]
        for fidx in range(len(FORMATS[fam])):
            blob, fmt, kw = export(kind, fidx)
            if blob is None or kw.get("passphrase"):
                continue
            raw = blob if isinstance(blob, bytes) else blob.encode()
            sel = 0 if kind.startswith("rsa") else 1 if kind.startswith("dsa") else 2
            cn = 0
            if fmt in ("raw", "SEC1"):
                curve = kind.split("-")[1].replace("x25519", "curve25519")
                cn = FUZZ_CURVES.index(curve) if curve in FUZZ_CURVES else 0
            out.append(bytes([sel, (cn << 5) | (0 if isinstance(blob, bytes) else 1)]) + raw)
    return out


def run_fuzz_import(case, rec):
    from Crypto.PublicKey import RSA, DSA, ECC
    fam, data = case["fam"], case["data"]
    arg = data
    if case["as_str"]:
        try:
            arg = data.decode("ascii")
        except UnicodeDecodeError:
            pass
    if fam == "rsa":
        f, allowed = (lambda: RSA.import_key(arg)), (ValueError, IndexError, TypeError)
    elif fam == "dsa":
        f, allowed = (lambda: DSA.import_key(arg)), (ValueError,)
    else:
        kw = {"curve_name": case["curve_name"]} if case["curve_name"] else {}
        f, allowed = (lambda: ECC.import_key(arg, **kw)), (ValueError,)
    kind, k = libcall(f, allowed=allowed, bucket="fuzz-import/%s" % fam)
    if kind == "ok":
        try:
            check_key(k, "%s.import_key" % fam.upper())
        except Violation as v:
            raise Violation("fuzz-import/%s/%s" % (fam, v.bucket.split("/", 1)[1]), "import_key accepted an encoding of an invalid key: %s" % v.message, fam=fam, data=data)
        rec.nt(fam, type(k).__name__, getattr(k, "curve", None), k.has_private(), len(data) // 32)
    rec.event("fuzz-import:%s:%s" % (fam, "accepted" if kind == "ok" else type(k).__name__))
    if kind == "ok":
        rec.sample({"fam": fam, "curve": getattr(k, "curve", None), "private": k.has_private(), "bytes": len(data)})



def fuzz_mutator(check_name, atheris_mutate):
    """Structure-aware (DER tree) mutation in addition to libFuzzer's byte-level one; the first two bytes are the target selector and flags."""
    from ..dermut import make_mutator
    return make_mutator(2, atheris_mutate)


CHECKS = [
    Check("generate", run=run_generate, strategy=strat_generate, examples=(128, 1200), shards=(16, 16),
          rule="generate() with entropy tapes: invariants, exact size, FIPS 186-4 margins, determinism"),
    Check("construct", run=run_construct, strategy=strat_construct, examples=(4000, 60000), shards=(16, 16),
          rule="construct() (and DSA.generate(domain=)) with valid shapes and single-fault corruptions, incl. composite DSA p/q and a Carmichael ElGamal modulus with every other condition holding: refused with ValueError, or the returned key satisfies all invariants"),
    Check("import_mutated", run=run_import, strategy=strat_import, examples=(5000, 90000), shards=(16, 16),
          rule="import_key() of DER exports with INTEGER/OCTET/BIT STRING contents mutated: any returned key satisfies all invariants"),
    Check("fuzz_import", run=run_fuzz_import, decode=fuzz_decode, corpus=fuzz_corpus, examples=(160000, 4000000), shards=(8, 16), max_len=1400,
          rule="coverage-guided bytes (atheris; empty and seeded corpus of every unencrypted export format) to RSA/DSA/ECC.import_key: "
               "documented exceptions only, and every key that is returned satisfies all invariants"),
    Check("points", run=run_points, strategy=strat_points, examples=(3000, 40000), shards=(8, 16),
          rule="SEC1 / raw point encodings: out-of-range coordinates, off-curve, infinity, low-order u, non-canonical Edwards encodings refused"),
]
