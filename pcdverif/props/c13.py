"""C13 — encoding layers are bijective on valid data, total and strict on arbitrary bytes."""
import hashlib
import os
import sys

from hypothesis import strategies as st

from ..core import Check, Violation, HarnessError, Skip, libcall
from .. import gen, keys
from ..refs import der

META = {
    "rule": "encoders: generated values (integers of any sign up to 4096 bits around +-2^(8k-1), OIDs with arcs up to 2^70, nested "
            "sequences/sets, implicit/explicit tags 0..30, payload lengths 0/127/128/255/256/65535/65536, PEM with/without passphrase, "
            "PKCS#8 protections, 3 padding styles x block sizes 1..255, RFC 1751, long_to_bytes) round-trip and their output is accepted "
            "and re-encoded identically by an independent strict DER reader. Decoders: (i) structured mutations of valid encodings with "
            "known verdict (trailing bytes, indefinite 0x80, non-minimal/long-form/leading-zero length, truncated content, declared length "
            "too long; wrong padding byte/length per style) must raise; (ii) Hypothesis binary()/text() and mutated valid key files: only "
            "the documented exceptions; (iii) coverage-guided bytes (atheris) with the same oracles; passphrase-less decoding never calls "
            "a KDF and stays within a call-event budget linear in the input. Non-trivial = mutated valid encoding, or arbitrary input that "
            "the decoder accepted or that got past the outer TLV; distinct by (layer, mutation class, depth, verdict)",
    "assumptions": ["strict DER reader/writer in pcdverif/refs/der.py (self-tested against openssl asn1parse) is the canonicality oracle",
                    "documented exceptions: ValueError (and subclasses) for every layer; RSA.import_key additionally IndexError/TypeError",
                    "strictness is demanded for what the statement lists (trailing bytes, indefinite/non-minimal lengths, truncated content, "
                    "undefined padding); non-minimal INTEGER/OID *content* accepted by a decoder is only counted (strictness_gap)",
                    "nested elements that a generic Der* class keeps as opaque bytes are outside that class's decoding"],
    "unexplored": ["DER nesting deeper than 4", "PEM inputs above 64 KiB"],
}

DOC_EXC = (ValueError,)


# ------------------------------------------------------------------ value generators
@st.composite
def der_int(draw):
    k = draw(st.integers(0, 9))
    if k == 0:
        return draw(st.sampled_from([0, 1, -1, 127, 128, -128, -129, 255, 256, 32767, 32768, -32768, -32769]))
    nb = draw(st.one_of(st.integers(1, 20), st.sampled_from([127, 128, 129, 255, 256, 512])))
    edge = draw(st.sampled_from([None, "pos", "neg"]))
    if edge == "pos":
        return (1 << (8 * nb - 1)) + draw(st.sampled_from([-1, 0, 1]))
    if edge == "neg":
        return -(1 << (8 * nb - 1)) + draw(st.sampled_from([-1, 0, 1]))
    v = int.from_bytes(draw(gen.data_of(st.just(nb))), "big")
    return -v if draw(st.booleans()) else v


@st.composite
def oid_str(draw):
    first = draw(st.integers(0, 2))
    second = draw(st.integers(0, 39)) if first < 2 else draw(st.one_of(st.integers(0, 39), st.integers(40, 1000)))
    rest = [draw(st.one_of(st.integers(0, 127), st.sampled_from([127, 128, 16383, 16384, 2 ** 32, 2 ** 64, 2 ** 70]), st.integers(0, 2 ** 40)))
            for _ in range(draw(st.integers(0, 8)))]
    return ".".join(str(x) for x in [first, second] + rest)


PAYLOAD_LENS = [0, 1, 2, 126, 127, 128, 129, 255, 256, 257, 65535, 65536]


@st.composite
def der_value(draw, depth=0):
    kinds = ["int", "int", "octets", "bits", "null", "oid", "bool"]
    if depth < 3:
        kinds += ["seq", "seq", "setof"]
    kind = draw(st.sampled_from(kinds))
    tagging = draw(st.sampled_from([None, None, None, "implicit", "explicit"]))
    tagn = draw(st.integers(0, 30))
    v = {"kind": kind, "tagging": tagging, "tagn": tagn}
    if kind == "int":
        v["v"] = draw(der_int())
    elif kind in ("octets", "bits"):
        v["v"] = draw(gen.data_of(st.one_of(st.integers(0, 40), st.sampled_from(PAYLOAD_LENS if depth == 0 else PAYLOAD_LENS[:10]))))
    elif kind == "oid":
        v["v"] = draw(oid_str())
    elif kind == "bool":
        v["v"] = draw(st.booleans())
    elif kind == "seq":
        v["v"] = [draw(der_value(depth + 1)) for _ in range(draw(st.integers(0, 4)))]
    elif kind == "setof":
        k2 = draw(st.sampled_from(["int", "octets"]))
        n = draw(st.integers(0, 4))
        if k2 == "int":
            v["v"] = [{"kind": "int", "tagging": None, "tagn": 0, "v": draw(der_int())} for _ in range(n)]
        else:
            v["v"] = [{"kind": "octets", "tagging": None, "tagn": 0, "v": draw(st.binary(max_size=6))} for _ in range(n)]
    return v


def lib_obj(v):
    """Library DER object for a generated value description."""
    from Crypto.Util import asn1
    kind, tg, n = v["kind"], v["tagging"], v["tagn"]
    kw = {}
    if tg == "implicit":
        kw["implicit"] = n
    elif tg == "explicit":
        kw["explicit"] = n
    if kind == "int":
        return asn1.DerInteger(v["v"], **kw)
    if kind == "octets":
        kw.pop("explicit", None)
        return asn1.DerOctetString(v["v"], **kw)
    if kind == "bits":
        return asn1.DerBitString(v["v"], **kw)
    if kind == "null":
        return asn1.DerNull()
    if kind == "oid":
        return asn1.DerObjectId(v["v"], **kw)
    if kind == "bool":
        return asn1.DerBoolean(v["v"], **kw)
    if kind == "seq":
        s = asn1.DerSequence(**kw)
        for e in v["v"]:
            if e["kind"] == "int" and e["tagging"] is None:
                s.append(e["v"])
            else:
                s.append(lib_obj(e).encode())
        return s
    if kind == "setof":
        kw.pop("explicit", None)
        s = asn1.DerSetOf(**kw)
        seen = set()
        for e in v["v"]:
            x = e["v"] if e["kind"] == "int" else lib_obj(e).encode()
            if x in seen:
                continue
            seen.add(x)
            s.add(x)
        return s
    raise HarnessError(kind)


def ref_encode(v):
    """Canonical DER from the independent writer."""
    kind, tg, n = v["kind"], v["tagging"], v["tagn"]
    if kind == "int":
        e = der.enc_int(v["v"])
    elif kind == "octets":
        e = der.enc_octets(v["v"])
        if tg == "explicit":
            tg = None
    elif kind == "bits":
        e = der.enc_bitstring(v["v"], 0)
    elif kind == "null":
        return der.enc_null()
    elif kind == "oid":
        e = der.enc_oid(v["v"])
    elif kind == "bool":
        e = der.enc_bool(v["v"])
    elif kind == "seq":
        e = der.enc_seq([ref_encode(x) for x in v["v"]])
    elif kind == "setof":
        items = []
        for x in v["v"]:
            ex = ref_encode(x)
            if ex not in items:
                items.append(ex)
        e = der.enc_setof(items)
        if tg == "explicit":
            tg = None
    if tg == "implicit":
        return der.enc_implicit(n, e)
    if tg == "explicit":
        return der.enc_explicit(n, e)
    return e


def vclass(v):
    return (v["kind"], v["tagging"], len(v["v"]) if isinstance(v.get("v"), (list, bytes)) and len(v["v"]) < 3 else "n")


# ------------------------------------------------------------------ A. encoders: round trip and canonical
def strat_der_rt(tier):
    return st.fixed_dictionaries({"v": der_value()})


def decode_back(v, enc_):
    """Decode enc_ with a fresh library object of the same class/tagging; return a comparable value."""
    from Crypto.Util import asn1
    kind, tg, n = v["kind"], v["tagging"], v["tagn"]
    kw = {}
    if tg == "implicit":
        kw["implicit"] = n
    elif tg == "explicit":
        kw["explicit"] = n
    if kind == "int":
        return asn1.DerInteger(**kw).decode(enc_, strict=True).value
    if kind == "octets":
        kw.pop("explicit", None)
        return bytes(asn1.DerOctetString(**kw).decode(enc_, strict=True).payload)
    if kind == "bits":
        return bytes(asn1.DerBitString(**kw).decode(enc_, strict=True).value)
    if kind == "null":
        asn1.DerNull().decode(enc_, strict=True)
        return None
    if kind == "oid":
        return asn1.DerObjectId(**kw).decode(enc_, strict=True).value
    if kind == "bool":
        return asn1.DerBoolean(**kw).decode(enc_, strict=True).value
    if kind == "seq":
        s = asn1.DerSequence(**kw).decode(enc_, strict=True)
        return [x if isinstance(x, int) else bytes(x) for x in s]
    if kind == "setof":
        kw.pop("explicit", None)
        s = asn1.DerSetOf(**kw).decode(enc_, strict=True)
        return [x if isinstance(x, int) else bytes(x) for x in s]


def run_der_rt(case, rec):
    v = case["v"]
    k, obj = libcall(lib_obj, v, allowed=(ValueError,), bucket="der/construct")
    if k == "exc":
        raise Skip()
    k, e = libcall(obj.encode, allowed=(), bucket="der/%s/encode" % v["kind"])
    e = bytes(e)
    exp = ref_encode(v)
    info = {"value": v, "encoded": e}
    if e != exp:
        raise Violation("der/%s/encoding-not-canonical" % v["kind"], "library encodes %s..., canonical DER is %s..." % (e.hex()[:60], exp.hex()[:60]), **info)
    try:
        node = der.parse(e)
    except der.DerError as ex:
        raise Violation("der/%s/encoding-rejected-by-strict-reader" % v["kind"], "strict DER reader rejects the library's output: %s" % ex, **info)
    if der.reencode(node) != e:
        raise HarnessError("strict reader does not re-encode identically")
    back = decode_back(v, e)
    if v["kind"] == "seq":
        want = [x["v"] if (x["kind"] == "int" and x["tagging"] is None) else ref_encode(x) for x in v["v"]]
    elif v["kind"] == "setof":
        want = []
        for x in v["v"]:
            y = x["v"] if x["kind"] == "int" else ref_encode(x)
            if y not in want:
                want.append(y)
        want = sorted(want, key=lambda y: der.enc_int(y) if isinstance(y, int) else y)
    elif v["kind"] == "null":
        want = None
    else:
        want = v["v"]
    if back != want:
        raise Violation("der/%s/decode-not-inverse" % v["kind"], "decode(encode(v)) = %r, v = %r" % (str(back)[:80], str(want)[:80]), **info)
    rec.nt("rt", vclass(v), len(e) > 127, len(e) > 255)
    rec.event("der-rt:" + v["kind"])
    rec.sample({"kind": v["kind"], "tagging": v["tagging"], "encoded": e[:40]})


# ------------------------------------------------------------------ B. strictness on structured mutations
def strat_der_strict(tier):
    return st.fixed_dictionaries({"v": der_value(), "pick": st.integers(0, 10 ** 6), "strict_flag": st.booleans()})


def decode_with_class(v, data, strict):
    """The decoding call for value description v (same class and tagging). Returns thunk."""
    from Crypto.Util import asn1
    kind, tg, n = v["kind"], v["tagging"], v["tagn"]
    kw = {}
    if tg == "implicit":
        kw["implicit"] = n
    elif tg == "explicit":
        kw["explicit"] = n
    cls = {"int": asn1.DerInteger, "octets": asn1.DerOctetString, "bits": asn1.DerBitString, "oid": asn1.DerObjectId,
           "bool": asn1.DerBoolean, "seq": asn1.DerSequence, "setof": asn1.DerSetOf}.get(kind)
    if kind == "null":
        return lambda: asn1.DerNull().decode(data, strict=strict)
    if kind in ("octets", "setof"):
        kw.pop("explicit", None)
    return lambda: cls(**kw).decode(data, strict=strict)


def run_der_strict(case, rec):
    from Crypto.Util import asn1
    v = case["v"]
    e = ref_encode(v)
    muts = der.mutations(e)
    if not muts:
        raise Skip()
    # depth the generic class really decodes: 0 always; 1 for SEQUENCE / SET OF members (scanned as TLVs);
    # with explicit tagging the inner TLV is one level deeper
    shift = 1 if (v["tagging"] == "explicit" and v["kind"] not in ("octets", "setof", "null")) else 0
    maxd = shift + (1 if v["kind"] in ("seq", "setof") else 0)
    muts = [(l, m) for l, m in muts if der.mutation_depth(l) <= maxd]
    if shift:
        # bytes trailing the inner structure *inside* the EXPLICIT wrapper (the wrapper's own length is consistent): [n] { TLV || extra }
        inner = ref_encode(dict(v, tagging=None))
        for extra in (b"\x00", b"\x05\x00", b"\x02\x01\x00", b"\xff"):
            muts.append(("inner-trailing@1", der.enc_explicit(v["tagn"], inner + extra)))
            muts.append(("inner-trailing@1", der.enc_explicit(v["tagn"], inner + extra)))
    label, data = muts[case["pick"] % len(muts)]
    thunks = [("class", decode_with_class(v, data, case["strict_flag"])),
              ("DerObject", lambda: asn1.DerObject().decode(data, strict=case["strict_flag"]))]
    kindm = label.split("@")[0]
    depth = der.mutation_depth(label)
    for nm, th in thunks:
        if nm == "DerObject" and depth > 0:
            continue
        k, r = libcall(th, allowed=DOC_EXC, bucket="der/%s/decode/%s" % (v["kind"] if nm == "class" else "DerObject", kindm))
        if k == "ok":
            raise Violation("der/%s/accepted/%s" % (v["kind"] if nm == "class" else "DerObject", kindm),
                            "%s decoder accepted a %s encoding: %s" % (nm, label, data.hex()[:80]), value=v, mutated=data, label=label)
    rec.nt("strict", v["kind"], v["tagging"], kindm, depth, case["strict_flag"])
    rec.event("der-strict:%s@%d" % (kindm, depth))
    rec.sample({"kind": v["kind"], "mutation": label, "data": data[:40]})


# ------------------------------------------------------------------ C. totality of the DER classes on arbitrary bytes
@st.composite
def strat_der_total(draw, tier):
    how = draw(st.sampled_from(["random", "random", "mutated", "mutated", "lenbyte"]))
    if how == "random":
        data = draw(st.binary(max_size=40))
    elif how == "lenbyte":
        data = bytes([draw(st.sampled_from([0x02, 0x30, 0x04, 0x03, 0x06, 0x05, 0x31, 0x01, 0xA0, 0x80])),
                      draw(st.sampled_from([0x80, 0x81, 0x82, 0x84, 0x88, 0xFF, 0x7F, 0x00]))]) + draw(st.binary(max_size=12))
    else:
        v = draw(der_value())
        data = bytearray(ref_encode(v))
        for _ in range(draw(st.integers(1, 3))):
            op = draw(st.sampled_from(["flip", "set", "del", "ins", "trunc"]))
            if not data:
                break
            i = draw(st.integers(0, len(data) - 1))
            if op == "flip":
                data[i] ^= 1 << draw(st.integers(0, 7))
            elif op == "set":
                data[i] = draw(st.sampled_from([0, 0x80, 0x81, 0xFF, 0x30, 0x02]))
            elif op == "del":
                del data[i]
            elif op == "ins":
                data.insert(i, draw(st.sampled_from([0, 0x80, 0x81, 0xFF, 0x30, 0x02])))
            else:
                del data[i:]
        data = bytes(data)
    return {"data": data, "cls": draw(st.sampled_from(["DerObject", "DerInteger", "DerOctetString", "DerBitString", "DerNull", "DerObjectId",
                                                       "DerBoolean", "DerSequence", "DerSetOf"])), "strict": draw(st.booleans()), "how": how}


def framing(data):
    """Outer TLV framing per the listed strictness items only (single identifier octet assumed):
    returns None if fine, else the name of the defect."""
    if len(data) < 2:
        return "truncated"
    l0 = data[1]
    if l0 < 0x80:
        n, hdr = l0, 2
    elif l0 == 0x80:
        return "indefinite-length"
    else:
        k = l0 & 0x7F
        if len(data) < 2 + k:
            return "truncated"
        if data[2] == 0:
            return "non-minimal-length"
        n = int.from_bytes(data[2:2 + k], "big")
        if n < 128:
            return "non-minimal-length"
        hdr = 2 + k
    if len(data) < hdr + n:
        return "truncated"
    if len(data) > hdr + n:
        return "trailing-data"
    return None


def run_der_total(case, rec):
    from Crypto.Util import asn1
    data = case["data"]
    cls = getattr(asn1, case["cls"])
    k, r = libcall(lambda: cls().decode(data, strict=case["strict"]), allowed=DOC_EXC, bucket="der/%s/decode-total" % case["cls"])
    accepted = k == "ok"
    # anything accepted must at least be consumed completely and have definite, minimal outer length (listed strictness)
    fr = framing(data)
    past_outer = fr is None
    if accepted and fr is not None:
        raise Violation("der/%s/accepted-bad-framing/%s" % (case["cls"], fr), "accepted %s although %s" % (data.hex()[:60], fr), data=data)
    if accepted or past_outer or case["how"] != "random":
        rec.nt("total", case["cls"], case["how"], accepted, past_outer)
    rec.event("der-total:%s:%s" % (case["cls"], "accepted" if accepted else "rejected"))
    rec.sample({"cls": case["cls"], "data": data[:30], "accepted": accepted})


# ------------------------------------------------------------------ D. padding
@st.composite
def strat_pad(draw, tier):
    bs = draw(st.one_of(st.integers(1, 255), st.sampled_from([1, 8, 16, 255])))
    n = draw(st.one_of(st.integers(0, 3 * bs + 1), st.integers(0, 600)))
    return {"style": draw(st.sampled_from(["pkcs7", "x923", "iso7816"])), "bs": bs, "data": draw(gen.data_of(st.just(n))),
            "mut": draw(st.sampled_from(["none", "none", "lastbyte", "lastbyte0", "lastbyte>bs", "inner", "trunc", "extend", "empty", "notaligned", "allzero", "no-marker",
                                         "crafted", "crafted", "crafted"])),
            "pos": draw(st.integers(0, 10 ** 6)), "val": draw(st.integers(1, 255))}


def ref_unpad(padded, bs, style):
    """Reference per the three specifications. Returns data or None."""
    n = len(padded)
    if n == 0 or n % bs:
        return None
    if style in ("pkcs7", "x923"):
        p = padded[-1]
        if p < 1 or p > bs or p > n:
            return None
        if style == "pkcs7":
            if padded[-p:] != bytes([p]) * p:
                return None
        else:
            if padded[-p:-1] != bytes(p - 1):
                return None
        return padded[:-p]
    i = padded.rfind(b"\x80")
    if i < 0:
        return None
    p = n - i
    if p > bs or padded[i + 1:] != bytes(p - 1):
        return None
    return padded[:i]


def run_pad(case, rec):
    from Crypto.Util import Padding
    style, bs, data, mut = case["style"], case["bs"], case["data"], case["mut"]
    padded = bytes(Padding.pad(data, bs, style))
    if len(padded) % bs or len(padded) <= len(data) or len(padded) - len(data) > bs or not padded.startswith(data):
        raise Violation("pad/%s/pad-length" % style, "pad() output length wrong", **case)
    exp_pad = ref_unpad(padded, bs, style)
    if exp_pad != data:
        raise Violation("pad/%s/pad-not-standard" % style, "pad() output is not what the style defines", **case)
    b = bytearray(padded)
    pl = len(padded) - len(data)
    if mut == "lastbyte":
        b[-1] = case["val"]
    elif mut == "lastbyte0":
        b[-1] = 0
    elif mut == "lastbyte>bs":
        b[-1] = min(255, bs + 1 + case["pos"] % 3)
    elif mut == "inner":
        if pl < 2:
            raise Skip()
        b[len(data) + case["pos"] % (pl - 1) + (1 if style == "iso7816" else 0) - (0 if style == "iso7816" else 0)] ^= case["val"]
    elif mut == "trunc":
        b = b[:-1 - case["pos"] % max(1, min(len(b), bs))]
    elif mut == "extend":
        b = b + bytes([case["val"]])
    elif mut == "empty":
        b = bytearray()
    elif mut == "notaligned":
        b = b + b"\x01" * (1 if bs > 1 else 0)
    elif mut == "allzero":
        b = bytearray(len(b))
    elif mut == "no-marker":
        b = bytearray(x if x != 0x80 else 0x81 for x in b)
    elif mut == "crafted":
        # not a damaged pad() output but a block-aligned string built to *look* padded, with a padding length chosen independently of the
        # block size (0 .. 3 blocks): marker/count further back than one block, count 0, count > length ...
        pl = case["pos"] % (3 * bs + 2)
        total = max(bs, ((len(data) + pl) // bs + (1 if (len(data) + pl) % bs else 0)) * bs)
        pl = min(pl, total)
        if style == "pkcs7":
            tail = bytes([pl % 256]) * pl
        elif style == "x923":
            tail = bytes(max(0, pl - 1)) + (bytes([pl % 256]) if pl else b"")
        else:
            tail = (b"\x80" + bytes(pl - 1)) if pl else b""
        body = (data + bytes([(case["val"] | 1) & 0x7F]) * total)[:total - len(tail)]
        if style == "iso7816":
            body = bytes(x if x not in (0x80,) else 0x81 for x in body) if case["val"] % 2 else body
        b = bytearray(body + tail)
    b = bytes(b)
    exp = ref_unpad(b, bs, style)
    k, r = libcall(Padding.unpad, b, bs, style, allowed=DOC_EXC, bucket="pad/%s/unpad" % style)
    info = {"style": style, "bs": bs, "mut": mut, "padded": b[-40:]}
    if exp is None and k == "ok":
        raise Violation("pad/%s/undefined-padding-accepted/%s" % (style, mut), "unpad accepted padding the style does not define", **info)
    if exp is not None:
        if k != "ok":
            raise Violation("pad/%s/valid-padding-rejected" % style, "unpad rejected valid padding (%s)" % mut, **info)
        if bytes(r) != exp:
            raise Violation("pad/%s/unpad-wrong-data" % style, "unpad returned other data than the style defines", **info)
    rec.nt(style, min(bs, 20), mut, exp is not None, len(data) % bs == 0)
    rec.event("pad:%s:%s:%s" % (style, mut, "accept" if exp is not None else "reject"))
    rec.sample(info)


# ------------------------------------------------------------------ E. RFC 1751 and integer/bytes conversion
@st.composite
def strat_misc(draw, tier):
    return {"key": draw(st.binary(min_size=8, max_size=8)) * 1 + draw(st.binary(min_size=0, max_size=24).map(lambda b: b[:len(b) - len(b) % 8])),
            "n": draw(der_int().map(abs)), "bs": draw(st.integers(0, 20)), "lead": draw(st.integers(0, 4)),
            "mutword": draw(st.integers(0, 10 ** 6)), "garbage": draw(st.text(max_size=40))}


def run_misc(case, rec):
    from Crypto.Util import RFC1751, number
    key = case["key"]
    k, words = libcall(RFC1751.key_to_english, key, allowed=(), bucket="rfc1751/encode")
    k, back = libcall(RFC1751.english_to_key, words, allowed=DOC_EXC, bucket="rfc1751/decode")
    if k != "ok" or bytes(back) != key:
        raise Violation("rfc1751/roundtrip", "english_to_key(key_to_english(k)) != k", key=key)
    if len(words.split()) != 6 * (len(key) // 8):
        raise Violation("rfc1751/word-count", "not 6 words per 64 bits", key=key)
    # lower case is accepted by the RFC ("case insensitive"); a changed word must either decode to another key or fail parity
    ws = words.split()
    i = case["mutword"] % len(ws)
    from Crypto.Util.RFC1751 import wordlist
    ws2 = list(ws)
    ws2[i] = wordlist[(wordlist.index(ws[i]) + 1 + case["mutword"] // 7 % 2046) % 2048]
    k, r = libcall(RFC1751.english_to_key, " ".join(ws2), allowed=DOC_EXC, bucket="rfc1751/decode")
    if k == "ok" and bytes(r) == key:
        raise Violation("rfc1751/not-injective", "two different word sequences decode to the same key", key=key)
    k, r = libcall(RFC1751.english_to_key, case["garbage"], allowed=DOC_EXC + (KeyError,) if False else DOC_EXC, bucket="rfc1751/decode-garbage")
    n, bs = case["n"], case["bs"]
    raw = bytes(number.long_to_bytes(n, bs))
    ln = max(1, (n.bit_length() + 7) // 8)
    if bs and ln % bs:
        ln += bs - ln % bs
    if raw != n.to_bytes(ln, "big"):
        raise Violation("number/long_to_bytes", "long_to_bytes(%d, %d) wrong" % (n, bs), n=n, bs=bs)
    if number.bytes_to_long(bytes(case["lead"]) + raw) != n:
        raise Violation("number/bytes_to_long", "bytes_to_long(long_to_bytes(n)) != n", n=n)
    rec.nt(len(key), n.bit_length() // 8, bs, case["lead"])
    rec.event("misc")


# ------------------------------------------------------------------ F. PEM and PKCS#8 containers
PROTECTIONS = ["PBKDF2WithHMAC-SHA1AndDES-EDE3-CBC", "PBKDF2WithHMAC-SHA1AndAES128-CBC", "PBKDF2WithHMAC-SHA256AndAES192-CBC",
               "PBKDF2WithHMAC-SHA512AndAES256-CBC", "PBKDF2WithHMAC-SHA224AndAES128-GCM", "PBKDF2WithHMAC-SHA384AndAES256-GCM",
               "PBKDF2WithHMAC-SHA512-256AndAES192-GCM", "PBKDF2WithHMAC-SHA3-256AndAES128-CBC", "scryptAndAES128-CBC", "scryptAndAES256-GCM",
               "scryptAndAES192-CBC"]


@st.composite
def strat_container(draw, tier):
    which = draw(st.sampled_from(["pem", "pem", "pkcs8", "pkcs8"]))
    c = {"which": which, "data": draw(gen.data_of(st.one_of(st.integers(0, 200), st.sampled_from([0, 1, 47, 48, 49, 63, 64, 65, 500])))),
         "passphrase": draw(st.one_of(st.none(), st.binary(min_size=1, max_size=20), st.text(min_size=1, max_size=10).map(lambda s: s.encode("utf-8")))),
         "seed": draw(st.binary(min_size=8, max_size=8)), "wrong": draw(st.sampled_from(["right", "right", "wrong", "missing"]))}
    if which == "pem":
        c["marker"] = draw(st.sampled_from(["RSA PRIVATE KEY", "PUBLIC KEY", "ENCRYPTED PRIVATE KEY", "X", "A B C"]))
    else:
        c["protection"] = draw(st.sampled_from(PROTECTIONS))
        c["oid"] = draw(st.sampled_from(["1.2.840.113549.1.1.1", "1.2.840.10045.2.1", "1.3.101.112"]))
        c["params"] = draw(st.sampled_from(["null", "none", "oid"]))
        c["iter"] = draw(st.integers(1, 40))
        c["salt_size"] = draw(st.integers(1, 24))
    return c


class DetRand:
    def __init__(self, seed):
        self.h = hashlib.shake_128(b"c13" + bytes(seed))
        self.pos = 0

    def __call__(self, n):
        out = self.h.digest(self.pos + n)[self.pos:]
        self.pos += n
        return out


def run_container(case, rec):
    from Crypto.IO import PEM, PKCS8
    from Crypto.Util import asn1
    data, pw = case["data"], case["passphrase"]
    rf = DetRand(case["seed"])
    if case["which"] == "pem":
        k, pem = libcall(PEM.encode, data, case["marker"], pw, rf, allowed=(), bucket="pem/encode")
        # armour well-formed
        lines = pem.split("\n")
        if lines[0] != "-----BEGIN %s-----" % case["marker"] or lines[-1] != "-----END %s-----" % case["marker"]:
            raise Violation("pem/armour", "PEM markers malformed", marker=case["marker"])
        body = [l for l in lines[1:-1] if l and ":" not in l]
        if any(len(l) > 64 for l in body) or any(len(l) != 64 for l in body[:-1]):
            raise Violation("pem/line-length", "PEM body lines are not 64 columns", marker=case["marker"])
        use = pw if case["wrong"] == "right" else (pw + b"x" if case["wrong"] == "wrong" and pw else None)
        k, r = libcall(PEM.decode, pem, use, allowed=DOC_EXC, bucket="pem/decode")
        if pw is None or case["wrong"] == "right":
            if k != "ok":
                raise Violation("pem/roundtrip-rejected", "decode(encode(x)) raised %s" % r, **{"len": len(data), "encrypted": pw is not None})
            out, marker, encflag = r
            if bytes(out) != data or marker != case["marker"] or bool(encflag) != (pw is not None):
                raise Violation("pem/roundtrip", "decode(encode(x)) != x", **{"len": len(data), "encrypted": pw is not None})
        else:
            # wrong or missing passphrase on an encrypted block: refused, or (wrong key, CBC) garbage that happens to unpad — the
            # latter is inherent to legacy PEM encryption (no integrity); it must at least not return the plaintext
            if k == "ok" and bytes(r[0]) == data and len(data) > 0:
                raise Violation("pem/wrong-passphrase-accepted", "decoding with a %s passphrase returned the plaintext" % case["wrong"])
            if k == "ok" and case["wrong"] == "missing":
                raise Violation("pem/missing-passphrase-accepted", "encrypted PEM decoded without a passphrase")
        rec.nt("pem", pw is not None, case["wrong"], len(data) % 48 == 0, case["marker"])
    else:
        kw = {}
        if case["params"] == "null":
            kw["key_params"] = asn1.DerNull()
        elif case["params"] == "oid":
            kw["key_params"] = asn1.DerObjectId("1.2.840.10045.3.1.7")
        else:
            kw["key_params"] = None
        if pw is not None:
            kw.update(passphrase=pw, protection=case["protection"], randfunc=rf)
            if case["protection"].startswith("scrypt"):
                kw["prot_params"] = {"iteration_count": 16, "block_size": 1 + case["iter"] % 3, "parallelization": 1, "salt_size": case["salt_size"]}
            else:
                kw["prot_params"] = {"iteration_count": case["iter"], "salt_size": case["salt_size"]}
        k, blob = libcall(PKCS8.wrap, data, case["oid"], allowed=(), bucket="pkcs8/wrap", **kw)
        blob = bytes(blob)
        try:
            node = der.parse(blob)
            if der.reencode(node) != blob:
                raise HarnessError("re-encode mismatch")
        except der.DerError as ex:
            raise Violation("pkcs8/not-canonical-der", "PKCS#8 blob rejected by the strict DER reader: %s" % ex, protection=case.get("protection"), encrypted=pw is not None)
        use = pw if case["wrong"] == "right" else (pw + b"x" if case["wrong"] == "wrong" and pw else None)
        k, r = libcall(PKCS8.unwrap, blob, use, allowed=DOC_EXC, bucket="pkcs8/unwrap")
        if pw is None or case["wrong"] == "right":
            if k != "ok":
                raise Violation("pkcs8/roundtrip-rejected", "unwrap(wrap(x)) raised %s" % r, protection=case.get("protection"), encrypted=pw is not None)
            oid, key, params = r
            if oid != case["oid"] or bytes(key) != data:
                raise Violation("pkcs8/roundtrip", "unwrap(wrap(x)) != x", protection=case.get("protection"))
            pe = None if params is None else bytes(params)
            # NULL parameters are reported as None (documented behaviour of unwrap)
            want = {"null": None, "none": None, "oid": der.enc_oid("1.2.840.10045.3.1.7")}[case["params"]]
            if pe != want:
                raise Violation("pkcs8/params", "algorithm parameters not preserved (%r vs %r)" % (pe, want))
        else:
            if k == "ok" and bytes(r[1]) == data:
                raise Violation("pkcs8/wrong-passphrase-accepted", "unwrap with a %s passphrase returned the key" % case["wrong"], protection=case["protection"])
            if k == "ok" and case["wrong"] == "missing":
                raise Violation("pkcs8/missing-passphrase-accepted", "encrypted PKCS#8 unwrapped without passphrase")
        rec.nt("pkcs8", case.get("protection") if pw is not None else None, case["wrong"], case["params"], len(data) % 16 == 0)
    rec.event("container:%s:%s" % (case["which"], "enc" if pw is not None else "clear"))
    rec.sample({"which": case["which"], "len": len(data), "encrypted": pw is not None, "protection": case.get("protection"), "wrong": case["wrong"]})


# ------------------------------------------------------------------ G. key files: mutated valid encodings and arbitrary input
KEYKINDS = ["rsa", "rsa-pub", "dsa", "dsa-pub", "ecc-p256", "ecc-p521", "ecc-p256-pub", "ecc-ed25519", "ecc-ed448-pub", "ecc-x25519", "ecc-p384"]
FORMATS = {
    "rsa": [("DER", {"pkcs": 1}), ("DER", {"pkcs": 8}), ("PEM", {"pkcs": 1}), ("PEM", {"pkcs": 8}), ("PEM", {"pkcs": 1, "passphrase": b"pw"}),
            ("DER", {"pkcs": 8, "passphrase": b"pw", "protection": "PBKDF2WithHMAC-SHA1AndAES128-CBC", "prot_params": {"iteration_count": 3}}),
            ("PEM", {"pkcs": 8, "passphrase": b"pw", "protection": "scryptAndAES128-CBC", "prot_params": {"iteration_count": 16}})],
    "rsa-pub": [("DER", {}), ("PEM", {}), ("OpenSSH", {})],
    "dsa": [("DER", {}), ("PEM", {}), ("DER", {"pkcs8": False}), ("PEM", {"pkcs8": False}),
            ("PEM", {"passphrase": b"pw", "protection": "PBKDF2WithHMAC-SHA1AndDES-EDE3-CBC"})],
    "dsa-pub": [("DER", {}), ("PEM", {}), ("OpenSSH", {})],
    "ecc": [("DER", {}), ("PEM", {}), ("DER", {"use_pkcs8": False}), ("PEM", {"use_pkcs8": False}),
            ("PEM", {"passphrase": b"pw", "protection": "PBKDF2WithHMAC-SHA1AndAES128-CBC", "prot_params": {"iteration_count": 3}})],
    "ecc-pub": [("DER", {}), ("PEM", {}), ("DER", {"compress": True}), ("SEC1", {}), ("SEC1", {"compress": True}), ("OpenSSH", {})],
    "ecc-ed": [("DER", {}), ("PEM", {})],
    "ecc-ed-pub": [("DER", {}), ("PEM", {}), ("raw", {}), ("OpenSSH", {})],
}

_KEYS = {}


def get_key(kind):
    if kind in _KEYS:
        return _KEYS[kind]
    from Crypto.PublicKey import RSA, DSA, ECC
    if kind.startswith("rsa"):
        k = RSA.construct(keys.rsa_numbers(1024))
        k = k.public_key() if kind.endswith("pub") else k
        fam = "rsa-pub" if kind.endswith("pub") else "rsa"
    elif kind.startswith("dsa"):
        k = DSA.construct(keys.dsa_numbers())
        k = k.public_key() if kind.endswith("pub") else k
        fam = "dsa-pub" if kind.endswith("pub") else "dsa"
    else:
        curve = kind.split("-")[1].replace("x25519", "curve25519")
        if curve in keys.NIST:
            k = ECC.construct(curve=curve, d=keys.ecc_scalar(curve, b"c13"))
            fam = "ecc"
        else:
            k = ECC.construct(curve=curve, seed=keys.ecc_seed(curve, b"c13"))
            fam = "ecc-ed"
        if kind.endswith("pub"):
            k = k.public_key()
            fam += "-pub"
    _KEYS[kind] = (k, fam)
    return _KEYS[kind]


def export(kind, fidx, seed=b"12345678"):
    k, fam = get_key(kind)
    fmts = FORMATS[fam]
    fmt, kw = fmts[fidx % len(fmts)]
    kw = dict(kw)
    if kw.get("passphrase") or fam.startswith("rsa"):
        kw.setdefault("randfunc", DetRand(seed))
    if fam.startswith("ecc") and "randfunc" in kw and not kw.get("passphrase"):
        kw.pop("randfunc")
    if fam in ("dsa", "dsa-pub") and "randfunc" in kw and not kw.get("passphrase"):
        kw.pop("randfunc")
    try:
        out = k.export_key(format=fmt, **kw)
    except (ValueError, TypeError):
        return None, None, None
    return out, fmt, kw


def importer(kind):
    from Crypto.PublicKey import RSA, DSA, ECC
    if kind.startswith("rsa"):
        return RSA.import_key, (ValueError, IndexError, TypeError), "RSA"
    if kind.startswith("dsa"):
        return DSA.import_key, (ValueError,), "DSA"
    return ECC.import_key, (ValueError,), "ECC"


@st.composite
def strat_keyfile(draw, tier):
    kind = draw(st.sampled_from(KEYKINDS))
    c = {"kind": kind, "fidx": draw(st.integers(0, 6)), "how": draw(st.sampled_from(["struct", "struct", "bytes", "bytes", "text", "cross"])),
         "pick": draw(st.integers(0, 10 ** 6)), "nmut": draw(st.integers(1, 3)),
         "ops": [[draw(st.sampled_from(["flip", "set", "del", "ins", "trunc", "dup"])), draw(st.integers(0, 10 ** 6)), draw(st.integers(0, 255))] for _ in range(3)],
         "with_pw": draw(st.booleans()), "as_str": draw(st.booleans())}
    return c


def byte_mutate(data, ops, nmut):
    b = bytearray(data)
    for op, pos, val in ops[:nmut]:
        if not b:
            break
        i = pos % len(b)
        if op == "flip":
            b[i] ^= 1 << (val % 8)
        elif op == "set":
            b[i] = [0, 0x80, 0x81, 0xFF, 0x30, 0x02, 0x04, 0x03][val % 8]
        elif op == "del":
            del b[i]
        elif op == "ins":
            b.insert(i, [0, 0x80, 0x81, 0xFF, 0x30, 0x02, 0x04, 0x03][val % 8])
        elif op == "trunc":
            del b[i:]
        else:
            b[i:i] = b[i:i + 1 + val % 8]
    return bytes(b)


def run_keyfile(case, rec):
    kind = case["kind"]
    out, fmt, kw = export(kind, case["fidx"])
    if out is None:
        raise Skip()
    imp, allowed, family = importer(kind)
    raw = out if isinstance(out, bytes) else out.encode("ascii")
    pw = kw.get("passphrase")
    use_pw = pw if case["with_pw"] else None
    is_der = fmt == "DER" and not pw or (fmt == "DER")
    how = case["how"]
    label = None
    must_reject = False
    if how == "struct" and fmt == "DER":
        muts = [(l, m) for l, m in der.mutations(raw)]
        if not muts:
            raise Skip()
        label, data = muts[case["pick"] % len(muts)]
        depth = der.mutation_depth(label)
        must_reject = depth == 0
    elif how == "struct" and fmt == "PEM":
        # structural PEM damage with known verdict
        lines = (out.decode("ascii") if isinstance(out, bytes) else out).split("\n")
        which = case["pick"] % 6
        if which == 0:
            lines[-1] = lines[-1].replace("END", "END X")
            label = "pem-marker-mismatch"
        elif which == 1:
            lines = lines[:-1]
            label = "pem-no-end"
        elif which == 2:
            lines = lines[1:]
            label = "pem-no-begin"
        elif which == 3:
            lines[1] = "*" + lines[1][1:] if ":" not in lines[1] else lines[1]
            label = "pem-bad-base64-char"
        elif which == 4:
            lines = [lines[0], lines[-1]]
            label = "pem-empty-body"
        else:
            lines[-2] = lines[-2][:-3]
            label = "pem-truncated-body"
        data = "\n".join(lines).encode("ascii")
        must_reject = which in (0, 1, 2, 4)
    elif how == "bytes" or how == "struct":
        data = byte_mutate(raw, case["ops"], case["nmut"])
        label = "bytes"
    elif how == "text":
        data = byte_mutate(raw, case["ops"], 1)
        label = "text"
    else:
        # key of another family offered to this importer
        other = KEYKINDS[case["pick"] % len(KEYKINDS)]
        o2, f2, k2 = export(other, case["fidx"] + 1)
        if o2 is None:
            raise Skip()
        data = o2 if isinstance(o2, bytes) else o2.encode("ascii")
        label = "cross:" + other
        if importer(other)[2] == family:
            raise Skip()
        must_reject = True
        if k2.get("passphrase"):
            use_pw = k2["passphrase"]
    arg = data
    if case["as_str"] and fmt in ("PEM", "OpenSSH"):
        try:
            arg = data.decode("ascii")
        except UnicodeDecodeError:
            arg = data
    kwargs = {}
    if family == "ECC" and fmt in ("SEC1", "raw"):
        kwargs["curve_name"] = get_key(kind)[0].curve
    k, r = libcall(imp, arg, use_pw, allowed=allowed, bucket="import/%s/%s" % (family, fmt), **kwargs)
    accepted = k == "ok"
    info = {"kind": kind, "format": fmt, "label": label, "data": data[:60], "with_pw": use_pw is not None}
    if accepted and must_reject and data != raw:
        raise Violation("import/%s/%s/accepted/%s" % (family, fmt, label.split("@")[0].split(":")[0]),
                        "%s.import_key accepted a %s encoding" % (family, label), **info)
    if accepted and label and "@" in label and not must_reject:
        rec.event("strictness_gap:nested-%s-accepted:%s" % (label.split("@")[0], family))
    rec.nt(family, fmt, (label or "").split("@")[0].split(":")[0], accepted, pw is not None, case["with_pw"])
    rec.event("import:%s:%s:%s" % (family, fmt, "accepted" if accepted else "rejected"))
    rec.sample(info)


# ------------------------------------------------------------------ H. arbitrary input to every decoder (Hypothesis binary/text)
@st.composite
def strat_arbitrary(draw, tier):
    target = draw(st.sampled_from(["RSA", "DSA", "ECC", "PEM", "PKCS8", "PKCS8", "unpad", "english", "openssh"]))
    shape = draw(st.sampled_from(["binary", "text", "pemish", "derish", "sshish", "p8ish", "p8ish"]))
    if shape == "binary":
        data = draw(st.binary(max_size=80))
    elif shape == "text":
        data = draw(st.text(max_size=60)).encode("utf-8", "surrogatepass")
    elif shape == "pemish":
        marker = draw(st.sampled_from(["RSA PRIVATE KEY", "PRIVATE KEY", "ENCRYPTED PRIVATE KEY", "PUBLIC KEY", "EC PRIVATE KEY", "DSA PRIVATE KEY", "OPENSSH PRIVATE KEY", "X"]))
        hdr = draw(st.sampled_from(["", "", "Proc-Type: 4,ENCRYPTED\nDEK-Info: AES-128-CBC,00112233445566778899AABBCCDDEEFF\n\n",
                                    "Proc-Type: 4,ENCRYPTED\nDEK-Info: DES-EDE3-CBC,0011\n\n", "Proc-Type: 4,ENCRYPTED\nDEK-Info: X\n\n",
                                    "Proc-Type: 4,ENCRYPTED\nDEK-Info: AES-256-CBC,zz\n\n", "Proc-Type: 4,ENCRYPTED\n\n"]))
        import base64
        body = base64.b64encode(draw(st.binary(max_size=60))).decode()
        if draw(st.integers(0, 4)) == 0:
            body = body[:-1]
        data = ("-----BEGIN %s-----\n%s%s\n-----END %s-----" % (marker, hdr, body, marker)).encode()
    elif shape == "derish":
        n = draw(st.integers(0, 5))
        items = []
        for _ in range(n):
            items.append(draw(st.sampled_from([der.enc_int(0), der.enc_int(1), der.enc_int(65537), der.enc_int(2 ** 64), der.enc_null(), der.enc_octets(b"\x04\x01\x02"),
                                               der.enc_oid("1.2.840.113549.1.1.1"), der.enc_oid("1.2.840.10045.2.1"), der.enc_oid("1.2.840.10040.4.1"),
                                               der.enc_oid("1.2.840.113549.1.5.13"), der.enc_oid("1.2.840.113549.1.5.12"), der.enc_oid("2.16.840.1.101.3.4.1.2"),
                                               der.enc_oid("1.2.840.113549.1.5.3"), der.enc_oid("1.2.3.4"),
                                               der.enc_seq([der.enc_oid("1.2.840.113549.1.1.1"), der.enc_null()]),
                                               der.enc_seq([der.enc_oid("1.2.840.113549.1.5.13"), der.enc_seq([der.enc_seq([der.enc_oid("1.2.840.113549.1.5.12"),
                                                            der.enc_seq([der.enc_octets(b"salt"), der.enc_int(1)])]), der.enc_seq([der.enc_oid("1.2.3.4"), der.enc_octets(bytes(16))])])]),
                                               der.enc_bitstring(b"\x30\x00"), der.enc_octets(b""), draw(st.binary(max_size=8))])))
        data = der.enc_seq(items)
        if draw(st.integers(0, 3)) == 0:
            data = byte_mutate(data, [[draw(st.sampled_from(["flip", "set", "del", "trunc"])), draw(st.integers(0, 1000)), draw(st.integers(0, 255))]], 1)
    elif shape == "p8ish":
        # PKCS#8-like skeletons: EncryptedPrivateKeyInfo = SEQ{ AlgorithmIdentifier, OCTET STRING } and PrivateKeyInfo = SEQ{ INT, AlgorithmIdentifier,
        # OCTET STRING [, ...] } whose AlgorithmIdentifier has 0..3 members drawn from the OIDs and parameter shapes the PBES1/PBES2 parsers look for
        oids = ["1.2.840.113549.1.5.3", "1.2.840.113549.1.5.6", "1.2.840.113549.1.5.10", "1.2.840.113549.1.5.11", "1.2.840.113549.1.5.13",
                "1.2.840.113549.1.5.12", "1.3.6.1.4.1.11591.4.11", "2.16.840.1.101.3.4.1.2", "2.16.840.1.101.3.4.1.42", "1.2.840.113549.3.7",
                "1.2.840.113549.2.9", "1.2.840.113549.1.1.1", "1.2.840.10040.4.1", "1.2.840.10045.2.1", "1.3.101.112", "1.2.3.4"]
        salt_iter = der.enc_seq([der.enc_octets(b"saltsalt"), der.enc_int(1)])
        members = [der.enc_oid(o) for o in oids] + [der.enc_null(), der.enc_int(1), der.enc_octets(b"saltsalt"), salt_iter, der.enc_seq([]),
                                                    der.enc_seq([der.enc_oid("1.2.840.113549.1.5.12"), salt_iter]),
                                                    der.enc_seq([der.enc_oid("1.2.840.113549.1.5.12"), der.enc_seq([der.enc_octets(b"saltsalt"), der.enc_int(1), der.enc_int(16)])]),
                                                    der.enc_seq([der.enc_oid("2.16.840.1.101.3.4.1.2"), der.enc_octets(bytes(16))]),
                                                    der.enc_seq([der.enc_oid("1.3.6.1.4.1.11591.4.11"), der.enc_seq([der.enc_octets(b"saltsalt"), der.enc_int(16), der.enc_int(1), der.enc_int(1)])]),
                                                    der.enc_seq([der.enc_seq([der.enc_oid("1.2.840.113549.1.5.12"), salt_iter]),
                                                                 der.enc_seq([der.enc_oid("2.16.840.1.101.3.4.1.2"), der.enc_octets(bytes(16))])])]

        def algid():
            return der.enc_seq([draw(st.sampled_from(members)) for _ in range(draw(st.integers(0, 3)))])
        if draw(st.booleans()):
            items = [algid(), der.enc_octets(draw(st.sampled_from([b"", bytes(8), bytes(16), bytes(24), bytes(7)])))]
        else:
            items = [der.enc_int(draw(st.sampled_from([0, 0, 1, 2]))), algid(),
                     der.enc_octets(draw(st.sampled_from([b"", der.enc_int(5), der.enc_octets(bytes(32)), der.enc_seq([der.enc_int(1), der.enc_octets(bytes(32))])])))]
        k = draw(st.integers(0, 7))
        if k == 0 and items:
            del items[draw(st.integers(0, len(items) - 1))]
        elif k == 1:
            items.append(draw(st.sampled_from(members)))
        elif k == 2:
            i_ = draw(st.integers(0, len(items) - 1))
            items[i_] = draw(st.sampled_from(members))
        data = der.enc_seq(items)
    else:
        import base64
        kt = draw(st.sampled_from(["ssh-rsa", "ssh-dss", "ecdsa-sha2-nistp256", "ssh-ed25519", "ecdsa-sha2-nistp521", "x"]))
        blob = draw(st.binary(max_size=40))
        if draw(st.booleans()):
            blob = len(kt).to_bytes(4, "big") + kt.encode() + blob
        data = (kt + " " + base64.b64encode(blob).decode() + draw(st.sampled_from(["", " comment", "="]))).encode()
    return {"target": target, "data": data, "pw": draw(st.sampled_from([None, None, b"pw"])), "as_str": draw(st.booleans()),
            "bs": draw(st.integers(1, 32)), "style": draw(st.sampled_from(["pkcs7", "x923", "iso7816"]))}


class KdfSpy:
    """Counts calls of password-based KDF entry points for the duration of a decode."""
    NAMES = [("Crypto.Protocol.KDF", "PBKDF1"), ("Crypto.Protocol.KDF", "PBKDF2"), ("Crypto.Protocol.KDF", "scrypt"), ("Crypto.Protocol.KDF", "bcrypt"),
             ("Crypto.IO.PEM", "_EVP_BytesToKey"), ("Crypto.IO.PEM", "PBKDF1"), ("Crypto.IO._PBES", "PBKDF1"), ("Crypto.IO._PBES", "PBKDF2"),
             ("Crypto.IO._PBES", "scrypt"), ("Crypto.PublicKey._openssh", "_bcrypt_hash"), ("Crypto.PublicKey._openssh", "bcrypt")]

    def __init__(self, cap=False):
        # cap=True (fuzz campaigns with a passphrase): refuse, with the layer's own documented ValueError, cost parameters that
        # would make one execution take minutes; the parsers in front of the KDF are what the campaign is after
        self.cap = cap

    def _capped(self, name, a, k):
        if name in ("PBKDF1", "PBKDF2"):
            cnt = a[3] if len(a) > 3 else k.get("count", 1000)
            return not isinstance(cnt, int) or cnt > 2000
        if name == "scrypt":
            N, r, p_ = (list(a[3:6]) + [None] * 3)[:3]
            return not all(isinstance(x, int) for x in (N, r, p_)) or N > 1024 or r > 8 or p_ > 2
        if name in ("_bcrypt_hash", "bcrypt"):
            return len(self.calls) > 40
        return False

    def __enter__(self):
        import importlib
        self.calls = []
        self.saved = []
        for mod, name in self.NAMES:
            try:
                m = importlib.import_module(mod)
            except ImportError:
                continue
            if not hasattr(m, name):
                continue
            orig = getattr(m, name)
            self.saved.append((m, name, orig))

            def mk(orig, name):
                def w(*a, **k):
                    self.calls.append(name)
                    if self.cap and self._capped(name, a, k):
                        raise ValueError("harness cap on KDF cost in fuzz mode")
                    return orig(*a, **k)
                return w
            setattr(m, name, mk(orig, name))
        return self

    def __exit__(self, *a):
        for m, name, orig in self.saved:
            setattr(m, name, orig)


def count_events(thunk):
    """Number of Python-level call events during thunk (deterministic work measure)."""
    n = [0]

    def prof(frame, event, arg):
        if event == "call" or event == "c_call":
            n[0] += 1
    old = sys.getprofile()
    sys.setprofile(prof)
    try:
        try:
            r = ("ok", thunk())
        except BaseException as e:
            r = ("exc", e)
    finally:
        sys.setprofile(old)
    return n[0], r


def run_arbitrary(case, rec):
    from Crypto.PublicKey import RSA, DSA, ECC
    from Crypto.IO import PEM, PKCS8, _PBES
    from Crypto.Util import Padding, RFC1751
    t, data, pw = case["target"], case["data"], case["pw"]
    arg = data
    if case["as_str"]:
        try:
            arg = data.decode("ascii")
        except UnicodeDecodeError:
            arg = data
    allowed = DOC_EXC
    if t == "RSA":
        f = lambda: RSA.import_key(arg, pw)
        allowed = (ValueError, IndexError, TypeError)
    elif t == "DSA":
        f = lambda: DSA.import_key(arg, pw)
    elif t in ("ECC", "openssh"):
        f = lambda: ECC.import_key(arg, pw)
    elif t == "PEM":
        if not isinstance(arg, str):
            try:
                arg = data.decode("latin-1")
            except Exception:
                raise Skip()
        f = lambda: PEM.decode(arg, pw)
    elif t == "PKCS8":
        f = lambda: PKCS8.unwrap(data, pw)
    elif t == "PBES1":
        f = lambda: _PBES.PBES1.decrypt(data, pw or b"pw")
    elif t == "PBES2":
        f = lambda: _PBES.PBES2.decrypt(data, pw or b"pw")
    elif t == "unpad":
        f = lambda: Padding.unpad(data, case["bs"], case["style"])
    else:
        try:
            s = data.decode("ascii")
        except UnicodeDecodeError:
            raise Skip()
        f = lambda: RFC1751.english_to_key(s)
    fuzzing = bool(os.environ.get("PCDVERIF_FUZZCHILD"))
    with KdfSpy(cap=bool(case.get("cap"))) as spy:
        if fuzzing:
            # call events would be inflated by the coverage instrumentation: the work budget is judged by the un-instrumented checks
            nev = 0
            try:
                kind, r = "ok", f()
            except RecursionError:
                raise
            except Exception as e:
                kind, r = "exc", e
        else:
            nev, (kind, r) = count_events(f)
    if kind == "exc" and not isinstance(r, allowed):
        from ..core import where
        raise Violation("arbitrary/%s/undocumented-exception/%s@%s" % (t, type(r).__name__, where(r)),
                        "%s raised %s: %s on %r" % (t, type(r).__name__, str(r)[:100], data[:60]), data=data, pw=pw, as_str=isinstance(arg, str))
    if pw is None and t in ("RSA", "DSA", "ECC", "PEM", "PKCS8", "openssh") and spy.calls:
        raise Violation("arbitrary/%s/kdf-without-passphrase" % t, "password-based KDF %r ran although no passphrase was given" % spy.calls[:3], data=data)
    budget = 4000 + 400 * len(data)
    if pw is None and nev > budget:
        raise Violation("arbitrary/%s/work-not-bounded" % t, "%d call events for %d input bytes (budget %d)" % (nev, len(data), budget), data=data)
    accepted = kind == "ok"
    rec.nt(t, accepted, pw is not None, type(r).__name__ if kind == "exc" else "ok", len(data) // 16)
    rec.event("arbitrary:%s:%s" % (t, "accepted" if accepted else type(r).__name__))
    rec.note("max_events_" + t, nev)
    rec.sample({"target": t, "data": data[:40], "outcome": "accepted" if accepted else type(r).__name__})


# ------------------------------------------------------------------ I. encrypted containers without / with wrong passphrase: no KDF work
@st.composite
def strat_nokdf(draw, tier):
    return {"kind": draw(st.sampled_from(["rsa", "dsa", "ecc-p256", "ecc-ed25519"])), "fidx": draw(st.integers(0, 6)), "seed": draw(st.binary(min_size=8, max_size=8))}


def run_nokdf(case, rec):
    out, fmt, kw = export(case["kind"], case["fidx"], case["seed"])
    if out is None or not kw.get("passphrase"):
        raise Skip()
    imp, allowed, family = importer(case["kind"])
    with KdfSpy() as spy:
        nev, (kind, r) = count_events(lambda: imp(out))
    if kind == "ok":
        raise Violation("nokdf/%s/encrypted-key-imported-without-passphrase" % family, "an encrypted %s key was imported without passphrase" % fmt)
    if not isinstance(r, allowed):
        raise Violation("nokdf/%s/undocumented-exception/%s" % (family, type(r).__name__), "%s: %s" % (type(r).__name__, r))
    if spy.calls:
        raise Violation("nokdf/%s/kdf-without-passphrase" % family, "KDF %r ran during a passphrase-less import" % spy.calls[:3], format=fmt)
    raw = out if isinstance(out, bytes) else out.encode()
    if nev > 4000 + 400 * len(raw):
        raise Violation("nokdf/%s/work-not-bounded" % family, "%d call events for %d bytes" % (nev, len(raw)))
    # right passphrase still works, wrong one is refused with ValueError
    k, r2 = libcall(imp, out, kw["passphrase"], allowed=allowed, bucket="nokdf/import")
    if k != "ok":
        raise Violation("nokdf/%s/right-passphrase-rejected" % family, "import with the right passphrase failed: %s" % r2, format=fmt)
    k, r3 = libcall(imp, out, b"wrong", allowed=(ValueError,), bucket="nokdf/wrong-passphrase")
    if k == "ok" and r3 == r2:
        raise Violation("nokdf/%s/wrong-passphrase-accepted" % family, "import with a wrong passphrase returned the key", format=fmt)
    rec.nt(family, fmt, kw.get("protection"), kw.get("pkcs"))
    rec.event("nokdf:%s:%s" % (family, fmt))
    rec.sample({"kind": case["kind"], "format": fmt, "protection": kw.get("protection"), "events": nev})


# ------------------------------------------------------------------ J. coverage-guided campaign (atheris / libFuzzer)
FUZZ_IMPORTS = ["Crypto.Util.asn1", "Crypto.Util.Padding", "Crypto.Util.RFC1751", "Crypto.Util.number", "Crypto.IO.PEM", "Crypto.IO.PKCS8", "Crypto.IO._PBES",
                "Crypto.PublicKey", "Crypto.PublicKey._openssh", "Crypto.PublicKey.RSA", "Crypto.PublicKey.DSA", "Crypto.PublicKey.ECC"]
DER_CLASSES = ["DerObject", "DerInteger", "DerOctetString", "DerBitString", "DerNull", "DerObjectId", "DerBoolean", "DerSequence", "DerSetOf"]
FUZZ_ARB = ["RSA", "DSA", "ECC", "PEM", "PKCS8", "unpad", "english", "openssh"]
FUZZ_STYLES = ["pkcs7", "x923", "iso7816"]


def fuzz_sel(kind, name):
    """Selector byte for a target (used by the corpus builder; inverse of fuzz_decode)."""
    if kind == "der":
        return 2 * DER_CLASSES.index(name)
    return 2 * FUZZ_ARB.index(name) + 1


def fuzz_decode(data):
    """byte 0: target, byte 1: flags (strict / as_str / passphrase / padding style / block size), rest: the decoder's input."""
    if len(data) < 2:
        return None
    sel, flags, body = data[0], data[1], data[2:]
    if sel % 2 == 0:
        return {"kind": "der", "data": body, "cls": DER_CLASSES[(sel // 2) % len(DER_CLASSES)], "strict": bool(flags & 1), "how": "fuzz"}
    return {"kind": "arb", "target": FUZZ_ARB[(sel // 2) % len(FUZZ_ARB)], "data": body, "pw": b"pw" if flags & 2 else None, "as_str": bool(flags & 1),
            "style": FUZZ_STYLES[(flags >> 2) % 3], "bs": 1 + (flags >> 4) * 2 + (flags & 1), "cap": True}


def fuzz_corpus():
    """A few small valid inputs per target: every key kind x export format, PEM/PKCS#8 containers, DER values, padded blocks."""
    out = []
    from Crypto.Util import Padding, RFC1751
    for kind in KEYKINDS:
        fam = get_key(kind)[1]
        for fidx in range(len(FORMATS[fam])):
            blob, fmt, kw = export(kind, fidx)
            if blob is None:
                continue
            raw = blob if isinstance(blob, bytes) else blob.encode()
            t = "RSA" if kind.startswith("rsa") else "DSA" if kind.startswith("dsa") else "ECC"
            flags = (2 if kw.get("passphrase") else 0) | (1 if not isinstance(blob, bytes) else 0)
            out.append(bytes([fuzz_sel("arb", t), flags]) + raw)
            if fmt == "PEM":
                out.append(bytes([fuzz_sel("arb", "PEM"), flags | 1]) + raw)
            if fmt == "DER" and kw.get("pkcs") == 8:
                out.append(bytes([fuzz_sel("arb", "PKCS8"), flags & 2]) + raw)
            if fmt == "OpenSSH":
                out.append(bytes([fuzz_sel("arb", "openssh"), flags]) + raw)
    vals = [("DerInteger", der.enc_int(0)), ("DerInteger", der.enc_int(-129)), ("DerInteger", der.enc_int(2 ** 64)), ("DerOctetString", der.enc_octets(b"abc")),
            ("DerNull", der.enc_null()), ("DerObjectId", der.enc_oid("1.2.840.113549.1.1.1")), ("DerBoolean", der.enc_bool(True)),
            ("DerBitString", der.enc_bitstring(b"\x01\x02", 0)), ("DerSequence", der.enc_seq([der.enc_int(1), der.enc_octets(b"")])),
            ("DerSetOf", der.enc_setof([der.enc_int(1), der.enc_int(2)])), ("DerOctetString", der.enc_octets(bytes(130)))]
    for cls, e in vals:
        for strict in (0, 1):
            out.append(bytes([fuzz_sel("der", cls), strict]) + e)
            out.append(bytes([fuzz_sel("der", "DerObject"), strict]) + e)
    # skeletons the library cannot export itself: PBES1 EncryptedPrivateKeyInfo, clear PrivateKeyInfo with odd members
    salt_iter = der.enc_seq([der.enc_octets(b"saltsalt"), der.enc_int(1)])
    for oid in ("1.2.840.113549.1.5.3", "1.2.840.113549.1.5.10"):
        out.append(bytes([fuzz_sel("arb", "PKCS8"), 2]) + der.enc_seq([der.enc_seq([der.enc_oid(oid), salt_iter]), der.enc_octets(bytes(16))]))
    out.append(bytes([fuzz_sel("arb", "PKCS8"), 0]) + der.enc_seq([der.enc_int(0), der.enc_seq([der.enc_oid("1.2.3.4"), der.enc_null()]), der.enc_octets(b"key")]))
    for si, style in enumerate(FUZZ_STYLES):
        out.append(bytes([fuzz_sel("arb", "unpad"), (si << 2) | (3 << 4) | 1]) + bytes(Padding.pad(b"abc", 8, style)))
    out.append(bytes([fuzz_sel("arb", "english"), 1]) + RFC1751.key_to_english(bytes(range(8))).encode())
    return out


def run_fuzz(case, rec):
    if case["kind"] == "der":
        run_der_total(case, rec)
    else:
        run_arbitrary(case, rec)



def fuzz_mutator(check_name, atheris_mutate):
    """Structure-aware (DER tree) mutation in addition to libFuzzer's byte-level one; the first two bytes are the target selector and flags."""
    from ..dermut import make_mutator
    return make_mutator(2, atheris_mutate)


CHECKS = [
    Check("der_roundtrip", run=run_der_rt, strategy=strat_der_rt, examples=(12000, 300000), shards=(8, 16),
          rule="Der* encode == independent canonical writer; strict reader accepts; decode(encode(v)) == v"),
    Check("der_strict", run=run_der_strict, strategy=strat_der_strict, examples=(16000, 400000), shards=(8, 16),
          rule="structured mutations (trailing, indefinite, non-minimal/long-form length, truncated, length too long) must raise ValueError"),
    Check("der_total", run=run_der_total, strategy=strat_der_total, examples=(24000, 600000), shards=(8, 16),
          rule="arbitrary/mutated bytes to every Der* class: value or ValueError only; accepted inputs have valid TLV framing"),
    Check("padding", run=run_pad, strategy=strat_pad, examples=(16000, 300000), shards=(8, 16),
          rule="pad/unpad round trip for 3 styles x block sizes 1..255; unpad accepts iff the style defines the padding"),
    Check("misc", run=run_misc, strategy=strat_misc, examples=(3000, 60000), shards=(2, 8),
          rule="RFC 1751 and long_to_bytes/bytes_to_long round trips"),
    Check("container", run=run_container, strategy=strat_container, examples=(1500, 30000), shards=(8, 16),
          rule="PEM / PKCS#8 wrap-unwrap round trip (all protections), canonical DER, wrong/missing passphrase refused"),
    Check("keyfile", run=run_keyfile, strategy=strat_keyfile, examples=(12000, 250000), shards=(16, 16),
          rule="mutated valid key files (DER structure mutations, PEM armour damage, byte edits, cross-family) to import_key: documented exceptions only, depth-0 malformations rejected"),
    Check("arbitrary", run=run_arbitrary, strategy=strat_arbitrary, examples=(30000, 600000), shards=(16, 16),
          rule="binary/text/PEM-ish/DER-ish/OpenSSH-ish input to every decoder: documented exceptions only, no KDF without passphrase, call-event budget"),
    Check("fuzz", run=run_fuzz, decode=fuzz_decode, corpus=fuzz_corpus, examples=(320000, 8000000), shards=(8, 16), max_len=1400,
          rule="coverage-guided bytes (atheris, library instrumented) to every Der* class and every decoder, from an empty and from a seeded corpus: "
               "same oracles as der_total / arbitrary (KDF cost capped when a passphrase is supplied)"),
    Check("nokdf", run=run_nokdf, strategy=strat_nokdf, examples=(200, 2000), shards=(4, 8),
          rule="encrypted key files imported without passphrase: ValueError, no KDF call, bounded work; wrong passphrase refused"),
]
